(** C16 — token level, part 3: the chunks of the operation list the printer produces for a document
    carry exactly the document's token sequence ([TK (print d) (tokens_of d)]); with parts 1, 2 and
    [ProofsGlue]: the printed text lexes to the token sequence of the document. *)
From V Require Import Base.Util Gql.Ast Writer.Wop C16.Model C16.Spec C16.SpecLex C16.LexGuard
  C16.ProofsString C16.ProofsGlue C16.ProofsLex1 C16.ProofsBlock C16.ProofsLex2.
Local Open Scope N_scope.

Section Reading.
Variable val : strtok -> str.
Variable sn : str -> str.
Variable blk : str -> bool.
Hypothesis val_line : forall v, is_multiline v = false -> val (TNormal v) = sn v.
Hypothesis val_blk : forall v, blk v = true ->
  is_multiline v = true /\ plain_block v = true /\ forall ind, val (TBlock (rawb ind v)) = sn v.
Local Notation CK := (ProofsLex2.CK val sn blk).
Local Notation TK := (ProofsLex2.TK val sn blk).
Local Notation CK_simple := (ProofsLex2.CK_simple val sn blk).
Local Notation CK_lit := (ProofsLex2.CK_lit val sn blk).
Local Notation CK_blk := (ProofsLex2.CK_blk val sn blk).
Local Notation TK_nil := (ProofsLex2.TK_nil val sn blk).
Local Notation TK_I := (ProofsLex2.TK_I val sn blk).
Local Notation TK_D := (ProofsLex2.TK_D val sn blk).
Local Notation TK_app := (ProofsLex2.TK_app val sn blk).

(** ** chunks *)
Lemma simple_word x : forallb wordc x = true -> simple x = true.
Proof.
  unfold simple. induction x as [|c r IH]; [reflexivity|]. cbn [forallb]. intro H.
  apply andb_true_iff in H as [Hc Hr]. unfold simplec at 1. rewrite Hc, orb_true_r. exact (IH Hr).
Qed.

Lemma CK_atom x : word_atom x = true -> CK x [TW x].
Proof.
  unfold word_atom. destruct x as [|c r]; [discriminate|]. intro H.
  apply (CK_simple (c :: r) [TW (c :: r)] [TW (c :: r)]); [apply simple_word; exact H| |reflexivity].
  pose proof (span_word_app (c :: r) [] H eq_refl) as Hs. rewrite app_nil_r in Hs.
  pose proof (L_word c r []) as LW. rewrite Hs in LW. cbn [fst snd] in LW.
  cbn [forallb] in H. apply andb_true_iff in H as [Hc _]. apply LW; [exact Hc|apply L_nil].
Qed.

Lemma CK_string x : str_lit blk x = true -> CK (print_string x) [TS (sn x)].
Proof.
  unfold str_lit. intro H. apply orb_true_iff in H as [H|H].
  - unfold line_lit in H. apply andb_true_iff in H as [Hm Hp]. apply negb_true_iff in Hm. apply CK_lit; assumption.
  - apply CK_blk. exact H.
Qed.

(** a constant chunk: checked by computation *)
Ltac ck := eapply CK_simple; [reflexivity|apply lex_L; reflexivity|reflexivity].

Lemma TK_W0 c r ts : CK c [] -> TK r ts -> TK (W c :: r) ts.
Proof. intros Hc Hr. exact (ProofsLex2.TK_W val sn blk c r [] ts Hc Hr). Qed.
Lemma TK_W1 c t r ts : CK c [t] -> TK r ts -> TK (W c :: r) (t :: ts).
Proof. intros Hc Hr. exact (ProofsLex2.TK_W val sn blk c r [t] ts Hc Hr). Qed.
Lemma TK_W2 c t1 t2 r ts : CK c [t1; t2] -> TK r ts -> TK (W c :: r) (t1 :: t2 :: ts).
Proof. intros Hc Hr. exact (ProofsLex2.TK_W val sn blk c r [t1; t2] ts Hc Hr). Qed.
Lemma TK_WF1 c p n t r ts : CK c [t] -> TK r ts -> TK (WF c p n :: r) (t :: ts).
Proof. intros Hc Hr. exact (ProofsLex2.TK_WF val sn blk c p n r [t] ts Hc Hr). Qed.
Lemma TK_snoc0 a ta c : TK a ta -> CK c [] -> TK (a ++ [W c]) ta.
Proof.
  intros Ha Hc. rewrite <- (app_nil_r ta). apply TK_app; [exact Ha|]. apply TK_W0; [exact Hc|apply TK_nil].
Qed.
Lemma TK_snoc1 a ta c t : TK a ta -> CK c [t] -> TK (a ++ [W c]) (ta ++ [t]).
Proof. intros Ha Hc. apply TK_app; [exact Ha|]. apply TK_W1; [exact Hc|apply TK_nil]. Qed.

Lemma TK_snoc_D a ta : TK a ta -> TK (a ++ [Dedent]) ta.
Proof.
  intro Ha. rewrite <- (app_nil_r ta). apply TK_app; [exact Ha|]. apply TK_D. apply TK_nil.
Qed.
Lemma TK_snoc_DW0 a ta c : TK a ta -> CK c [] -> TK (a ++ [Dedent; W c]) ta.
Proof.
  intros Ha Hc. rewrite <- (app_nil_r ta). apply TK_app; [exact Ha|]. apply TK_D. apply TK_W0; [exact Hc|apply TK_nil].
Qed.

Lemma TK_flat_map {A} (f : A -> list wop) (g : A -> list tok) (ok : A -> bool) (l : list A) :
  (forall a, ok a = true -> TK (f a) (g a)) -> forallb ok l = true -> TK (flat_map f l) (flat_map g l).
Proof.
  intro Hf. induction l as [|a r IH]; intro H; [apply TK_nil|].
  cbn [forallb] in H. apply andb_true_iff in H as [Ha Hr].
  cbn [flat_map]. apply TK_app; [apply Hf; exact Ha|apply IH; exact Hr].
Qed.

(** separators carry no token *)
Lemma TK_sep_by {A} sepc (f : A -> list wop) (g : A -> list tok) (ok : A -> bool) (l : list A) :
  CK sepc [] -> (forall a, ok a = true -> TK (f a) (g a)) -> forallb ok l = true ->
  TK (sep_by [W sepc] (map f l)) (flat_map g l).
Proof.
  intros Hs Hf. induction l as [|a r IH]; intro H; [apply TK_nil|].
  cbn [forallb] in H. apply andb_true_iff in H as [Ha Hr].
  cbn [map sep_by flat_map]. destruct r as [|a2 r'].
  - cbn [map flat_map]. rewrite app_nil_r. apply Hf; exact Ha.
  - change (map f (a2 :: r')) with (f a2 :: map f r'). cbv iota.
    apply TK_app; [apply Hf; exact Ha|]. cbn [app]. apply TK_W0; [exact Hs|]. apply IH. exact Hr.
Qed.

Lemma TK_opt {A} (f : A -> list wop) (g : A -> list tok) (ok : A -> bool) (x : option A) :
  (forall a, ok a = true -> TK (f a) (g a)) -> match x with Some a => ok a | None => true end = true ->
  TK (p_opt f x) (t_opt g x).
Proof. intros Hf H. destruct x as [a|]; cbn [p_opt t_opt]; [apply Hf; exact H|apply TK_nil]. Qed.

Ltac split_lx H :=
  repeat match type of H with
         | (_ && _) = true => let H2 := fresh "Hk" in apply andb_true_iff in H as [H H2]
         end.

(** ** the printers *)
Lemma TK_p_ident i : id_lx i = true -> TK (p_ident i) (t_id i).
Proof. intro H. unfold p_ident, t_id. apply TK_WF1; [apply CK_atom; exact H|apply TK_nil]. Qed.

Lemma TK_p_type t : ty_lx t = true -> TK (p_type t) (t_type t).
Proof.
  induction t as [n|t IH|p t IH]; cbn [ty_lx p_type t_type]; intro H.
  - apply TK_WF1; [apply CK_atom; exact H|apply TK_nil].
  - apply TK_snoc1; [apply IH; exact H|ck].
  - apply TK_W1; [ck|]. apply TK_snoc1; [apply IH; exact H|ck].
Qed.

Lemma TK_p_variable n p : word_atom n = true -> TK (p_variable n p) [TP 36; TW n].
Proof.
  intro H. unfold p_variable. apply TK_WF1; [ck|]. apply TK_W1; [apply CK_atom; exact H|apply TK_nil].
Qed.

Lemma TK_p_string x : str_lit blk x = true -> TK (p_string x) [TS (sn x)].
Proof. intro H. unfold p_string. apply TK_W1; [apply CK_string; exact H|apply TK_nil]. Qed.

Definition t_field (kv : ident * value) : list tok := t_id (fst kv) ++ TP 58 :: t_value sn (snd kv).

Lemma TK_field k pv tv : id_lx k = true -> TK pv tv -> TK (p_ident k ++ W (s ": ") :: pv) (t_id k ++ TP 58 :: tv).
Proof. intros Hk Hv. apply TK_app; [apply TK_p_ident; exact Hk|]. apply TK_W1; [ck|exact Hv]. Qed.

Lemma TK_p_value : forall v, (value_lx blk) v = true -> TK (p_value v) ((t_value sn) v).
Proof.
  induction v as [n p|p l|p l|p x|p b0|p|p x|p vs IH|p fs IH] using value_ind_nested;
    cbn [value_lx p_value t_value]; intro H.
  - apply (TK_p_variable n p H).
  - apply TK_W1; [apply CK_atom; exact H|apply TK_nil].
  - apply TK_W1; [apply CK_atom; exact H|apply TK_nil].
  - apply TK_p_string; exact H.
  - destruct b0; (apply TK_W1; [ck|apply TK_nil]).
  - apply TK_W1; [ck|apply TK_nil].
  - apply TK_WF1; [apply CK_atom; exact H|apply TK_nil].
  - apply TK_W1; [ck|]. apply TK_snoc1; [|ck].
    (* the elements, separated by commas *)
    induction IH as [|x r Hx Hr IHr]; [apply TK_nil|].
    cbn [forallb] in H. apply andb_true_iff in H as [H1 H2].
    cbn [map sep_by flat_map]. destruct r as [|x2 r'].
    + cbn [map flat_map]. rewrite app_nil_r. apply Hx; exact H1.
    + change (map p_value (x2 :: r')) with (p_value x2 :: map p_value r'). cbv iota.
      apply TK_app; [apply Hx; exact H1|]. cbn [app]. apply TK_W0; [ck|]. apply IHr. exact H2.
  - apply TK_W1; [ck|]. apply TK_snoc1; [|ck].
    assert (Hel : Forall (fun kv => id_lx (fst kv) = true /\ TK (p_value (snd kv)) ((t_value sn) (snd kv))) fs).
    { induction IH as [|x r Hx Hr IHr]; [constructor|].
      cbn [forallb] in H. apply andb_true_iff in H as [H1 H2]. apply andb_true_iff in H1 as [Hi Hv].
      constructor; [split; [exact Hi|apply Hx; exact Hv]|apply IHr; exact H2]. }
    destruct fs as [|kv1 [|kv2 fs']].
    + apply TK_nil.
    + inversion Hel as [|? ? [Hi Hv] _]. cbn [flat_map]. rewrite !app_nil_r. apply TK_field; assumption.
    + apply TK_W0; [ck|]. apply TK_I. apply TK_snoc_D.
      clear IH H. induction Hel as [|x r [Hi Hv] Hr IHr]; [apply TK_nil|].
      cbn [flat_map]. apply TK_app; [|exact IHr].
      apply TK_field; [exact Hi|]. apply TK_snoc0; [exact Hv|ck].
Qed.

Lemma TK_p_arg kv : (arg_lx blk) kv = true -> TK (p_arg kv) (t_field kv).
Proof.
  unfold arg_lx, p_arg, t_field. intro H. apply andb_true_iff in H as [Hi Hv].
  apply TK_field; [exact Hi|apply TK_p_value; exact Hv].
Qed.

Lemma TK_p_arguments a : (args_lx blk) a = true -> TK (p_arguments a) ((t_args sn) a).
Proof.
  unfold args_lx, p_arguments, t_args. intro H.
  change (fun kv : ident * value => t_id (fst kv) ++ TP 58 :: (t_value sn) (snd kv)) with t_field.
  apply TK_W1; [ck|]. apply TK_snoc1; [|ck].
  destruct (args_list a) as [|kv1 [|kv2 l]].
  - apply TK_nil.
  - apply (TK_flat_map p_arg t_field (arg_lx blk)); [exact TK_p_arg|exact H].
  - apply TK_W0; [ck|]. apply TK_I. apply TK_snoc_D.
    apply (TK_flat_map _ t_field (arg_lx blk)); [|exact H].
    intros kv Hkv. apply TK_snoc0; [apply TK_p_arg; exact Hkv|ck].
Qed.

Lemma TK_oargs a : (oargs_lx blk) a = true -> TK (p_opt p_arguments a) (t_opt (t_args sn) a).
Proof. destruct a; cbn [oargs_lx p_opt t_opt]; [apply TK_p_arguments|intros _; apply TK_nil]. Qed.

Lemma TK_p_directive d : (dir_lx blk) d = true -> TK (p_directive d) ((t_dir sn) d).
Proof.
  unfold dir_lx, p_directive, t_dir. intro H. apply andb_true_iff in H as [Hn Ha].
  apply TK_W1; [ck|]. apply TK_app; [apply TK_p_ident; exact Hn|apply TK_oargs; exact Ha].
Qed.

Lemma TK_sp_dirs ds : (dirs_lx blk) ds = true -> TK (sp_dirs ds) ((t_dirs sn) ds).
Proof.
  unfold dirs_lx, sp_dirs, t_dirs. apply TK_flat_map. intros d Hd. apply TK_W0; [ck|apply TK_p_directive; exact Hd].
Qed.
Lemma TK_glued_dirs ds : (dirs_lx blk) ds = true -> TK (glued_dirs ds) ((t_dirs sn) ds).
Proof. unfold dirs_lx, glued_dirs, t_dirs. apply TK_flat_map. exact TK_p_directive. Qed.

Lemma TK_sel_both : forall x, (sel_lx blk) x = true -> TK (p_selection x) ((t_sel sn) x).
Proof.
  apply (sel_ind_nested (fun x => (sel_lx blk) x = true -> TK (p_selection x) ((t_sel sn) x))
                        (fun ss => (selset_lx blk) ss = true -> TK (p_selset ss) ((t_selset sn) ss))).
  - intros al n args ds sel IH H. cbn [sel_lx p_selection t_sel] in *. split_lx H.
    apply TK_app.
    { destruct al as [a|]; cbn [p_opt t_opt oid_lx] in *; [|apply TK_nil].
      apply TK_snoc1; [apply TK_p_ident; assumption|ck]. }
    apply TK_app; [apply TK_p_ident; assumption|].
    apply TK_app; [apply TK_oargs; assumption|].
    apply TK_app; [apply TK_sp_dirs; assumption|].
    destruct sel as [ss|]; [|apply TK_nil]. apply TK_W0; [ck|]. apply (IH ss eq_refl). assumption.
  - intros p n ds H. cbn [sel_lx p_selection t_sel] in *. split_lx H.
    apply TK_W1; [ck|]. apply TK_app; [apply TK_p_ident; assumption|apply TK_sp_dirs; assumption].
  - intros p c ds ss IH H. cbn [sel_lx p_selection t_sel] in *. split_lx H.
    apply TK_W1; [ck|]. apply TK_app.
    { destruct c as [t|]; cbn [p_opt t_opt oid_lx] in *; [|apply TK_nil].
      apply TK_W1; [ck|]. apply TK_snoc0; [apply TK_p_ident; assumption|ck]. }
    apply TK_app; [apply TK_sp_dirs; assumption|apply IH; assumption].
  - intros p l IH H. cbn [selset_lx p_selset t_selset] in *.
    apply TK_W1; [ck|]. apply TK_I. apply TK_app; [|apply TK_D; apply TK_W1; [ck|apply TK_nil]].
    induction IH as [|x r Hx Hr IHr]; [apply TK_nil|].
    cbn [forallb] in H. apply andb_true_iff in H as [H1 H2].
    cbn [flat_map]. apply TK_app; [|apply IHr; exact H2]. apply TK_snoc0; [apply Hx; exact H1|ck].
Qed.

Lemma TK_p_selset ss : (selset_lx blk) ss = true -> TK (p_selset ss) ((t_selset sn) ss).
Proof.
  destruct ss as [p l]. cbn [selset_lx p_selset t_selset]. intro H.
  apply TK_W1; [ck|]. apply TK_I. apply TK_app; [|apply TK_D; apply TK_W1; [ck|apply TK_nil]].
  apply (TK_flat_map _ (t_sel sn) (sel_lx blk)); [|exact H].
  intros x Hx. apply TK_snoc0; [apply TK_sel_both; exact Hx|ck].
Qed.

Lemma TK_default v : (ovalue_lx blk) v = true -> TK (p_opt (fun d => W (s " = ") :: p_value d) v) ((t_default sn) v).
Proof.
  destruct v as [x|]; cbn [ovalue_lx p_opt t_default t_opt]; [|intros _; apply TK_nil].
  intro H. apply TK_W1; [ck|apply TK_p_value; exact H].
Qed.

Lemma TK_typed t v ds : ty_lx t = true -> (ovalue_lx blk) v = true -> (dirs_lx blk) ds = true ->
  TK (W (s ": ") :: p_type t ++ p_opt (fun d => W (s " = ") :: p_value d) v ++ sp_dirs ds)
     (TP 58 :: t_type t ++ (t_default sn) v ++ (t_dirs sn) ds).
Proof.
  intros Ht Hv Hd. apply TK_W1; [ck|]. apply TK_app; [apply TK_p_type; exact Ht|].
  apply TK_app; [apply TK_default; exact Hv|apply TK_sp_dirs; exact Hd].
Qed.

Lemma TK_p_vardef v : (vardef_lx blk) v = true -> TK (p_vardef v) ((t_vardef sn) v).
Proof.
  unfold vardef_lx, p_vardef, t_vardef. intro H. split_lx H.
  apply (TK_app _ [TP 36; TW (vd_name v)]); [apply TK_p_variable; assumption|apply TK_typed; assumption].
Qed.

Lemma TK_p_vardefs v : forallb (vardef_lx blk) (vds_list v) = true -> TK (p_vardefs v) ((t_vardefs sn) v).
Proof.
  unfold p_vardefs, t_vardefs. intro H. apply TK_W1; [ck|]. apply TK_snoc1; [|ck].
  destruct (vds_list v) as [|v1 [|v2 l]].
  - apply TK_nil.
  - apply (TK_flat_map p_vardef (t_vardef sn) (vardef_lx blk)); [exact TK_p_vardef|exact H].
  - apply TK_W0; [ck|]. apply TK_I. apply TK_snoc_DW0; [|ck].
    apply (TK_sep_by _ p_vardef (t_vardef sn) (vardef_lx blk)); [ck|exact TK_p_vardef|exact H].
Qed.

Lemma TK_p_opdef o : (opdef_lx blk) o = true -> TK (p_opdef o) ((t_opdef sn) o).
Proof.
  unfold opdef_lx, p_opdef, t_opdef. intro H. split_lx H.
  apply TK_W1; [destruct (op_type o); ck|].
  apply TK_app.
  { destruct (op_name o) as [n|]; cbn [p_opt t_opt oid_lx] in *; [|apply TK_nil].
    apply TK_W0; [ck|apply TK_p_ident; assumption]. }
  apply TK_app.
  { destruct (op_vars o) as [vs|]; cbn [p_opt t_opt]; [apply TK_p_vardefs; assumption|apply TK_nil]. }
  apply TK_app; [apply TK_sp_dirs; assumption|].
  apply TK_W0; [ck|]. apply TK_snoc0; [apply TK_p_selset; assumption|ck].
Qed.

Lemma TK_p_fragdef f : (fragdef_lx blk) f = true -> TK (p_fragdef f) ((t_fragdef sn) f).
Proof.
  unfold fragdef_lx, p_fragdef, t_fragdef. intro H. split_lx H.
  apply TK_W1; [ck|]. apply TK_app; [apply TK_p_ident; assumption|].
  apply TK_W1; [ck|]. apply TK_app; [apply TK_p_ident; assumption|].
  apply TK_app; [apply TK_sp_dirs; assumption|].
  apply TK_W0; [ck|]. apply TK_snoc0; [apply TK_p_selset; assumption|ck].
Qed.

Theorem TK_print_opdoc d : (opdoc_lx blk) d = true -> TK (print_opdoc d) ((tokens_opdoc sn) d).
Proof.
  unfold opdoc_lx, print_opdoc, tokens_of_opdoc. apply TK_flat_map.
  intros [o|f|i]; cbn [execdef_lx p_execdef t_execdef]; [apply TK_p_opdef|apply TK_p_fragdef|discriminate].
Qed.

(** type system *)
Lemma TK_p_desc d : (desc_lx blk) d = true -> TK (p_desc d) ((t_desc sn) d).
Proof.
  destruct d as [x|]; cbn [desc_lx p_desc t_desc]; [|intros _; apply TK_nil].
  intro H. apply TK_snoc0; [apply TK_p_string; exact H|ck].
Qed.

Lemma TK_p_inputval i : (inputval_lx blk) i = true -> TK (p_inputval i) ((t_inputval sn) i).
Proof.
  unfold inputval_lx, p_inputval, t_inputval. intro H. split_lx H.
  apply TK_app; [apply TK_p_desc; assumption|]. apply TK_app; [apply TK_p_ident; assumption|].
  apply TK_typed; assumption.
Qed.

Lemma TK_oargsdef a : (oargsdef_lx blk) a = true -> TK (p_opt p_argsdef a) (t_opt (t_argsdef sn) a).
Proof.
  destruct a as [l|]; cbn [oargsdef_lx p_opt t_opt]; [|intros _; apply TK_nil]. intro H.
  unfold p_argsdef, t_argsdef. apply TK_W1; [ck|]. apply TK_snoc1; [|ck].
  apply (TK_sep_by _ p_inputval (t_inputval sn) (inputval_lx blk)); [ck|exact TK_p_inputval|exact H].
Qed.

Lemma TK_p_fielddef f : (fielddef_lx blk) f = true -> TK (p_fielddef f) ((t_fielddef sn) f).
Proof.
  unfold fielddef_lx, p_fielddef, t_fielddef. intro H. split_lx H.
  apply TK_app; [apply TK_p_desc; assumption|]. apply TK_app; [apply TK_p_ident; assumption|].
  apply TK_app; [apply TK_oargsdef; assumption|].
  apply TK_W1; [ck|]. apply TK_app; [apply TK_p_type; assumption|apply TK_sp_dirs; assumption].
Qed.

Lemma TK_p_enumval e : (enumval_lx blk) e = true -> TK (p_enumval e) ((t_enumval sn) e).
Proof.
  unfold enumval_lx, p_enumval, t_enumval. intro H. split_lx H.
  apply TK_app; [apply TK_p_desc; assumption|]. apply TK_app; [apply TK_p_ident; assumption|apply TK_sp_dirs; assumption].
Qed.

Lemma TK_p_implements l : ids_lx l = true -> TK (p_implements l) (t_implements l).
Proof.
  unfold ids_lx, p_implements, t_implements. intro H. destruct l as [|i r]; [apply TK_nil|].
  apply TK_W1; [ck|]. apply (TK_flat_map _ _ id_lx); [|exact H].
  intros x Hx. apply TK_W1; [ck|apply TK_p_ident; exact Hx].
Qed.

Lemma TK_p_body {A} (f : A -> list wop) (g : A -> list tok) (ok : A -> bool) l :
  (forall a, ok a = true -> TK (f a) (g a)) -> forallb ok l = true -> TK (p_body f l) (t_body g l).
Proof.
  intros Hf H. unfold p_body, t_body. destruct l as [|a r]; [apply TK_nil|].
  apply TK_W1; [ck|]. apply TK_I. apply TK_app; [|apply TK_D; apply TK_W1; [ck|apply TK_nil]].
  apply (TK_flat_map _ g ok); [|exact H]. intros x Hx. apply TK_snoc0; [apply Hf; exact Hx|ck].
Qed.

Lemma TK_members_ne l : ids_lx l = true -> l <> [] -> TK (p_members l) (t_members l).
Proof.
  unfold ids_lx, p_members, t_members. intros H Hne. destruct l as [|i r]; [contradiction|].
  apply TK_W1; [ck|]. apply (TK_flat_map _ _ id_lx); [|exact H].
  intros x Hx. apply TK_W1; [ck|apply TK_p_ident; exact Hx].
Qed.
Lemma TK_p_members_def l : ids_lx l = true -> TK (p_members_def l) (t_members l).
Proof.
  intro H. destruct l as [|i r]; [apply TK_nil|]. apply (TK_members_ne (i :: r) H). discriminate.
Qed.

Lemma TK_rootops_ne l : rootops_lx l = true -> l <> [] -> TK (p_rootops l) (t_rootops l).
Proof.
  unfold rootops_lx, p_rootops, t_rootops. intros H Hne. destruct l as [|kv r]; [contradiction|].
  apply TK_W1; [ck|]. apply TK_I. apply TK_app; [|apply TK_D; apply TK_W1; [ck|apply TK_nil]].
  apply (TK_flat_map _ _ (fun kv => id_lx (snd kv))); [|exact H].
  intros x Hx. apply TK_W1; [destruct (fst x); ck|]. apply TK_W1; [ck|].
  apply TK_snoc0; [apply TK_p_ident; exact Hx|ck].
Qed.

Lemma TK_p_typedef t : (typedef_lx blk) t = true -> TK (p_typedef t) ((t_typedef sn) t).
Proof.
  destruct t; cbn [typedef_lx p_typedef t_typedef]; intro H; split_lx H;
    (apply TK_app; [apply TK_p_desc; assumption|]).
  - apply TK_W1; [ck|]. apply TK_app; [apply TK_p_ident; assumption|].
    apply TK_snoc0; [apply TK_sp_dirs; assumption|ck].
  - apply TK_WF1; [ck|]. apply TK_app; [apply TK_p_ident; assumption|].
    apply TK_app; [apply TK_p_implements; assumption|]. apply TK_app; [apply TK_sp_dirs; assumption|].
    apply TK_snoc0; [apply (TK_p_body p_fielddef (t_fielddef sn) (fielddef_lx blk)); [exact TK_p_fielddef|assumption]|ck].
  - apply TK_W1; [ck|]. apply TK_app; [apply TK_p_ident; assumption|].
    apply TK_app; [apply TK_p_implements; assumption|]. apply TK_app; [apply TK_sp_dirs; assumption|].
    apply TK_snoc0; [apply (TK_p_body p_fielddef (t_fielddef sn) (fielddef_lx blk)); [exact TK_p_fielddef|assumption]|ck].
  - apply TK_W1; [ck|]. apply TK_app; [apply TK_p_ident; assumption|].
    apply TK_app; [apply TK_sp_dirs; assumption|]. apply TK_snoc0; [apply TK_p_members_def; assumption|ck].
  - apply TK_W1; [ck|]. apply TK_app; [apply TK_p_ident; assumption|].
    apply TK_app; [apply TK_sp_dirs; assumption|].
    apply TK_snoc0; [apply (TK_p_body p_enumval (t_enumval sn) (enumval_lx blk)); [exact TK_p_enumval|assumption]|ck].
  - apply TK_W1; [ck|]. apply TK_app; [apply TK_p_ident; assumption|].
    apply TK_app; [apply TK_sp_dirs; assumption|].
    apply TK_snoc0; [apply (TK_p_body p_inputval (t_inputval sn) (inputval_lx blk)); [exact TK_p_inputval|assumption]|ck].
Qed.

Lemma TK_p_typeext t : (typeext_lx blk) t = true -> TK (p_typeext t) ((t_typeext sn) t).
Proof.
  destruct t; cbn [typeext_lx p_typeext t_typeext]; intro H; split_lx H.
  - apply TK_W2; [ck|]. apply TK_app; [apply TK_p_ident; assumption|].
    apply TK_snoc0; [apply TK_sp_dirs; assumption|ck].
  - apply TK_W2; [ck|]. apply TK_app; [apply TK_p_ident; assumption|].
    apply TK_app; [apply TK_p_implements; assumption|]. apply TK_app; [apply TK_sp_dirs; assumption|].
    apply TK_snoc0; [apply (TK_p_body p_fielddef (t_fielddef sn) (fielddef_lx blk)); [exact TK_p_fielddef|assumption]|ck].
  - apply TK_W2; [ck|]. apply TK_app; [apply TK_p_ident; assumption|].
    apply TK_app; [apply TK_p_implements; assumption|]. apply TK_app; [apply TK_sp_dirs; assumption|].
    apply TK_snoc0; [apply (TK_p_body p_fielddef (t_fielddef sn) (fielddef_lx blk)); [exact TK_p_fielddef|assumption]|ck].
  - apply TK_W2; [ck|]. apply TK_app; [apply TK_p_ident; assumption|].
    apply TK_app; [apply TK_sp_dirs; assumption|].
    apply TK_snoc0; [|ck]. apply TK_members_ne; [assumption|]. destruct members; [discriminate|discriminate].
  - apply TK_W2; [ck|]. apply TK_app; [apply TK_p_ident; assumption|].
    apply TK_app; [apply TK_sp_dirs; assumption|].
    apply TK_snoc0; [apply (TK_p_body p_enumval (t_enumval sn) (enumval_lx blk)); [exact TK_p_enumval|assumption]|ck].
  - apply TK_W2; [ck|]. apply TK_app; [apply TK_p_ident; assumption|].
    apply TK_app; [apply TK_sp_dirs; assumption|].
    apply TK_snoc0; [apply (TK_p_body p_inputval (t_inputval sn) (inputval_lx blk)); [exact TK_p_inputval|assumption]|ck].
Qed.

Lemma TK_p_tsdef x : (tsdef_lx blk) x = true -> TK (p_tsdef x) ((t_tsdef sn) x).
Proof.
  destruct x as [d|t|d|e|t]; cbn [tsdef_lx p_tsdef t_tsdef]; intro H.
  - split_lx H. unfold p_schemadef. apply TK_app; [apply TK_p_desc; assumption|].
    apply TK_W1; [ck|]. apply TK_app; [apply TK_glued_dirs; assumption|].
    apply TK_rootops_ne; [assumption|]. destruct (sd_ops d); [discriminate|discriminate].
  - apply TK_p_typedef; exact H.
  - split_lx H. unfold p_directivedef. apply TK_app; [apply TK_p_desc; assumption|].
    apply TK_W2; [ck|]. apply TK_app; [apply TK_p_ident; assumption|].
    apply TK_app; [apply TK_oargsdef; assumption|].
    apply TK_app.
    { destruct (dd_repeatable d) as [t|]; cbn [p_opt t_opt oid_lx] in *; [|apply TK_nil].
      apply TK_W0; [ck|apply TK_p_ident; assumption]. }
    apply TK_W1; [ck|]. apply TK_snoc0; [|ck].
    apply (TK_flat_map _ _ id_lx); [|assumption]. intros x Hx. apply TK_W1; [ck|apply TK_p_ident; exact Hx].
  - split_lx H. unfold p_schemaext. apply TK_W2; [ck|].
    apply TK_app; [apply TK_glued_dirs; assumption|].
    destruct (se_ops e) as [|kv r] eqn:Eo.
    + cbn [t_rootops]. apply TK_W0; [ck|apply TK_nil].
    + apply TK_rootops_ne; [assumption|discriminate].
  - apply TK_p_typeext; exact H.
Qed.

Theorem TK_print_tsdoc d : (tsdoc_lx blk) d = true -> TK (print_tsdoc d) ((tokens_tsdoc sn) d).
Proof. unfold tsdoc_lx, print_tsdoc, tokens_of_tsdoc. apply TK_flat_map. exact TK_p_tsdef. Qed.

Theorem TK_print_tsdoc_ext d : (tsdoc_lx blk) d = true -> TK (print_tsdoc_ext d) ((tokens_tsdoc sn) d).
Proof.
  unfold tsdoc_lx, print_tsdoc_ext, tokens_of_tsdoc. apply TK_flat_map.
  intros x Hx. apply TK_snoc0; [apply TK_p_tsdef; exact Hx|ck].
Qed.


(** the printed text, lexed and read, is the token sequence of the document *)
Theorem print_tsdoc_lex_with d : tsdoc_lx blk d = true -> lex_with val (just_run (print_tsdoc d)) = Some (tokens_tsdoc sn d).
Proof. intro H. apply (TK_lex_just_run val sn blk val_line val_blk); [apply TK_print_tsdoc; exact H|apply G_print_tsdoc]. Qed.
Theorem print_tsdoc_ext_lex_with d : tsdoc_lx blk d = true -> lex_with val (just_run (print_tsdoc_ext d)) = Some (tokens_tsdoc sn d).
Proof. intro H. apply (TK_lex_just_run val sn blk val_line val_blk); [apply TK_print_tsdoc_ext; exact H|apply G_print_tsdoc_ext]. Qed.
Theorem print_opdoc_lex_with d : opdoc_lx blk d = true -> lex_with val (just_run (print_opdoc d)) = Some (tokens_opdoc sn d).
Proof. intro H. apply (TK_lex_just_run val sn blk val_line val_blk); [apply TK_print_opdoc; exact H|apply G_print_opdoc]. Qed.

End Reading.

(** ** the two readings *)
Lemma raw_line v : is_multiline v = false -> value_nitrogql (TNormal v) = (fun x : str => x) v.
Proof. reflexivity. Qed.
Lemma raw_blk v : no_blk v = true ->
  is_multiline v = true /\ plain_block v = true /\ forall ind, value_nitrogql (TBlock (rawb ind v)) = (fun x : str => x) v.
Proof. discriminate. Qed.
Lemma spec_line v : is_multiline v = false -> value_spec (TNormal v) = snorm v.
Proof. intro H. unfold snorm. change (existsb (N.eqb 10) v) with (is_multiline v). rewrite H. reflexivity. Qed.
Lemma spec_blk v : block_lit v = true ->
  is_multiline v = true /\ plain_block v = true /\ forall ind, value_spec (TBlock (rawb ind v)) = snorm v.
Proof.
  unfold block_lit. intro H. apply andb_true_iff in H as [H Hc]. apply andb_true_iff in H as [Hm Hp].
  split; [exact Hm|]. split; [exact Hp|]. intro ind.
  unfold snorm. change (existsb (N.eqb 10) v) with (is_multiline v). rewrite Hm.
  apply rawb_spec_value; [|exact Hc]. unfold plain_block in Hp.
  apply andb_true_iff in Hp as [Hp _]. apply andb_true_iff in Hp as [Hn _]. exact Hn.
Qed.

(** nitrogql's reading: documents whose strings are single-line *)
Theorem print_tsdoc_lex d : tsdoc_lx_raw d = true -> lex (just_run (print_tsdoc d)) = Some (tokens_of_tsdoc d).
Proof. exact (print_tsdoc_lex_with value_nitrogql (fun x => x) no_blk raw_line raw_blk d). Qed.
Theorem print_tsdoc_ext_lex d : tsdoc_lx_raw d = true -> lex (just_run (print_tsdoc_ext d)) = Some (tokens_of_tsdoc d).
Proof. exact (print_tsdoc_ext_lex_with value_nitrogql (fun x => x) no_blk raw_line raw_blk d). Qed.
Theorem print_opdoc_lex d : opdoc_lx_raw d = true -> lex (just_run (print_opdoc d)) = Some (tokens_of_opdoc d).
Proof. exact (print_opdoc_lex_with value_nitrogql (fun x => x) no_blk raw_line raw_blk d). Qed.

(** the specification's reading: multi-line values too, at any indentation *)
Theorem print_tsdoc_lex_spec d : tsdoc_lx_spec d = true -> lex_spec (just_run (print_tsdoc d)) = Some (tokens_spec_tsdoc d).
Proof. exact (print_tsdoc_lex_with value_spec snorm block_lit spec_line spec_blk d). Qed.
Theorem print_tsdoc_ext_lex_spec d : tsdoc_lx_spec d = true -> lex_spec (just_run (print_tsdoc_ext d)) = Some (tokens_spec_tsdoc d).
Proof. exact (print_tsdoc_ext_lex_with value_spec snorm block_lit spec_line spec_blk d). Qed.
Theorem print_opdoc_lex_spec d : opdoc_lx_spec d = true -> lex_spec (just_run (print_opdoc d)) = Some (tokens_spec_opdoc d).
Proof. exact (print_opdoc_lex_with value_spec snorm block_lit spec_line spec_blk d). Qed.
(** ** consequence.  A parser that reads token sequences is correct when, on the token sequence of
    any document, it returns a document related to it by [R] (equality modulo positions).  For
    such a parser, documents whose printed texts lex to the same tokens -- in particular a document
    and whatever the parser makes of its printed text -- are related by [R]. *)
Section AnyCorrectParser.
  Variable doc : Type.
  Variable R : doc -> doc -> Prop.
  Hypothesis R_sym : forall a b0, R a b0 -> R b0 a.
  Hypothesis R_trans : forall a b0 c, R a b0 -> R b0 c -> R a c.
  Variable tokens_of : doc -> list tok.
  Variable parse : list tok -> option doc.
  Hypothesis parse_correct : forall a, exists a', parse (tokens_of a) = Some a' /\ R a' a.

  Lemma same_tokens_same_document a b0 : tokens_of a = tokens_of b0 -> R a b0.
  Proof.
    intro E. destruct (parse_correct a) as [a' [Pa Ra]]. destruct (parse_correct b0) as [b' [Pb Rb]].
    rewrite E in Pa. rewrite Pa in Pb. injection Pb as <-. exact (R_trans _ _ _ (R_sym _ _ Ra) Rb).
  Qed.

  (** printing then lexing then parsing gives back the document *)
  Variable print : doc -> str.
  Variable guard : doc -> bool.
  Variable lexer : str -> option (list tok).
  Hypothesis print_lexes : forall a, guard a = true -> lexer (print a) = Some (tokens_of a).

  Lemma parse_print_roundtrip a : guard a = true ->
    exists a', match lexer (print a) with Some ts => parse ts | None => None end = Some a' /\ R a' a.
  Proof. intro H. rewrite (print_lexes a H). apply parse_correct. Qed.
End AnyCorrectParser.

(** instantiated: for every correct token-level parser of type-system documents, parsing the text
    printed for a guarded document gives the document back, modulo [R] *)
Theorem tsdoc_roundtrip_any_parser :
  forall (R : tsdoc -> tsdoc -> Prop) (parse : list tok -> option tsdoc),
  (forall a, exists a', parse (tokens_of_tsdoc a) = Some a' /\ R a' a) ->
  forall d, tsdoc_lx_raw d = true ->
  exists d', match lex (just_run (print_tsdoc_ext d)) with Some ts => parse ts | None => None end = Some d' /\ R d' d.
Proof.
  intros R parse Hc d H.
  exact (parse_print_roundtrip tsdoc R tokens_of_tsdoc parse Hc (fun a => just_run (print_tsdoc_ext a)) tsdoc_lx_raw lex
           print_tsdoc_ext_lex d H).
Qed.

Theorem opdoc_roundtrip_any_parser :
  forall (R : opdoc -> opdoc -> Prop) (parse : list tok -> option opdoc),
  (forall a, exists a', parse (tokens_of_opdoc a) = Some a' /\ R a' a) ->
  forall d, opdoc_lx_raw d = true ->
  exists d', match lex (just_run (print_opdoc d)) with Some ts => parse ts | None => None end = Some d' /\ R d' d.
Proof.
  intros R parse Hc d H.
  exact (parse_print_roundtrip opdoc R tokens_of_opdoc parse Hc (fun a => just_run (print_opdoc a)) opdoc_lx_raw lex
           print_opdoc_lex d H).
Qed.

(** the same under the specification's reading, multi-line string values included: the parser is
    correct on the token sequences whose string values are read through [snorm] *)
Theorem tsdoc_roundtrip_any_parser_spec :
  forall (R : tsdoc -> tsdoc -> Prop) (parse : list tok -> option tsdoc),
  (forall a, exists a', parse (tokens_spec_tsdoc a) = Some a' /\ R a' a) ->
  forall d, tsdoc_lx_spec d = true ->
  exists d', match lex_spec (just_run (print_tsdoc_ext d)) with Some ts => parse ts | None => None end = Some d' /\ R d' d.
Proof.
  intros R parse Hc d H.
  exact (parse_print_roundtrip tsdoc R tokens_spec_tsdoc parse Hc (fun a => just_run (print_tsdoc_ext a)) tsdoc_lx_spec lex_spec
           print_tsdoc_ext_lex_spec d H).
Qed.

Theorem opdoc_roundtrip_any_parser_spec :
  forall (R : opdoc -> opdoc -> Prop) (parse : list tok -> option opdoc),
  (forall a, exists a', parse (tokens_spec_opdoc a) = Some a' /\ R a' a) ->
  forall d, opdoc_lx_spec d = true ->
  exists d', match lex_spec (just_run (print_opdoc d)) with Some ts => parse ts | None => None end = Some d' /\ R d' d.
Proof.
  intros R parse Hc d H.
  exact (parse_print_roundtrip opdoc R tokens_spec_opdoc parse Hc (fun a => just_run (print_opdoc a)) opdoc_lx_spec lex_spec
           print_opdoc_lex_spec d H).
Qed.
