(** C16 — token level, part 1: basic facts about the specification's lexer ([SpecLex.lexf]) and a
    character-level description of what JustWriter writes for a chunk. *)
From V Require Import Base.Util Gql.Ast Writer.Wop C16.Model C16.Spec C16.SpecLex.
Local Open Scope N_scope.

(** ** lexing as a relation: some amount of fuel, not more than the length of the text (what [lex]
    provides), gives these tokens *)
Definition L (x : str) (ts : list tok) : Prop := exists f, (f <= length x)%nat /\ lexf f x = Some ts.

Lemma lexf_S f c r :
  lexf (S f) (c :: r) =
  if ignored c then lexf f r
  else if c =? 35 then lexf f (skip_comment r)
  else if punct c then omap (cons (TP c)) (lexf f r)
  else if c =? 34 then
    match lex_string (c :: r) with
    | Some (t, rest) => omap (cons (TR t)) (lexf f rest)
    | None => None
    end
  else if wordc c then omap (cons (TW (fst (span_word (c :: r))))) (lexf f (snd (span_word (c :: r))))
  else None.
Proof. reflexivity. Qed.

Lemma lexf_mono : forall f x ts, lexf f x = Some ts -> lexf (S f) x = Some ts.
Proof.
  induction f as [|f IH]; intros x ts H.
  - destruct x; [exact H|discriminate H].
  - destruct x as [|c r]; [exact H|].
    rewrite lexf_S in H. rewrite lexf_S.
    destruct (ignored c); [exact (IH _ _ H)|].
    destruct (c =? 35); [exact (IH _ _ H)|].
    destruct (punct c).
    { destruct (lexf f r) eqn:E; [|discriminate H]. rewrite (IH _ _ E). exact H. }
    destruct (c =? 34).
    { destruct (lex_string (c :: r)) as [[t rest]|]; [|discriminate H].
      destruct (lexf f rest) eqn:E; [|discriminate H]. rewrite (IH _ _ E). exact H. }
    destruct (wordc c); [|discriminate H].
    destruct (lexf f (snd (span_word (c :: r)))) eqn:E; [|discriminate H]. rewrite (IH _ _ E). exact H.
Qed.

Lemma lexf_mono_le : forall f g x ts, (f <= g)%nat -> lexf f x = Some ts -> lexf g x = Some ts.
Proof.
  intros f g x ts Hle H. induction Hle as [|g Hle IH]; [exact H|]. apply lexf_mono. exact IH.
Qed.

(** lexing is a function: two amounts of fuel that both succeed agree *)
Lemma L_fun x ts ts' : L x ts -> L x ts' -> ts = ts'.
Proof.
  intros [f [_ H]] [g [_ H']].
  pose proof (lexf_mono_le f (Nat.max f g) x ts (Nat.le_max_l f g) H) as A.
  pose proof (lexf_mono_le g (Nat.max f g) x ts' (Nat.le_max_r f g) H') as B0.
  congruence.
Qed.

(** ** character classes *)
Lemma wordc_range c : wordc c = true ->
  (48 <= c <= 57) \/ (65 <= c <= 90) \/ (97 <= c <= 122) \/ c = 95 \/ c = 46 \/ c = 45 \/ c = 43.
Proof.
  unfold wordc. intro H.
  repeat (apply orb_true_iff in H as [H|H]);
    try (apply andb_true_iff in H as [H1 H2]; apply N.leb_le in H1, H2; lia);
    try (apply N.eqb_eq in H; lia).
Qed.

Lemma wordc_not_other c : wordc c = true ->
  ignored c = false /\ (c =? 35) = false /\ punct c = false /\ (c =? 34) = false.
Proof.
  intro H. apply wordc_range in H.
  assert (forall n, c <> n -> (c =? n) = false) as Hne by (intros n Hn; apply N.eqb_neq; exact Hn).
  unfold ignored, punct.
  repeat split; repeat (rewrite Hne by lia); reflexivity.
Qed.

Lemma ignored_not_wordc c : ignored c = true -> wordc c = false.
Proof.
  intro H. destruct (wordc c) eqn:E; [|reflexivity].
  destruct (wordc_not_other c E) as [H1 _]. congruence.
Qed.
Lemma punct_not_wordc c : punct c = true -> wordc c = false.
Proof.
  intro H. destruct (wordc c) eqn:E; [|reflexivity].
  destruct (wordc_not_other c E) as [_ [_ [H1 _]]]. congruence.
Qed.
Lemma punct_not_ignored c : punct c = true -> ignored c = false.
Proof.
  unfold punct, ignored. intro H.
  repeat (apply orb_true_iff in H as [H|H]); apply N.eqb_eq in H; subst c; reflexivity.
Qed.

(** ** the derived rules of [L] *)
Lemma L_lexf x ts : L x ts -> lexf (length x) x = Some ts.
Proof. intros [f [Hle H]]. exact (lexf_mono_le f (length x) x ts Hle H). Qed.
Lemma L_lex_with val x ts : L x ts -> lex_with val x = Some (map (read val) ts).
Proof. intro H. unfold lex_with. rewrite (L_lexf x ts H). reflexivity. Qed.

Lemma lex_L x ts : lexf (length x) x = Some ts -> L x ts.
Proof. intro H. exists (length x). split; [apply Nat.le_refl|exact H]. Qed.

Lemma L_nil : L [] [].
Proof. exists O. split; [apply Nat.le_refl|reflexivity]. Qed.

Lemma L_ign c r ts : ignored c = true -> L r ts -> L (c :: r) ts.
Proof.
  intros Hc [f [Hle H]]. exists (S f). split; [cbn [length]; lia|]. rewrite lexf_S, Hc. exact H.
Qed.

Lemma L_punct c r ts : punct c = true -> L r ts -> L (c :: r) (TP c :: ts).
Proof.
  intros Hp [f [Hle H]]. exists (S f). split; [cbn [length]; lia|]. rewrite lexf_S. rewrite (punct_not_ignored c Hp).
  assert (E : (c =? 35) = false).
  { destruct (c =? 35) eqn:E; [|reflexivity]. apply N.eqb_eq in E; subst c. discriminate Hp. }
  rewrite E, Hp, H. reflexivity.
Qed.

Lemma L_string r t rest ts :
  lex_string (34 :: r) = Some (t, rest) -> (length rest <= length r)%nat ->
  L rest ts -> L (34 :: r) (TR t :: ts).
Proof.
  intros Hs Hlen [f [Hle H]]. exists (S f). split; [cbn [length]; lia|]. rewrite lexf_S.
  change (ignored 34) with false. change (34 =? 35) with false. change (punct 34) with false.
  change (34 =? 34) with true. cbv iota. rewrite Hs, H. reflexivity.
Qed.

Lemma span_word_snd_len : forall x, (length (snd (span_word x)) <= length x)%nat.
Proof.
  induction x as [|c r IH]; [apply Nat.le_refl|]. cbn [span_word]. destruct (wordc c); cbn [snd length]; lia.
Qed.

Lemma L_word c r ts :
  wordc c = true -> L (snd (span_word (c :: r))) ts -> L (c :: r) (TW (fst (span_word (c :: r))) :: ts).
Proof.
  intros Hw [f [Hle H]]. exists (S f). split.
  - cbn [span_word] in Hle. rewrite Hw in Hle. cbn [snd] in Hle.
    pose proof (span_word_snd_len r). cbn [length]. lia.
  - rewrite lexf_S.
    destruct (wordc_not_other c Hw) as [H1 [H2 [H3 H4]]]. rewrite H1, H2, H3, H4, Hw, H. reflexivity.
Qed.

Lemma L_spaces n k ts : L k ts -> L (repeat 32 n ++ k) ts.
Proof. intro H. induction n as [|n IH]; [exact H|]. cbn [repeat app]. apply L_ign; [reflexivity|exact IH]. Qed.

(** ** [span_word] *)
Lemma span_word_split x : x = fst (span_word x) ++ snd (span_word x).
Proof.
  induction x as [|c r IH]; [reflexivity|]. cbn [span_word]. destruct (wordc c); [|reflexivity].
  cbn [fst snd app]. f_equal. exact IH.
Qed.
Lemma span_word_all x : forallb wordc (fst (span_word x)) = true.
Proof.
  induction x as [|c r IH]; [reflexivity|]. cbn [span_word]. destruct (wordc c) eqn:E; [|reflexivity].
  cbn [fst forallb]. rewrite E. exact IH.
Qed.
Definition hd_wordc (k : str) : bool := match k with c :: _ => wordc c | [] => false end.
Lemma span_word_rest x : hd_wordc (snd (span_word x)) = false.
Proof.
  induction x as [|c r IH]; [reflexivity|]. cbn [span_word]. destruct (wordc c) eqn:E; [exact IH|].
  cbn [snd hd_wordc]. exact E.
Qed.
Lemma span_word_stop k : hd_wordc k = false -> span_word k = ([], k).
Proof. destruct k as [|c r]; [reflexivity|]. cbn [hd_wordc span_word]. intros ->. reflexivity. Qed.

(** a run of word characters followed by something that does not continue it *)
Lemma span_word_app : forall a k, forallb wordc a = true -> hd_wordc k = false -> span_word (a ++ k) = (a, k).
Proof.
  induction a as [|c r IH]; intros k Ha Hk.
  - apply span_word_stop. exact Hk.
  - cbn [forallb] in Ha. apply andb_true_iff in Ha as [Hc Hr].
    cbn [app span_word]. rewrite Hc, (IH k Hr Hk). reflexivity.
Qed.

(** ** what JustWriter writes for a chunk, character by character.  [flag] = an indentation is
    pending (the last thing written was a line feed) *)
Fixpoint ins (ind : N) (flag : bool) (x : str) : str :=
  match x with
  | [] => []
  | c :: r =>
      if c =? LF then LF :: ins ind true r
      else (if flag then spaces ind else []) ++ c :: ins ind false r
  end.
Fixpoint insf (flag : bool) (x : str) : bool :=
  match x with
  | [] => flag
  | c :: r => insf (c =? LF) r
  end.

Definition idf : str -> str := fun l => l.

(** [write_lines] after the first line does not depend on the incoming flag, and equals a line
    feed followed by the lines written as the start of a chunk with an indentation pending *)
Lemma write_lines_nonfirst : forall l0 ls ind flagX,
  write_lines idf false (l0 :: ls) ind flagX
  = (LF :: fst (write_lines idf true (l0 :: ls) ind true), snd (write_lines idf true (l0 :: ls) ind true)).
Proof.
  intros l0 ls ind flagX. cbn [write_lines]. destruct l0 as [|c l'].
  - destruct (write_lines idf false ls ind true) as [o f]. reflexivity.
  - destruct (write_lines idf false ls ind false) as [o f]. reflexivity.
Qed.

(** pushing a character onto the first line *)
Lemma write_lines_push : forall x l ls ind flag,
  write_lines idf true ((x :: l) :: ls) ind flag
  = ((if flag then spaces ind else []) ++ x :: fst (write_lines idf true (l :: ls) ind false),
     snd (write_lines idf true (l :: ls) ind false)).
Proof.
  intros x l ls ind flag. cbn [write_lines]. destruct l as [|c l'].
  - destruct (write_lines idf false ls ind false) as [o f]. cbn [app fst snd]. reflexivity.
  - destruct (write_lines idf false ls ind false) as [o f]. cbn [app fst snd]. unfold idf.
    reflexivity.
Qed.

Lemma write_lines_empty_first L0 ind flag :
  write_lines idf true ([] :: L0) ind flag = write_lines idf false L0 ind flag.
Proof.
  change (write_lines idf true ([] :: L0) ind flag)
    with (let '(o, f) := write_lines idf false L0 ind flag in ([] ++ o, f)).
  destruct (write_lines idf false L0 ind flag). reflexivity.
Qed.

Lemma split_lf_cons_shape r : exists l ls, split_lf r = l :: ls.
Proof.
  destruct r as [|y r']; cbn [split_lf]; [eexists; eexists; reflexivity|].
  destruct (y =? LF); [eexists; eexists; reflexivity|]. destruct (split_lf r'); eexists; eexists; reflexivity.
Qed.

Theorem write_chunk_chars : forall c ind flag,
  write_chunk idf c ind flag = (ins ind flag c, insf flag c).
Proof.
  unfold write_chunk. induction c as [|x r IH]; intros ind flag.
  - reflexivity.
  - cbn [split_lf ins insf]. destruct (x =? LF) eqn:E.
    + destruct (split_lf_cons_shape r) as [l [ls El]]. rewrite El in *.
      rewrite write_lines_empty_first. rewrite (write_lines_nonfirst l ls ind flag).
      f_equal; [f_equal; exact (f_equal fst (IH ind true))|exact (f_equal snd (IH ind true))].
    + destruct (split_lf_cons_shape r) as [l [ls El]]. rewrite El in *.
      rewrite (write_lines_push x l ls ind flag).
      f_equal; [f_equal; f_equal; exact (f_equal fst (IH ind false))|exact (f_equal snd (IH ind false))].
Qed.

(** [just_run] in these terms *)
Fixpoint jrun (ops : list wop) (ind : N) (flag : bool) : str :=
  match ops with
  | [] => []
  | Indent :: r => jrun r (ind + 2) flag
  | Dedent :: r => jrun r (ind - 2) flag
  | W c :: r | WF c _ _ :: r => ins ind flag c ++ jrun r ind (insf flag c)
  end.

Lemma run_ops_jrun : forall ops ind flag, run_ops idf ops ind flag = jrun ops ind flag.
Proof.
  induction ops as [|o r IH]; intros ind flag; [reflexivity|].
  destruct o as [c|c p n| |]; cbn [run_ops jrun]; try apply IH;
    rewrite (write_chunk_chars c ind flag), IH; reflexivity.
Qed.

Lemma just_run_jrun ops : just_run ops = jrun ops 0 false.
Proof. unfold just_run. apply (run_ops_jrun ops 0 false). Qed.
