(** C02 — property theorems only (the model and the specification are C01's). *)
From V Require Import Base.Util Gql.Ast Writer.Wop Ts.TsType Ts.TsDen
     C01.Model C01.Spec C01.Corr C01.Witness C01.Proofs C01.Refuted.

(** the current code violates C02 on the property text's witness (not merge_safe) *)
Theorem C02_merge_unsafe_refuted :
  guard_safe w_schema w_merge (first_def w_merge) = false /\
  has_type_b (schema_env w_schema) 40 (type_of w_merge) v_a_only_y = Some true /\
  ref_local_b w_schema [] 8 8 (s "Query") (sels_of w_merge) v_a_only_y = false.
Proof. exact merge_unsafe_refuted_C02. Qed.
Print Assumptions C02_merge_unsafe_refuted.

(** an aliased __typename is typed [String | null]: looser than the literal of the object type *)
Theorem C02_aliased_typename_refuted :
  guard_alias_free w_schema w_alias (first_def w_alias) = false /\
  has_type_b (schema_env w_schema) 40 (type_of w_alias) v_alias_null = Some true /\
  ref_local_b w_schema [] 8 8 (s "Query") (sels_of w_alias) v_alias_null = false /\
  ref_local_b w_schema [] 8 8 (s "Query") (sels_of w_alias) v_alias_good = true /\
  has_type_b (schema_env w_schema) 40 (type_of w_alias) v_alias_good = Some true.
Proof. exact aliased_typename_refuted_C02. Qed.
Print Assumptions C02_aliased_typename_refuted.

(** the reading used for the twin cases (aliased __typename : String | null) only adds values to
    Ref_local, so a value rejected by it is rejected by Ref_local *)
Theorem C02_ref_local_in_relaxed : forall S F cf fuel T sels v,
  ref_local_b S F cf fuel T sels v = true -> ref_local_relaxed_b S F cf fuel T sels v = true.
Proof. exact ref_local_in_relaxed. Qed.
Print Assumptions C02_ref_local_in_relaxed.
