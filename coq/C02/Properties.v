(** C02 — property theorems only (the model and the specification are C01's). *)
From V Require Import Base.Util Gql.Ast Writer.Wop Ts.TsType Ts.TsDen
     C01.Model C01.Spec C01.Guards C01.Corr C01.Witness C01.Proofs C01.Refuted C01.TsLemmas C01.TreeDen C01.EnvDen
     C01.PlainBase C01.PlainCore C01.PlainSchema C01.PlainFinal C01.FlatCore C01.FlatThm C01.FlatFinal C01.DupThm C01.DupFinal.

(** the current code violates C02 on the property text's witness (not merge_safe) *)
Theorem C02_merge_unsafe_refuted :
  guard_safe w_schema w_merge (first_def w_merge) = false /\
  has_type_b (schema_env w_schema) 40 (type_of w_merge) v_a_only_y = Some true /\
  ref_local_b w_schema [] 8 8 (s "Query") (sels_of w_merge) v_a_only_y = false.
Proof. exact merge_unsafe_refuted_C02. Qed.
Print Assumptions C02_merge_unsafe_refuted.

(** an aliased __typename is typed [String | null]: looser than the literal of the object type *)
Theorem C02_aliased_typename_refuted :
  guard_alias_free w_schema w_alias (first_def w_alias) = false /\
  has_type_b (schema_env w_schema) 40 (type_of w_alias) v_alias_null = Some true /\
  ref_local_b w_schema [] 8 8 (s "Query") (sels_of w_alias) v_alias_null = false /\
  ref_local_b w_schema [] 8 8 (s "Query") (sels_of w_alias) v_alias_good = true /\
  has_type_b (schema_env w_schema) 40 (type_of w_alias) v_alias_good = Some true.
Proof. exact aliased_typename_refuted_C02. Qed.
Print Assumptions C02_aliased_typename_refuted.

(** the reading used for the twin cases (aliased __typename : String | null) only adds values to
    Ref_local, so a value rejected by it is rejected by Ref_local *)
Theorem C02_ref_local_in_relaxed : forall S F cf fuel T sels v,
  ref_local_b S F cf fuel T sels v = true -> ref_local_relaxed_b S F cf fuel T sels v = true.
Proof. exact ref_local_in_relaxed. Qed.
Print Assumptions C02_ref_local_in_relaxed.

(** C02 on plain definitions (see C01_emit_eq_ref_local_partial for the guard): whatever JSON value
    the emitted type admits is in Ref_local *)
Theorem C02_not_looser_partial : forall S D d T sels t v,
  nodup_types S = true -> def_target S d = Some (T, sels) -> plain_list sels = true ->
  emit_type default_options S D d = Ok t ->
  (forall tree, def_tree S D d = Ok tree -> tree_ok S tree = true) ->
  json v = true ->
  In_type (schema_env S) t v ->
  exists f, ref_local_b S (sp_frags D) (doc_fuel D) f T sels v = true.
Proof. exact not_looser_partial. Qed.
Print Assumptions C02_not_looser_partial.

(** to_ts.rs is denotation-preserving for every selection tree (leaf mapping with wrapper-exact
    nullability, __typename literal, `x?: never`, keys surviving Extract<keyof Orig, keyof Obj>) *)
Theorem C02_emitted_type_denotes_tree : forall S t v,
  leaves_ok (sp_leaf_ok S) (sp_obj_ok S) t = true ->
  (In_type (schema_env S) (generate_selection_tree_type NS t) v
   <-> tree_den (sp_named S) (sp_obj_keys S) t false v = true).
Proof. exact emitted_type_den. Qed.
Print Assumptions C02_emitted_type_denotes_tree.

(** C02 for MERGE-FREE definitions (fragments allowed; guard: see C01_emit_eq_ref_local_merge_free) *)
Theorem C02_not_looser_merge_free : forall S D d T sels t v,
  nodup_types S = true -> def_target S d = Some (T, sels) -> guard_merge_free S D d = true ->
  emit_type default_options S D d = Ok t ->
  (forall tree, def_tree S D d = Ok tree -> tree_ok S tree = true) ->
  json v = true ->
  In_type (schema_env S) t v ->
  exists f, ref_local_b S (sp_frags D) (doc_fuel D) f T sels v = true.
Proof. exact not_looser_merge_free. Qed.
Print Assumptions C02_not_looser_merge_free.

(** C02 with repeated LEAF keys (guard: see C01_emit_eq_ref_local_merge_free_ld) *)
Theorem C02_not_looser_merge_free_ld : forall S D d T sels t v,
  nodup_types S = true -> def_target S d = Some (T, sels) -> guard_merge_free_ld S D d = true ->
  emit_type default_options S D d = Ok t ->
  (forall tree, def_tree S D d = Ok tree -> tree_ok S tree = true) ->
  json v = true ->
  In_type (schema_env S) t v ->
  exists f, ref_local_b S (sp_frags D) (doc_fuel D) f T sels v = true.
Proof. exact not_looser_merge_free_ld. Qed.
Print Assumptions C02_not_looser_merge_free_ld.
