(** Abstract syntax mirroring /repo/crates/ast (nitrogql-ast), constructor for constructor,
    positions included.  The Rust harness prints parsed documents as terms of these types
    (harness/src/ast_coq.rs). Definitions only. *)
From V Require Import Base.Util.

Record pos := mkPos { pline : N; pcol : N; pfile : N; pbuiltin : bool }.
Definition pos0 : pos := mkPos 0 0 0 true.   (* Pos::builtin() *)

Definition pos_eqb (a b : pos) : bool :=
  N.eqb (pline a) (pline b) && N.eqb (pcol a) (pcol b) && N.eqb (pfile a) (pfile b)
  && Bool.eqb (pbuiltin a) (pbuiltin b).

Record ident := mkId { iname : str; ipos : pos }.
Definition ident_eqb (a b : ident) : bool := str_eqb (iname a) (iname b) && pos_eqb (ipos a) (ipos b).

(** crates/ast/src/type.rs *)
Inductive ty :=
| TNamed (n : ident)
| TNonNull (t : ty)
| TList (p : pos) (t : ty).

(** crates/ast/src/value.rs; BooleanValue/NullValue keywords are determined by the value *)
Inductive value :=
| VVar (name : str) (p : pos)
| VInt (p : pos) (lexeme : str)
| VFloat (p : pos) (lexeme : str)
| VString (p : pos) (v : str)
| VBool (p : pos) (b : bool)
| VNull (p : pos)
| VEnum (p : pos) (v : str)
| VList (p : pos) (vs : list value)
| VObject (p : pos) (fs : list (ident * value)).

Record arguments := mkArgs { args_pos : pos; args_list : list (ident * value) }.
Record directive := mkDir { dir_pos : pos; dir_name : ident; dir_args : option arguments }.

(** crates/ast/src/selection_set.rs *)
Inductive selection :=
| SField (alias : option ident) (name : ident) (args : option arguments) (dirs : list directive)
         (sel : option selset)
| SSpread (p : pos) (name : ident) (dirs : list directive)
| SInline (p : pos) (cond : option ident) (dirs : list directive) (sel : selset)
with selset :=
| SelSet (p : pos) (sels : list selection).

Definition selset_pos (s : selset) : pos := match s with SelSet p _ => p end.
Definition selset_sels (s : selset) : list selection := match s with SelSet _ l => l end.

Inductive optype := Query | Mutation | Subscription.
Definition optype_eqb (a b : optype) : bool :=
  match a, b with Query, Query | Mutation, Mutation | Subscription, Subscription => true | _, _ => false end.

(** crates/ast/src/variable.rs *)
Record vardef := mkVarDef {
  vd_pos : pos; vd_name : str; vd_name_pos : pos; vd_type : ty;
  vd_default : option value; vd_dirs : list directive }.
Record vardefs := mkVarDefs { vds_pos : pos; vds_list : list vardef }.

(** crates/ast/src/operation.rs, operation_ext.rs *)
Record opdef := mkOp {
  op_pos : pos; op_type : optype; op_name : option ident; op_vars : option vardefs;
  op_dirs : list directive; op_sel : selset }.
Record fragdef := mkFrag {
  fr_pos : pos; fr_name : ident; fr_cond : ident; fr_dirs : list directive; fr_sel : selset }.
Inductive import_target := ImpWildcard | ImpName (n : ident).
Record importdef := mkImport { im_pos : pos; im_targets : list import_target; im_path : str; im_path_pos : pos }.

Inductive execdef :=
| DOp (o : opdef)
| DFrag (f : fragdef)
| DImport (i : importdef).     (* only in OperationDocumentExt *)

Record opdoc := mkOpDoc { od_pos : pos; od_defs : list execdef }.

(** crates/ast/src/type_system.rs *)
Record keyword := mkKw { kw_name : str; kw_pos : pos }.
Record desc := mkDesc { desc_pos : pos; desc_value : str }.

Record inputvaldef := mkInputVal {
  iv_desc : option desc; iv_pos : pos; iv_name : ident; iv_type : ty;
  iv_default : option value; iv_dirs : list directive }.
Record fielddef := mkFieldDef {
  fd_desc : option desc; fd_name : ident; fd_args : option (list inputvaldef);
  fd_type : ty; fd_dirs : list directive }.
Record enumvaldef := mkEnumVal { ev_desc : option desc; ev_name : ident; ev_dirs : list directive }.

Inductive typedef :=
| TDScalar (d : option desc) (p : pos) (name : ident) (dirs : list directive) (kw : keyword)
| TDObject (d : option desc) (p : pos) (name : ident) (impls : list ident) (dirs : list directive)
           (fields : list fielddef) (kw : keyword)
| TDInterface (d : option desc) (p : pos) (name : ident) (impls : list ident) (dirs : list directive)
           (fields : list fielddef) (kw : keyword)
| TDUnion (d : option desc) (p : pos) (name : ident) (dirs : list directive) (members : list ident) (kw : keyword)
| TDEnum (d : option desc) (p : pos) (name : ident) (dirs : list directive) (vals : list enumvaldef) (kw : keyword)
| TDInput (d : option desc) (p : pos) (name : ident) (dirs : list directive) (fields : list inputvaldef) (kw : keyword).

Inductive typeext :=
| TEScalar (p : pos) (name : ident) (dirs : list directive)
| TEObject (p : pos) (name : ident) (impls : list ident) (dirs : list directive) (fields : list fielddef)
| TEInterface (p : pos) (name : ident) (impls : list ident) (dirs : list directive) (fields : list fielddef)
| TEUnion (p : pos) (name : ident) (dirs : list directive) (members : list ident)
| TEEnum (p : pos) (name : ident) (dirs : list directive) (vals : list enumvaldef)
| TEInput (p : pos) (name : ident) (dirs : list directive) (fields : list inputvaldef).

Record schemadef := mkSchemaDef {
  sd_desc : option desc; sd_pos : pos; sd_dirs : list directive; sd_ops : list (optype * ident) }.
Record schemaext := mkSchemaExt { se_pos : pos; se_dirs : list directive; se_ops : list (optype * ident) }.
Record directivedef := mkDirDef {
  dd_desc : option desc; dd_pos : pos; dd_name : ident; dd_args : option (list inputvaldef);
  dd_repeatable : option ident; dd_locs : list ident; dd_kw : keyword }.

(** TypeSystemDefinitionOrExtension; a resolved TypeSystemDocument uses the first three only *)
Inductive tsdef :=
| TSSchema (s : schemadef)
| TSType (t : typedef)
| TSDirective (d : directivedef)
| TSSchemaExt (s : schemaext)
| TSTypeExt (t : typeext).

Definition tsdoc := list tsdef.

Definition typedef_name (t : typedef) : ident :=
  match t with
  | TDScalar _ _ n _ _ | TDObject _ _ n _ _ _ _ | TDInterface _ _ n _ _ _ _
  | TDUnion _ _ n _ _ _ | TDEnum _ _ n _ _ _ | TDInput _ _ n _ _ _ => n
  end.
Definition typedef_pos (t : typedef) : pos :=
  match t with
  | TDScalar _ p _ _ _ | TDObject _ p _ _ _ _ _ | TDInterface _ p _ _ _ _ _
  | TDUnion _ p _ _ _ _ | TDEnum _ p _ _ _ _ | TDInput _ p _ _ _ _ => p
  end.
Definition typeext_name (t : typeext) : ident :=
  match t with
  | TEScalar _ n _ | TEObject _ n _ _ _ | TEInterface _ n _ _ _
  | TEUnion _ n _ _ | TEEnum _ n _ _ | TEInput _ n _ _ => n
  end.

Fixpoint ty_unwrapped (t : ty) : ident :=
  match t with TNamed n => n | TNonNull t' => ty_unwrapped t' | TList _ t' => ty_unwrapped t' end.
