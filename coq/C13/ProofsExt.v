(** C13 — the extension resolver ([resolve_extensions], model of resolve_operation_extensions)
    against its reference reading (grouping by path string, [merge_targets]). *)
From V Require Import Base.Util C20.Model C13.Model C13.Spec C13.Proofs.
From Coq Require Import Permutation.

Lemma fold_targets_merge p acc ts :
  match fold_targets p acc ts with
  | inr t => merge_targets acc ts = Some t
  | inl _ => merge_targets acc ts = None
  end.
Proof.
  revert acc; induction ts as [|t r IH]; intros acc; cbn; [reflexivity|].
  destruct acc as [|ids]; destruct t as [|n q]; cbn; try reflexivity.
  - destruct ids; cbn; [apply IH | reflexivity].
  - apply IH.
Qed.

Lemma merge_targets_app acc ts1 ts2 :
  merge_targets acc (ts1 ++ ts2) =
  match merge_targets acc ts1 with Some a => merge_targets a ts2 | None => None end.
Proof.
  revert acc; induction ts1 as [|t r IH]; intros acc; cbn; [reflexivity|].
  destruct acc as [|ids]; destruct t as [|n q]; try reflexivity.
  - destruct ids; [apply IH | reflexivity].
  - apply IH.
Qed.

(** the state machine, declaratively *)
Lemma merge_specific ids0 ts :
  no_wild ts = true -> merge_targets (Specific ids0) ts = Some (Specific (ids0 ++ target_ids ts)).
Proof.
  revert ids0; induction ts as [|t r IH]; intros ids0 H; cbn.
  - rewrite app_nil_r; reflexivity.
  - destruct t as [|n q]; [discriminate|]. cbn in H. rewrite IH by exact H.
    cbn. rewrite <- app_assoc. reflexivity.
Qed.

Lemma merge_targets_char ts :
  match merge_targets (Specific []) ts with
  | Some (Specific ids) => no_wild ts = true /\ ids = target_ids ts
  | Some Wildcard => ts = [TWild]
  | None => no_wild ts = false /\ ts <> [TWild]
  end.
Proof.
  destruct (no_wild ts) eqn:Hw.
  - rewrite merge_specific by exact Hw. cbn. auto.
  - (* the first wildcard *)
    assert (H : exists pre post, ts = pre ++ TWild :: post /\ no_wild pre = true).
    { clear -Hw. induction ts as [|t r IH]; [discriminate|].
      destruct t as [|n q].
      - exists [], r. auto.
      - cbn in Hw. destruct (IH Hw) as (pre & post & -> & Hp). exists (TName n q :: pre), post. auto. }
    destruct H as (pre & post & -> & Hp).
    rewrite merge_targets_app, merge_specific by exact Hp. cbn [app].
    destruct pre as [|[|n q] pre'].
    + cbn. destruct post as [|t post']; cbn; [reflexivity|].
      split; [reflexivity | discriminate].
    + discriminate.
    + cbn. split; [reflexivity | discriminate].
Qed.

Lemma take_existing_spec path imps :
  match take_existing path imps with
  | Some (e, rest) => ipath e = path /\ Permutation imps (e :: rest)
  | None => forall i, In i imps -> ipath i <> path
  end.
Proof.
  induction imps as [|i r IH]; cbn; [intros ? []|].
  destruct (str_eqb_spec (ipath i) path) as [E|N].
  - split; [exact E | apply Permutation_refl].
  - destruct (take_existing path r) as [[e rest]|].
    + destruct IH as [He Hp]. split; [exact He|].
      eapply perm_trans; [apply perm_skip; exact Hp | apply perm_swap].
    + intros j [<-|Hj]; [exact N | apply IH; exact Hj].
Qed.

Lemma group_app p a b : group p (a ++ b) = group p a ++ group p b.
Proof. unfold group. apply flat_map_app. Qed.
Lemma item_defs_app a b : item_defs (a ++ b) = item_defs a ++ item_defs b.
Proof. unfold item_defs. apply flat_map_app. Qed.
Lemma has_line_app p a b : has_line p (a ++ b) = has_line p a || has_line p b.
Proof. unfold has_line. apply existsb_app. Qed.

Lemma group_no_line p doc : has_line p doc = false -> group p doc = [].
Proof.
  induction doc as [|it r IH]; cbn; [reflexivity|]. destruct it as [d|q ts p' pp]; cbn.
  - exact IH.
  - destruct (str_eqb p' p); cbn; [discriminate | exact IH].
Qed.

(** what holds between the processed prefix and the loop state *)
Definition ext_inv (pre : list item) (defs : list def) (imps : list import) : Prop :=
  defs = item_defs pre
  /\ NoDup (map ipath imps)
  /\ (forall i, In i imps -> has_line (ipath i) pre = true
                             /\ merge_targets (Specific []) (group (ipath i) pre) = Some (itargets i))
  /\ (forall p, has_line p pre = true -> exists i, In i imps /\ ipath i = p).

Lemma ext_inv_nil : ext_inv [] [] [].
Proof.
  split; [reflexivity|]. split; [constructor|]. split; [intros ? []|]. intros p H; discriminate.
Qed.

Lemma ext_loop_inv items : forall pre defs imps,
  ext_inv pre defs imps ->
  match ext_loop items defs imps with
  | inr f => ext_inv (pre ++ items) (fdefs f) (fimports f)
  | inl _ => exists p, has_line p (pre ++ items) = true
                       /\ merge_targets (Specific []) (group p (pre ++ items)) = None
  end.
Proof.
  induction items as [|it r IH]; intros pre defs imps Hinv; cbn [ext_loop].
  - cbn. rewrite app_nil_r. exact Hinv.
  - assert (Hsplit : pre ++ it :: r = (pre ++ [it]) ++ r) by (rewrite <- app_assoc; reflexivity).
    destruct Hinv as (Hd & Hnd & Hin & Hall).
    destruct it as [d|q ts path ppos].
    + rewrite Hsplit. apply IH. split; [|split; [exact Hnd|split]].
      * rewrite item_defs_app, Hd. reflexivity.
      * intros i Hi. destruct (Hin i Hi) as [Hl Hm]. rewrite has_line_app, group_app, Hl. cbn.
        rewrite app_nil_r. auto.
      * intros p Hp. rewrite has_line_app in Hp. cbn in Hp. rewrite orb_false_r in Hp. auto.
    + pose proof (take_existing_spec path imps) as Hte.
      (* the accumulated targets of this path before the line, and the imports without it *)
      assert (Hstate : exists initial imps',
                 (match take_existing path imps with
                  | Some (e, rest) => (itargets e, rest)
                  | None => (Specific [], imps)
                  end) = (initial, imps')
                 /\ merge_targets (Specific []) (group path pre) = Some initial
                 /\ NoDup (map ipath imps') /\ ~ In path (map ipath imps')
                 /\ (forall i, In i imps' -> In i imps)
                 /\ (forall i, In i imps -> ipath i <> path -> In i imps')).
      { revert Hte. destruct (take_existing path imps) as [[e rest]|]; intros Hte.
        - destruct Hte as [He Hp]. exists (itargets e), rest. split; [reflexivity|].
          assert (Hpm : Permutation (map ipath imps) (path :: map ipath rest))
            by (rewrite <- He; apply (Permutation_map ipath) in Hp; exact Hp).
          pose proof (Permutation_NoDup Hpm Hnd) as Hnd'. inversion Hnd' as [|? ? Hn Hd']; subst.
          split; [|split; [exact Hd'|split; [exact Hn|split]]].
          + destruct (Hin e) as [_ Hm]; [eapply Permutation_in; [apply Permutation_sym; exact Hp | left; reflexivity]|].
            exact Hm.
          + intros i Hi. eapply Permutation_in; [apply Permutation_sym; exact Hp | right; exact Hi].
          + intros i Hi Hne. apply (Permutation_in _ Hp) in Hi. destruct Hi as [<-|Hi]; [congruence | exact Hi].
        - exists (Specific []), imps. split; [reflexivity|].
          assert (Hnl : has_line path pre = false).
          { destruct (has_line path pre) eqn:E; [|reflexivity].
            destruct (Hall path E) as (i & Hi & Hp). exfalso. exact (Hte i Hi Hp). }
          split; [rewrite (group_no_line _ _ Hnl); reflexivity|]. split; [exact Hnd|]. split.
          + intros Hc. apply in_map_iff in Hc. destruct Hc as (i & Hp & Hi). exact (Hte i Hi Hp).
          + split; auto. }
      destruct Hstate as (initial & imps' & Heq & Hm0 & Hnd' & Hnotin & Hsub & Hsup).
      rewrite Heq.
      assert (Hgrp : group path (pre ++ [IImport q ts path ppos]) = group path pre ++ ts).
      { rewrite group_app. cbn. rewrite str_eqb_refl, app_nil_r. reflexivity. }
      pose proof (fold_targets_merge q initial ts) as Hf.
      destruct (fold_targets q initial ts) as [e|t].
      * exists path. rewrite Hsplit, has_line_app, group_app, Hgrp, !merge_targets_app, Hm0, Hf.
        split; [|reflexivity]. rewrite has_line_app. cbn. rewrite str_eqb_refl, !orb_true_r. reflexivity.
      * rewrite Hsplit. apply IH. split; [|split; [|split]].
        -- rewrite item_defs_app, Hd. cbn. rewrite app_nil_r. reflexivity.
        -- rewrite map_app. cbn. apply NoDup_app_intro; [exact Hnd' | repeat constructor; intros [] |].
           intros x Hx [<-|[]]. exact (Hnotin Hx).
        -- intros i Hi. apply in_app_or in Hi. destruct Hi as [Hi|[<-|[]]].
           ++ assert (Hne : ipath i <> path) by (intros E; apply Hnotin; rewrite <- E; apply in_map; exact Hi).
              destruct (Hin i (Hsub i Hi)) as [Hl Hm]. rewrite has_line_app, group_app, Hl. cbn.
              destruct (str_eqb_spec path (ipath i)) as [E|_]; [congruence|]. cbn. rewrite app_nil_r. auto.
           ++ cbn [ipath itargets]. rewrite has_line_app. cbn. rewrite str_eqb_refl, orb_true_r.
              split; [reflexivity|]. rewrite Hgrp, merge_targets_app, Hm0. exact Hf.
        -- intros p Hp. destruct (str_eqb_spec path p) as [<-|Hne].
           ++ eexists. split; [apply in_or_app; right; left; reflexivity | reflexivity].
           ++ rewrite has_line_app in Hp. cbn in Hp.
              destruct (str_eqb_spec path p) as [E|_]; [congruence|]. cbn in Hp. rewrite orb_false_r in Hp.
              destruct (Hall p Hp) as (i & Hi & Hip). exists i. split; [|exact Hip].
              apply in_or_app; left. apply Hsup; [exact Hi | congruence].
Qed.

(** [resolve_extensions] succeeds exactly when every path-string group merges, keeps the
    definitions in order, and yields one import per path string carrying the merged targets *)
Theorem ext_char doc :
  match resolve_extensions doc with
  | inr f =>
      fdefs f = item_defs doc
      /\ NoDup (map ipath (fimports f))
      /\ (forall i, In i (fimports f) ->
            has_line (ipath i) doc = true
            /\ merge_targets (Specific []) (group (ipath i) doc) = Some (itargets i))
      /\ (forall p, has_line p doc = true -> exists i, In i (fimports f) /\ ipath i = p)
  | inl _ => exists p, has_line p doc = true /\ merge_targets (Specific []) (group p doc) = None
  end.
Proof. exact (ext_loop_inv doc [] [] [] ext_inv_nil). Qed.

(** what a merged import asks for is what the raw lines with its path string ask for *)
Corollary ext_requests doc f i :
  resolve_extensions doc = inr f -> In i (fimports f) ->
  match itargets i with
  | Wildcard => group (ipath i) doc = [TWild]
  | Specific ids => no_wild (group (ipath i) doc) = true /\ ids = target_ids (group (ipath i) doc)
  end.
Proof.
  intros H Hi. pose proof (ext_char doc) as Hc. rewrite H in Hc.
  destruct Hc as (_ & _ & Hin & _). destruct (Hin i Hi) as [_ Hm].
  pose proof (merge_targets_char (group (ipath i) doc)) as Hch. rewrite Hm in Hch. exact Hch.
Qed.

(** a document fails exactly when some group mixes a wildcard with anything else *)
Corollary ext_error_iff doc :
  (exists e, resolve_extensions doc = inl e) <->
  (exists p, has_line p doc = true /\ no_wild (group p doc) = false /\ group p doc <> [TWild]).
Proof.
  pose proof (ext_char doc) as Hc. split.
  - intros (e & H). rewrite H in Hc. destruct Hc as (p & Hl & Hm). exists p. split; [exact Hl|].
    pose proof (merge_targets_char (group p doc)) as Hch. rewrite Hm in Hch. exact Hch.
  - intros (p & Hl & Hw & Hne). destruct (resolve_extensions doc) as [e|f]; [eauto|].
    exfalso. destruct Hc as (_ & _ & Hin & Hall). destruct (Hall p Hl) as (i & Hi & <-).
    destruct (Hin i Hi) as [_ Hm].
    pose proof (merge_targets_char (group (ipath i) doc)) as Hch. rewrite Hm in Hch.
    destruct (itargets i); [congruence | destruct Hch; congruence].
Qed.

(** * Reordering the raw [#import] lines of a document *)

Lemma forallb_perm {A} (p : A -> bool) l l' : Permutation l l' -> forallb p l = forallb p l'.
Proof.
  induction 1 as [|x l l' _ IH|x y l|l l' l'' _ IH1 _ IH2]; cbn.
  - reflexivity.
  - rewrite IH; reflexivity.
  - destruct (p x), (p y); reflexivity.
  - congruence.
Qed.

Lemma group_perm p doc doc' : Permutation doc doc' -> Permutation (group p doc) (group p doc').
Proof. intros H. unfold group. apply Permutation_flat_map; exact H. Qed.

Lemma has_line_perm p doc doc' : Permutation doc doc' -> has_line p doc = has_line p doc'.
Proof. intros H. unfold has_line. apply existsb_perm; exact H. Qed.

Lemma group_wild_perm g g' : Permutation g g' -> g = [TWild] -> g' = [TWild].
Proof. intros H ->. apply Permutation_length_1_inv in H. exact H. Qed.

Theorem ext_perm doc doc' f :
  Permutation doc doc' -> item_defs doc = item_defs doc' ->
  resolve_extensions doc = inr f ->
  exists f', resolve_extensions doc' = inr f' /\ file_equiv f f'.
Proof.
  intros Hp Hdefs H.
  destruct (resolve_extensions doc') as [e|f'] eqn:H'.
  - exfalso.
    assert (Herr : exists e, resolve_extensions doc' = inl e) by eauto.
    apply ext_error_iff in Herr. destruct Herr as (p & Hl & Hw & Hne).
    assert (Herr0 : exists e, resolve_extensions doc = inl e).
    { apply ext_error_iff. exists p.
      pose proof (group_perm p doc doc' Hp) as Hg.
      split; [rewrite (has_line_perm p doc doc' Hp); exact Hl|]. split.
      - unfold no_wild in *. rewrite (forallb_perm _ _ _ Hg). exact Hw.
      - intros E. apply Hne. eapply group_wild_perm; eauto. }
    destruct Herr0 as (e0 & He0). congruence.
  - exists f'. split; [reflexivity|].
    pose proof (ext_char doc) as Hc. rewrite H in Hc. destruct Hc as (Hd & _ & Hin & Hall).
    pose proof (ext_char doc') as Hc'. rewrite H' in Hc'. destruct Hc' as (Hd' & _ & Hin' & Hall').
    assert (Hequiv : forall d1 d2 f1 f2 i1 i2,
               Permutation d1 d2 -> resolve_extensions d1 = inr f1 -> resolve_extensions d2 = inr f2 ->
               In i1 (fimports f1) -> In i2 (fimports f2) -> ipath i2 = ipath i1 -> imp_equiv i1 i2).
    { intros d1 d2 f1 f2 i1 i2 Hp12 H1 H2 Hi1 Hi2 Hpath.
      split; [symmetry; exact Hpath|].
      pose proof (ext_requests d1 f1 i1 H1 Hi1) as R1. pose proof (ext_requests d2 f2 i2 H2 Hi2) as R2.
      rewrite Hpath in R2.
      pose proof (group_perm (ipath i1) d1 d2 Hp12) as Hg.
      destruct (itargets i1) as [|a], (itargets i2) as [|b].
      - exact I.
      - destruct R2 as [Hnw _]. rewrite (group_wild_perm _ _ Hg R1) in Hnw. discriminate.
      - destruct R1 as [Hnw _]. apply Permutation_sym in Hg. rewrite (group_wild_perm _ _ Hg R2) in Hnw. discriminate.
      - destruct R1 as [_ ->], R2 as [_ ->]. apply Permutation_map. unfold target_ids.
        apply Permutation_flat_map. exact Hg. }
    split; [rewrite Hd, Hd'; exact Hdefs|]. split.
    + intros i Hi. destruct (Hin i Hi) as [Hl _]. rewrite (has_line_perm _ doc doc' Hp) in Hl.
      destruct (Hall' _ Hl) as (i' & Hi' & Hpath). exists i'. split; [exact Hi'|].
      exact (Hequiv doc doc' f f' i i' Hp H H' Hi Hi' Hpath).
    + intros i' Hi'. destruct (Hin' i' Hi') as [Hl _]. rewrite <- (has_line_perm _ doc doc' Hp) in Hl.
      destruct (Hall _ Hl) as (i & Hi & Hpath). exists i. split; [exact Hi|].
      exact (Hequiv doc doc' f f' i i' Hp H H' Hi Hi' (eq_sym Hpath)).
Qed.
