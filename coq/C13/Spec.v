(** C13 — specification side: the reference closure over the import graph, written from the
    property text, independently of the traversal order of the resolver.

    An import line [i] of a document at path [doc] points at the file [import_key doc i].
    A line is *reachable* from the root document if it is a line of the root, or a line of a
    file that a reachable line points at (and that is among the configured documents).
    The result the property asks for is: the root's own definitions, plus, for every
    reachable line, the fragments of its target file that the line names (all of them for a
    wildcard).  An error is due exactly when some reachable line points at a file that is not
    in the store, or names a fragment its target does not define. *)
From V Require Import Base.Util C20.Model C13.Model.

(** what a line asks of its target file (no counting, no order dependence) *)
Definition wanted (f : file) (i : import) : list def :=
  match itargets i with
  | Wildcard => filter def_is_frag (fdefs f)
  | Specific ts => filter (fun d => existsb (fun t => is_frag_named (fst t) d) ts) (fdefs f)
  end.

(** the named targets of a line that its target file does not define *)
Definition missing_names (f : file) (i : import) : list (str * pos) :=
  match itargets i with
  | Wildcard => []
  | Specific ts => filter (fun t => negb (existsb (is_frag_named (fst t)) (fdefs f))) ts
  end.

Definition is_nil {A} (l : list A) : bool := match l with [] => true | _ => false end.

(** the two errors the property speaks of *)
Definition positioned (e : ierr) : bool :=
  match e with FileNotFound _ _ | FragmentNotFound _ _ _ => true | _ => false end.

(** two stores / files that differ only in the order of import lines *)
From Coq Require Import Permutation.
Definition file_perm (f f' : file) : Prop :=
  fdefs f = fdefs f' /\ Permutation (fimports f) (fimports f').
Definition store_perm (st st' : store) : Prop :=
  Forall2 (fun a b : key * file => fst a = fst b /\ file_perm (snd a) (snd b)) st st'.

(** ... more generally: the same path strings with the same names in any order (positions may
    differ), the lines themselves in any order and multiplicity *)
Definition imp_equiv (i i' : import) : Prop :=
  ipath i = ipath i' /\
  match itargets i, itargets i' with
  | Wildcard, Wildcard => True
  | Specific a, Specific b => Permutation (map fst a) (map fst b)
  | _, _ => False
  end.
Definition imps_equiv (l l' : list import) : Prop :=
  (forall i, In i l -> exists i', In i' l' /\ imp_equiv i i')
  /\ (forall i', In i' l' -> exists i, In i l /\ imp_equiv i i').
Definition file_equiv (f f' : file) : Prop :=
  fdefs f = fdefs f' /\ imps_equiv (fimports f) (fimports f').
Definition store_equiv (st st' : store) : Prop :=
  Forall2 (fun a b : key * file => fst a = fst b /\ file_equiv (snd a) (snd b)) st st'.

Section Spec.
  Variable st : store.

  (** [RL doc imps k i]: [i] is an import line reachable from the document [(doc, imps)], and it
      points at [k]. *)
  Inductive RL (doc : key) (imps : list import) : key -> import -> Prop :=
  | RL_root i : In i imps -> RL doc imps (import_key doc i) i
  | RL_step k i f j : RL doc imps k i -> lookup st k = Some f -> In j (fimports f) ->
                      RL doc imps (import_key k j) j.

  (** a reachable line asks for [d] *)
  Definition Requested (doc : key) (imps : list import) (d : def) : Prop :=
    exists k i f, RL doc imps k i /\ lookup st k = Some f /\ In d (wanted f i).

  (** the reference result, as a set *)
  Definition Closure (root_path : key) (root : file) (d : def) : Prop :=
    In d (fdefs root) \/ Requested root_path (fimports root) d.

  (** a reachable line that must produce an error *)
  Definition BadLine (doc : key) (imps : list import) : Prop :=
    exists k i, RL doc imps k i /\
      match lookup st k with
      | None => True
      | Some f => missing_names f i <> []
      end.

  (** what each kind of failure of the resolver must be justified by: a reachable line that points
      at no configured file (with that line's path string and path position), resp. that names a
      fragment its target does not define (with that name's position) *)
  Definition Justified (doc : key) (imps : list import) (e : ierr) : Prop :=
    match e with
    | FileNotFound file p =>
        exists k i, RL doc imps k i /\ lookup st k = None /\ file = ipath i /\ p = ipos i
    | FragmentNotFound n file p =>
        exists k i f, RL doc imps k i /\ lookup st k = Some f /\ In (n, p) (missing_names f i)
                      /\ file = ipath i
    | OutOfFuel => True
    end.

  (** * Computable side: a candidate set [ks] of reached keys *)

  (** the lines of the files at the keys [ks] together with the root's lines, each with the key it
      points at *)
  Definition lines_of (doc : key) (imps : list import) : list (key * import) :=
    map (fun i => (import_key doc i, i)) imps.

  Definition file_lines (k : key) : list (key * import) :=
    match lookup st k with Some f => lines_of k (fimports f) | None => [] end.

  Definition all_lines (root_path : key) (root : file) (ks : list key) : list (key * import) :=
    lines_of root_path (fimports root) ++ flat_map file_lines ks.

  (** [ks] is closed: every line of the root and of a file at a key in [ks] points into [ks] *)
  Definition closed_b (root_path : key) (root : file) (ks : list key) : bool :=
    forallb (fun l => mem_key (fst l) ks) (all_lines root_path root ks).

  (** breadth-first computation of the reached keys (fuel = number of rounds) *)
  Fixpoint add_new (new ks : list key) : list key :=
    match new with
    | [] => ks
    | k :: r => if mem_key k ks then add_new r ks else add_new r (ks ++ [k])
    end.
  Fixpoint reach_iter (n : nat) (ks : list key) : list key :=
    match n with
    | O => ks
    | S n' => reach_iter n' (add_new (map fst (flat_map file_lines ks)) ks)
    end.
  Definition reach_b (root_path : key) (root : file) : list key :=
    reach_iter (S (length st)) (add_new (map fst (lines_of root_path (fimports root))) []).

  (** * Guards *)

  Definition mem_def (d : def) (l : list def) : bool := existsb (def_eqb d) l.
  Definition subset_defs (a b : list def) : bool := forallb (fun d => mem_def d b) a.
  Definition same_defs (a b : list def) : bool := subset_defs a b && subset_defs b a.

  Fixpoint nodup_defs (l : list def) : bool :=
    match l with [] => true | d :: r => negb (mem_def d r) && nodup_defs r end.
  Fixpoint nodup_keys (l : list key) : bool :=
    match l with [] => true | k :: r => negb (mem_key k r) && nodup_keys r end.
  Fixpoint nodup_strs (l : list str) : bool :=
    match l with [] => true | x :: r => negb (existsb (str_eqb x) r) && nodup_strs r end.

  Definition defs_at (k : key) : list def :=
    match lookup st k with Some f => fdefs f | None => [] end.

  (** two lines that point at the same file ask for the same fragments (and are both
      satisfiable or both not) *)
  Definition lines_agree (a b : key * import) : bool :=
    if key_eqb (fst a) (fst b) then
      match lookup st (fst a) with
      | Some f => same_defs (wanted f (snd a)) (wanted f (snd b))
                  && Bool.eqb (is_nil (missing_names f (snd a))) (is_nil (missing_names f (snd b)))
      | None => true
      end
    else true.

  Definition agree_b (ls : list (key * import)) : bool :=
    forallb (fun a => forallb (lines_agree a) ls) ls.

  (** nothing a line asks for is one of the root's own definitions *)
  Definition rootsep_b (root : file) (ls : list (key * import)) : bool :=
    forallb (fun l => match lookup st (fst l) with
                      | Some f => forallb (fun d => negb (mem_def d (fdefs root))) (wanted f (snd l))
                      | None => true
                      end) ls.

  (** definitions are distinguishable: no definition occurs twice among the root's own, nor
      among those of the files at [ks] ([ks] itself without repetition) *)
  Definition distinct_b (root : file) (ks : list key) : bool :=
    nodup_keys ks && nodup_defs (fdefs root) && nodup_defs (flat_map defs_at ks).

  (** the guard of [imports_exact]: computed on a closed candidate set *)
  Definition exact_guard_b (root_path : key) (root : file) (ks : list key) : bool :=
    closed_b root_path root ks
    && distinct_b root ks
    && agree_b (all_lines root_path root ks)
    && rootsep_b root (all_lines root_path root ks).

  Definition target_names (i : import) : list str :=
    match itargets i with Wildcard => [] | Specific ts => map fst ts end.

  Definition error_guard_b (root_path : key) (root : file) (ks : list key) : bool :=
    closed_b root_path root ks && agree_b (all_lines root_path root ks).

End Spec.

(** * The guards at [ks := reach_b]: they speak about reachable lines only *)
Definition guard_exact (st : store) (root_path : key) (root : file) : bool :=
  let ks := reach_b st root_path root in
  distinct_b st root ks
  && agree_b st (all_lines st root_path root ks)
  && rootsep_b st root (all_lines st root_path root ks).


(** * The property at full strength (no guard) — refuted for the current code, see
      [C13_exact_full_refuted] etc.; the theorems that do hold carry explicit computable guards. *)
Definition imports_exact_full : Prop :=
  forall st root_path root ds,
    resolve_imports st root_path root = inr ds ->
    (forall d, In d ds <-> Closure st root_path root d) /\ NoDup ds.
Definition imports_error_iff_full : Prop :=
  forall st root_path root,
    BadLine st root_path (fimports root) <->
    exists e, resolve_imports st root_path root = inl e /\ positioned e = true.

(** * Reference reading of [resolve_operation_extensions]

    The import lines of one document are grouped by path *string*.  A group is merged by a small
    state machine over the concatenation of the lines' targets: names accumulate; a wildcard is
    accepted only as the first and only target of the whole group. *)
Definition item_defs (doc : list item) : list def :=
  flat_map (fun it => match it with IDef d => [d] | _ => [] end) doc.
Definition group (path : str) (doc : list item) : list target :=
  flat_map (fun it => match it with
                      | IImport _ ts p _ => if str_eqb p path then ts else []
                      | IDef _ => []
                      end) doc.
Definition has_line (path : str) (doc : list item) : bool :=
  existsb (fun it => match it with IImport _ _ p _ => str_eqb p path | IDef _ => false end) doc.
Fixpoint merge_targets (acc : targets) (ts : list target) : option targets :=
  match ts with
  | [] => Some acc
  | t :: r =>
      match acc with
      | Wildcard => None
      | Specific ids =>
          match t with
          | TWild => match ids with [] => merge_targets Wildcard r | _ :: _ => None end
          | TName n q => merge_targets (Specific (ids ++ [(n, q)])) r
          end
      end
  end.
Definition target_ids (ts : list target) : list (str * pos) :=
  flat_map (fun t => match t with TName n q => [(n, q)] | TWild => [] end) ts.
Definition no_wild (ts : list target) : bool :=
  forallb (fun t => match t with TWild => false | _ => true end) ts.

(** * The same closure read directly on the parsed documents (raw [#import] lines, before any
      merging) — the form in which the property text states it *)
Definition docs := list (key * list item).
Fixpoint doc_lookup (ds : docs) (k : key) : option (list item) :=
  match ds with
  | [] => None
  | (k', its) :: r => if key_eqb k' k then Some its else doc_lookup r k
  end.
Definition target_matches (d : def) (t : target) : bool :=
  match t with TWild => true | TName n _ => str_eqb n (def_name d) end.
Definition raw_wanted (its : list item) (ts : list target) : list def :=
  filter (fun d => def_is_frag d && existsb (target_matches d) ts) (item_defs its).

(** [RLraw ds doc items k ts]: a raw import line with targets [ts], reachable from the document
    [(doc, items)], points at [k] *)
Inductive RLraw (ds : docs) (doc : key) (items : list item) : key -> list target -> Prop :=
| RLraw_root p ts path pp :
    In (IImport p ts path pp) items -> RLraw ds doc items (resolve doc (components path)) ts
| RLraw_step k ts its p ts' path pp :
    RLraw ds doc items k ts -> doc_lookup ds k = Some its -> In (IImport p ts' path pp) its ->
    RLraw ds doc items (resolve k (components path)) ts'.

Definition RawClosure (ds : docs) (root_path : key) (root : list item) (d : def) : Prop :=
  In d (item_defs root) \/
  exists k ts its, RLraw ds root_path root k ts /\ doc_lookup ds k = Some its /\ In d (raw_wanted its ts).

(** the store the resolvers work on: every document through [resolve_extensions] *)
Definition StoreOf (ds : docs) (st : store) : Prop :=
  Forall2 (fun (a : key * list item) (b : key * file) =>
             fst a = fst b /\ resolve_extensions (snd a) = inr (snd b)) ds st.

