(** C13 — proofs about the model of the import resolver (C13/Model.v) against the reference
    closure (C13/Spec.v). *)
From V Require Import Base.Util C20.Model C13.Model C13.Spec.
From Coq Require Import Permutation.

(** * Decidable equalities reflected *)

Lemma comp_eqb_spec a b : reflect (a = b) (comp_eqb a b).
Proof.
  destruct a, b; cbn; try (constructor; congruence).
  destruct (str_eqb_spec n n0) as [->|Hn]; constructor; congruence.
Qed.

Lemma key_eqb_spec a b : reflect (a = b) (key_eqb a b).
Proof.
  revert b; induction a as [|x a IH]; intros [|y b]; cbn; try (constructor; congruence).
  destruct (comp_eqb_spec x y) as [->|Hn]; cbn.
  - destruct (IH b) as [->|Hn]; constructor; congruence.
  - constructor; congruence.
Qed.

Lemma key_eqb_refl a : key_eqb a a = true.
Proof. destruct (key_eqb_spec a a); congruence. Qed.

Lemma mem_key_In k ks : mem_key k ks = true <-> In k ks.
Proof.
  unfold mem_key; rewrite existsb_exists; split.
  - intros (x & Hx & He). destruct (key_eqb_spec k x); [subst; auto | discriminate].
  - intros H; exists k; split; [auto | apply key_eqb_refl].
Qed.

Lemma mem_key_false k ks : mem_key k ks = false <-> ~ In k ks.
Proof.
  rewrite <- mem_key_In. destruct (mem_key k ks); split; intros; try congruence; auto.
Qed.

Lemma pos_eqb_spec a b : reflect (a = b) (pos_eqb a b).
Proof.
  destruct a as [l c f], b as [l' c' f']; cbn.
  destruct (N.eqb_spec l l'), (N.eqb_spec c c'), (N.eqb_spec f f'); cbn; constructor; congruence.
Qed.

Lemma def_eqb_spec a b : reflect (a = b) (def_eqb a b).
Proof.
  destruct a as [f n i], b as [f' n' i']; cbn.
  destruct (Bool.eqb_spec f f'), (str_eqb_spec n n'), (N.eqb_spec i i'); cbn; constructor; congruence.
Qed.

Lemma mem_def_In d l : mem_def d l = true <-> In d l.
Proof.
  unfold mem_def; rewrite existsb_exists; split.
  - intros (x & Hx & He). destruct (def_eqb_spec d x); [subst; auto | discriminate].
  - intros H; exists d; split; [auto | destruct (def_eqb_spec d d); congruence].
Qed.

Lemma subset_defs_incl a b : subset_defs a b = true <-> incl a b.
Proof.
  unfold subset_defs; rewrite forallb_forall; split; intros H d Hd.
  - apply mem_def_In; auto.
  - apply mem_def_In; auto.
Qed.

Lemma same_defs_spec a b : same_defs a b = true <-> (forall d, In d a <-> In d b).
Proof.
  unfold same_defs; rewrite andb_true_iff, !subset_defs_incl; split.
  - intros [H1 H2] d; split; auto.
  - intros H; split; intros d Hd; apply H; auto.
Qed.

Lemma nodup_defs_NoDup l : nodup_defs l = true <-> NoDup l.
Proof.
  induction l as [|d r IH]; cbn.
  - split; [constructor | reflexivity].
  - rewrite andb_true_iff, negb_true_iff, IH; split.
    + intros [Hm Hn]; constructor; auto. intros Hin; apply mem_def_In in Hin; congruence.
    + intros Hn; inversion Hn as [|? ? Hnotin Hnd]; subst; split; auto.
      destruct (mem_def d r) eqn:E; auto. apply mem_def_In in E; contradiction.
Qed.

Lemma nodup_keys_NoDup l : nodup_keys l = true <-> NoDup l.
Proof.
  induction l as [|d r IH]; cbn.
  - split; [constructor | reflexivity].
  - rewrite andb_true_iff, negb_true_iff, IH; split.
    + intros [Hm Hn]; constructor; auto. apply mem_key_false; auto.
    + intros Hn; inversion Hn as [|? ? Hnotin Hnd]; subst; split; auto.
      apply mem_key_false; auto.
Qed.

Lemma existsb_str_In x l : existsb (str_eqb x) l = true <-> In x l.
Proof.
  rewrite existsb_exists; split.
  - intros (y & Hy & He). destruct (str_eqb_spec x y); [subst; auto | discriminate].
  - intros H; exists x; split; [auto | apply str_eqb_refl].
Qed.

Lemma nodup_strs_NoDup l : nodup_strs l = true <-> NoDup l.
Proof.
  induction l as [|d r IH]; cbn.
  - split; [constructor | reflexivity].
  - rewrite andb_true_iff, negb_true_iff, IH; split.
    + intros [Hm Hn]; constructor; auto. intros Hin; apply existsb_str_In in Hin; congruence.
    + intros Hn; inversion Hn as [|? ? Hnotin Hnd]; subst; split; auto.
      destruct (existsb (str_eqb d) r) eqn:E; auto. apply existsb_str_In in E; contradiction.
Qed.

(** * [select] against [wanted] / [missing_names] *)

Lemma is_frag_named_spec n d : is_frag_named n d = true <-> def_is_frag d = true /\ def_name d = n.
Proof.
  destruct d as [[|] m i]; cbn.
  - destruct (str_eqb_spec n m); split; intros; try tauto; try congruence.
    + split; congruence.
    + destruct H as [_ H]; congruence.
  - split; [discriminate | intros [H _]; discriminate].
Qed.

Lemma select_ok f i sel : select f i = inr sel -> sel = wanted f i.
Proof.
  unfold select, wanted. destruct (itargets i) as [|ts].
  - congruence.
  - destruct (Nat.ltb _ _); [destruct (find _ ts); discriminate | congruence].
Qed.

(** the three ways [select] can fail / succeed, in terms of the spec-side functions *)
Lemma select_cases f i :
  match select f i with
  | inr sel => sel = wanted f i /\
               (match itargets i with Wildcard => True
                                 | Specific ts => length ts <= length (wanted f i) end)
  | inl (FragmentNotFound n file p) =>
      exists ts, itargets i = Specific ts /\ In (n, p) (missing_names f i) /\ file = ipath i
  | inl PanicMissingTarget =>
      exists ts, itargets i = Specific ts /\ missing_names f i = [] /\ length (wanted f i) < length ts
  | inl _ => False
  end.
Proof.
  unfold select, wanted, missing_names. destruct (itargets i) as [|ts]; [auto|].
  destruct (Nat.ltb_spec (length (filter (fun d => existsb (fun t => is_frag_named (fst t) d) ts) (fdefs f)))
                         (length ts)) as [Hlt|Hge].
  - destruct (find _ ts) as [t|] eqn:Hf.
    + apply find_some in Hf. destruct Hf as [Hin Hb]. exists ts; repeat split; auto.
      apply filter_In; split; [destruct t; auto | auto].
    + exists ts; repeat split; auto.
      destruct (filter _ ts) as [|t r] eqn:Hfl; [reflexivity|].
      assert (Hin : In t (filter (fun t => negb (existsb (is_frag_named (fst t)) (fdefs f))) ts))
        by (rewrite Hfl; left; reflexivity).
      apply filter_In in Hin. destruct Hin as [Hin Hb].
      pose proof (find_none _ _ Hf t Hin) as Hn. cbn in Hn. congruence.
  - split; [reflexivity | lia].
Qed.

(** * The traversal: success *)

Section Traversal.
  Variable st : store.

  Notation RLs := (RL st).

  Lemma RL_mono doc imps imps' k i : incl imps imps' -> RLs doc imps k i -> RLs doc imps' k i.
  Proof.
    intros Hincl H; induction H as [i Hi | k i f j _ IH Hl Hj].
    - apply RL_root; auto.
    - eapply RL_step; eauto.
  Qed.

  (** lines reachable from a file that a reachable line points at are reachable *)
  Lemma RL_trans doc imps k i f k' j :
    RLs doc imps k i -> lookup st k = Some f -> RLs k (fimports f) k' j -> RLs doc imps k' j.
  Proof.
    intros H Hl H'; induction H' as [j Hj | k' j0 f' j _ IH Hl' Hj].
    - eapply RL_step; eauto.
    - eapply RL_step; eauto.
  Qed.

  (** one processed import line: the key it points at, the line, the file found there *)
  Definition entry := (key * import * file)%type.
  Definition ekey (e : entry) : key := fst (fst e).
  Definition edefs (e : entry) : list def := wanted (snd e) (snd (fst e)).
  Definition tr_defs (tr : list entry) : list def := flat_map edefs tr.

  (** what a successful (sub)traversal of [(doc, imps)] from [vis], [acc] to [vis'], [acc']
      establishes *)
  Definition ok_post (doc : key) (imps : list import) (vis : list key) (acc : list def)
             (vis' : list key) (acc' : list def) : Prop :=
    exists tr : list entry,
      acc' = acc ++ tr_defs tr
      /\ (forall k, In k vis' <-> In k vis \/ In k (map ekey tr))
      /\ NoDup (map ekey tr)
      /\ (forall k, In k (map ekey tr) -> ~ In k vis)
      /\ (forall k i f, In (k, i, f) tr ->
            lookup st k = Some f /\ select f i = inr (wanted f i) /\ RLs doc imps k i)
      /\ (forall k i f, In (k, i, f) tr -> forall j, In j (fimports f) -> In (import_key k j) vis')
      /\ (forall i, In i imps -> In (import_key doc i) vis').

  Definition recur_ok (recur : key -> list import -> list key -> list def -> ierr + rstate) : Prop :=
    forall doc imps vis acc vis' acc',
      recur doc imps vis acc = inr (vis', acc') -> ok_post doc imps vis acc vis' acc'.

  Lemma NoDup_app_intro {A} (l1 l2 : list A) :
    NoDup l1 -> NoDup l2 -> (forall x, In x l1 -> ~ In x l2) -> NoDup (l1 ++ l2).
  Proof.
    induction l1 as [|a l1 IH]; intros H1 H2 Hd; cbn; auto.
    inversion H1 as [|? ? Hna Hnd]; subst. constructor.
    - rewrite in_app_iff; intros [Hin|Hin]; [auto | apply (Hd a); cbn; auto].
    - apply IH; auto. intros x Hx; apply Hd; cbn; auto.
  Qed.

  Lemma loop_ok recur doc :
    recur_ok recur ->
    forall imps vis acc vis' acc',
      import_loop recur st doc imps vis acc = inr (vis', acc') ->
      ok_post doc imps vis acc vis' acc'.
  Proof.
    intros Hrec; induction imps as [|i rest IH]; intros vis acc vis' acc' H; cbn [import_loop] in H.
    - inversion H; subst. exists []. cbn. rewrite app_nil_r.
      split; [reflexivity|]. split; [intros k; tauto|]. split; [constructor|].
      split; [intros k []|]. split; [intros k i f []|]. split; [intros k i f []|]. intros i [].
    - destruct (mem_key (import_key doc i) vis) eqn:Hmem.
      + apply IH in H. destruct H as (tr & Hacc & Hvis & Hnd & Hfresh & Hent & Hclosed & Himps).
        exists tr.
        split; [exact Hacc|]. split; [exact Hvis|]. split; [exact Hnd|]. split; [exact Hfresh|].
        split; [|split; [exact Hclosed|]].
        * intros k i0 f Hin. destruct (Hent k i0 f Hin) as (Hl & Hs & Hr).
          split; [exact Hl|]. split; [exact Hs|].
          eapply RL_mono; [|exact Hr]. intros x Hx; right; exact Hx.
        * intros i0 [<-|Hin]; [|auto]. apply Hvis. left. apply mem_key_In; exact Hmem.
      + destruct (lookup st (import_key doc i)) as [f|] eqn:Hl; [|discriminate].
        destruct (recur (import_key doc i) (fimports f) (import_key doc i :: vis) acc)
          as [e|[v1 a1]] eqn:Hr; [discriminate|].
        destruct (select f i) as [e|sel] eqn:Hs; [discriminate|].
        apply Hrec in Hr. apply IH in H.
        destruct Hr as (tr1 & Hacc1 & Hvis1 & Hnd1 & Hfresh1 & Hent1 & Hclosed1 & Himps1).
        destruct H as (tr2 & Hacc2 & Hvis2 & Hnd2 & Hfresh2 & Hent2 & Hclosed2 & Himps2).
        pose proof (select_ok _ _ _ Hs) as Hsel. subst sel.
        set (p := import_key doc i) in *.
        assert (Hp_notin : ~ In p vis) by (apply mem_key_false; exact Hmem).
        exists (tr1 ++ (p, i, f) :: tr2).
        assert (Hkeys : map ekey (tr1 ++ (p, i, f) :: tr2) = map ekey tr1 ++ p :: map ekey tr2)
          by (rewrite map_app; reflexivity).
        assert (Hv1_sub : forall k, In k v1 -> In k vis') by (intros k Hk; apply Hvis2; left; exact Hk).
        split; [|split; [|split; [|split; [|split; [|split]]]]].
        * subst acc' a1. unfold tr_defs. rewrite flat_map_app. cbn [flat_map].
          unfold edefs at 2. cbn [fst snd]. rewrite <- !app_assoc. reflexivity.
        * intros k. rewrite Hkeys, Hvis2, Hvis1, in_app_iff. cbn [In]. tauto.
        * rewrite Hkeys. apply NoDup_app_intro; [exact Hnd1| |].
          -- constructor; [|exact Hnd2].
             intros Hin. apply (Hfresh2 p Hin). apply Hvis1. left; left; reflexivity.
          -- intros k Hk1 [<-|Hk2].
             ++ apply (Hfresh1 p Hk1). left; reflexivity.
             ++ apply (Hfresh2 k Hk2). apply Hvis1. right; exact Hk1.
        * intros k. rewrite Hkeys, in_app_iff. cbn [In]. intros [Hk|[<-|Hk]] Hin.
          -- apply (Hfresh1 k Hk). right; exact Hin.
          -- exact (Hp_notin Hin).
          -- apply (Hfresh2 k Hk). apply Hvis1. left; right; exact Hin.
        * intros k i0 f0 Hin. apply in_app_or in Hin. destruct Hin as [Hin|[Heq|Hin]].
          -- destruct (Hent1 k i0 f0 Hin) as (Hl1 & Hs1 & Hr1).
             split; [exact Hl1|]. split; [exact Hs1|].
             eapply RL_trans; [apply RL_root; left; reflexivity | exact Hl | exact Hr1].
          -- inversion Heq; subst k i0 f0. split; [exact Hl|]. split; [exact Hs|].
             apply RL_root; left; reflexivity.
          -- destruct (Hent2 k i0 f0 Hin) as (Hl2 & Hs2 & Hr2).
             split; [exact Hl2|]. split; [exact Hs2|].
             eapply RL_mono; [|exact Hr2]. intros x Hx; right; exact Hx.
        * intros k i0 f0 Hin j Hj. apply in_app_or in Hin. destruct Hin as [Hin|[Heq|Hin]].
          -- apply Hv1_sub. eapply Hclosed1; eauto.
          -- inversion Heq; subst k i0 f0. apply Hv1_sub. apply Himps1; exact Hj.
          -- eapply Hclosed2; eauto.
        * intros i0 [<-|Hin]; [|apply Himps2; exact Hin].
          apply Hv1_sub. apply Hvis1. left; left; reflexivity.
  Qed.

  Lemma rec_ok fuel : recur_ok (imports_rec fuel st).
  Proof.
    induction fuel as [|n IH]; intros doc imps vis acc vis' acc' H; cbn [imports_rec] in H.
    - discriminate.
    - eapply loop_ok; eauto.
  Qed.
End Traversal.
