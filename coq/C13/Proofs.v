(** C13 — proofs about the model of the import resolver (C13/Model.v) against the reference
    closure (C13/Spec.v). *)
From V Require Import Base.Util C20.Model C13.Model C13.Spec.
From Coq Require Import Permutation.

(** * Decidable equalities reflected *)

Lemma comp_eqb_spec a b : reflect (a = b) (comp_eqb a b).
Proof.
  destruct a, b; cbn; try (constructor; congruence).
  destruct (str_eqb_spec n n0) as [->|Hn]; constructor; congruence.
Qed.

Lemma key_eqb_spec a b : reflect (a = b) (key_eqb a b).
Proof.
  revert b; induction a as [|x a IH]; intros [|y b]; cbn; try (constructor; congruence).
  destruct (comp_eqb_spec x y) as [->|Hn]; cbn.
  - destruct (IH b) as [->|Hn]; constructor; congruence.
  - constructor; congruence.
Qed.

Lemma key_eqb_refl a : key_eqb a a = true.
Proof. destruct (key_eqb_spec a a); congruence. Qed.

Lemma mem_key_In k ks : mem_key k ks = true <-> In k ks.
Proof.
  unfold mem_key; rewrite existsb_exists; split.
  - intros (x & Hx & He). destruct (key_eqb_spec k x); [subst; auto | discriminate].
  - intros H; exists k; split; [auto | apply key_eqb_refl].
Qed.

Lemma mem_key_false k ks : mem_key k ks = false <-> ~ In k ks.
Proof.
  rewrite <- mem_key_In. destruct (mem_key k ks); split; intros; try congruence; auto.
Qed.

Lemma pos_eqb_spec a b : reflect (a = b) (pos_eqb a b).
Proof.
  destruct a as [l c f], b as [l' c' f']; cbn.
  destruct (N.eqb_spec l l'), (N.eqb_spec c c'), (N.eqb_spec f f'); cbn; constructor; congruence.
Qed.

Lemma def_eqb_spec a b : reflect (a = b) (def_eqb a b).
Proof.
  destruct a as [f n i], b as [f' n' i']; cbn.
  destruct (Bool.eqb_spec f f'), (str_eqb_spec n n'), (N.eqb_spec i i'); cbn; constructor; congruence.
Qed.

Lemma mem_def_In d l : mem_def d l = true <-> In d l.
Proof.
  unfold mem_def; rewrite existsb_exists; split.
  - intros (x & Hx & He). destruct (def_eqb_spec d x); [subst; auto | discriminate].
  - intros H; exists d; split; [auto | destruct (def_eqb_spec d d); congruence].
Qed.

Lemma subset_defs_incl a b : subset_defs a b = true <-> incl a b.
Proof.
  unfold subset_defs; rewrite forallb_forall; split; intros H d Hd.
  - apply mem_def_In; auto.
  - apply mem_def_In; auto.
Qed.

Lemma same_defs_spec a b : same_defs a b = true <-> (forall d, In d a <-> In d b).
Proof.
  unfold same_defs; rewrite andb_true_iff, !subset_defs_incl; split.
  - intros [H1 H2] d; split; auto.
  - intros H; split; intros d Hd; apply H; auto.
Qed.

Lemma nodup_defs_NoDup l : nodup_defs l = true <-> NoDup l.
Proof.
  induction l as [|d r IH]; cbn.
  - split; [constructor | reflexivity].
  - rewrite andb_true_iff, negb_true_iff, IH; split.
    + intros [Hm Hn]; constructor; auto. intros Hin; apply mem_def_In in Hin; congruence.
    + intros Hn; inversion Hn as [|? ? Hnotin Hnd]; subst; split; auto.
      destruct (mem_def d r) eqn:E; auto. apply mem_def_In in E; contradiction.
Qed.

Lemma nodup_keys_NoDup l : nodup_keys l = true <-> NoDup l.
Proof.
  induction l as [|d r IH]; cbn.
  - split; [constructor | reflexivity].
  - rewrite andb_true_iff, negb_true_iff, IH; split.
    + intros [Hm Hn]; constructor; auto. apply mem_key_false; auto.
    + intros Hn; inversion Hn as [|? ? Hnotin Hnd]; subst; split; auto.
      apply mem_key_false; auto.
Qed.

Lemma existsb_str_In x l : existsb (str_eqb x) l = true <-> In x l.
Proof.
  rewrite existsb_exists; split.
  - intros (y & Hy & He). destruct (str_eqb_spec x y); [subst; auto | discriminate].
  - intros H; exists x; split; [auto | apply str_eqb_refl].
Qed.

Lemma nodup_strs_NoDup l : nodup_strs l = true <-> NoDup l.
Proof.
  induction l as [|d r IH]; cbn.
  - split; [constructor | reflexivity].
  - rewrite andb_true_iff, negb_true_iff, IH; split.
    + intros [Hm Hn]; constructor; auto. intros Hin; apply existsb_str_In in Hin; congruence.
    + intros Hn; inversion Hn as [|? ? Hnotin Hnd]; subst; split; auto.
      destruct (existsb (str_eqb d) r) eqn:E; auto. apply existsb_str_In in E; contradiction.
Qed.

(** * [select] against [wanted] / [missing_names] *)

Lemma is_frag_named_spec n d : is_frag_named n d = true <-> def_is_frag d = true /\ def_name d = n.
Proof.
  destruct d as [[|] m i]; cbn.
  - destruct (str_eqb_spec n m); split; intros; try tauto; try congruence.
    + split; congruence.
    + destruct H as [_ H]; congruence.
  - split; [discriminate | intros [H _]; discriminate].
Qed.

(** [select] is exact: it succeeds with the wanted fragments iff no requested name is missing, and
    otherwise reports the first missing name with its own position *)
Lemma select_cases f i :
  match select f i with
  | inr sel => sel = wanted f i /\ missing_names f i = []
  | inl e => exists n p rest, missing_names f i = (n, p) :: rest /\ e = FragmentNotFound n (ipath i) p
  end.
Proof.
  unfold select, wanted, missing_names. destruct (itargets i) as [|ts]; [auto|].
  induction ts as [|t r IH]; cbn [find filter]; [auto|].
  destruct (negb (existsb (is_frag_named (fst t)) (fdefs f))) eqn:E.
  - destruct t as [n p]. exists n, p. eexists. split; reflexivity.
  - destruct (find _ r) as [t'|] eqn:Hf.
    + destruct IH as (n & p & rest & Hm & He). exists n, p, rest. split; [exact Hm | exact He].
    + split; [reflexivity | apply IH].
Qed.

Lemma select_ok f i sel : select f i = inr sel -> sel = wanted f i.
Proof. intros H. pose proof (select_cases f i) as Hc. rewrite H in Hc. tauto. Qed.

Lemma select_ok_no_missing f i sel : select f i = inr sel -> missing_names f i = [].
Proof. intros H. pose proof (select_cases f i) as Hc. rewrite H in Hc. tauto. Qed.

(** * The traversal: success *)

Section Traversal.
  Variable st : store.

  Notation RLs := (RL st).

  Lemma RL_mono doc imps imps' k i : incl imps imps' -> RLs doc imps k i -> RLs doc imps' k i.
  Proof.
    intros Hincl H; induction H as [i Hi | k i f j _ IH Hl Hj].
    - apply RL_root; auto.
    - eapply RL_step; eauto.
  Qed.

  (** lines reachable from a file that a reachable line points at are reachable *)
  Lemma RL_trans doc imps k i f k' j :
    RLs doc imps k i -> lookup st k = Some f -> RLs k (fimports f) k' j -> RLs doc imps k' j.
  Proof.
    intros H Hl H'; induction H' as [j Hj | k' j0 f' j _ IH Hl' Hj].
    - eapply RL_step; eauto.
    - eapply RL_step; eauto.
  Qed.

  (** one processed import line: the key it points at, the line, the file found there *)
  Definition entry := (key * import * file)%type.
  Definition ekey (e : entry) : key := fst (fst e).
  Definition edefs (e : entry) : list def := wanted (snd e) (snd (fst e)).
  Definition tr_defs (tr : list entry) : list def := flat_map edefs tr.

  (** what a successful (sub)traversal of [(doc, imps)] from [vis], [acc] to [vis'], [acc']
      establishes *)
  Definition ok_post (doc : key) (imps : list import) (vis : list key) (acc : list def)
             (vis' : list key) (acc' : list def) : Prop :=
    exists tr : list entry,
      acc' = acc ++ tr_defs tr
      /\ (forall k, In k vis' <-> In k vis \/ In k (map ekey tr))
      /\ NoDup (map ekey tr)
      /\ (forall k, In k (map ekey tr) -> ~ In k vis)
      /\ (forall k i f, In (k, i, f) tr ->
            lookup st k = Some f /\ select f i = inr (wanted f i) /\ RLs doc imps k i)
      /\ (forall k i f, In (k, i, f) tr -> forall j, In j (fimports f) -> In (import_key k j) vis')
      /\ (forall i, In i imps -> In (import_key doc i) vis').

  Definition recur_ok (recur : key -> list import -> list key -> list def -> ierr + rstate) : Prop :=
    forall doc imps vis acc vis' acc',
      recur doc imps vis acc = inr (vis', acc') -> ok_post doc imps vis acc vis' acc'.

  Lemma NoDup_app_intro {A} (l1 l2 : list A) :
    NoDup l1 -> NoDup l2 -> (forall x, In x l1 -> ~ In x l2) -> NoDup (l1 ++ l2).
  Proof.
    induction l1 as [|a l1 IH]; intros H1 H2 Hd; cbn; auto.
    inversion H1 as [|? ? Hna Hnd]; subst. constructor.
    - rewrite in_app_iff; intros [Hin|Hin]; [auto | apply (Hd a); cbn; auto].
    - apply IH; auto. intros x Hx; apply Hd; cbn; auto.
  Qed.

  Lemma loop_ok recur doc :
    recur_ok recur ->
    forall imps vis acc vis' acc',
      import_loop recur st doc imps vis acc = inr (vis', acc') ->
      ok_post doc imps vis acc vis' acc'.
  Proof.
    intros Hrec; induction imps as [|i rest IH]; intros vis acc vis' acc' H; cbn [import_loop] in H.
    - inversion H; subst. exists []. cbn. rewrite app_nil_r.
      split; [reflexivity|]. split; [intros k; tauto|]. split; [constructor|].
      split; [intros k []|]. split; [intros k i f []|]. split; [intros k i f []|]. intros i [].
    - destruct (mem_key (import_key doc i) vis) eqn:Hmem.
      + apply IH in H. destruct H as (tr & Hacc & Hvis & Hnd & Hfresh & Hent & Hclosed & Himps).
        exists tr.
        split; [exact Hacc|]. split; [exact Hvis|]. split; [exact Hnd|]. split; [exact Hfresh|].
        split; [|split; [exact Hclosed|]].
        * intros k i0 f Hin. destruct (Hent k i0 f Hin) as (Hl & Hs & Hr).
          split; [exact Hl|]. split; [exact Hs|].
          eapply RL_mono; [|exact Hr]. intros x Hx; right; exact Hx.
        * intros i0 [<-|Hin]; [|auto]. apply Hvis. left. apply mem_key_In; exact Hmem.
      + destruct (lookup st (import_key doc i)) as [f|] eqn:Hl; [|discriminate].
        destruct (recur (import_key doc i) (fimports f) (import_key doc i :: vis) acc)
          as [e|[v1 a1]] eqn:Hr; [discriminate|].
        destruct (select f i) as [e|sel] eqn:Hs; [discriminate|].
        apply Hrec in Hr. apply IH in H.
        destruct Hr as (tr1 & Hacc1 & Hvis1 & Hnd1 & Hfresh1 & Hent1 & Hclosed1 & Himps1).
        destruct H as (tr2 & Hacc2 & Hvis2 & Hnd2 & Hfresh2 & Hent2 & Hclosed2 & Himps2).
        pose proof (select_ok _ _ _ Hs) as Hsel. subst sel.
        set (p := import_key doc i) in *.
        assert (Hp_notin : ~ In p vis) by (apply mem_key_false; exact Hmem).
        exists (tr1 ++ (p, i, f) :: tr2).
        assert (Hkeys : map ekey (tr1 ++ (p, i, f) :: tr2) = map ekey tr1 ++ p :: map ekey tr2)
          by (rewrite map_app; reflexivity).
        assert (Hv1_sub : forall k, In k v1 -> In k vis') by (intros k Hk; apply Hvis2; left; exact Hk).
        split; [|split; [|split; [|split; [|split; [|split]]]]].
        * subst acc' a1. unfold tr_defs. rewrite flat_map_app. cbn [flat_map].
          unfold edefs at 2. cbn [fst snd]. rewrite <- !app_assoc. reflexivity.
        * intros k. rewrite Hkeys, Hvis2, Hvis1, in_app_iff. cbn [In]. tauto.
        * rewrite Hkeys. apply NoDup_app_intro; [exact Hnd1| |].
          -- constructor; [|exact Hnd2].
             intros Hin. apply (Hfresh2 p Hin). apply Hvis1. left; left; reflexivity.
          -- intros k Hk1 [<-|Hk2].
             ++ apply (Hfresh1 p Hk1). left; reflexivity.
             ++ apply (Hfresh2 k Hk2). apply Hvis1. right; exact Hk1.
        * intros k. rewrite Hkeys, in_app_iff. cbn [In]. intros [Hk|[<-|Hk]] Hin.
          -- apply (Hfresh1 k Hk). right; exact Hin.
          -- exact (Hp_notin Hin).
          -- apply (Hfresh2 k Hk). apply Hvis1. left; right; exact Hin.
        * intros k i0 f0 Hin. apply in_app_or in Hin. destruct Hin as [Hin|[Heq|Hin]].
          -- destruct (Hent1 k i0 f0 Hin) as (Hl1 & Hs1 & Hr1).
             split; [exact Hl1|]. split; [exact Hs1|].
             eapply RL_trans; [apply RL_root; left; reflexivity | exact Hl | exact Hr1].
          -- inversion Heq; subst k i0 f0. split; [exact Hl|]. split; [exact Hs|].
             apply RL_root; left; reflexivity.
          -- destruct (Hent2 k i0 f0 Hin) as (Hl2 & Hs2 & Hr2).
             split; [exact Hl2|]. split; [exact Hs2|].
             eapply RL_mono; [|exact Hr2]. intros x Hx; right; exact Hx.
        * intros k i0 f0 Hin j Hj. apply in_app_or in Hin. destruct Hin as [Hin|[Heq|Hin]].
          -- apply Hv1_sub. eapply Hclosed1; eauto.
          -- inversion Heq; subst k i0 f0. apply Hv1_sub. apply Himps1; exact Hj.
          -- eapply Hclosed2; eauto.
        * intros i0 [<-|Hin]; [|apply Himps2; exact Hin].
          apply Hv1_sub. apply Hvis1. left; left; reflexivity.
  Qed.

  Lemma rec_ok fuel : recur_ok (imports_rec fuel st).
  Proof.
    induction fuel as [|n IH]; intros doc imps vis acc vis' acc' H; cbn [imports_rec] in H.
    - discriminate.
    - eapply loop_ok; eauto.
  Qed.

  (** ** Termination: the fuel [S (length st)] is never exhausted *)

  Definition unvisited (vis : list key) : nat :=
    length (filter (fun kf : key * file => negb (mem_key (fst kf) vis)) st).

  Lemma filter_length_mono {A} (p q : A -> bool) l :
    (forall x, In x l -> p x = true -> q x = true) -> length (filter p l) <= length (filter q l).
  Proof.
    induction l as [|a l IH]; intros H; cbn; [lia|].
    assert (IH' : length (filter p l) <= length (filter q l)) by (apply IH; intros; apply H; cbn; auto).
    destruct (p a) eqn:Hp.
    - rewrite (H a (or_introl eq_refl) Hp). cbn; lia.
    - destruct (q a); cbn; lia.
  Qed.

  Lemma filter_length_strict {A} (p q : A -> bool) l x :
    (forall x, In x l -> p x = true -> q x = true) -> In x l -> p x = false -> q x = true ->
    length (filter p l) < length (filter q l).
  Proof.
    induction l as [|a l IH]; intros H Hin Hp Hq; cbn; [contradiction|].
    assert (Hmono : length (filter p l) <= length (filter q l))
      by (apply filter_length_mono; intros; apply H; cbn; auto).
    destruct Hin as [->|Hin].
    - rewrite Hp, Hq. cbn; lia.
    - assert (IH' : length (filter p l) < length (filter q l)) by (apply IH; auto; intros; apply H; cbn; auto).
      destruct (p a) eqn:Hpa.
      + rewrite (H a (or_introl eq_refl) Hpa). cbn; lia.
      + destruct (q a); cbn; lia.
  Qed.

  Lemma lookup_In : forall (s0 : store) k f, lookup s0 k = Some f -> In (k, f) s0.
  Proof.
    induction s0 as [|[k' f'] r IH]; intros k f H; cbn in H; [discriminate|].
    destruct (key_eqb_spec k' k) as [->|Hn].
    - inversion H; subst. left; reflexivity.
    - right; apply IH; exact H.
  Qed.

  Lemma unvisited_mono vis vis' : incl vis vis' -> unvisited vis' <= unvisited vis.
  Proof.
    intros Hincl. unfold unvisited. apply filter_length_mono. intros [k f] _ H. cbn [fst] in *.
    apply negb_true_iff in H. apply negb_true_iff. apply mem_key_false. apply mem_key_false in H.
    intros Hin; apply H; apply Hincl; exact Hin.
  Qed.

  Lemma unvisited_add p vis f :
    lookup st p = Some f -> ~ In p vis -> unvisited (p :: vis) < unvisited vis.
  Proof.
    intros Hl Hnotin. unfold unvisited. apply (filter_length_strict _ _ st (p, f)).
    - intros [k f0] _ H. cbn [fst] in *. apply negb_true_iff in H. apply negb_true_iff.
      apply mem_key_false. apply mem_key_false in H. intros Hin; apply H; right; exact Hin.
    - apply lookup_In; exact Hl.
    - cbn [fst]. apply negb_false_iff. apply mem_key_In. left; reflexivity.
    - cbn [fst]. apply negb_true_iff. apply mem_key_false. exact Hnotin.
  Qed.

  Lemma select_not_oof f i : select f i <> inl OutOfFuel.
  Proof.
    pose proof (select_cases f i) as H. intros E; rewrite E in H.
    destruct H as (n & p & rest & _ & H). discriminate.
  Qed.

  Lemma ok_post_incl doc imps vis acc vis' acc' : ok_post doc imps vis acc vis' acc' -> incl vis vis'.
  Proof. intros (tr & _ & Hvis & _) k Hk. apply Hvis; left; exact Hk. Qed.

  Lemma loop_fuel recur doc n :
    recur_ok recur ->
    (forall doc imps vis acc, unvisited vis < n -> recur doc imps vis acc <> inl OutOfFuel) ->
    forall imps vis acc, unvisited vis < S n -> import_loop recur st doc imps vis acc <> inl OutOfFuel.
  Proof.
    intros Hok Hrec; induction imps as [|i rest IH]; intros vis acc Hlt; cbn [import_loop].
    - discriminate.
    - destruct (mem_key (import_key doc i) vis) eqn:Hmem; [apply IH; exact Hlt|].
      destruct (lookup st (import_key doc i)) as [f|] eqn:Hl; [|discriminate].
      assert (Hadd : unvisited (import_key doc i :: vis) < unvisited vis)
        by (eapply unvisited_add; [exact Hl | apply mem_key_false; exact Hmem]).
      destruct (recur (import_key doc i) (fimports f) (import_key doc i :: vis) acc)
        as [e|[v1 a1]] eqn:Hr.
      + intros E; inversion E; subst e. revert Hr. apply Hrec. lia.
      + destruct (select f i) as [e|sel] eqn:Hs.
        * intros E; inversion E; subst e. exact (select_not_oof _ _ Hs).
        * apply IH. apply Hok in Hr. apply ok_post_incl in Hr.
          assert (Hm : unvisited v1 <= unvisited vis)
            by (apply unvisited_mono; intros k Hk; apply Hr; right; exact Hk).
          lia.
  Qed.

  Lemma rec_fuel n : forall doc imps vis acc,
    unvisited vis < n -> imports_rec n st doc imps vis acc <> inl OutOfFuel.
  Proof.
    induction n as [|n IH]; intros doc imps vis acc Hlt; [lia|].
    cbn [imports_rec]. apply (loop_fuel (imports_rec n st) doc n); [apply rec_ok | exact IH | exact Hlt].
  Qed.

  Lemma unvisited_nil : unvisited [] = length st.
  Proof.
    unfold unvisited. induction st as [|a l IH]; cbn; [reflexivity|]. f_equal; exact IH.
  Qed.

  Lemma imports_terminate root_path root : resolve_imports st root_path root <> inl OutOfFuel.
  Proof.
    unfold resolve_imports.
    destruct (imports_rec (S (length st)) st root_path (fimports root) [] (fdefs root)) as [e|[v a]] eqn:H.
    - intros E; inversion E; subst e. revert H. apply rec_fuel. rewrite unvisited_nil. lia.
    - discriminate.
  Qed.

  (** ** Errors are never spurious *)

  Notation err_post := (Justified st).

  Lemma err_post_mono doc imps imps' e : incl imps imps' -> err_post doc imps e -> err_post doc imps' e.
  Proof.
    intros Hincl; destruct e as [file p|n file p|]; cbn; auto.
    - intros (k & i & Hr & H). exists k, i. split; [eapply RL_mono; eauto | exact H].
    - intros (k & i & f & Hr & H). exists k, i, f. split; [eapply RL_mono; eauto | exact H].
  Qed.

  Lemma err_post_trans doc imps k0 i0 f0 e :
    RLs doc imps k0 i0 -> lookup st k0 = Some f0 -> err_post k0 (fimports f0) e -> err_post doc imps e.
  Proof.
    intros Hr0 Hl0; destruct e as [file p|n file p|]; cbn; auto.
    - intros (k & i & Hr & H). exists k, i. split; [eapply RL_trans; eauto | exact H].
    - intros (k & i & f & Hr & H). exists k, i, f. split; [eapply RL_trans; eauto | exact H].
  Qed.

  Definition recur_err (recur : key -> list import -> list key -> list def -> ierr + rstate) : Prop :=
    forall doc imps vis acc e, recur doc imps vis acc = inl e -> err_post doc imps e.

  Lemma loop_err recur doc :
    recur_err recur ->
    forall imps vis acc e, import_loop recur st doc imps vis acc = inl e -> err_post doc imps e.
  Proof.
    intros Hrec; induction imps as [|i rest IH]; intros vis acc e H; cbn [import_loop] in H.
    - discriminate.
    - assert (Hroot : RLs doc (i :: rest) (import_key doc i) i) by (apply RL_root; left; reflexivity).
      destruct (mem_key (import_key doc i) vis) eqn:Hmem.
      + apply IH in H. eapply err_post_mono; [|exact H]. intros x Hx; right; exact Hx.
      + destruct (lookup st (import_key doc i)) as [f|] eqn:Hl.
        * destruct (recur (import_key doc i) (fimports f) (import_key doc i :: vis) acc)
            as [e1|[v1 a1]] eqn:Hr.
          -- inversion H; subst e1. apply Hrec in Hr. eapply err_post_trans; eauto.
          -- destruct (select f i) as [e1|sel] eqn:Hs.
             ++ inversion H; subst e1. pose proof (select_cases f i) as Hc. rewrite Hs in Hc.
                destruct Hc as (n & p & rest0 & Hm & ->). cbn.
                exists (import_key doc i), i, f. split; [exact Hroot|]. split; [exact Hl|].
                split; [rewrite Hm; left; reflexivity | reflexivity].
             ++ apply IH in H. eapply err_post_mono; [|exact H]. intros x Hx; right; exact Hx.
        * inversion H; subst e. cbn. exists (import_key doc i), i. auto.
  Qed.

  Lemma rec_err fuel : recur_err (imports_rec fuel st).
  Proof.
    induction fuel as [|n IH]; intros doc imps vis acc e H; cbn [imports_rec] in H.
    - inversion H; subst e. exact I.
    - eapply loop_err; eauto.
  Qed.

  Lemma imports_error_sound root_path root e :
    resolve_imports st root_path root = inl e -> err_post root_path (fimports root) e.
  Proof.
    unfold resolve_imports.
    destruct (imports_rec (S (length st)) st root_path (fimports root) [] (fdefs root)) as [e'|[v a]] eqn:H.
    - intros E; inversion E; subst e'. eapply rec_err; eauto.
    - discriminate.
  Qed.

  (** ** Exactness under the (Prop-level) guards *)

  Section Exact.
    Variable root_path : key.
    Variable root : file.
    Notation RLr := (RL st root_path (fimports root)).

    (** all lines that point at one file ask for the same fragments *)
    Definition AgreeP : Prop :=
      forall k i1 i2 f, RLr k i1 -> RLr k i2 -> lookup st k = Some f ->
                        forall d, In d (wanted f i1) <-> In d (wanted f i2).
    (** nothing a line asks for is one of the root's own definitions *)
    Definition RootSepP : Prop :=
      forall k i f, RLr k i -> lookup st k = Some f -> forall d, In d (wanted f i) -> ~ In d (fdefs root).
    (** definitions are distinguishable *)
    Definition DistinctP : Prop :=
      NoDup (fdefs root)
      /\ (forall k i f, RLr k i -> lookup st k = Some f -> NoDup (fdefs f))
      /\ (forall k1 i1 f1 k2 i2 f2 d, RLr k1 i1 -> RLr k2 i2 -> k1 <> k2 ->
            lookup st k1 = Some f1 -> lookup st k2 = Some f2 ->
            In d (fdefs f1) -> In d (fdefs f2) -> False).
    (** lines that point at one file are all satisfiable or all not *)
    Definition AgreeBadP : Prop :=
      forall k i1 i2 f, RLr k i1 -> RLr k i2 -> lookup st k = Some f ->
                        (missing_names f i1 = [] <-> missing_names f i2 = []).

    Lemma wanted_incl f i : incl (wanted f i) (fdefs f).
    Proof.
      unfold wanted; destruct (itargets i); intros d Hd; apply filter_In in Hd; tauto.
    Qed.

    Lemma wanted_NoDup f i : NoDup (fdefs f) -> NoDup (wanted f i).
    Proof. unfold wanted; destruct (itargets i); apply NoDup_filter. Qed.

    Lemma in_tr_defs tr d : In d (tr_defs tr) <-> exists k i f, In (k, i, f) tr /\ In d (wanted f i).
    Proof.
      unfold tr_defs. rewrite in_flat_map. split.
      - intros ([[k i] f] & Hin & Hd). exists k, i, f. auto.
      - intros (k & i & f & Hin & Hd). exists (k, i, f). auto.
    Qed.

    Lemma in_keys tr k : In k (map ekey tr) <-> exists i f, In (k, i, f) tr.
    Proof.
      rewrite in_map_iff. split.
      - intros ([[k0 i] f] & He & Hin). cbn in He. subst k0. eauto.
      - intros (i & f & Hin). exists (k, i, f). auto.
    Qed.

    Lemma tr_defs_NoDup tr :
      NoDup (map ekey tr) ->
      (forall e, In e tr -> NoDup (edefs e)) ->
      (forall e1 e2 d, In e1 tr -> In e2 tr -> ekey e1 <> ekey e2 -> In d (edefs e1) -> In d (edefs e2) -> False) ->
      NoDup (tr_defs tr).
    Proof.
      induction tr as [|e r IH]; intros Hk Hnd Hdisj; cbn; [constructor|].
      inversion Hk as [|? ? Hnotin Hk']; subst.
      apply NoDup_app_intro.
      - apply Hnd; left; reflexivity.
      - apply IH; auto.
        + intros e' He'; apply Hnd; right; exact He'.
        + intros e1 e2 d H1 H2; apply Hdisj; right; assumption.
      - intros d Hd Hin. apply in_flat_map in Hin. destruct Hin as (e' & He' & Hd').
        apply (Hdisj e e' d); auto.
        + left; reflexivity.
        + right; exact He'.
        + intros E. apply Hnotin. rewrite E. apply in_map; exact He'.
    Qed.

    (** what a successful top-level run gives *)
    Lemma top_ok ds :
      resolve_imports st root_path root = inr ds ->
      exists tr : list entry,
        ds = fdefs root ++ tr_defs tr
        /\ NoDup (map ekey tr)
        /\ (forall k i f, In (k, i, f) tr ->
              lookup st k = Some f /\ select f i = inr (wanted f i) /\ RLr k i)
        /\ (forall k i, RLr k i -> exists i0 f, In (k, i0, f) tr).
    Proof.
      unfold resolve_imports.
      destruct (imports_rec (S (length st)) st root_path (fimports root) [] (fdefs root)) as [e|[v a]] eqn:H;
        [discriminate|].
      intros E; inversion E; subst a. apply rec_ok in H.
      destruct H as (tr & Hacc & Hvis & Hnd & _ & Hent & Hclosed & Himps).
      exists tr. split; [exact Hacc|]. split; [exact Hnd|]. split; [exact Hent|].
      assert (Hv : forall k, In k v -> exists i0 f, In (k, i0, f) tr).
      { intros k Hk. apply Hvis in Hk. destruct Hk as [[]|Hk]. apply in_keys; exact Hk. }
      intros k i Hr. apply Hv. induction Hr as [i Hi | k i f j _ IH Hl Hj].
      - apply Himps; exact Hi.
      - destruct (Hv k IH) as (i0 & f0 & Hin).
        destruct (Hent k i0 f0 Hin) as (Hl0 & _ & _).
        assert (f0 = f) by congruence. subst f0.
        eapply Hclosed; eauto.
    Qed.

    Lemma imports_exact_P ds :
      AgreeP -> RootSepP -> DistinctP ->
      resolve_imports st root_path root = inr ds ->
      (forall d, In d ds <-> Closure st root_path root d) /\ NoDup ds.
    Proof.
      intros Hagree Hsep (Hnd_root & Hnd_file & Hdisj) H.
      destruct (top_ok ds H) as (tr & Hds & Hnd & Hent & Hall). subst ds. split.
      - intros d. unfold Closure, Requested. rewrite in_app_iff, in_tr_defs. split.
        + intros [Hd|(k & i & f & Hin & Hd)]; [left; exact Hd|].
          destruct (Hent k i f Hin) as (Hl & _ & Hr). right. exists k, i, f. auto.
        + intros [Hd|(k & i & f & Hr & Hl & Hd)]; [left; exact Hd|]. right.
          destruct (Hall k i Hr) as (i0 & f0 & Hin).
          destruct (Hent k i0 f0 Hin) as (Hl0 & _ & Hr0).
          assert (f0 = f) by congruence. subst f0.
          exists k, i0, f. split; [exact Hin|]. apply (Hagree k i i0 f Hr Hr0 Hl). exact Hd.
      - apply NoDup_app_intro; [exact Hnd_root| |].
        + apply tr_defs_NoDup; [exact Hnd| |].
          * intros [[k i] f] Hin. destruct (Hent k i f Hin) as (Hl & _ & Hr).
            unfold edefs; cbn [fst snd]. apply wanted_NoDup. eapply Hnd_file; eauto.
          * intros [[k1 i1] f1] [[k2 i2] f2] d H1 H2 Hne Hd1 Hd2.
            unfold ekey, edefs in Hne, Hd1, Hd2; cbn [fst snd] in Hne, Hd1, Hd2.
            destruct (Hent k1 i1 f1 H1) as (Hl1 & _ & Hr1).
            destruct (Hent k2 i2 f2 H2) as (Hl2 & _ & Hr2).
            apply (Hdisj k1 i1 f1 k2 i2 f2 d Hr1 Hr2 Hne Hl1 Hl2).
            -- eapply wanted_incl; exact Hd1.
            -- eapply wanted_incl; exact Hd2.
        + intros d Hd Hin. apply in_tr_defs in Hin. destruct Hin as (k & i & f & Hin & Hw).
          destruct (Hent k i f Hin) as (Hl & _ & Hr).
          exact (Hsep k i f Hr Hl d Hw Hd).
    Qed.

    (** *** Errors are complete *)

    Lemma missing_nil_iff f i ts :
      itargets i = Specific ts ->
      (missing_names f i = [] <-> forall t, In t ts -> existsb (is_frag_named (fst t)) (fdefs f) = true).
    Proof.
      intros Ht. unfold missing_names. rewrite Ht. split.
      - intros H t Hin. destruct (existsb (is_frag_named (fst t)) (fdefs f)) eqn:E; [reflexivity|].
        assert (Hin' : In t (filter (fun t => negb (existsb (is_frag_named (fst t)) (fdefs f))) ts))
          by (apply filter_In; split; [exact Hin | rewrite E; reflexivity]).
        rewrite H in Hin'. contradiction.
      - intros H. destruct (filter _ ts) as [|t r] eqn:E; [reflexivity|].
        assert (Hin : In t (filter (fun t => negb (existsb (is_frag_named (fst t)) (fdefs f))) ts))
          by (rewrite E; left; reflexivity).
        apply filter_In in Hin. destruct Hin as [Hin Hb]. rewrite (H t Hin) in Hb. discriminate.
    Qed.

    Lemma imports_error_complete_P :
      AgreeBadP -> BadLine st root_path (fimports root) ->
      forall ds, resolve_imports st root_path root <> inr ds.
    Proof.
      intros Hagree (k & i & Hr & Hbad) ds H.
      destruct (top_ok ds H) as (tr & _ & _ & Hent & Hall).
      destruct (Hall k i Hr) as (i0 & f & Hin).
      destruct (Hent k i0 f Hin) as (Hl & Hs & Hr0).
      rewrite Hl in Hbad. apply Hbad.
      apply (Hagree k i i0 f Hr Hr0 Hl).
      eapply select_ok_no_missing; exact Hs.
    Qed.

    (** for every file a reachable line points at, one line that points at it was processed in
        full: all its names are defined there and its fragments are in the result (no guard) *)
    Lemma imports_one_line_honoured ds :
      resolve_imports st root_path root = inr ds ->
      forall k i, RLr k i ->
        exists i0 f, RLr k i0 /\ lookup st k = Some f /\ missing_names f i0 = []
                     /\ incl (wanted f i0) ds.
    Proof.
      intros H k i Hr. destruct (top_ok ds H) as (tr & -> & _ & Hent & Hall).
      destruct (Hall k i Hr) as (i0 & f & Hin). destruct (Hent k i0 f Hin) as (Hl & Hs & Hr0).
      exists i0, f. split; [exact Hr0|]. split; [exact Hl|].
      split; [eapply select_ok_no_missing; exact Hs|].
      intros d Hd. apply in_or_app; right. apply in_tr_defs. exists k, i0, f. auto.
    Qed.

    (** *** The computable guards imply the Prop-level ones *)

    Lemma NoDup_app_l {A} (l1 l2 : list A) : NoDup (l1 ++ l2) -> NoDup l1.
    Proof.
      induction l1 as [|a l1 IH]; cbn; intros H; [constructor|].
      inversion H as [|? ? Hn Hd]; subst. constructor; [|auto].
      intros Hin; apply Hn; apply in_or_app; left; exact Hin.
    Qed.
    Lemma NoDup_app_r {A} (l1 l2 : list A) : NoDup (l1 ++ l2) -> NoDup l2.
    Proof. induction l1 as [|a l1 IH]; cbn; intros H; [exact H|]. inversion H; auto. Qed.
    Lemma NoDup_app_disjoint {A} (l1 l2 : list A) x : NoDup (l1 ++ l2) -> In x l1 -> In x l2 -> False.
    Proof.
      induction l1 as [|a l1 IH]; cbn; intros H H1 H2; [contradiction|].
      inversion H as [|? ? Hn Hd]; subst. destruct H1 as [->|H1].
      - apply Hn; apply in_or_app; right; exact H2.
      - exact (IH Hd H1 H2).
    Qed.

    Lemma flat_map_NoDup_elem {A B} (F : A -> list B) l a : NoDup (flat_map F l) -> In a l -> NoDup (F a).
    Proof.
      induction l as [|c r IH]; cbn; intros H Hin; [contradiction|]. destruct Hin as [->|Hin].
      - eapply NoDup_app_l; exact H.
      - apply IH; [eapply NoDup_app_r; exact H | exact Hin].
    Qed.

    Lemma flat_map_NoDup_disj {A B} (F : A -> list B) l a b x :
      NoDup (flat_map F l) -> In a l -> In b l -> a <> b -> In x (F a) -> In x (F b) -> False.
    Proof.
      induction l as [|c r IH]; cbn; intros H Ha Hb Hne Hxa Hxb; [contradiction|].
      destruct Ha as [->|Ha], Hb as [->|Hb].
      - congruence.
      - eapply (NoDup_app_disjoint _ _ x H); [exact Hxa|]. apply in_flat_map. exists b; auto.
      - eapply (NoDup_app_disjoint _ _ x H); [exact Hxb|]. apply in_flat_map. exists a; auto.
      - apply IH; auto. eapply NoDup_app_r; exact H.
    Qed.

    Section Guards.
      Variable ks : list key.
      Hypothesis Hclosed : closed_b st root_path root ks = true.

      Lemma RL_in_lines k i : RLr k i -> In (k, i) (all_lines st root_path root ks) /\ In k ks.
      Proof.
        assert (Hc : forall l, In l (all_lines st root_path root ks) -> In (fst l) ks).
        { unfold closed_b in Hclosed. rewrite forallb_forall in Hclosed.
          intros l Hl. apply mem_key_In. apply Hclosed; exact Hl. }
        intros Hr. induction Hr as [i Hi | k i f j _ IH Hl Hj].
        - assert (Hin : In (import_key root_path i, i) (all_lines st root_path root ks)).
          { unfold all_lines. apply in_or_app; left. unfold lines_of.
            apply in_map_iff. exists i; auto. }
          split; [exact Hin | exact (Hc _ Hin)].
        - destruct IH as [_ Hk].
          assert (Hin : In (import_key k j, j) (all_lines st root_path root ks)).
          { unfold all_lines. apply in_or_app; right. apply in_flat_map. exists k. split; [exact Hk|].
            unfold file_lines. rewrite Hl. unfold lines_of. apply in_map_iff. exists j; auto. }
          split; [exact Hin | exact (Hc _ Hin)].
      Qed.

      Lemma agree_b_P :
        agree_b st (all_lines st root_path root ks) = true -> AgreeP /\ AgreeBadP.
      Proof.
        intros H. unfold agree_b in H. rewrite forallb_forall in H.
        assert (Hpair : forall k i1 i2 f, RLr k i1 -> RLr k i2 -> lookup st k = Some f ->
                  same_defs (wanted f i1) (wanted f i2) = true /\
                  Bool.eqb (is_nil (missing_names f i1)) (is_nil (missing_names f i2)) = true).
        { intros k i1 i2 f H1 H2 Hl.
          destruct (RL_in_lines k i1 H1) as [Hin1 _]. destruct (RL_in_lines k i2 H2) as [Hin2 _].
          pose proof (H _ Hin1) as Ha. rewrite forallb_forall in Ha. pose proof (Ha _ Hin2) as Hb.
          unfold lines_agree in Hb. cbn [fst snd] in Hb. rewrite key_eqb_refl, Hl in Hb.
          apply andb_true_iff in Hb. exact Hb. }
        split.
        - intros k i1 i2 f H1 H2 Hl. destruct (Hpair k i1 i2 f H1 H2 Hl) as [Hs _].
          apply same_defs_spec; exact Hs.
        - intros k i1 i2 f H1 H2 Hl. destruct (Hpair k i1 i2 f H1 H2 Hl) as [_ Hb].
          apply Bool.eqb_prop in Hb.
          destruct (missing_names f i1), (missing_names f i2); cbn in Hb; split; intros; congruence.
      Qed.

      Lemma rootsep_b_P : rootsep_b st root (all_lines st root_path root ks) = true -> RootSepP.
      Proof.
        intros H k i f Hr Hl d Hd Hin. unfold rootsep_b in H. rewrite forallb_forall in H.
        destruct (RL_in_lines k i Hr) as [Hin1 _]. pose proof (H _ Hin1) as Ha.
        cbn [fst snd] in Ha. rewrite Hl in Ha. rewrite forallb_forall in Ha.
        pose proof (Ha d Hd) as Hb. apply negb_true_iff in Hb.
        apply mem_def_In in Hin. congruence.
      Qed.

      Lemma distinct_b_P : distinct_b st root ks = true -> DistinctP.
      Proof.
        unfold distinct_b. rewrite !andb_true_iff. intros [[Hk Hr] Hd].
        apply nodup_keys_NoDup in Hk. apply nodup_defs_NoDup in Hr. apply nodup_defs_NoDup in Hd.
        split; [exact Hr|]. split.
        - intros k i f Hrl Hl. destruct (RL_in_lines k i Hrl) as [_ Hin].
          pose proof (flat_map_NoDup_elem (defs_at st) ks k Hd Hin) as H.
          unfold defs_at in H. rewrite Hl in H. exact H.
        - intros k1 i1 f1 k2 i2 f2 d H1 H2 Hne Hl1 Hl2 Hd1 Hd2.
          destruct (RL_in_lines k1 i1 H1) as [_ Hin1]. destruct (RL_in_lines k2 i2 H2) as [_ Hin2].
          apply (flat_map_NoDup_disj (defs_at st) ks k1 k2 d Hd Hin1 Hin2 Hne);
            unfold defs_at; [rewrite Hl1 | rewrite Hl2]; assumption.
      Qed.

    End Guards.
  End Exact.
End Traversal.

(** * The theorems with computable guards *)

Theorem imports_exact st root_path root ks ds :
  exact_guard_b st root_path root ks = true ->
  resolve_imports st root_path root = inr ds ->
  (forall d, In d ds <-> Closure st root_path root d) /\ NoDup ds.
Proof.
  unfold exact_guard_b. rewrite !andb_true_iff. intros [[[Hc Hd] Ha] Hr] H.
  apply (imports_exact_P st root_path root ds); auto.
  - apply (agree_b_P st root_path root ks Hc Ha).
  - apply (rootsep_b_P st root_path root ks Hc Hr).
  - apply (distinct_b_P st root_path root ks Hc Hd).
Qed.

Lemma justified_bad st doc imps e :
  positioned e = true -> Justified st doc imps e -> BadLine st doc imps.
Proof.
  destruct e as [file p|n file p|]; cbn; try discriminate; intros _.
  - intros (k & i & Hr & Hl & _). exists k, i. split; [exact Hr|]. rewrite Hl. exact I.
  - intros (k & i & f & Hr & Hl & Hin & _). exists k, i. split; [exact Hr|]. rewrite Hl.
    intros E; rewrite E in Hin; contradiction.
Qed.

Theorem imports_error_iff st root_path root ks :
  error_guard_b st root_path root ks = true ->
  (BadLine st root_path (fimports root) <->
   exists e, resolve_imports st root_path root = inl e /\ positioned e = true).
Proof.
  unfold error_guard_b. rewrite andb_true_iff. intros [Hc Ha].
  destruct (agree_b_P st root_path root ks Hc Ha) as [_ Hbad].
  split.
  - intros Hb. destruct (resolve_imports st root_path root) as [e|ds] eqn:H.
    + exists e. split; [reflexivity|]. destruct e; try reflexivity.
      exfalso. exact (imports_terminate st root_path root H).
    + exfalso. exact (imports_error_complete_P st root_path root Hbad Hb ds H).
  - intros (e & H & Hp). eapply justified_bad; [exact Hp|]. apply imports_error_sound; exact H.
Qed.

(** * The order of import lines *)

Lemma imp_equiv_refl i : imp_equiv i i.
Proof. split; [reflexivity|]. destruct (itargets i); [exact I | apply Permutation_refl]. Qed.

Lemma imp_equiv_sym i i' : imp_equiv i i' -> imp_equiv i' i.
Proof.
  intros [Hp Ht]. split; [symmetry; exact Hp|].
  destruct (itargets i), (itargets i'); try exact Ht. apply Permutation_sym; exact Ht.
Qed.

Lemma imps_equiv_sym l l' : imps_equiv l l' -> imps_equiv l' l.
Proof.
  intros [H1 H2]. split.
  - intros i Hi. destruct (H2 i Hi) as (j & Hj & He). exists j. split; [exact Hj | apply imp_equiv_sym; exact He].
  - intros i Hi. destruct (H1 i Hi) as (j & Hj & He). exists j. split; [exact Hj | apply imp_equiv_sym; exact He].
Qed.

Lemma file_equiv_sym f f' : file_equiv f f' -> file_equiv f' f.
Proof. intros [H1 H2]; split; [symmetry; exact H1 | apply imps_equiv_sym; exact H2]. Qed.

Lemma store_equiv_sym st st' : store_equiv st st' -> store_equiv st' st.
Proof.
  induction 1 as [|a b l l' [Hk Hf] _ IH]; constructor; auto.
  split; [symmetry; exact Hk | apply file_equiv_sym; exact Hf].
Qed.

Lemma perm_imps_equiv l l' : Permutation l l' -> imps_equiv l l'.
Proof.
  intros Hp. split; intros i Hi; exists i; (split; [|apply imp_equiv_refl]).
  - eapply Permutation_in; eauto.
  - eapply Permutation_in; [apply Permutation_sym|]; eauto.
Qed.

Lemma file_perm_equiv f f' : file_perm f f' -> file_equiv f f'.
Proof. intros [H1 H2]; split; [exact H1 | apply perm_imps_equiv; exact H2]. Qed.

Lemma store_perm_equiv st st' : store_perm st st' -> store_equiv st st'.
Proof.
  induction 1 as [|a b l l' [Hk Hf] _ IH]; constructor; auto.
  split; [exact Hk | apply file_perm_equiv; exact Hf].
Qed.

Lemma lookup_equiv st st' k :
  store_equiv st st' ->
  match lookup st k with
  | Some f => exists f', lookup st' k = Some f' /\ file_equiv f f'
  | None => lookup st' k = None
  end.
Proof.
  induction 1 as [|[k1 f1] [k2 f2] l l' [Hk Hf] _ IH]; cbn; [reflexivity|].
  cbn in Hk, Hf. subst k2. destruct (key_eqb k1 k); [exists f2; auto | exact IH].
Qed.

Lemma import_key_equiv doc i i' : imp_equiv i i' -> import_key doc i = import_key doc i'.
Proof. intros [Hp _]. unfold import_key. rewrite Hp. reflexivity. Qed.

Lemma existsb_perm {A} (p : A -> bool) l l' : Permutation l l' -> existsb p l = existsb p l'.
Proof.
  induction 1 as [|x l l' _ IH|x y l|l l' l'' _ IH1 _ IH2]; cbn.
  - reflexivity.
  - rewrite IH; reflexivity.
  - destruct (p x), (p y); reflexivity.
  - congruence.
Qed.

Lemma existsb_fst {A B} (p : A -> bool) (l : list (A * B)) :
  existsb (fun t => p (fst t)) l = existsb p (map fst l).
Proof. induction l as [|a l IH]; cbn; [reflexivity | rewrite IH; reflexivity]. Qed.

Lemma wanted_equiv f f' i i' : fdefs f = fdefs f' -> imp_equiv i i' -> wanted f i = wanted f' i'.
Proof.
  intros Hd [_ Ht]. unfold wanted. rewrite <- Hd.
  destruct (itargets i) as [|a], (itargets i') as [|b]; try contradiction; [reflexivity|].
  apply filter_ext. intros d.
  rewrite (existsb_fst (fun n => is_frag_named n d) a), (existsb_fst (fun n => is_frag_named n d) b).
  apply existsb_perm; exact Ht.
Qed.

Lemma missing_nil_names f i :
  missing_names f i = [] <->
  forall n, In n (target_names i) -> existsb (is_frag_named n) (fdefs f) = true.
Proof.
  unfold target_names. destruct (itargets i) as [|ts] eqn:Ht.
  - unfold missing_names; rewrite Ht. split; [intros _ n [] | reflexivity].
  - rewrite (missing_nil_iff f i ts Ht). split.
    + intros H n Hn. apply in_map_iff in Hn. destruct Hn as (t & <- & Hin). apply H; exact Hin.
    + intros H t Hin. apply H. apply in_map; exact Hin.
Qed.

Lemma target_names_equiv i i' : imp_equiv i i' -> Permutation (target_names i) (target_names i').
Proof.
  intros [_ Ht]. unfold target_names.
  destruct (itargets i), (itargets i'); try contradiction; [constructor | exact Ht].
Qed.

Lemma missing_equiv f f' i i' :
  fdefs f = fdefs f' -> imp_equiv i i' -> (missing_names f i = [] <-> missing_names f' i' = []).
Proof.
  intros Hd He. rewrite !missing_nil_names, <- Hd. pose proof (target_names_equiv i i' He) as Hp.
  split; intros H n Hn; apply H.
  - eapply Permutation_in; [apply Permutation_sym; exact Hp | exact Hn].
  - eapply Permutation_in; [exact Hp | exact Hn].
Qed.

Lemma RL_equiv st st' doc imps imps' k i :
  store_equiv st st' -> imps_equiv imps imps' -> RL st doc imps k i ->
  exists i', imp_equiv i i' /\ RL st' doc imps' k i'.
Proof.
  intros Hs Hp H; induction H as [i Hi | k i f j _ IH Hl Hj].
  - destruct (proj1 Hp i Hi) as (i' & Hi' & He). exists i'. split; [exact He|].
    rewrite (import_key_equiv doc i i' He). apply RL_root; exact Hi'.
  - destruct IH as (i' & _ & Hr').
    pose proof (lookup_equiv st st' k Hs) as Hlp. rewrite Hl in Hlp. destruct Hlp as (f' & Hl' & _ & Hpf).
    destruct (proj1 Hpf j Hj) as (j' & Hj' & He). exists j'. split; [exact He|].
    rewrite (import_key_equiv k j j' He). eapply RL_step; eauto.
Qed.

Section Equiv.
  Variables st st' : store.
  Variable root_path : key.
  Variables root root' : file.
  Hypothesis Hst : store_equiv st st'.
  Hypothesis Hroot : file_equiv root root'.

  Let Hst' := store_equiv_sym _ _ Hst.
  Let Hp := proj2 Hroot.
  Let Hp' := imps_equiv_sym _ _ (proj2 Hroot).

  (** a line reachable in the second store, read back in the first *)
  Lemma back k i' f' :
    RL st' root_path (fimports root') k i' -> lookup st' k = Some f' ->
    exists i f, imp_equiv i i' /\ RL st root_path (fimports root) k i
                /\ lookup st k = Some f /\ fdefs f = fdefs f'.
  Proof.
    intros Hr Hl. destruct (RL_equiv st' st root_path _ _ k i' Hst' Hp' Hr) as (i & He & Hr0).
    pose proof (lookup_equiv st' st k Hst') as H. rewrite Hl in H. destruct H as (f & Hl0 & Hd & _).
    exists i, f. split; [apply imp_equiv_sym; exact He|]. split; [exact Hr0|]. split; [exact Hl0 | symmetry; exact Hd].
  Qed.

  Lemma Closure_equiv d : Closure st root_path root d -> Closure st' root_path root' d.
  Proof.
    intros [Hd|(k & i & f & Hr & Hl & Hd)].
    - left. rewrite <- (proj1 Hroot). exact Hd.
    - right. pose proof (lookup_equiv st st' k Hst) as H. rewrite Hl in H.
      destruct H as (f' & Hl' & Hdf & _).
      destruct (RL_equiv st st' root_path _ _ k i Hst Hp Hr) as (i' & He & Hr').
      exists k, i', f'. split; [exact Hr'|]. split; [exact Hl'|].
      rewrite <- (wanted_equiv f f' i i' Hdf He). exact Hd.
  Qed.

  Lemma BadLine_equiv : BadLine st root_path (fimports root) -> BadLine st' root_path (fimports root').
  Proof.
    intros (k & i & Hr & Hb).
    destruct (RL_equiv st st' root_path _ _ k i Hst Hp Hr) as (i' & He & Hr').
    exists k, i'. split; [exact Hr'|].
    pose proof (lookup_equiv st st' k Hst) as H. destruct (lookup st k) as [f|].
    - destruct H as (f' & Hl' & Hdf & _). rewrite Hl'.
      intros E. apply Hb. apply (missing_equiv f f' i i' Hdf He). exact E.
    - rewrite H. exact I.
  Qed.

  Lemma AgreeP_equiv : AgreeP st root_path root -> AgreeP st' root_path root'.
  Proof.
    intros H k i1' i2' f' H1 H2 Hl.
    destruct (back k i1' f' H1 Hl) as (i1 & f & He1 & H1' & Hl0 & Hd).
    destruct (back k i2' f' H2 Hl) as (i2 & f2 & He2 & H2' & Hl2 & _).
    assert (f2 = f) by congruence. subst f2.
    rewrite <- (wanted_equiv f f' i1 i1' Hd He1), <- (wanted_equiv f f' i2 i2' Hd He2).
    exact (H k i1 i2 f H1' H2' Hl0).
  Qed.

  Lemma AgreeBadP_equiv : AgreeBadP st root_path root -> AgreeBadP st' root_path root'.
  Proof.
    intros H k i1' i2' f' H1 H2 Hl.
    destruct (back k i1' f' H1 Hl) as (i1 & f & He1 & H1' & Hl0 & Hd).
    destruct (back k i2' f' H2 Hl) as (i2 & f2 & He2 & H2' & Hl2 & _).
    assert (f2 = f) by congruence. subst f2.
    rewrite <- (missing_equiv f f' i1 i1' Hd He1), <- (missing_equiv f f' i2 i2' Hd He2).
    exact (H k i1 i2 f H1' H2' Hl0).
  Qed.

  Lemma RootSepP_equiv : RootSepP st root_path root -> RootSepP st' root_path root'.
  Proof.
    intros H k i' f' Hr Hl d Hd. destruct (back k i' f' Hr Hl) as (i & f & He & Hr' & Hl0 & Hdf).
    rewrite <- (proj1 Hroot). rewrite <- (wanted_equiv f f' i i' Hdf He) in Hd. exact (H k i f Hr' Hl0 d Hd).
  Qed.

  Lemma DistinctP_equiv : DistinctP st root_path root -> DistinctP st' root_path root'.
  Proof.
    intros (Hr & Hf & Hd). split; [rewrite <- (proj1 Hroot); exact Hr|]. split.
    - intros k i' f' Hrl Hl. destruct (back k i' f' Hrl Hl) as (i & f & _ & Hr' & Hl0 & Hdf).
      rewrite <- Hdf. exact (Hf k i f Hr' Hl0).
    - intros k1 i1' f1' k2 i2' f2' d H1 H2 Hne Hl1 Hl2 Hd1 Hd2.
      destruct (back k1 i1' f1' H1 Hl1) as (i1 & f1 & _ & H1' & Hl10 & Hdf1).
      destruct (back k2 i2' f2' H2 Hl2) as (i2 & f2 & _ & H2' & Hl20 & Hdf2).
      rewrite <- Hdf1 in Hd1. rewrite <- Hdf2 in Hd2.
      exact (Hd k1 i1 f1 k2 i2 f2 d H1' H2' Hne Hl10 Hl20 Hd1 Hd2).
  Qed.

End Equiv.

(** the general form: import lines may be reordered, repeated, and the names within a line
    reordered, in the root and in every stored file *)
Theorem import_lines_irrelevant st st' root_path root root' ks ds :
  store_equiv st st' -> file_equiv root root' ->
  exact_guard_b st root_path root ks = true ->
  resolve_imports st root_path root = inr ds ->
  exists ds', resolve_imports st' root_path root' = inr ds' /\ (forall d, In d ds <-> In d ds') /\ NoDup ds'.
Proof.
  intros Hst Hroot Hg H.
  pose proof Hg as Hg0. unfold exact_guard_b in Hg0. rewrite !andb_true_iff in Hg0.
  destruct Hg0 as [[[Hc Hd] Ha] Hr].
  destruct (agree_b_P st root_path root ks Hc Ha) as [HA HAB].
  pose proof (rootsep_b_P st root_path root ks Hc Hr) as HR.
  pose proof (distinct_b_P st root_path root ks Hc Hd) as HD.
  destruct (imports_exact st root_path root ks ds Hg H) as [Hset _].
  destruct (resolve_imports st' root_path root') as [e|ds'] eqn:H'.
  - exfalso. destruct (positioned e) eqn:Hpos.
    + apply imports_error_sound in H'. apply (justified_bad _ _ _ _ Hpos) in H'.
      apply (BadLine_equiv st' st root_path root' root (store_equiv_sym _ _ Hst) (file_equiv_sym _ _ Hroot)) in H'.
      exact (imports_error_complete_P st root_path root HAB H' ds H).
    + destruct e; try discriminate.
      exact (imports_terminate st' root_path root' H').
  - exists ds'. split; [reflexivity|].
    destruct (imports_exact_P st' root_path root' ds'
                (AgreeP_equiv st st' root_path root root' Hst Hroot HA)
                (RootSepP_equiv st st' root_path root root' Hst Hroot HR)
                (DistinctP_equiv st st' root_path root root' Hst Hroot HD) H') as [Hset' Hnd'].
    split; [|exact Hnd'].
    intros d. rewrite Hset, Hset'. split.
    + apply Closure_equiv; assumption.
    + apply Closure_equiv; [apply store_equiv_sym; assumption | apply file_equiv_sym; assumption].
Qed.

Theorem import_order_irrelevant st st' root_path root root' ks ds :
  store_perm st st' -> file_perm root root' ->
  exact_guard_b st root_path root ks = true ->
  resolve_imports st root_path root = inr ds ->
  exists ds', resolve_imports st' root_path root' = inr ds' /\ (forall d, In d ds <-> In d ds') /\ NoDup ds'.
Proof.
  intros Hst Hroot. apply import_lines_irrelevant; [apply store_perm_equiv | apply file_perm_equiv]; assumption.
Qed.

(** * The breadth-first key set only contains reachable keys
      (so the guards evaluated on [reach_b] constrain reachable lines only) *)

Section ReachSound.
  Variable st : store.
  Variable root_path : key.
  Variable root : file.
  Notation RLr := (RL st root_path (fimports root)).
  Definition Reached (k : key) : Prop := exists i, RLr k i.

  Lemma add_new_inv new : forall ks,
    (forall k, In k new -> Reached k) -> (forall k, In k ks -> Reached k) ->
    forall k, In k (add_new new ks) -> Reached k.
  Proof.
    induction new as [|n r IH]; intros ks Hn Hk k; cbn [add_new]; [apply Hk|].
    destruct (mem_key n ks).
    - apply IH; auto. intros k' Hk'; apply Hn; right; exact Hk'.
    - apply IH.
      + intros k' Hk'; apply Hn; right; exact Hk'.
      + intros k' Hk'. apply in_app_or in Hk'. destruct Hk' as [Hk'|[<-|[]]]; [apply Hk; exact Hk'|].
        apply Hn; left; reflexivity.
  Qed.

  Lemma file_lines_reached ks :
    (forall k, In k ks -> Reached k) ->
    forall k, In k (map fst (flat_map (file_lines st) ks)) -> Reached k.
  Proof.
    intros Hk k Hin. apply in_map_iff in Hin. destruct Hin as ([k' j] & Hfst & Hin). cbn in Hfst. subst k'.
    apply in_flat_map in Hin. destruct Hin as (k0 & Hk0 & Hin).
    unfold file_lines in Hin. destruct (lookup st k0) as [f|] eqn:Hl; [|contradiction].
    unfold lines_of in Hin. apply in_map_iff in Hin. destruct Hin as (j' & Heq & Hj). inversion Heq; subst.
    destruct (Hk k0 Hk0) as (i & Hr). exists j. eapply RL_step; eauto.
  Qed.

  Lemma reach_iter_inv n : forall ks,
    (forall k, In k ks -> Reached k) -> forall k, In k (reach_iter st n ks) -> Reached k.
  Proof.
    induction n as [|n IH]; intros ks Hk; cbn [reach_iter]; [exact Hk|].
    apply IH. apply add_new_inv; [apply file_lines_reached; exact Hk | exact Hk].
  Qed.

  Lemma reach_b_sound k : In k (reach_b st root_path root) -> Reached k.
  Proof.
    unfold reach_b. apply reach_iter_inv. apply add_new_inv; [|intros ? []].
    intros k' Hin. apply in_map_iff in Hin. destruct Hin as ([k0 i] & Hfst & Hin). cbn in Hfst; subst k0.
    unfold lines_of in Hin. apply in_map_iff in Hin. destruct Hin as (i' & Heq & Hi). inversion Heq; subst.
    exists i. apply RL_root; exact Hi.
  Qed.

  (** every line the guards look at, when evaluated on [reach_b], is a reachable line *)
  Lemma all_lines_reach_b_sound k i :
    In (k, i) (all_lines st root_path root (reach_b st root_path root)) -> RLr k i.
  Proof.
    unfold all_lines. intros Hin. apply in_app_or in Hin. destruct Hin as [Hin|Hin].
    - unfold lines_of in Hin. apply in_map_iff in Hin. destruct Hin as (i' & Heq & Hi). inversion Heq; subst.
      apply RL_root; exact Hi.
    - apply in_flat_map in Hin. destruct Hin as (k0 & Hk0 & Hin).
      unfold file_lines in Hin. destruct (lookup st k0) as [f|] eqn:Hl; [|contradiction].
      unfold lines_of in Hin. apply in_map_iff in Hin. destruct Hin as (j & Heq & Hj). inversion Heq; subst.
      destruct (reach_b_sound k0 Hk0) as (i0 & Hr). eapply RL_step; eauto.
  Qed.
End ReachSound.

(** * Witnesses: where the current code departs from the property, and non-vacuity of the guards *)

Definition P0 : pos := Pos 0 0 0.
Definition imp (path : str) (ts : targets) : import := {| ipath := path; ipos := P0; itargets := ts |}.
Definition names (l : list str) : targets := Specific (map (fun n => (n, P0)) l).
Definition frag (n : str) (id : N) : def := Def true n id.
Definition kp (p : str) : key := components p.

Definition k_main := kp (s "/p/main.graphql").
Definition x_file : file := {| fdefs := [frag (s "FA") 100; frag (s "FB") 101]; fimports := [] |}.
Definition y_file : file :=
  {| fdefs := [frag (s "F") 200]; fimports := [imp (s "./x.graphql") (names [s "FB"])] |}.

(** the diamond of the property text *)
Definition main_diamond : file :=
  {| fdefs := [Def false (s "Q") 0];
     fimports := [imp (s "./y.graphql") (names [s "F"]); imp (s "./x.graphql") (names [s "FA"])] |}.
Definition st_diamond : store :=
  [(k_main, main_diamond); (kp (s "/p/x.graphql"), x_file); (kp (s "/p/y.graphql"), y_file)].

Lemma diamond_refuted :
  resolve_imports st_diamond k_main main_diamond
    = inr [Def false (s "Q") 0; frag (s "FB") 101; frag (s "F") 200]
  /\ Closure st_diamond k_main main_diamond (frag (s "FA") 100)
  /\ exact_guard_b st_diamond k_main main_diamond (reach_b st_diamond k_main main_diamond) = false.
Proof.
  split; [vm_compute; reflexivity|]. split; [|vm_compute; reflexivity].
  right. exists (kp (s "/p/x.graphql")), (imp (s "./x.graphql") (names [s "FA"])), x_file.
  split; [|split; [vm_compute; reflexivity | vm_compute; left; reflexivity]].
  change (kp (s "/p/x.graphql")) with (import_key k_main (imp (s "./x.graphql") (names [s "FA"]))).
  apply RL_root. right; left; reflexivity.
Qed.

(** the same file under two spellings *)
Definition main_respelled : file :=
  {| fdefs := [Def false (s "Q") 0];
     fimports := [imp (s "./x.graphql") (names [s "FA"]); imp (s "././x.graphql") (names [s "FB"])] |}.
Definition st_respelled : store := [(k_main, main_respelled); (kp (s "/p/x.graphql"), x_file)].

Lemma respelled_path_refuted :
  resolve_imports st_respelled k_main main_respelled = inr [Def false (s "Q") 0; frag (s "FA") 100]
  /\ Closure st_respelled k_main main_respelled (frag (s "FB") 101)
  /\ exact_guard_b st_respelled k_main main_respelled (reach_b st_respelled k_main main_respelled) = false.
Proof.
  split; [vm_compute; reflexivity|]. split; [|vm_compute; reflexivity].
  right. exists (kp (s "/p/x.graphql")), (imp (s "././x.graphql") (names [s "FB"])), x_file.
  split; [|split; [vm_compute; reflexivity | vm_compute; left; reflexivity]].
  change (kp (s "/p/x.graphql")) with (import_key k_main (imp (s "././x.graphql") (names [s "FB"]))).
  apply RL_root. right; left; reflexivity.
Qed.

(** a cycle through the root *)
Definition main_cycle : file :=
  {| fdefs := [frag (s "R") 0; Def false (s "Q") 1]; fimports := [imp (s "./x.graphql") (names [s "FA"])] |}.
Definition x_back : file :=
  {| fdefs := [frag (s "FA") 100]; fimports := [imp (s "./main.graphql") (names [s "R"])] |}.
Definition st_cycle : store := [(k_main, main_cycle); (kp (s "/p/x.graphql"), x_back)].

Lemma root_cycle_refuted :
  resolve_imports st_cycle k_main main_cycle
    = inr [frag (s "R") 0; Def false (s "Q") 1; frag (s "R") 0; frag (s "FA") 100]
  /\ ~ NoDup [frag (s "R") 0; Def false (s "Q") 1; frag (s "R") 0; frag (s "FA") 100]
  /\ exact_guard_b st_cycle k_main main_cycle (reach_b st_cycle k_main main_cycle) = false.
Proof.
  split; [vm_compute; reflexivity|]. split; [|vm_compute; reflexivity].
  intros H. inversion H as [|? ? Hn _]; subst. apply Hn. right; left; reflexivity.
Qed.

(** `#import FA, FA from "./x.graphql"` (or the same import line twice): since /repo 3dc6a57 the
    fragment is imported once and nothing is reported (it used to panic) *)
Definition main_dup_items : list item :=
  [IImport P0 [TName (s "FA") P0; TName (s "FA") P0] (s "./x.graphql") P0; IDef (Def false (s "Q") 0)].
Definition main_dup_items2 : list item :=
  [IImport P0 [TName (s "FA") P0] (s "./x.graphql") P0; IImport P0 [TName (s "FA") P0] (s "./x.graphql") P0;
   IDef (Def false (s "Q") 0)].
Definition x_one : file := {| fdefs := [frag (s "FA") 100]; fimports := [] |}.
Definition st_dup : store := [(kp (s "/p/x.graphql"), x_one)].

Lemma dup_target_ok :
  (exists root, resolve_extensions main_dup_items = inr root
                /\ resolve_imports st_dup k_main root = inr [Def false (s "Q") 0; frag (s "FA") 100])
  /\ (exists root, resolve_extensions main_dup_items2 = inr root
                /\ resolve_imports st_dup k_main root = inr [Def false (s "Q") 0; frag (s "FA") 100]).
Proof. split; eexists; split; vm_compute; reflexivity. Qed.

(** the second line to an already visited file is not checked *)
Definition main_skipped : file :=
  {| fdefs := [Def false (s "Q") 0];
     fimports := [imp (s "./y.graphql") (names [s "F"]); imp (s "./x.graphql") (names [s "Nope"])] |}.
Definition st_skipped : store :=
  [(k_main, main_skipped); (kp (s "/p/x.graphql"), x_file); (kp (s "/p/y.graphql"), y_file)].

Lemma skipped_error_refuted :
  (exists ds, resolve_imports st_skipped k_main main_skipped = inr ds)
  /\ BadLine st_skipped k_main (fimports main_skipped).
Proof.
  split; [eexists; vm_compute; reflexivity|].
  exists (kp (s "/p/x.graphql")), (imp (s "./x.graphql") (names [s "Nope"])). split.
  - change (kp (s "/p/x.graphql")) with (import_key k_main (imp (s "./x.graphql") (names [s "Nope"]))).
    apply RL_root. right; left; reflexivity.
  - vm_compute. discriminate.
Qed.

(** a target that defines one requested fragment twice no longer hides that another requested
    fragment is undefined (the test is by name since /repo 3dc6a57) *)
Definition main_masks : file :=
  {| fdefs := [Def false (s "Q") 0]; fimports := [imp (s "./x.graphql") (names [s "FA"; s "FB"])] |}.
Definition x_twice : file := {| fdefs := [frag (s "FA") 100; frag (s "FA") 101]; fimports := [] |}.
Definition st_masks : store := [(k_main, main_masks); (kp (s "/p/x.graphql"), x_twice)].

Lemma dup_fragment_reported :
  resolve_imports st_masks k_main main_masks = inl (FragmentNotFound (s "FB") (s "./x.graphql") P0)
  /\ resolve_imports st_masks k_main
       {| fdefs := [Def false (s "Q") 0]; fimports := [imp (s "./x.graphql") (names [s "FA"])] |}
     = inr [Def false (s "Q") 0; frag (s "FA") 100; frag (s "FA") 101].
Proof. split; vm_compute; reflexivity. Qed.

(** ** Non-vacuity: a cyclic, shared-target graph that satisfies every guard *)
Definition main_rec : file :=
  {| fdefs := [Def false (s "Q") 0];
     fimports := [imp (s "./rec/frag1.graphql") (names [s "Frag1"]); imp (s "./w.graphql") Wildcard] |}.
Definition rec1 : file :=
  {| fdefs := [frag (s "Frag1") 100]; fimports := [imp (s "frag2.graphql") (names [s "Frag2"])] |}.
Definition rec2 : file :=
  {| fdefs := [frag (s "Frag2") 200; frag (s "Other") 201];
     fimports := [imp (s "frag1.graphql") (names [s "Frag1"]); imp (s "../w.graphql") Wildcard] |}.
Definition w_file : file := {| fdefs := [frag (s "W1") 300; frag (s "W2") 301; Def false (s "Op") 302]; fimports := [] |}.
Definition st_rec : store :=
  [(k_main, main_rec); (kp (s "/p/rec/frag1.graphql"), rec1); (kp (s "/p/rec/frag2.graphql"), rec2);
   (kp (s "/p/w.graphql"), w_file)].

Example guards_satisfiable :
  let ks := reach_b st_rec k_main main_rec in
  exact_guard_b st_rec k_main main_rec ks = true
  /\ error_guard_b st_rec k_main main_rec ks = true
  /\ length ks = 3
  /\ resolve_imports st_rec k_main main_rec
     = inr [Def false (s "Q") 0; frag (s "W1") 300; frag (s "W2") 301; frag (s "Frag2") 200; frag (s "Frag1") 100].
Proof. vm_compute. repeat split; reflexivity. Qed.

(** ... and one with a due error *)
Definition main_err : file :=
  {| fdefs := [Def false (s "Q") 0]; fimports := [imp (s "./x.graphql") (names [s "FA"; s "Zz"])] |}.
Definition st_err : store := [(k_main, main_err); (kp (s "/p/x.graphql"), x_file)].
Example error_guards_satisfiable :
  let ks := reach_b st_err k_main main_err in
  error_guard_b st_err k_main main_err ks = true
  /\ resolve_imports st_err k_main main_err = inl (FragmentNotFound (s "Zz") (s "./x.graphql") P0).
Proof. vm_compute. repeat split; reflexivity. Qed.

(** permuting import lines of a guarded graph: the instance of [import_order_irrelevant] *)
Definition main_rec' : file := {| fdefs := fdefs main_rec; fimports := rev (fimports main_rec) |}.
Definition rec2' : file := {| fdefs := fdefs rec2; fimports := rev (fimports rec2) |}.
Definition st_rec' : store :=
  [(k_main, main_rec'); (kp (s "/p/rec/frag1.graphql"), rec1); (kp (s "/p/rec/frag2.graphql"), rec2');
   (kp (s "/p/w.graphql"), w_file)].
Example permuted_lines_example :
  store_perm st_rec st_rec' /\ file_perm main_rec main_rec'
  /\ resolve_imports st_rec' k_main main_rec'
     = inr [Def false (s "Q") 0; frag (s "W1") 300; frag (s "W2") 301; frag (s "Frag2") 200; frag (s "Frag1") 100].
Proof.
  split; [|split; [|vm_compute; reflexivity]].
  - repeat constructor; cbn; apply Permutation_rev.
  - split; [reflexivity | apply Permutation_rev].
Qed.

(** * The unguarded statements fail on the current code *)
Lemma exact_full_refuted : ~ imports_exact_full.
Proof.
  intros H. destruct diamond_refuted as (Hres & Hclo & _).
  destruct (H _ _ _ _ Hres) as [Hset _]. apply Hset in Hclo.
  vm_compute in Hclo. destruct Hclo as [E|[E|[E|[]]]]; discriminate.
Qed.

Lemma exact_full_refuted_nodup : ~ imports_exact_full.
Proof.
  intros H. destruct root_cycle_refuted as (Hres & Hnd & _).
  destruct (H _ _ _ _ Hres) as [_ Hn]. exact (Hnd Hn).
Qed.

Lemma error_iff_full_refuted : ~ imports_error_iff_full.
Proof.
  intros H. destruct skipped_error_refuted as ((ds & Hres) & Hbad).
  apply H in Hbad. destruct Hbad as (e & He & _). congruence.
Qed.

(** * Unguarded soundness of the result: whatever the shape of the graph, every definition of a
      successful result is one of the root's own or a *fragment definition* that a reachable line
      asks for — an operation of an imported file is never brought in, whatever its name *)
Lemma wanted_frag f i d : In d (wanted f i) -> def_is_frag d = true.
Proof.
  unfold wanted. destruct (itargets i) as [|ts]; intros H; apply filter_In in H; destruct H as [_ H].
  - exact H.
  - apply existsb_exists in H. destruct H as (t & _ & H). apply is_frag_named_spec in H. tauto.
Qed.

Lemma imports_sound st root_path root ds :
  resolve_imports st root_path root = inr ds ->
  forall d, In d ds ->
    Closure st root_path root d /\ (In d (fdefs root) \/ def_is_frag d = true).
Proof.
  intros H d Hd. destruct (top_ok st root_path root ds H) as (tr & -> & _ & Hent & _).
  apply in_app_or in Hd. destruct Hd as [Hd|Hd].
  - split; [left; exact Hd | left; exact Hd].
  - apply in_tr_defs in Hd. destruct Hd as (k & i & f & Hin & Hw).
    destruct (Hent k i f Hin) as (Hl & _ & Hr). split.
    + right. exists k, i, f. auto.
    + right. eapply wanted_frag; exact Hw.
Qed.

(** an operation that carries the requested name does not satisfy the request *)
Definition main_user : file :=
  {| fdefs := [Def false (s "Main") 0]; fimports := [imp (s "./user.graphql") (names [s "User"])] |}.
Definition user_only_query : file :=
  {| fdefs := [Def false (s "User") 100; frag (s "Other") 101]; fimports := [] |}.
Definition user_both : file :=
  {| fdefs := [Def false (s "User") 100; frag (s "User") 101]; fimports := [] |}.
Example operation_name_is_not_a_fragment :
  resolve_imports [(kp (s "/p/user.graphql"), user_only_query)] k_main main_user
    = inl (FragmentNotFound (s "User") (s "./user.graphql") P0)
  /\ resolve_imports [(kp (s "/p/user.graphql"), user_both)] k_main main_user
    = inr [Def false (s "Main") 0; frag (s "User") 101]
  /\ resolve_imports [(kp (s "/p/user.graphql"), user_both)] k_main
       {| fdefs := [Def false (s "Main") 0];
          fimports := [imp (s "./user.graphql") (names [s "User"; s "Missing"])] |}
    = inl (FragmentNotFound (s "Missing") (s "./user.graphql") P0).
Proof. vm_compute. repeat split; reflexivity. Qed.

(** * Work bound: a successful run enters every stored file at most once — the result is the root's
      definitions followed by the selections of at most [length st] processed import lines, one per
      distinct file key (the traversal is linear in the store, not in the number of import paths) *)
Lemma imports_linear_work st root_path root ds :
  resolve_imports st root_path root = inr ds ->
  exists tr : list entry,
    ds = fdefs root ++ tr_defs tr /\ NoDup (map ekey tr) /\ length tr <= length st.
Proof.
  intros H. destruct (top_ok st root_path root ds H) as (tr & Hds & Hnd & Hent & _).
  exists tr. split; [exact Hds|]. split; [exact Hnd|].
  rewrite <- (map_length ekey tr), <- (map_length fst st).
  apply NoDup_incl_length; [exact Hnd|].
  intros k Hk. apply in_keys in Hk. destruct Hk as (i & f & Hin).
  destruct (Hent k i f Hin) as (Hl & _). apply lookup_In in Hl.
  apply in_map_iff. exists (k, f). auto.
Qed.
