(** C13 — the reference closure over merged import lists ([Closure], what the theorems are stated
    with) is the closure over the raw [#import] lines of the parsed documents ([RawClosure]). *)
From V Require Import Base.Util C20.Model C13.Model C13.Spec C13.Proofs C13.ProofsExt C13.ProofsReach.

Lemma has_line_In p doc :
  has_line p doc = true <-> exists q ts pp, In (IImport q ts p pp) doc.
Proof.
  unfold has_line. rewrite existsb_exists. split.
  - intros ([d|q ts p' pp] & Hin & Hb); [discriminate|].
    destruct (str_eqb_spec p' p) as [->|]; [|discriminate]. eauto.
  - intros (q & ts & pp & Hin). exists (IImport q ts p pp). split; [exact Hin | apply str_eqb_refl].
Qed.

Lemma group_In p doc t :
  In t (group p doc) <-> exists q ts pp, In (IImport q ts p pp) doc /\ In t ts.
Proof.
  unfold group. rewrite in_flat_map. split.
  - intros ([d|q ts p' pp] & Hin & Ht); [contradiction|].
    destruct (str_eqb_spec p' p) as [->|]; [|contradiction]. eauto.
  - intros (q & ts & pp & Hin & Ht). exists (IImport q ts p pp). split; [exact Hin|].
    rewrite str_eqb_refl. exact Ht.
Qed.

Lemma target_ids_In ts n : In n (map fst (target_ids ts)) <-> exists q, In (TName n q) ts.
Proof.
  unfold target_ids. rewrite in_map_iff. split.
  - intros ([n' q] & Hn & Hin). cbn in Hn; subst n'. apply in_flat_map in Hin.
    destruct Hin as ([|m q'] & Hin & Ht); [contradiction|]. destruct Ht as [E|[]]. inversion E; subst. eauto.
  - intros (q & Hin). exists (n, q). split; [reflexivity|]. apply in_flat_map.
    exists (TName n q). split; [exact Hin | left; reflexivity].
Qed.

Lemma no_wild_In ts : no_wild ts = true -> forall t, In t ts -> exists n q, t = TName n q.
Proof.
  unfold no_wild. rewrite forallb_forall. intros H t Hin. specialize (H t Hin).
  destruct t as [|n q]; [discriminate | eauto].
Qed.

(** what a merged import asks of a file = what the raw lines with its path string ask *)
Lemma wanted_raw doc f i its fd d :
  resolve_extensions doc = inr f -> In i (fimports f) ->
  resolve_extensions its = inr fd ->
  (In d (wanted fd i) <->
   exists q ts pp, In (IImport q ts (ipath i) pp) doc /\ In d (raw_wanted its ts)).
Proof.
  intros H Hi Hfd.
  pose proof (ext_char its) as Hc. rewrite Hfd in Hc. destruct Hc as (Hdefs & _).
  pose proof (ext_requests doc f i H Hi) as Hreq.
  unfold wanted, raw_wanted. rewrite Hdefs.
  destruct (itargets i) as [|ids].
  - (* wildcard *)
    split.
    + intros Hd. apply filter_In in Hd. destruct Hd as [Hd Hfrag].
      assert (Hw : In TWild (group (ipath i) doc)) by (rewrite Hreq; left; reflexivity).
      apply group_In in Hw. destruct Hw as (q & ts & pp & Hin & Ht). exists q, ts, pp. split; [exact Hin|].
      apply filter_In. split; [exact Hd|]. rewrite Hfrag. cbn. apply existsb_exists. exists TWild. auto.
    + intros (q & ts & pp & Hin & Hd). apply filter_In in Hd. destruct Hd as [Hd Hb].
      apply andb_true_iff in Hb. apply filter_In. tauto.
  - destruct Hreq as [Hnw ->]. split.
    + intros Hd. apply filter_In in Hd. destruct Hd as [Hd He].
      apply existsb_exists in He. destruct He as ([n q0] & Hin & Hnamed). cbn [fst] in Hnamed.
      assert (Hn : In n (map fst (target_ids (group (ipath i) doc)))) by (apply in_map_iff; exists (n, q0); auto).
      apply target_ids_In in Hn. destruct Hn as (q1 & Hg). apply group_In in Hg.
      destruct Hg as (q & ts & pp & Hline & Ht). exists q, ts, pp. split; [exact Hline|].
      apply is_frag_named_spec in Hnamed. destruct Hnamed as [Hfrag Hname].
      apply filter_In. split; [exact Hd|]. rewrite Hfrag. cbn. apply existsb_exists.
      exists (TName n q1). split; [exact Ht|]. cbn. rewrite Hname. apply str_eqb_refl.
    + intros (q & ts & pp & Hline & Hd). apply filter_In in Hd. destruct Hd as [Hd Hb].
      apply andb_true_iff in Hb. destruct Hb as [Hfrag He]. apply existsb_exists in He.
      destruct He as (t & Ht & Hm).
      assert (Hg : In t (group (ipath i) doc)) by (apply group_In; eauto).
      destruct (no_wild_In _ Hnw t Hg) as (n & q1 & ->). cbn in Hm.
      destruct (str_eqb_spec n (def_name d)) as [Hname|]; [|discriminate].
      apply filter_In. split; [exact Hd|]. apply existsb_exists.
      assert (Hn : In n (map fst (target_ids (group (ipath i) doc)))) by (apply target_ids_In; eauto).
      apply in_map_iff in Hn. destruct Hn as ([n' q2] & Hfst & Hin). cbn in Hfst; subst n'.
      exists (n, q2). split; [exact Hin|]. cbn [fst]. apply is_frag_named_spec. auto.
Qed.

Lemma lookup_docs_gen ds st k :
  StoreOf ds st ->
  match doc_lookup ds k with
  | Some its => exists f, lookup st k = Some f /\ resolve_extensions its = inr f
  | None => lookup st k = None
  end.
Proof.
  induction 1 as [|[k1 its] [k2 f] l l' [Hk Hf] _ IH]; cbn; [reflexivity|].
  cbn in Hk, Hf. subst k2. destruct (key_eqb k1 k); [exists f; auto | exact IH].
Qed.

Section Raw.
  Variable ds : docs.
  Variable st : store.
  Hypothesis Hstore : StoreOf ds st.

  Lemma lookup_docs k :
    match doc_lookup ds k with
    | Some its => exists f, lookup st k = Some f /\ resolve_extensions its = inr f
    | None => lookup st k = None
    end.
  Proof. exact (lookup_docs_gen ds st k Hstore). Qed.

  Lemma lookup_docs_inv k f :
    lookup st k = Some f -> exists its, doc_lookup ds k = Some its /\ resolve_extensions its = inr f.
  Proof.
    intros Hl. pose proof (lookup_docs k) as H. destruct (doc_lookup ds k) as [its|].
    - destruct H as (f' & Hl' & He). exists its. split; [reflexivity|]. congruence.
    - congruence.
  Qed.

  Variable root_path : key.
  Variable root_items : list item.
  Variable root : file.
  Hypothesis Hroot : resolve_extensions root_items = inr root.

  (** merged line -> the raw lines with its path string are reachable and point at the same key *)
  Lemma RL_to_raw k i :
    RL st root_path (fimports root) k i ->
    exists doc_key doc f, resolve_extensions doc = inr f /\ In i (fimports f) /\ k = import_key doc_key i
      /\ (forall q ts pp, In (IImport q ts (ipath i) pp) doc -> RLraw ds root_path root_items k ts).
  Proof.
    intros H; induction H as [i Hi | k i f j _ IH Hl Hj].
    - exists root_path, root_items, root. split; [exact Hroot|]. split; [exact Hi|]. split; [reflexivity|].
      intros q ts pp Hin. unfold import_key. eapply RLraw_root; exact Hin.
    - destruct IH as (dk & doc & f0 & Hf0 & Hi0 & Hk & Hraw).
      destruct (lookup_docs_inv k f Hl) as (its & Hdl & Hits).
      exists k, its, f. split; [exact Hits|]. split; [exact Hj|]. split; [reflexivity|].
      intros q ts pp Hin.
      (* some raw line of the parent reaches k *)
      pose proof (ext_char doc) as Hc. rewrite Hf0 in Hc. destruct Hc as (_ & _ & Hin0 & _).
      destruct (Hin0 i Hi0) as [Hline _]. apply has_line_In in Hline. destruct Hline as (q0 & ts0 & pp0 & Hl0).
      unfold import_key. eapply RLraw_step; [exact (Hraw q0 ts0 pp0 Hl0) | exact Hdl | exact Hin].
  Qed.

  (** raw line -> the merged import with its path string is reachable and points at the same key *)
  Lemma raw_to_RL k ts :
    RLraw ds root_path root_items k ts ->
    exists doc f i q pp, resolve_extensions doc = inr f /\ In i (fimports f)
      /\ In (IImport q ts (ipath i) pp) doc /\ RL st root_path (fimports root) k i.
  Proof.
    intros H; induction H as [p ts path pp Hin | k ts its p ts' path pp _ IH Hdl Hin].
    - pose proof (ext_char root_items) as Hc. rewrite Hroot in Hc. destruct Hc as (_ & _ & _ & Hall).
      destruct (Hall path) as (i & Hi & Hp); [apply has_line_In; eauto|].
      exists root_items, root, i, p, pp. split; [exact Hroot|]. split; [exact Hi|]. rewrite Hp.
      split; [exact Hin|].
      replace (resolve root_path (components path)) with (import_key root_path i)
        by (unfold import_key; rewrite Hp; reflexivity).
      apply RL_root; exact Hi.
    - destruct IH as (doc0 & f0 & i0 & q0 & pp0 & _ & _ & _ & Hr0).
      pose proof (lookup_docs k) as Hl. rewrite Hdl in Hl. destruct Hl as (f & Hl & Hits).
      pose proof (ext_char its) as Hc. rewrite Hits in Hc. destruct Hc as (_ & _ & _ & Hall).
      destruct (Hall path) as (j & Hj & Hp); [apply has_line_In; eauto|].
      exists its, f, j, p, pp. split; [exact Hits|]. split; [exact Hj|]. rewrite Hp. split; [exact Hin|].
      replace (resolve k (components path)) with (import_key k j)
        by (unfold import_key; rewrite Hp; reflexivity).
      eapply RL_step; eauto.
  Qed.

  Theorem closure_raw d : RawClosure ds root_path root_items d <-> Closure st root_path root d.
  Proof.
    pose proof (ext_char root_items) as Hc. rewrite Hroot in Hc. destruct Hc as (Hdefs & _).
    unfold RawClosure, Closure, Requested. rewrite Hdefs. split.
    - intros [Hd|(k & ts & its & Hr & Hdl & Hd)]; [left; exact Hd|]. right.
      destruct (raw_to_RL k ts Hr) as (doc & f0 & i & q & pp & Hf0 & Hi & Hline & Hrl).
      pose proof (lookup_docs k) as Hl. rewrite Hdl in Hl. destruct Hl as (f & Hl & Hits).
      exists k, i, f. split; [exact Hrl|]. split; [exact Hl|].
      apply (wanted_raw doc f0 i its f d Hf0 Hi Hits). eauto.
    - intros [Hd|(k & i & f & Hr & Hl & Hd)]; [left; exact Hd|]. right.
      destruct (RL_to_raw k i Hr) as (dk & doc & f0 & Hf0 & Hi & _ & Hraw).
      destruct (lookup_docs_inv k f Hl) as (its & Hdl & Hits).
      apply (wanted_raw doc f0 i its f d Hf0 Hi Hits) in Hd. destruct Hd as (q & ts & pp & Hline & Hd).
      exists k, ts, its. split; [exact (Hraw q ts pp Hline)|]. auto.
  Qed.
End Raw.

(** the exactness theorem stated on the parsed documents *)
Theorem imports_exact_raw ds st root_path root_items root out :
  StoreOf ds st -> resolve_extensions root_items = inr root ->
  guard_exact st root_path root = true ->
  resolve_imports st root_path root = inr out ->
  (forall d, In d out <-> RawClosure ds root_path root_items d) /\ NoDup out.
Proof.
  intros Hs Hr Hg H. destruct (imports_exact_reach st root_path root out Hg H) as [Hset Hnd].
  split; [|exact Hnd]. intros d. rewrite Hset. symmetry. apply (closure_raw ds st Hs root_path root_items root Hr).
Qed.
