(** C13 — model of
      crates/semantics/src/operation_extension_resolver/mod.rs  (resolve_operation_extensions)
      crates/semantics/src/operation_import_resolver/mod.rs     (resolve_operation_imports{,_rec})
    and of the two resolvers that back it (cli/src/check.rs [Operations], graphql-loader
    [TaskOperationResolver]): both are a [HashMap] from [Path]/[PathBuf] to a loaded file, and
    [Path] equality/hash go through [Path::components], so a key is a component list
    (C20's model) and the store is a finite association list.

    Definitions only.  The model reproduces the code as it is, including
      - the visited set that makes the resolver skip every later import line that resolves to an
        already visited file (whatever it asks for),
      - the root file not being in the visited set,
      - the search for the first requested name that no fragment definition of the target file
        carries (since /repo 3dc6a57 there is no counting and no [expect] any more). *)
From V Require Import Base.Util C20.Model.

(** * Data *)

(** [Pos] of the AST ([builtin] is false for everything that comes out of the parser). *)
Inductive pos := Pos (line col file : N).

Definition pos_eqb (a b : pos) : bool :=
  match a, b with Pos l c f, Pos l' c' f' => N.eqb l l' && N.eqb c c' && N.eqb f f' end.

(** An executable definition.  Only two things about it matter to the resolvers: whether it is a
    fragment definition, and its name.  [id] stands for everything else (position, body): the
    resolvers copy definitions without looking inside. *)
Inductive def := Def (is_fragment : bool) (name : str) (id : N).

Definition def_is_frag (d : def) : bool := match d with Def b _ _ => b end.
Definition def_name (d : def) : str := match d with Def _ n _ => n end.
Definition def_eqb (a b : def) : bool :=
  match a, b with Def f n i, Def f' n' i' => Bool.eqb f f' && str_eqb n n' && N.eqb i i' end.

(** [ExecutableDefinition::FragmentDefinition(def)] with [def.name.name == n] *)
Definition is_frag_named (n : str) (d : def) : bool :=
  match d with Def true m _ => str_eqb n m | _ => false end.

(** ** Input of [resolve_operation_extensions]: [OperationDocumentExt] *)
Inductive target := TWild | TName (n : str) (p : pos).      (* ImportTarget *)
Inductive item :=
| IDef (d : def)
| IImport (p : pos) (ts : list target) (path : str) (path_pos : pos).   (* ImportDefinition *)

(** ** Output: [OperationDocument] (its definitions) and [OperationExtension] *)
Inductive targets := Wildcard | Specific (ids : list (str * pos)).      (* ImportTargets *)
Record import := { ipath : str; ipos : pos; itargets : targets }.        (* Import; path : StringValue *)
Record file := { fdefs : list def; fimports : list import }.

Inductive xerr := WildcardOnlyOnce (p : pos) | WildcardCombined (p : pos).

(** * resolve_operation_extensions *)

(** the closure given to [try_fold]; [p] = [import.position] *)
Definition fold_target (p : pos) (acc : targets) (t : target) : xerr + targets :=
  match acc, t with
  | Wildcard, TWild => inl (WildcardOnlyOnce p)
  | Wildcard, TName _ _ => inl (WildcardCombined p)
  | Specific ids, TWild => match ids with [] => inr Wildcard | _ => inl (WildcardCombined p) end
  | Specific ids, TName n q => inr (Specific (ids ++ [(n, q)]))
  end.

Fixpoint fold_targets (p : pos) (acc : targets) (ts : list target) : xerr + targets :=
  match ts with
  | [] => inr acc
  | t :: r => match fold_target p acc t with
              | inl e => inl e
              | inr acc' => fold_targets p acc' r
              end
  end.

(** [imports.iter().position(|i| i.path.value == path)] followed by [imports.remove(existing)]:
    the first import with that path string, and the list without it. *)
Fixpoint take_existing (path : str) (imps : list import) : option (import * list import) :=
  match imps with
  | [] => None
  | i :: r =>
      if str_eqb (ipath i) path then Some (i, r)
      else match take_existing path r with
           | Some (e, r') => Some (e, i :: r')
           | None => None
           end
  end.

Fixpoint ext_loop (items : list item) (defs : list def) (imps : list import) : xerr + file :=
  match items with
  | [] => inr {| fdefs := defs; fimports := imps |}
  | IDef d :: r => ext_loop r (defs ++ [d]) imps
  | IImport p ts path ppos :: r =>
      let '(initial, imps') :=
        match take_existing path imps with
        | Some (e, rest) => (itargets e, rest)
        | None => (Specific [], imps)
        end in
      match fold_targets p initial ts with
      | inl e => inl e
      | inr t => ext_loop r defs (imps' ++ [{| ipath := path; ipos := ppos; itargets := t |}])
      end
  end.

Definition resolve_extensions (doc : list item) : xerr + file := ext_loop doc [] [].

(** * resolve_operation_imports *)

Definition key := list comp.            (* a [PathBuf], compared through its components *)
Fixpoint key_eqb (a b : key) : bool :=
  match a, b with
  | [], [] => true
  | x :: a', y :: b' => comp_eqb x y && key_eqb a' b'
  | _, _ => false
  end.
Definition store := list (key * file).  (* the resolver: the loaded operation files by path *)

Definition mem_key (k : key) (ks : list key) : bool := existsb (key_eqb k) ks.

Fixpoint lookup (st : store) (k : key) : option file :=
  match st with
  | [] => None
  | (k', f) :: r => if key_eqb k' k then Some f else lookup r k
  end.

Inductive ierr :=
| FileNotFound (file : str) (p : pos)
| FragmentNotFound (name file : str) (p : pos)
| OutOfFuel.                    (* artefact of the model; excluded by C13_imports_terminate *)

(** [resolve_relative_path(document_path, Path::new(&import.path.value))] *)
Definition import_key (doc : key) (i : import) : key := resolve doc (components (ipath i)).

(** what one processed import line appends to [definitions] (the [match import.targets]) *)
Definition select (f : file) (i : import) : ierr + list def :=
  match itargets i with
  | Wildcard => inr (filter def_is_frag (fdefs f))
  | Specific ts =>
      let sel := filter (fun d => existsb (fun t => is_frag_named (fst t) d) ts) (fdefs f) in
      (* "figure out which targets are missing (first one)" — by name, no counting (fix 3dc6a57) *)
      match find (fun t => negb (existsb (is_frag_named (fst t)) (fdefs f))) ts with
      | Some t => inl (FragmentNotFound (fst t) (ipath i) (snd t))
      | None => inr sel
      end
  end.

Definition rstate := (list key * list def)%type.     (* visited, definitions *)

Section Loop.
  (** the recursive call, with less fuel *)
  Variable recur : key -> list import -> list key -> list def -> ierr + rstate.
  Variable st : store.
  Variable doc : key.

  (** the [for import in extensions.imports.iter()] loop *)
  Fixpoint import_loop (imps : list import) (vis : list key) (acc : list def) : ierr + rstate :=
    match imps with
    | [] => inr (vis, acc)
    | i :: rest =>
        let p := import_key doc i in
        if mem_key p vis then import_loop rest vis acc
        else match lookup st p with
             | None => inl (FileNotFound (ipath i) (ipos i))
             | Some f =>
                 match recur p (fimports f) (p :: vis) acc with
                 | inl e => inl e
                 | inr (vis', acc') =>
                     match select f i with
                     | inl e => inl e
                     | inr sel => import_loop rest vis' (acc' ++ sel)
                     end
                 end
             end
    end.
End Loop.

Fixpoint imports_rec (fuel : nat) (st : store) (doc : key) (imps : list import)
         (vis : list key) (acc : list def) : ierr + rstate :=
  match fuel with
  | O => inl OutOfFuel
  | S n => import_loop (imports_rec n st) st doc imps vis acc
  end.

(** [resolve_operation_imports((root_path, root_doc, root_ext), resolver)] *)
Definition resolve_imports (st : store) (root_path : key) (root : file) : ierr + list def :=
  match imports_rec (S (length st)) st root_path (fimports root) [] (fdefs root) with
  | inl e => inl e
  | inr (_, defs) => inr defs
  end.

(** * Error messages (thiserror [Display]), compared verbatim with the implementation *)
Definition err_message (e : ierr) : str :=
  match e with
  | FileNotFound f _ => s "File '" ++ f ++ s "' not found."
  | FragmentNotFound n f _ => s "'" ++ n ++ s "' is not found in the imported file '" ++ f ++ s "'."
  | OutOfFuel => s "<out of fuel>"
  end.
Definition err_pos (e : ierr) : option pos :=
  match e with
  | FileNotFound _ p => Some p
  | FragmentNotFound _ _ p => Some p
  | _ => None
  end.
Definition xerr_message (e : xerr) : str :=
  match e with
  | WildcardOnlyOnce _ => s "Wildcard import should be specified only once"
  | WildcardCombined _ => s "Wildcard import cannot be combined with specific import"
  end.
Definition xerr_pos (e : xerr) : pos := match e with WildcardOnlyOnce p | WildcardCombined p => p end.
