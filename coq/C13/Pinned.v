(** Pinned statements of the C13 property theorems: compiled on every check, so a theorem
    cannot be weakened silently. *)
From V Require Import Base.Util C20.Model C13.Model C13.Spec C13.Proofs C13.Properties.

Check (C13_imports_terminate :
  forall st root_path root, resolve_imports st root_path root <> inl OutOfFuel).
Check (C13_imports_exact :
  forall st root_path root ks ds,
  exact_guard_b st root_path root ks = true ->
  resolve_imports st root_path root = inr ds ->
  (forall d, In d ds <-> Closure st root_path root d) /\ NoDup ds).
Check (C13_error_sound :
  forall st root_path root e,
  resolve_imports st root_path root = inl e -> Justified st root_path (fimports root) e).
Check (C13_error_iff :
  forall st root_path root ks,
  error_guard_b st root_path root ks = true ->
  names_guard_b st ks (all_lines st root_path root ks) = true ->
  (BadLine st root_path (fimports root) <->
   exists e, resolve_imports st root_path root = inl e /\ positioned e = true)).
Check (C13_no_panic :
  forall st root_path root ks,
  closed_b st root_path root ks = true ->
  names_guard_b st ks (all_lines st root_path root ks) = true ->
  resolve_imports st root_path root <> inl PanicMissingTarget).
Check (C13_import_order_irrelevant :
  forall st st' root_path root root' ks ds,
  store_perm st st' -> file_perm root root' ->
  exact_guard_b st root_path root ks = true ->
  names_guard_b st ks (all_lines st root_path root ks) = true ->
  resolve_imports st root_path root = inr ds ->
  exists ds', resolve_imports st' root_path root' = inr ds' /\ (forall d, In d ds <-> In d ds') /\ NoDup ds').
Check (C13_guards_on_reachable_lines_only :
  forall st root_path root k i,
  In (k, i) (all_lines st root_path root (reach_b st root_path root)) ->
  RL st root_path (fimports root) k i).
Check (C13_diamond_refuted :
  resolve_imports st_diamond k_main main_diamond
    = inr [Def false (s "Q") 0; frag (s "FB") 101; frag (s "F") 200]
  /\ Closure st_diamond k_main main_diamond (frag (s "FA") 100)
  /\ exact_guard_b st_diamond k_main main_diamond (reach_b st_diamond k_main main_diamond) = false).
Check (C13_respelled_path_refuted :
  resolve_imports st_respelled k_main main_respelled = inr [Def false (s "Q") 0; frag (s "FA") 100]
  /\ Closure st_respelled k_main main_respelled (frag (s "FB") 101)
  /\ exact_guard_b st_respelled k_main main_respelled (reach_b st_respelled k_main main_respelled) = false).
Check (C13_root_cycle_refuted :
  resolve_imports st_cycle k_main main_cycle
    = inr [frag (s "R") 0; Def false (s "Q") 1; frag (s "R") 0; frag (s "FA") 100]
  /\ ~ NoDup [frag (s "R") 0; Def false (s "Q") 1; frag (s "R") 0; frag (s "FA") 100]
  /\ exact_guard_b st_cycle k_main main_cycle (reach_b st_cycle k_main main_cycle) = false).
Check (C13_dup_target_refuted :
  exists root, resolve_extensions main_dup_items = inr root
               /\ resolve_imports st_dup k_main root = inl PanicMissingTarget
               /\ ~ BadLine st_dup k_main (fimports root)).
Check (C13_skipped_error_refuted :
  (exists ds, resolve_imports st_skipped k_main main_skipped = inr ds)
  /\ BadLine st_skipped k_main (fimports main_skipped)).
Check (C13_dup_fragment_masks_refuted :
  (exists ds, resolve_imports st_masks k_main main_masks = inr ds)
  /\ BadLine st_masks k_main (fimports main_masks)).
Check (C13_exact_full_refuted :
  ~ imports_exact_full).
Check (C13_error_iff_full_refuted :
  ~ imports_error_iff_full).
Check (C13_no_panic_full_refuted :
  ~ imports_no_panic_full).
Print Assumptions C13_imports_terminate.
Print Assumptions C13_imports_exact.
Print Assumptions C13_error_sound.
Print Assumptions C13_error_iff.
Print Assumptions C13_no_panic.
Print Assumptions C13_import_order_irrelevant.
Print Assumptions C13_guards_on_reachable_lines_only.
Print Assumptions C13_diamond_refuted.
Print Assumptions C13_respelled_path_refuted.
Print Assumptions C13_root_cycle_refuted.
Print Assumptions C13_dup_target_refuted.
Print Assumptions C13_skipped_error_refuted.
Print Assumptions C13_dup_fragment_masks_refuted.
Print Assumptions C13_exact_full_refuted.
Print Assumptions C13_error_iff_full_refuted.
Print Assumptions C13_no_panic_full_refuted.
