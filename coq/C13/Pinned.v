(** Pinned statements of the C13 property theorems: compiled on every check, so a theorem
    cannot be weakened silently. *)
From V Require Import Base.Util C20.Model C13.Model C13.Spec C13.Proofs C13.Properties.
From Coq Require Import Permutation.

Check (C13_imports_terminate :
  forall st root_path root, resolve_imports st root_path root <> inl OutOfFuel).
Check (C13_imports_exact :
  forall st root_path root ks ds,
  exact_guard_b st root_path root ks = true ->
  resolve_imports st root_path root = inr ds ->
  (forall d, In d ds <-> Closure st root_path root d) /\ NoDup ds).
Check (C13_error_sound :
  forall st root_path root e,
  resolve_imports st root_path root = inl e -> Justified st root_path (fimports root) e).
Check (C13_error_iff :
  forall st root_path root ks,
  error_guard_b st root_path root ks = true ->
  (BadLine st root_path (fimports root) <->
   exists e, resolve_imports st root_path root = inl e /\ positioned e = true)).
Check (C13_import_order_irrelevant :
  forall st st' root_path root root' ks ds,
  store_perm st st' -> file_perm root root' ->
  exact_guard_b st root_path root ks = true ->
  resolve_imports st root_path root = inr ds ->
  exists ds', resolve_imports st' root_path root' = inr ds' /\ (forall d, In d ds <-> In d ds') /\ NoDup ds').
Check (C13_guards_on_reachable_lines_only :
  forall st root_path root k i,
  In (k, i) (all_lines st root_path root (reach_b st root_path root)) ->
  RL st root_path (fimports root) k i).
Check (C13_diamond_refuted :
  resolve_imports st_diamond k_main main_diamond
    = inr [Def false (s "Q") 0; frag (s "FB") 101; frag (s "F") 200]
  /\ Closure st_diamond k_main main_diamond (frag (s "FA") 100)
  /\ exact_guard_b st_diamond k_main main_diamond (reach_b st_diamond k_main main_diamond) = false).
Check (C13_respelled_path_refuted :
  resolve_imports st_respelled k_main main_respelled = inr [Def false (s "Q") 0; frag (s "FA") 100]
  /\ Closure st_respelled k_main main_respelled (frag (s "FB") 101)
  /\ exact_guard_b st_respelled k_main main_respelled (reach_b st_respelled k_main main_respelled) = false).
Check (C13_root_cycle_refuted :
  resolve_imports st_cycle k_main main_cycle
    = inr [frag (s "R") 0; Def false (s "Q") 1; frag (s "R") 0; frag (s "FA") 100]
  /\ ~ NoDup [frag (s "R") 0; Def false (s "Q") 1; frag (s "R") 0; frag (s "FA") 100]
  /\ exact_guard_b st_cycle k_main main_cycle (reach_b st_cycle k_main main_cycle) = false).
Check (C13_skipped_error_refuted :
  (exists ds, resolve_imports st_skipped k_main main_skipped = inr ds)
  /\ BadLine st_skipped k_main (fimports main_skipped)).
Check (C13_exact_full_refuted :
  ~ imports_exact_full).
Check (C13_error_iff_full_refuted :
  ~ imports_error_iff_full).
Print Assumptions C13_imports_terminate.
Print Assumptions C13_imports_exact.
Print Assumptions C13_error_sound.
Print Assumptions C13_error_iff.
Print Assumptions C13_import_order_irrelevant.
Print Assumptions C13_guards_on_reachable_lines_only.
Print Assumptions C13_diamond_refuted.
Print Assumptions C13_respelled_path_refuted.
Print Assumptions C13_root_cycle_refuted.
Print Assumptions C13_skipped_error_refuted.
Print Assumptions C13_exact_full_refuted.
Print Assumptions C13_error_iff_full_refuted.
Check (C13_ext_char :
  forall doc,
  match resolve_extensions doc with
  | inr f =>
      fdefs f = item_defs doc
      /\ NoDup (map ipath (fimports f))
      /\ (forall i, In i (fimports f) ->
            has_line (ipath i) doc = true
            /\ merge_targets (Specific []) (group (ipath i) doc) = Some (itargets i))
      /\ (forall p, has_line p doc = true -> exists i, In i (fimports f) /\ ipath i = p)
  | inl _ => exists p, has_line p doc = true /\ merge_targets (Specific []) (group p doc) = None
  end).
Check (C13_ext_requests :
  forall doc f i,
  resolve_extensions doc = inr f -> In i (fimports f) ->
  match itargets i with
  | Wildcard => group (ipath i) doc = [TWild]
  | Specific ids => no_wild (group (ipath i) doc) = true /\ ids = target_ids (group (ipath i) doc)
  end).
Check (C13_ext_error_iff :
  forall doc,
  (exists e, resolve_extensions doc = inl e) <->
  (exists p, has_line p doc = true /\ no_wild (group p doc) = false /\ group p doc <> [TWild])).
Print Assumptions C13_ext_char.
Print Assumptions C13_ext_requests.
Print Assumptions C13_ext_error_iff.
Check (C13_import_lines_irrelevant :
  forall st st' root_path root root' ks ds,
  store_equiv st st' -> file_equiv root root' ->
  exact_guard_b st root_path root ks = true ->
  resolve_imports st root_path root = inr ds ->
  exists ds', resolve_imports st' root_path root' = inr ds' /\ (forall d, In d ds <-> In d ds') /\ NoDup ds').
Check (C13_ext_perm :
  forall doc doc' f,
  Permutation doc doc' -> item_defs doc = item_defs doc' ->
  resolve_extensions doc = inr f ->
  exists f', resolve_extensions doc' = inr f' /\ file_equiv f f').
Print Assumptions C13_import_lines_irrelevant.
Print Assumptions C13_ext_perm.
Check (C13_reach_closed :
  forall st root_path root, closed_b st root_path root (reach_b st root_path root) = true).
Check (C13_imports_exact_reach :
  forall st root_path root ds,
  guard_exact st root_path root = true ->
  resolve_imports st root_path root = inr ds ->
  (forall d, In d ds <-> Closure st root_path root d) /\ NoDup ds).
Check (C13_error_iff_reach :
  forall st root_path root,
  agree_b st (all_lines st root_path root (reach_b st root_path root)) = true ->
  (BadLine st root_path (fimports root) <->
   exists e, resolve_imports st root_path root = inl e /\ positioned e = true)).
Print Assumptions C13_reach_closed.
Print Assumptions C13_imports_exact_reach.
Print Assumptions C13_error_iff_reach.
Check (C13_closure_raw :
  forall ds st, StoreOf ds st ->
  forall root_path root_items root, resolve_extensions root_items = inr root ->
  forall d, RawClosure ds root_path root_items d <-> Closure st root_path root d).
Check (C13_imports_exact_raw :
  forall ds st root_path root_items root out,
  StoreOf ds st -> resolve_extensions root_items = inr root ->
  guard_exact st root_path root = true ->
  resolve_imports st root_path root = inr out ->
  (forall d, In d out <-> RawClosure ds root_path root_items d) /\ NoDup out).
Print Assumptions C13_closure_raw.
Print Assumptions C13_imports_exact_raw.
Check (C13_imports_sound :
  forall st root_path root ds,
  resolve_imports st root_path root = inr ds ->
  forall d, In d ds ->
    Closure st root_path root d /\ (In d (fdefs root) \/ def_is_frag d = true)).
Print Assumptions C13_imports_sound.
Check (C13_linear_work :
  forall st root_path root ds,
  resolve_imports st root_path root = inr ds ->
  exists tr : list entry,
    ds = fdefs root ++ tr_defs tr /\ NoDup (map ekey tr) /\ length tr <= length st).
Print Assumptions C13_linear_work.
Check (C13_select_exact :
  forall f i,
  match select f i with
  | inr sel => sel = wanted f i /\ missing_names f i = []
  | inl e => exists n p rest, missing_names f i = (n, p) :: rest /\ e = FragmentNotFound n (ipath i) p
  end).
Check (C13_one_line_honoured :
  forall st root_path root ds,
  resolve_imports st root_path root = inr ds ->
  forall k i, RL st root_path (fimports root) k i ->
    exists i0 f, RL st root_path (fimports root) k i0 /\ lookup st k = Some f /\ missing_names f i0 = []
                 /\ incl (wanted f i0) ds).
Check (C13_dup_target_ok :
  (exists root, resolve_extensions main_dup_items = inr root
                /\ resolve_imports st_dup k_main root = inr [Def false (s "Q") 0; frag (s "FA") 100])
  /\ (exists root, resolve_extensions main_dup_items2 = inr root
                /\ resolve_imports st_dup k_main root = inr [Def false (s "Q") 0; frag (s "FA") 100])).
Check (C13_dup_fragment_reported :
  resolve_imports st_masks k_main main_masks = inl (FragmentNotFound (s "FB") (s "./x.graphql") P0)
  /\ resolve_imports st_masks k_main
       {| fdefs := [Def false (s "Q") 0]; fimports := [imp (s "./x.graphql") (names [s "FA"])] |}
     = inr [Def false (s "Q") 0; frag (s "FA") 100; frag (s "FA") 101]).
Print Assumptions C13_select_exact.
Print Assumptions C13_one_line_honoured.
Print Assumptions C13_dup_target_ok.
Print Assumptions C13_dup_fragment_reported.
