(** C13 — correspondence ([agree]) and the property read on the implementation's outputs ([holds]).

    A case carries what the real parser produced for every file ([list item] =
    [OperationDocumentExt]) and what the real [resolve_operation_extensions] /
    [resolve_operation_imports] returned.

    [holds] does not use the model: it computes the reference closure directly from the *raw*
    [#import] lines of the files (before any merging), as the property text describes it. *)
From V Require Import Base.Util C20.Model C13.Model.

Inductive outcome := OOk (ds : list def) | OErr (msg : str) (p : pos) | OPanic (msg : str).
Inductive xoutcome := XOk (ds : list def) (imps : list import) | XErr (msg : str) (p : pos).

Inductive cli_obs := CliDiags (per_file : list (list str)) | CliCrash.

Inductive case :=
| CExt (doc : list item) (out : xoutcome)
    (* out = resolve_operation_extensions(doc) *)
| CImp (files : list (str * list item)) (root_path : str) (root : list item) (out : outcome)
    (* files = the resolver's map (path, parsed document); every document passed
       resolve_operation_extensions; out = resolve_operation_imports((root_path, root), resolver) *)
| CCli (files : list (str * list item * list str)) (obs : cli_obs).
    (* end to end through the real `nitrogql check` binary: files = (path as the CLI keys it, parsed
       document, names spread in that file's operations); obs = per file, the import-stage
       messages and the "Fragment 'X' is not defined" messages the CLI printed for it *)

(** * agree: model = implementation *)

Definition targets_eqb (a b : targets) : bool :=
  match a, b with
  | Wildcard, Wildcard => true
  | Specific x, Specific y => list_eqb (fun u v => str_eqb (fst u) (fst v) && pos_eqb (snd u) (snd v)) x y
  | _, _ => false
  end.
Definition import_eqb (a b : import) : bool :=
  str_eqb (ipath a) (ipath b) && pos_eqb (ipos a) (ipos b) && targets_eqb (itargets a) (itargets b).

Fixpoint build_store (files : list (str * list item)) : option store :=
  match files with
  | [] => Some []
  | (p, items) :: r =>
      match resolve_extensions items, build_store r with
      | inr f, Some st => Some ((components p, f) :: st)
      | _, _ => None
      end
  end.

Definition model_outcome (files : list (str * list item)) (root_path : str) (root : list item)
  : option (ierr + list def) :=
  match build_store files, resolve_extensions root with
  | Some st, inr rf => Some (resolve_imports st (components root_path) rf)
  | _, _ => None
  end.

(** ** what `nitrogql check` prints (crates/cli/src/check.rs::resolve_operations, then the checker's
    undefined-fragment rule on every resolved document): every file is a root; if any import
    resolution fails only those errors are reported; a panic kills the process *)
Definition subset_strs (a b : list str) : bool := forallb (fun x => existsb (str_eqb x) b) a.
Definition msg_undefined (n : str) : str := s "Fragment '" ++ n ++ s "' is not defined".
Definition cli_predict (files : list (str * list item * list str)) : option cli_obs :=
  match build_store (map (fun x : str * list item * list str => (fst (fst x), snd (fst x))) files) with
  | None => None
  | Some st =>
      let rs := map (fun x : str * list item * list str =>
                       let k := components (fst (fst x)) in
                       (match lookup st k with
                        | Some f => resolve_imports st k f
                        | None => inl OutOfFuel
                        end, snd x)) files in
      if existsb (fun r => match fst r with inl _ => true | _ => false end) rs
      then
        (* a diagnostic is attributed to the file its position lies in (the file of the offending
           import line), whichever root the resolution started from *)
        let errs := flat_map (fun r => match fst r with
                                       | inl e => match err_pos e with
                                                  | Some (Pos _ _ fi) => [(fi, err_message e)]
                                                  | None => []
                                                  end
                                       | inr _ => []
                                       end) rs in
        Some (CliDiags (map (fun j => map snd (filter (fun x => N.eqb (fst x) (N.of_nat j)) errs))
                            (seq 0 (length files))))
      else Some (CliDiags (map (fun r : (ierr + list def) * list str =>
                                  match fst r with
                                  | inr ds => map msg_undefined
                                                  (filter (fun n => negb (existsb (is_frag_named n) ds)) (snd r))
                                  | inl _ => []
                                  end) rs))
  end.

Definition agree (c : case) : bool :=
  match c with
  | CExt doc out =>
      match resolve_extensions doc, out with
      | inr f, XOk ds imps => list_eqb def_eqb (fdefs f) ds && list_eqb import_eqb (fimports f) imps
      | inl e, XErr msg p => str_eqb (xerr_message e) msg && pos_eqb (xerr_pos e) p
      | _, _ => false
      end
  | CImp files rp root out =>
      match model_outcome files rp root, out with
      | Some (inr ds), OOk ds' => list_eqb def_eqb ds ds'
      | Some (inl OutOfFuel), _ => false
      | Some (inl e), OErr msg p =>
          str_eqb (err_message e) msg && option_eqb pos_eqb (err_pos e) (Some p)
      | _, _ => false
      end
  | CCli files obs =>
      match cli_predict files, obs with
      | Some (CliDiags a), CliDiags b =>
          list_eqb (fun x y => subset_strs x y && subset_strs y x) a b
      | _, _ => false
      end
  end.

(** * holds: the reference closure over raw import lines *)

Record rline := { rl_path : str; rl_ppos : pos; rl_pos : pos; rl_ts : list target }.

Definition raw_lines (items : list item) : list rline :=
  flat_map (fun it => match it with
                      | IImport p ts path pp => [{| rl_path := path; rl_ppos := pp; rl_pos := p; rl_ts := ts |}]
                      | IDef _ => []
                      end) items.
Definition raw_defs (items : list item) : list def :=
  flat_map (fun it => match it with IDef d => [d] | _ => [] end) items.

Definition rstore := list (key * list item).
Fixpoint rlookup (st : rstore) (k : key) : option (list item) :=
  match st with
  | [] => None
  | (k', f) :: r => if key_eqb k' k then Some f else rlookup r k
  end.

Definition target_matches (d : def) (t : target) : bool :=
  match t with TWild => true | TName n _ => str_eqb n (def_name d) end.
Definition rwanted (defs : list def) (ts : list target) : list def :=
  filter (fun d => def_is_frag d && existsb (target_matches d) ts) defs.
Definition rmissing (defs : list def) (ts : list target) : list (str * pos) :=
  flat_map (fun t => match t with
                     | TWild => []
                     | TName n p => if existsb (is_frag_named n) defs then [] else [(n, p)]
                     end) ts.

Definition rline_key (doc : key) (l : rline) : key := resolve doc (components (rl_path l)).

Section Raw.
  Variable st : rstore.
  Definition rfile_targets (k : key) : list key :=
    match rlookup st k with Some items => map (rline_key k) (raw_lines items) | None => [] end.
  Fixpoint radd_new (new ks : list key) : list key :=
    match new with
    | [] => ks
    | k :: r => if mem_key k ks then radd_new r ks else radd_new r (ks ++ [k])
    end.
  Fixpoint rreach_iter (n : nat) (ks : list key) : list key :=
    match n with
    | O => ks
    | S n' => rreach_iter n' (radd_new (flat_map rfile_targets ks) ks)
    end.
  Definition rreach (root_path : key) (root : list item) : list key :=
    rreach_iter (S (length st)) (radd_new (map (rline_key root_path) (raw_lines root)) []).

  (** all reachable raw lines, each with the document it stands in *)
  Definition rall_lines (root_path : key) (root : list item) : list (key * rline) :=
    map (pair root_path) (raw_lines root)
    ++ flat_map (fun k => match rlookup st k with
                          | Some items => map (pair k) (raw_lines items)
                          | None => []
                          end) (rreach root_path root).

  Definition msg_file_not_found (path : str) : str := s "File '" ++ path ++ s "' not found.".
  Definition msg_frag_not_found (n path : str) : str :=
    s "'" ++ n ++ s "' is not found in the imported file '" ++ path ++ s "'.".

  (** the errors that are due: (message, position) *)
  Definition expected_errors (root_path : key) (root : list item) : list (str * pos) :=
    flat_map (fun dl : key * rline =>
                let (doc, l) := dl in
                match rlookup st (rline_key doc l) with
                | None => [(msg_file_not_found (rl_path l), rl_ppos l)]
                | Some items => map (fun np : str * pos => (msg_frag_not_found (fst np) (rl_path l), snd np))
                                    (rmissing (raw_defs items) (rl_ts l))
                end) (rall_lines root_path root).

  Definition expected_defs (root_path : key) (root : list item) : list def :=
    raw_defs root ++
    flat_map (fun dl : key * rline =>
                let (doc, l) := dl in
                match rlookup st (rline_key doc l) with
                | None => []
                | Some items => rwanted (raw_defs items) (rl_ts l)
                end) (rall_lines root_path root).
End Raw.

Definition mem_def (d : def) (l : list def) : bool := existsb (def_eqb d) l.
Definition subset_defs (a b : list def) : bool := forallb (fun d => mem_def d b) a.
Fixpoint nodup_defs (l : list def) : bool :=
  match l with [] => true | d :: r => negb (mem_def d r) && nodup_defs r end.

(** ** reference reading of [resolve_operation_extensions]: lines are grouped by path string; a
    group is acceptable iff it consists of names only, or of exactly one wildcard *)
Definition is_wild (t : target) : bool := match t with TWild => true | _ => false end.
Definition group_ts (path : str) (ls : list rline) : list target :=
  flat_map (fun l => if str_eqb (rl_path l) path then rl_ts l else []) ls.
Definition group_ok (ts : list target) : bool :=
  let w := length (filter is_wild ts) in
  match w with
  | O => true
  | S O => Nat.eqb (length ts) 1
  | _ => false
  end.
Definition names_of (ts : list target) : list str :=
  flat_map (fun t => match t with TName n _ => [n] | TWild => [] end) ts.
Fixpoint dedup_strs (l : list str) : list str :=
  match l with
  | [] => []
  | x :: r => if existsb (str_eqb x) r then dedup_strs r else x :: dedup_strs r
  end.

Definition ext_holds (doc : list item) (out : xoutcome) : bool :=
  let ls := raw_lines doc in
  let paths := dedup_strs (map rl_path ls) in
  let ok := forallb (fun p => group_ok (group_ts p ls)) paths in
  match out with
  | XErr msg p =>
      negb ok && existsb (fun l => pos_eqb (rl_pos l) p) ls
      && (str_eqb msg (s "Wildcard import should be specified only once")
          || str_eqb msg (s "Wildcard import cannot be combined with specific import"))
  | XOk ds imps =>
      ok && list_eqb def_eqb ds (raw_defs doc)
      && Nat.eqb (length imps) (length paths)
      && forallb (fun p =>
           existsb (fun i =>
             str_eqb (ipath i) p
             && existsb (fun l => str_eqb (rl_path l) p && pos_eqb (rl_ppos l) (ipos i)) ls
             && match itargets i with
                | Wildcard => existsb is_wild (group_ts p ls)
                | Specific ids => negb (existsb is_wild (group_ts p ls))
                                  && list_eqb str_eqb (map fst ids) (names_of (group_ts p ls))
                end) imps) paths
  end.

Fixpoint forall2b {A B} (f : A -> B -> bool) (a : list A) (b : list B) : bool :=
  match a, b with
  | [], [] => true
  | x :: a', y :: b' => f x y && forall2b f a' b'
  | _, _ => false
  end.
Definition is_nil_strs (l : list str) : bool := match l with [] => true | _ => false end.
Definition holds (c : case) : bool :=
  match c with
  | CExt doc out => ext_holds doc out
  | CImp files rp root out =>
      let st := map (fun pf : str * list item => (components (fst pf), snd pf)) files in
      let rk := components rp in
      let errs := expected_errors st rk root in
      match out with
      | OOk ds =>
          let exp := expected_defs st rk root in
          match errs with [] => true | _ => false end
          && subset_defs ds exp && subset_defs exp ds && nodup_defs ds
      | OErr msg p => existsb (fun e => str_eqb (fst e) msg && pos_eqb (snd e) p) errs
      | OPanic _ => false
      end
  | CCli files obs =>
      let st := map (fun x : str * list item * list str => (components (fst (fst x)), snd (fst x))) files in
      match obs with
      | CliCrash => false
      | CliDiags per_file =>
          let due := flat_map (fun x : str * list item * list str =>
                                 map fst (expected_errors st (components (fst (fst x))) (snd (fst x)))) files in
          match due with
          | [] =>
              (* no error is due anywhere: each file reports exactly the spreads outside its closure *)
              forall2b (fun (x : str * list item * list str) (msgs : list str) =>
                          let avail := expected_defs st (components (fst (fst x))) (snd (fst x)) in
                          let exp := map msg_undefined
                                         (filter (fun n => negb (existsb (is_frag_named n) avail)) (snd x)) in
                          subset_strs exp msgs && subset_strs msgs exp) files per_file
          | _ =>
              (* some error is due: at least one is reported, and everything reported is due *)
              negb (forallb is_nil_strs per_file)
              && forallb (fun msgs => subset_strs msgs due) per_file
          end
      end
  end.
