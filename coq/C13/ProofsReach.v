(** C13 — the breadth-first key set [reach_b] is closed under import edges: after
    [S (length st)] rounds nothing new can appear, because every round that is not yet closed
    brings in a key of the store that was not there before.  Hence the [closed_b] conjunct of
    the guards is always true at [ks := reach_b …]. *)
From V Require Import Base.Util C20.Model C13.Model C13.Spec C13.Proofs.

Section Saturation.
  Variable st : store.

  Definition T (ks : list key) : list key := map fst (flat_map (file_lines st) ks).
  Definition F (ks : list key) : list key := add_new (T ks) ks.
  Definition closedT (ks : list key) : Prop := forall k, In k (T ks) -> In k ks.

  Lemma add_new_spec new : forall ks k, In k (add_new new ks) <-> In k ks \/ In k new.
  Proof.
    induction new as [|n r IH]; intros ks k; cbn [add_new].
    - cbn; tauto.
    - destruct (mem_key n ks) eqn:Hm.
      + rewrite IH. apply mem_key_In in Hm. cbn [In]. split; [tauto|].
        intros [H|[<-|H]]; auto.
      + rewrite IH, in_app_iff. cbn [In]. tauto.
  Qed.

  Lemma add_new_id new : forall ks, (forall k, In k new -> In k ks) -> add_new new ks = ks.
  Proof.
    induction new as [|n r IH]; intros ks H; cbn [add_new]; [reflexivity|].
    assert (Hm : mem_key n ks = true) by (apply mem_key_In; apply H; left; reflexivity).
    rewrite Hm. apply IH. intros k Hk; apply H; right; exact Hk.
  Qed.

  Lemma T_In ks k :
    In k (T ks) <-> exists k0 f j, In k0 ks /\ lookup st k0 = Some f /\ In j (fimports f) /\ k = import_key k0 j.
  Proof.
    unfold T. rewrite in_map_iff. split.
    - intros ([k' j] & Hfst & Hin). cbn in Hfst; subst k'.
      apply in_flat_map in Hin. destruct Hin as (k0 & Hk0 & Hin).
      unfold file_lines in Hin. destruct (lookup st k0) as [f|] eqn:Hl; [|contradiction].
      unfold lines_of in Hin. apply in_map_iff in Hin. destruct Hin as (j' & Heq & Hj). inversion Heq; subst.
      exists k0, f, j. auto.
    - intros (k0 & f & j & Hk0 & Hl & Hj & ->). exists (import_key k0 j, j). split; [reflexivity|].
      apply in_flat_map. exists k0. split; [exact Hk0|]. unfold file_lines. rewrite Hl.
      unfold lines_of. apply in_map_iff. exists j. auto.
  Qed.

  Lemma F_incl ks k : In k ks -> In k (F ks).
  Proof. intros H. unfold F. apply add_new_spec. left; exact H. Qed.

  Lemma closed_fix ks : closedT ks -> F ks = ks.
  Proof. intros H. unfold F. apply add_new_id. exact H. Qed.

  Lemma reach_iter_closed n : forall ks, closedT ks -> reach_iter st n ks = ks.
  Proof.
    induction n as [|n IH]; intros ks H; cbn [reach_iter]; [reflexivity|].
    change (add_new (map fst (flat_map (file_lines st) ks)) ks) with (F ks).
    rewrite (closed_fix ks H). apply IH; exact H.
  Qed.

  Lemma reach_iter_incl n : forall ks k, In k ks -> In k (reach_iter st n ks).
  Proof.
    induction n as [|n IH]; intros ks k H; cbn [reach_iter]; [exact H|].
    apply IH. apply (F_incl ks k H).
  Qed.

  (** one round: either the result is closed, or a store key appeared that was not there *)
  Lemma step ks : closedT (F ks) \/ unvisited st (F ks) < unvisited st ks.
  Proof.
    destruct (forallb (fun k => match lookup st k with Some _ => mem_key k ks | None => true end) (F ks)) eqn:E.
    - left. rewrite forallb_forall in E. intros k Hk.
      apply T_In in Hk. destruct Hk as (k0 & f & j & Hk0 & Hl & Hj & ->).
      pose proof (E k0 Hk0) as Hm. rewrite Hl in Hm. apply mem_key_In in Hm.
      unfold F. apply add_new_spec. right. apply T_In. exists k0, f, j. auto.
    - right. assert (Hex : exists k f, In k (F ks) /\ lookup st k = Some f /\ ~ In k ks).
      { clear -E. induction (F ks) as [|a l IH]; cbn in E; [discriminate|].
        destruct (lookup st a) as [f|] eqn:Hl.
        - destruct (mem_key a ks) eqn:Hm.
          + cbn in E. destruct (IH E) as (k & f' & Hin & H). exists k, f'. split; [right; exact Hin | exact H].
          + exists a, f. split; [left; reflexivity|]. split; [exact Hl | apply mem_key_false; exact Hm].
        - cbn in E. destruct (IH E) as (k & f' & Hin & H). exists k, f'. split; [right; exact Hin | exact H]. }
      destruct Hex as (k & f & Hin & Hl & Hnotin).
      pose proof (unvisited_add st k ks f Hl Hnotin) as Hlt.
      assert (Hle : unvisited st (F ks) <= unvisited st (k :: ks)).
      { apply unvisited_mono. intros x [<-|Hx]; [exact Hin | apply F_incl; exact Hx]. }
      lia.
  Qed.

  Lemma saturate n : forall ks, unvisited st ks < n -> closedT (reach_iter st n ks).
  Proof.
    induction n as [|n IH]; intros ks Hlt; [lia|]. cbn [reach_iter].
    change (add_new (map fst (flat_map (file_lines st) ks)) ks) with (F ks).
    destruct (step ks) as [Hc|Hdec].
    - rewrite (reach_iter_closed n (F ks) Hc). exact Hc.
    - apply IH. lia.
  Qed.

  Lemma unvisited_le ks : unvisited st ks <= length st.
  Proof.
    unfold unvisited. induction st as [|a l IH]; cbn; [lia|].
    destruct (negb (mem_key (fst a) ks)); cbn; lia.
  Qed.

  Theorem reach_b_closed root_path root : closed_b st root_path root (reach_b st root_path root) = true.
  Proof.
    unfold closed_b. apply forallb_forall. intros [k i] Hin. cbn [fst]. apply mem_key_In.
    unfold reach_b.
    set (ks0 := add_new (map fst (lines_of root_path (fimports root))) []).
    assert (Hsat : closedT (reach_iter st (S (length st)) ks0))
      by (apply saturate; pose proof (unvisited_le ks0); lia).
    unfold all_lines in Hin. apply in_app_or in Hin. destruct Hin as [Hin|Hin].
    - apply reach_iter_incl. unfold ks0. apply add_new_spec. right.
      apply in_map_iff. exists (k, i). auto.
    - apply Hsat. unfold T. apply in_map_iff. exists (k, i). auto.
  Qed.
End Saturation.

(** * The theorems at [ks := reach_b]: the guards speak about reachable lines only and contain
      no closedness premise any more *)

Lemma guard_exact_b st root_path root :
  guard_exact st root_path root = true ->
  exact_guard_b st root_path root (reach_b st root_path root) = true.
Proof.
  unfold guard_exact, exact_guard_b. rewrite !andb_true_iff. intros [[Hd Ha] Hr].
  rewrite (reach_b_closed st root_path root). auto.
Qed.

Theorem imports_exact_reach st root_path root ds :
  guard_exact st root_path root = true ->
  resolve_imports st root_path root = inr ds ->
  (forall d, In d ds <-> Closure st root_path root d) /\ NoDup ds.
Proof. intros Hg. apply (imports_exact st root_path root _ ds (guard_exact_b _ _ _ Hg)). Qed.

Theorem imports_error_iff_reach st root_path root :
  agree_b st (all_lines st root_path root (reach_b st root_path root)) = true ->
  (BadLine st root_path (fimports root) <->
   exists e, resolve_imports st root_path root = inl e /\ positioned e = true).
Proof.
  intros Ha. apply (imports_error_iff st root_path root (reach_b st root_path root)).
  unfold error_guard_b. rewrite (reach_b_closed st root_path root), Ha. reflexivity.
Qed.

(** non-vacuity of the [reach_b] guards: the cyclic, shared-target graph of [guards_satisfiable] *)
Example reach_guards_satisfiable :
  guard_exact st_rec k_main main_rec = true
  /\ guard_exact st_diamond k_main main_diamond = false.
Proof. vm_compute. split; reflexivity. Qed.
