(** Shared utilities: strings as lists of Unicode scalar values, helpers used by the
    harness-written case files. Definitions only, plus a few generic lemmas. *)
From Coq Require Export List NArith ZArith Bool Lia.
From Coq Require Import Ascii String.
Export ListNotations.
Export String.StringSyntax.

Definition str := list N.

(** [s "abc"] : convenience used by generated case files for printable-ASCII strings. *)
Definition s (x : string) : str := map (fun a => N_of_ascii a) (list_ascii_of_string x).
Arguments s x%string_scope.

Fixpoint str_eqb (a b : str) : bool :=
  match a, b with
  | [], [] => true
  | x :: a', y :: b' => N.eqb x y && str_eqb a' b'
  | _, _ => false
  end.

Lemma str_eqb_spec a b : reflect (a = b) (str_eqb a b).
Proof.
  revert b; induction a as [|x a IH]; intros [|y b]; cbn; try (constructor; congruence).
  destruct (N.eqb_spec x y) as [->|Hn]; cbn.
  - destruct (IH b) as [->|Hn]; constructor; congruence.
  - constructor; congruence.
Qed.

Lemma str_eqb_refl a : str_eqb a a = true.
Proof. destruct (str_eqb_spec a a); congruence. Qed.

Fixpoint list_eqb {A} (eqb : A -> A -> bool) (a b : list A) : bool :=
  match a, b with
  | [], [] => true
  | x :: a', y :: b' => eqb x y && list_eqb eqb a' b'
  | _, _ => false
  end.

Definition option_eqb {A} (eqb : A -> A -> bool) (a b : option A) : bool :=
  match a, b with
  | None, None => true
  | Some x, Some y => eqb x y
  | _, _ => false
  end.

(** Indices (as N) of the elements of [l] on which [f] is false: the harness reads this
    list back; [] means every case agreed. *)
Fixpoint failing_from {A} (f : A -> bool) (i : N) (l : list A) : list N :=
  match l with
  | [] => []
  | x :: r => if f x then failing_from f (N.succ i) r else i :: failing_from f (N.succ i) r
  end.
Definition failing {A} (f : A -> bool) (l : list A) : list N := failing_from f 0%N l.

Lemma failing_from_nil_forallb {A} (f : A -> bool) l : forall i,
  failing_from f i l = [] -> forallb f l = true.
Proof.
  induction l as [|x r IH]; intros i H; cbn in *; [reflexivity|].
  destruct (f x); [cbn; eauto | discriminate].
Qed.
