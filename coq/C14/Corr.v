(** C14 — correspondence ([agree]) and the property read on the implementation's own outputs ([holds]). *)
From V Require Import Base.Util C14.Model.

(** identity of a runtime document as read (by the harness, with serde_json) from the JSON the
    implementation printed: kind and name of its first definition *)
Inductive rkind := ROp (k : opkind) | RFrag.
Definition rid := (rkind * option str)%type.

(** export statements read off the generated TEXT by the harness:
    (names of [export const NAME…] lines in order, names of [export { NAME as default };] lines) *)
Definition text_exports := (list str * list str)%type.

Record case := Case {
  c_doc : doc;                     (* the document as `nitrogql generate` sees it (distinct file indices) *)
  c_docL : doc;                    (* the same sources as the loader parses them (file index 0 throughout) *)
  c_B : list defbody;              (* unmodelled bodies, cut from a reference run *)
  c_ids : list (str * rid);        (* runtime JSON chunk -> identity of the document it holds *)
  c_cfg : cfg_text;                (* the configuration text, abstractly *)
  c_dts : list wop;                (* recorded: print_types_for_operation_document(from_config(parse_config text), doc) *)
  c_js : list wop;                 (* recorded: print_js_for_operation_document(from_config(parse_config text), doc) *)
  c_jsL : list wop;                (* recorded: the same on the loader's document *)
  c_text_safe : bool;              (* every configured suffix is identifier-like *)
  c_tdts : text_exports;           (* from the declaration file text *)
  c_tjsL : text_exports;           (* from the loader's JS text (the loader's own print_js) *)
  c_cli : option text_exports;     (* from the file the real `nitrogql-cli generate` wrote, when the case was also run end to end *)
  c_emit : option (bool * text_exports);
    (* when the case also went through the loader's real ABI (load_config, initiate_task, get_required_files,
       load_file, emit_js): whether the returned text is byte-identical to print_js on the document resolved in
       process, and the export lines of the returned text *)
  c_node : option (option (list str))
    (* when node really imported the loader's module: None = it failed to load (SyntaxError),
       Some keys = Object.keys of the module namespace *)
}.

Definition ops_eqb := list_eqb wop_eqb.

Definition opkind_eqb (a b : opkind) : bool :=
  match a, b with
  | KQuery, KQuery | KMutation, KMutation | KSubscription, KSubscription => true
  | _, _ => false
  end.
Definition def_eqb (a b : def) : bool :=
  match a, b with
  | OpDef k n p sl, OpDef k' n' p' sl' =>
      opkind_eqb k k'
      && option_eqb (fun x y => str_eqb (fst x) (fst y) && pos_eqb (snd x) (snd y)) n n'
      && pos_eqb p p' && pos_eqb sl sl'
  | FragDef n p, FragDef n' p' => str_eqb n n' && pos_eqb p p'
  | _, _ => false
  end.
Definition doc_eqb (a b : doc) : bool :=
  N.eqb (doc_file a) (doc_file b) && list_eqb def_eqb (defs a) (defs b).

Definition names_of_exports (l : list (ename * pos)) : list str :=
  flat_map (fun x => match fst x with Named n => [n] | Default => [] end) l.

Definition text_agrees (ops : list wop) (t : text_exports) : bool :=
  list_eqb str_eqb (names_of_exports (named_exports (scan ops))) (fst t)
  && list_eqb str_eqb (default_names (scan ops)) (snd t).

Definition export_key (x : ename * pos) : str :=
  match fst x with Named n => n | Default => s "default" end.
Definition subset_str (a b : list str) : bool := forallb (fun x => existsb (str_eqb x) b) a.

(** model output = implementation output, on complete op lists; the model's view of what the
    loader parses = what the loader parses; the guard on bodies holds for the real bodies; the
    exports read off the model's op lists = the export lines of the real texts *)
Definition agree (c : case) : bool :=
  let d := c_doc c in
  ops_eqb (dts_of_config (c_cfg c) d (c_B c)) (c_dts c)
  && ops_eqb (js_of_config (c_cfg c) d (c_B c)) (c_js c)
  && ops_eqb (js_of_config (c_cfg c) (loader_view d) (c_B c)) (c_jsL c)
  && doc_eqb (loader_view d) (c_docL c)
  && Nat.eqb (length (c_B c)) (length (defs d))
  && bodies_ok (c_B c)
  (* the loader's real emit_js returns what print_js gives on the document as the model sees it *)
  && match c_emit c with
     | None => true
     | Some (same, t) =>
         same && (if c_text_safe c then text_agrees (js_of_config (c_cfg c) (loader_view d) (c_B c)) t else true)
     end
  (* the model's runtime reading against a real JS engine *)
  && (let mjL := scan (js_of_config (c_cfg c) (loader_view d) (c_B c)) in
      match c_node c with
      | None => true
      | Some None => negb (loadable mjL)
      | Some (Some keys) =>
          loadable mjL && subset_str keys (map export_key (value_exports mjL))
          && subset_str (map export_key (value_exports mjL)) keys
      end)
  && (if c_text_safe c then
        text_agrees (dts_of_config (c_cfg c) d (c_B c)) (c_tdts c)
        && text_agrees (js_of_config (c_cfg c) (loader_view d) (c_B c)) (c_tjsL c)
        && match c_cli c with
           | Some t => text_agrees (dts_of_config (c_cfg c) d (c_B c)) t
           | None => true
           end
      else true).

(** * The property on the implementation's outputs *)

Definition export_eqb (a b : ename * pos) : bool :=
  ename_eqb (fst a) (fst b) && pos_eqb (snd a) (snd b).
Definition mem_export (x : ename * pos) (l : list (ename * pos)) : bool := existsb (export_eqb x) l.
Definition incl_exports (a b : list (ename * pos)) : bool := forallb (fun x => mem_export x b) a.

Fixpoint lookup_id (b : str) (ids : list (str * rid)) : option rid :=
  match ids with
  | [] => None
  | (k, v) :: r => if str_eqb k b then Some v else lookup_id b r
  end.
Definition id_of_def (x : def) : rid :=
  match x with
  | OpDef k name _ _ => (ROp k, name_of name)
  | FragDef n _ => (RFrag, Some n)
  end.
Definition rkind_eqb (a b : rkind) : bool :=
  match a, b with
  | ROp x, ROp y => opkind_eqb x y
  | RFrag, RFrag => true
  | _, _ => false
  end.
Definition rid_eqb (a b : rid) : bool := rkind_eqb (fst a) (fst b) && option_eqb str_eqb (snd a) (snd b).

(** every binding [const X = BODY] written for the node at position p holds the runtime document
    of a definition located at p (kind and name of the JSON's first definition) *)
Definition bindings_carry (ids : list (str * rid)) (d : doc) (ops : list wop) : bool :=
  forallb (fun x => match x with (_, p, b) =>
    match lookup_id b ids with
    | None => false
    | Some i => existsb (fun df => pos_eqb (decl_pos df) p && rid_eqb (id_of_def df) i) (defs d)
    end end) (js_bindings ops).

Definition holds (c : case) : bool :=
  let md := scan (c_dts c) in
  let mj := scan (c_js c) in
  let mjL := scan (c_jsL c) in
  (* each value export of the declaration file is exported under the same name, for the same
     definition, by the JS module printed from the same document ... *)
  incl_exports (value_exports md) (value_exports mj)
  (* ... and by the module the loader prints (positions compared modulo the file index), which
     must be loadable: duplicate declarations are a SyntaxError and nothing is exported *)
  && incl_exports (map zero_export (value_exports md)) (value_exports mjL)
  (* runtime reading, asked of documents that respect GraphQL's own name-uniqueness rules *)
  && (if doc_valid_names (c_doc c) then
        incl_exports (map zero_export (value_exports md)) (runtime_exports mjL)
        && match c_node c with
           | None => true
           | Some None => match value_exports md with [] => true | _ => false end
           | Some (Some keys) => subset_str (map export_key (value_exports md)) keys
           end
      else true)
  && list_eqb str_eqb (default_names md) (default_names mj)
  && list_eqb str_eqb (default_names md) (default_names mjL)
  && bindings_carry (c_ids c) (c_doc c) (c_js c)
  && bindings_carry (c_ids c) (c_docL c) (c_jsL c)
  (* the same at the level of the generated texts *)
  && (if c_text_safe c then
        subset_str (fst (c_tdts c)) (fst (c_tjsL c)) && list_eqb str_eqb (snd (c_tdts c)) (snd (c_tjsL c))
        && match c_cli c with
           | Some t => subset_str (fst t) (fst (c_tjsL c)) && list_eqb str_eqb (snd t) (snd (c_tjsL c))
           | None => true
           end
        && match c_emit c with
           | Some (_, t) =>
               subset_str (fst (c_tdts c)) (fst t) && list_eqb str_eqb (snd (c_tdts c)) (snd t)
               && match c_cli c with
                  | Some tc => subset_str (fst tc) (fst t) && list_eqb str_eqb (snd tc) (snd t)
                  | None => true
                  end
           | None => true
           end
      else true).

(** * Histories on one loader instance *)

Record hstep := HStep {
  hs_load : option cfg_text;     (* Some c: load_config(text of c) was called before this emission; None: not called *)
  hs_doc : doc;                  (* resolved document of the emitted file, CLI view *)
  hs_B : list defbody;
  hs_spreads : list str;         (* fragment names spread in the resolved document, document / depth-first order *)
  hs_safe : bool;                (* the suffixes of the configuration current at this step are identifier-like *)
  hs_same : bool;                (* text returned by the real emit_js = JS printer with from_config(parse_config(current text)) *)
  hs_tdts : text_exports;        (* export lines of the declaration file printed from the current configuration text;
                                    nothing when `nitrogql generate` refuses the document *)
  hs_temit : option text_exports;(* export lines of the text the real emit_js returned at this step; None: emit_js returned false *)
  hs_err : option str            (* then: the fragment named by "Fragment '…' is not defined" *)
}.

(* the model's fold: the configuration current at each step; a failing emit is "no module" *)
Fixpoint agree_hist (cur : cfg_text) (h : list hstep) : bool :=
  match h with
  | [] => true
  | st :: r =>
      let cur' := match hs_load st with Some c => c | None => cur end in
      match run_loader2 cur' [L2Emit (hs_doc st) (hs_B st) (hs_spreads st)] with
      | [(_, _, _, EModule ops)] =>
          match hs_temit st with
          | Some te =>
              hs_same st
              && (if hs_safe st then
                    text_agrees ops te
                    && text_agrees (dts_of_config cur' (hs_doc st) (hs_B st)) (hs_tdts st)
                  else true)
          | None => false
          end
      | [(_, _, _, EError n)] =>
          match hs_temit st, hs_err st with
          | None, Some m => str_eqb n m
          | _, _ => false
          end
      | _ => false
      end
      && agree_hist cur' r
  end.

(* the property per step, on the implementation's outputs only: what is declared under the current configuration
   is exported by the module emitted at that step; where no module is emitted nothing may be declared *)
Definition holds_hist (h : list hstep) : bool :=
  forallb (fun st =>
    match hs_temit st with
    | Some te =>
        if hs_safe st then
          subset_str (fst (hs_tdts st)) (fst te) && list_eqb str_eqb (snd (hs_tdts st)) (snd te)
        else true
    | None => match hs_tdts st with ([], []) => true | _ => false end
    end) h.

Inductive tcase := One (c : case) | Hist (h : list hstep).
Definition agree_t (t : tcase) : bool := match t with One c => agree c | Hist h => agree_hist None h end.
Definition holds_t (t : tcase) : bool := match t with One c => holds c | Hist h => holds_hist h end.
