(** C14 — proofs, second part: histories with failing emits, the structure of the class
    colliding-variable-names, the default-export rule. *)
From V Require Import Base.Util C14.Model C14.Proofs.

(** * Histories with failing emits *)

Lemma first_undefined_not_in fr sp n : first_undefined fr sp = Some n -> ~ In n fr /\ In n sp.
Proof.
  induction sp as [|x r IH]; cbn [first_undefined]; [discriminate|].
  destruct (existsb (str_eqb x) fr) eqn:E.
  - intros H. destruct (IH H) as [H1 H2]. split; [exact H1|right; exact H2].
  - intros H. inversion H; subst x. split; [|left; reflexivity].
    intros Hin. assert (existsb (str_eqb n) fr = true) as E'.
    { apply existsb_exists. exists n. split; [exact Hin|apply str_eqb_refl]. }
    congruence.
Qed.

Lemma first_undefined_none fr sp : first_undefined fr sp = None -> incl sp fr.
Proof.
  induction sp as [|x r IH]; cbn [first_undefined]; intros H y Hy; [destruct Hy|].
  destruct (existsb (str_eqb x) fr) eqn:E; [|discriminate].
  destruct Hy as [->|Hy]; [|apply IH; assumption].
  apply existsb_exists in E as [z [Hz Hxz]]. destruct (str_eqb_spec y z); [subst; exact Hz|discriminate].
Qed.

Definition step2_ok (e : cfg_text * doc * list defbody * emission) : Prop :=
  match e with
  | (c, d, B, EModule ops) =>
      bodies_ok B = true -> names_ok (type_from_config (parse_config c)) d = true ->
      length B = length (defs d) ->
      incl (map zero_export (value_exports (scan (dts_of_config c d B)))) (value_exports (scan ops))
      /\ default_names (scan (dts_of_config c d B)) = default_names (scan ops)
  | (c, d, B, EError n) => ~ In n (frag_names (defs d))
  end.

Lemma history2_ok h : forall cur, Forall step2_ok (run_loader2 cur h).
Proof.
  induction h as [|[c|d B sp] r IH]; intros cur; cbn [run_loader2].
  - constructor.
  - apply IH.
  - constructor; [|apply IH]. unfold emit2, undefined_spread.
    destruct (first_undefined (frag_names (defs d)) sp) as [n|] eqn:E; cbn [step2_ok].
    + apply (first_undefined_not_in _ _ _ E).
    + intros HB HN HL. apply exports_loader; assumption.
Qed.

(** a failing emit changes nothing for the other emissions of the history *)
Lemma history2_failures_transparent h : forall cur,
  filter is_module (run_loader2 cur h) = run_loader2 cur (filter (fun x => negb (failing_emit x)) h).
Proof.
  induction h as [|[c|d B sp] r IH]; intros cur; cbn [run_loader2 filter failing_emit negb].
  - reflexivity.
  - cbn [run_loader2]. apply IH.
  - unfold emit2. destruct (undefined_spread d sp) as [n|] eqn:E; cbn [is_module negb run_loader2].
    + apply IH.
    + unfold emit2. rewrite E. f_equal. apply IH.
Qed.

(** without undefined spreads the extended history model is the earlier one *)
Definition erase_lop (x : lop2) : lop := match x with L2Load c => LLoad c | L2Emit d B _ => LEmit d B end.
Definition wrap_emission (e : cfg_text * doc * list defbody * list wop) : cfg_text * doc * list defbody * emission :=
  match e with (c, d, B, ops) => (c, d, B, EModule ops) end.
Lemma history2_conservative h : forall cur,
  forallb (fun x => negb (failing_emit x)) h = true ->
  run_loader2 cur h = map wrap_emission (run_loader cur (map erase_lop h)).
Proof.
  induction h as [|[c|d B sp] r IH]; intros cur H; cbn [run_loader2 map erase_lop run_loader].
  - reflexivity.
  - apply IH. exact H.
  - cbn [forallb failing_emit] in H. apply andb_true_iff in H as [H1 H2].
    unfold emit2. destruct (undefined_spread d sp); [discriminate|]. cbn [wrap_emission]. f_equal. apply IH; exact H2.
Qed.

(** * Structure of name collisions *)

Lemma prefixb_app_eq a : forall b u v, a ++ u = b ++ v -> prefixb a b = true \/ prefixb b a = true.
Proof.
  induction a as [|x a IH]; intros b u v H; [left; reflexivity|].
  destruct b as [|y b]; [right; reflexivity|].
  cbn [app] in H. inversion H; subst y. cbn [prefixb]. rewrite N.eqb_refl. cbn [andb].
  apply (IH b u v). assumption.
Qed.

Lemma app_eq_suffix_related x y a b : x ++ a = y ++ b -> suffix_related a b = true.
Proof.
  intros H. apply (f_equal (@rev N)) in H. rewrite !rev_app_distr in H.
  unfold suffix_related, is_suffixb. destruct (prefixb_app_eq _ _ _ _ H) as [E|E]; rewrite E; [reflexivity|apply orb_true_r].
Qed.

Lemma capitalize_eq_iff a b : capitalize a = capitalize b <-> eq_mod_first_case a b = true.
Proof.
  destruct a as [|x a], b as [|y b]; cbn [capitalize eq_mod_first_case]; try (split; [discriminate|discriminate]).
  - split; reflexivity.
  - split.
    + intros H. inversion H as [[H1 H2]]. rewrite H1, N.eqb_refl, str_eqb_refl. reflexivity.
    + intros H. apply andb_true_iff in H as [H1 H2]. apply N.eqb_eq in H1.
      destruct (str_eqb_spec a b); [subst; rewrite H1; reflexivity|discriminate].
Qed.

Lemma str_eqb_iff a b : str_eqb a b = true <-> a = b.
Proof. destruct (str_eqb_spec a b); split; congruence. Qed.

Lemma operation_name_raw o name :
  operation_name o name = if capitalize_operation_names o then capitalize (raw_name name) else raw_name name.
Proof. destruct name as [[n p]|]; cbn [operation_name raw_name]; [reflexivity|]. destruct (capitalize_operation_names o); reflexivity. Qed.

Lemma opkind_eq_iff a b : opkind_eq a b = true <-> a = b.
Proof. destruct a, b; cbn; split; congruence. Qed.

Lemma collides_iff o x y : collides o x y = true <-> var_name o x = var_name o y.
Proof.
  destruct x as [k1 n1 p1 s1|f1 p1], y as [k2 n2 p2 s2|f2 p2]; cbn [collides var_name].
  - destruct (opkind_eq k1 k2) eqn:Ek.
    + apply opkind_eq_iff in Ek; subst k2. unfold operation_var. rewrite !operation_name_raw.
      destruct (capitalize_operation_names o).
      * rewrite <- capitalize_eq_iff. split; [intros ->; reflexivity|apply app_inv_tail].
      * rewrite str_eqb_iff. split; [intros ->; reflexivity|apply app_inv_tail].
    + rewrite andb_true_iff, str_eqb_iff. split; [intros [_ H]; exact H|].
      intros H. split; [|exact H]. unfold operation_var in H. apply (app_eq_suffix_related _ _ _ _ H).
  - apply str_eqb_iff.
  - apply str_eqb_iff.
  - rewrite str_eqb_iff. unfold fragment_var. split; [intros ->; reflexivity|apply app_inv_tail].
Qed.

Lemma existsb_ext_in {A} (f g : A -> bool) l : (forall x, f x = g x) -> existsb f l = existsb g l.
Proof. intros H. induction l as [|x l IH]; cbn; [reflexivity|rewrite H, IH; reflexivity]. Qed.

Lemma bool_iff_eq (a b : bool) : (a = true <-> b = true) -> a = b.
Proof. destruct a, b; intros [H1 H2]; try reflexivity; [symmetry; apply H1; reflexivity|apply H2; reflexivity]. Qed.

Lemma existsb_map_str {A} (g : A -> str) (f : str -> bool) l : existsb f (map g l) = existsb (fun y => f (g y)) l.
Proof. induction l as [|y l IH]; [reflexivity|]. cbn [map existsb]. rewrite IH. reflexivity. Qed.

Lemma nodupb_map_pairwise {A} (g : A -> str) l :
  nodupb (map g l) = negb (pairwise_exists (fun x y => str_eqb (g x) (g y)) l).
Proof.
  induction l as [|x l IH]; [reflexivity|].
  cbn [map nodupb pairwise_exists]. rewrite IH, negb_orb, existsb_map_str. reflexivity.
Qed.

Lemma pairwise_exists_ext {A} (f g : A -> A -> bool) l :
  (forall x y, f x y = g x y) -> pairwise_exists f l = pairwise_exists g l.
Proof.
  intros H. induction l as [|x l IH]; [reflexivity|]. cbn [pairwise_exists].
  rewrite IH. f_equal. apply existsb_ext_in. intros y; apply H.
Qed.

Lemma distinct_vars_has_collision o d : distinct_vars o d = negb (has_collision o d).
Proof.
  unfold distinct_vars, has_collision. rewrite nodupb_map_pairwise. f_equal.
  apply pairwise_exists_ext. intros x y. apply bool_iff_eq.
  rewrite str_eqb_iff. symmetry. apply collides_iff.
Qed.

(** cross-kind: suffixes of which neither ends with the other never collide *)
Lemma cross_kind_never o k1 k2 n1 n2 :
  suffix_related (op_suffix o k1) (op_suffix o k2) = false ->
  operation_var o k1 n1 <> operation_var o k2 n2.
Proof.
  intros H E. unfold operation_var in E. apply app_eq_suffix_related in E. congruence.
Qed.

(** fragments of a name-valid document never collide with each other, whatever the suffix *)
Lemma nodupb_spec l : nodupb l = true <-> NoDup l.
Proof.
  induction l as [|x l IH]; cbn [nodupb]; [split; [constructor|reflexivity]|].
  rewrite andb_true_iff, negb_true_iff, IH. split.
  - intros [H1 H2]. constructor; [|exact H2]. intros Hin.
    assert (existsb (str_eqb x) l = true) by (apply existsb_exists; exists x; split; [exact Hin|apply str_eqb_refl]). congruence.
  - intros H. inversion H as [|? ? Hn Hd]; subst. split; [|exact Hd].
    destruct (existsb (str_eqb x) l) eqn:E; [|reflexivity].
    apply existsb_exists in E as [y [Hy Hxy]]. apply str_eqb_iff in Hxy; subst y. contradiction.
Qed.

Lemma fragments_never_collide o l :
  nodupb (frag_names l) = true -> nodupb (map (fragment_var o) (frag_names l)) = true.
Proof.
  rewrite !nodupb_spec. generalize (frag_names l). intros fs H.
  induction H as [|x fs Hn Hd IH]; cbn [map]; constructor; [|exact IH].
  intros Hin. apply in_map_iff in Hin as [y [E Hy]].
  unfold fragment_var in E. apply app_inv_tail in E. subst y. contradiction.
Qed.

(** with the default options: operations of different kinds never collide *)
Lemma default_suffixes_separate k1 k2 :
  opkind_eq k1 k2 = false -> suffix_related (op_suffix base_default k1) (op_suffix base_default k2) = false.
Proof. destruct k1, k2; intros H; try discriminate; vm_compute; reflexivity. Qed.

Lemma app_nil_r_str (a : str) : a ++ s "" = a.
Proof. apply app_nil_r. Qed.

Lemma collides_default_iff x y :
  collides_default x y = true <-> var_name base_default x = var_name base_default y.
Proof.
  rewrite <- collides_iff.
  destruct x as [k1 n1 p1 s1|f1 p1], y as [k2 n2 p2 s2|f2 p2]; cbn [collides collides_default].
  - destruct (opkind_eq k1 k2) eqn:Ek; cbn [andb].
    + change (capitalize_operation_names base_default) with true. cbv iota. reflexivity.
    + rewrite (default_suffixes_separate _ _ Ek). cbn [andb]. reflexivity.
  - unfold operation_var, fragment_var. rewrite operation_name_raw.
    change (capitalize_operation_names base_default) with true. cbv iota.
    change (fragment_variable_suffix base_default) with (s ""). rewrite app_nil_r_str.
    rewrite !str_eqb_iff. split; intros H; symmetry; exact H.
  - unfold operation_var, fragment_var. rewrite operation_name_raw.
    change (capitalize_operation_names base_default) with true. cbv iota.
    change (fragment_variable_suffix base_default) with (s ""). rewrite app_nil_r_str. reflexivity.
  - reflexivity.
Qed.

Lemma distinct_vars_default d :
  distinct_vars base_default d = negb (pairwise_exists collides_default (defs d)).
Proof.
  rewrite distinct_vars_has_collision. unfold has_collision. f_equal.
  apply pairwise_exists_ext. intros x y. apply bool_iff_eq.
  rewrite collides_iff, collides_default_iff. reflexivity.
Qed.

(** * The default-export rule *)

Lemma default_names_app a b : default_names (a ++ b) = default_names a ++ default_names b.
Proof.
  induction a as [|x a IH]; [reflexivity|]. destruct x; cbn [app default_names]; rewrite IH; reflexivity.
Qed.

Lemma default_names_items o d l :
  default_names (flat_map (items o d) l)
  = if default_export_for_operation o && single_op d then map (var_name o) (filter is_op l) else [].
Proof.
  induction l as [|x l IH]; [destruct (_ && _); reflexivity|].
  cbn [flat_map]. rewrite default_names_app, IH.
  destruct x as [k name p sel|n p]; cbn [items default_names filter is_op map var_name app].
  - destruct (default_export_for_operation o && single_op d); reflexivity.
  - destruct (default_export_for_operation o && single_op d); reflexivity.
Qed.

Lemma cfg_default_flag_spec c :
  default_export_for_operation (base_from_config (parse_config c)) = cfg_default_flag c
  /\ named_export_for_operation (base_from_config (parse_config c)) = negb (cfg_default_flag c).
Proof.
  destruct c as [[m t n [[[b|] r v]|]]|]; split; reflexivity.
Qed.

Lemma default_rule_js o d B :
  bodies_ok B = true -> length B = length (defs d) ->
  default_names (scan (js_ops o d B)) = expected_default_names o d.
Proof. intros HB HL. rewrite scan_js_ops by assumption. apply default_names_items. Qed.

Lemma default_rule_dts t d B :
  bodies_ok B = true -> names_ok t d = true -> length B = length (defs d) ->
  default_names (scan (dts_ops t d B)) = expected_default_names (t_base t) d.
Proof. intros HB HN HL. rewrite scan_dts_ops by assumption. apply default_names_items. Qed.

Lemma default_rule_config c d B B' :
  bodies_ok B = true -> bodies_ok B' = true ->
  names_ok (type_from_config (parse_config c)) d = true ->
  length B = length (defs d) -> length B' = length (defs d) ->
  let o := js_from_config (parse_config c) in
  let expected := if cfg_default_flag c && single_op d then map (var_name o) (filter is_op (defs d)) else [] in
  default_names (scan (dts_of_config c d B)) = expected
  /\ default_names (scan (js_of_config c d B')) = expected
  /\ default_names (scan (js_of_config c (loader_view d) B')) = expected.
Proof.
  intros HB HB' HN HL HL' o expected.
  assert (E : expected = expected_default_names o d).
  { unfold expected, expected_default_names, o, js_from_config. rewrite (proj1 (cfg_default_flag_spec c)). reflexivity. }
  rewrite E. split; [|split].
  - unfold dts_of_config. rewrite default_rule_dts by assumption. reflexivity.
  - unfold js_of_config. apply default_rule_js; assumption.
  - destruct (exports_loader c d B B' HB HB' HN HL HL') as [_ H]. rewrite <- H.
    unfold dts_of_config. rewrite default_rule_dts by assumption. reflexivity.
Qed.

(** * Examples *)

Example ex_collision_class :
  (* the three corpus witnesses are in the class, a harmless document is not *)
  pairwise_exists collides_default (defs collide_doc) = true
  /\ has_collision (js_from_config (parse_config collide_cfg2)) collide_doc2 = true
  /\ pairwise_exists collides_default (defs ex_doc) = false
  /\ doc_valid_names ex_doc = true.
Proof. repeat split; vm_compute; reflexivity. Qed.

Definition ex_hist2 : list lop2 :=
  [L2Emit ex_doc ex_B [s "F"];                          (* before any load_config: default configuration *)
   L2Load ex_cfg;
   L2Emit ex_doc ex_B [s "F"; s "Missing"; s "G"];      (* spreads an undefined fragment: no module *)
   L2Emit ex_doc ex_B [s "G"]].                         (* the next emit is unaffected *)
Example ex_history2 :
  map (fun e => match e with
                | (_, _, _, EModule ops) => Some (default_names (scan ops), map fst (named_exports (scan ops)))
                | (_, _, _, EError n) => None
                end) (run_loader2 None ex_hist2)
  = [Some ([s "FooQuery"], [Named (s "F"); Named (s "G")]);
     None;
     Some ([], [Named (s "fooDoc"); Named (s "FFrag"); Named (s "GFrag")])].
Proof. vm_compute. reflexivity. Qed.

Example ex_default_rule :
  expected_default_names (js_from_config (parse_config None)) ex_doc = [s "FooQuery"]
  /\ expected_default_names (js_from_config (parse_config ex_cfg)) ex_doc = []
  /\ expected_default_names (js_from_config (parse_config None)) collide_doc2 = [].
Proof. repeat split; vm_compute; reflexivity. Qed.

Lemma runtime_exports_class t d B B' :
  bodies_ok B = true -> bodies_ok B' = true -> names_ok t d = true ->
  length B = length (defs d) -> length B' = length (defs d) ->
  has_collision (t_base t) d = false ->
  incl (map zero_export (value_exports (scan (dts_ops t d B))))
       (runtime_exports (scan (js_ops (t_base t) (loader_view d) B')))
  /\ default_names (scan (dts_ops t d B)) = default_names (scan (js_ops (t_base t) (loader_view d) B')).
Proof.
  intros HB HB' HN HL HL' HC. apply runtime_exports_loader_t; try assumption.
  rewrite distinct_vars_has_collision, HC. reflexivity.
Qed.
