(** C14 — proofs.  The main fact: under the guards, the export-relevant reading ([scan]) of the
    declaration file's op list and of the JS module's op list is the same list of items, computed
    by one function ([items]) of the base options and the document. *)
From V Require Import Base.Util C14.Model.

(** * Generic list facts *)

Lemma map_fst_combine {A B} (l : list A) (l' : list B) :
  length l' = length l -> map fst (combine l l') = l.
Proof.
  revert l'; induction l as [|x l IH]; intros [|y l'] H; cbn in *; try discriminate; try reflexivity.
  f_equal; apply IH; congruence.
Qed.

Lemma Forall2_flat_map {A B C} (R : B -> C -> Prop) (f : A -> list B) (g : A -> list C) l :
  (forall x, In x l -> Forall2 R (f x) (g x)) -> Forall2 R (flat_map f l) (flat_map g l).
Proof.
  induction l as [|x l IH]; intros H; cbn; [constructor|].
  apply Forall2_app; [apply H; left; reflexivity | apply IH; intros y Hy; apply H; right; exact Hy].
Qed.

Lemma Forall2_In_l {A B} (R : A -> B -> Prop) l l' a :
  Forall2 R l l' -> In a l -> exists b, In b l' /\ R a b.
Proof.
  induction 1 as [|x y l l' Hxy _ IH]; intros Hin; [destruct Hin|].
  destruct Hin as [->|Hin]; [exists y; split; [left; reflexivity|exact Hxy]|].
  destruct (IH Hin) as [b [Hb Hr]]; exists b; split; [right; exact Hb|exact Hr].
Qed.

(** * [scan], one step at a time *)

Lemma scan_W c r :
  scan (W c :: r) =
  match kw_of c with
  | None => scan r
  | Some KwExport =>
      match r with
      | W c2 :: WF n p _ :: r' => if str_eqb c2 k_const then IDecl true n p :: scan r' else scan r
      | _ => scan r
      end
  | Some KwConst =>
      match r with
      | WF n p _ :: r' => IDecl false n p :: scan r'
      | _ => scan r
      end
  | Some KwExportBrace =>
      match r with
      | W n :: W t :: r' => if str_eqb t k_as_default then IDefault n :: scan r' else scan r
      | _ => scan r
      end
  end.
Proof. reflexivity. Qed.

Lemma scan_skipW c r : kw_of c = None -> scan (W c :: r) = scan r.
Proof. intros H; rewrite scan_W, H; reflexivity. Qed.

Lemma scan_skipWF c p n r : scan (WF c p n :: r) = scan r.
Proof. reflexivity. Qed.

Lemma scan_skip o r : is_kw o = false -> scan (o :: r) = scan r.
Proof.
  destruct o as [c| | |]; try reflexivity.
  unfold is_kw; intros H; apply scan_skipW. destruct (kw_of c); [discriminate|reflexivity].
Qed.

Lemma is_kw_W c : is_kw (W c) = false -> kw_of c = None.
Proof. unfold is_kw; destruct (kw_of c); [discriminate|reflexivity]. Qed.

Lemma scan_app_kwfree l r : kw_free l = true -> scan (l ++ r) = scan r.
Proof.
  induction l as [|o l IH]; intros H; [reflexivity|].
  cbn [kw_free forallb] in H. apply andb_true_iff in H as [Ho Hl].
  cbn [app]. rewrite scan_skip; [apply IH; exact Hl|].
  destruct (is_kw o); [discriminate|reflexivity].
Qed.

Lemma scan_export_const n p x r :
  scan (W k_export :: W k_const :: WF n p x :: r) = IDecl true n p :: scan r.
Proof. reflexivity. Qed.

Lemma scan_export_skip c2 r :
  str_eqb c2 k_const = false -> scan (W k_export :: W c2 :: r) = scan (W c2 :: r).
Proof.
  intros H. rewrite (scan_W k_export). change (kw_of k_export) with (Some KwExport). cbv beta iota.
  destruct r as [|[c| | |] r']; try reflexivity. rewrite H; reflexivity.
Qed.

Lemma scan_const n p x r : scan (W k_const :: WF n p x :: r) = IDecl false n p :: scan r.
Proof. reflexivity. Qed.

Lemma scan_default n r :
  scan (W k_export_brace :: W n :: W k_as_default :: r) = IDefault n :: scan r.
Proof. reflexivity. Qed.

Ltac kwside := first [ reflexivity | assumption ].
Ltac scan_step :=
  first
    [ rewrite scan_export_const
    | rewrite scan_const
    | rewrite scan_default
    | rewrite scan_export_skip by reflexivity
    | rewrite scan_skipWF
    | rewrite scan_skipW by kwside
    | rewrite scan_app_kwfree by assumption ].

(** * The items of one definition *)

Definition items (o : base_opts) (d : doc) (x : def) : list item :=
  match x with
  | OpDef k name p _ =>
      IDecl (named_export_for_operation o) (operation_var o k name) (name_pos name p)
      :: (if default_export_for_operation o && single_op d then [IDefault (operation_var o k name)] else [])
  | FragDef n p => [IDecl (frag_exported d p) (fragment_var o n) p]
  end.

Lemma body_ok_parts b :
  body_ok b = true ->
  kw_free (b_type b) = true /\ (forall t, kw_free (vars_body t b) = true) /\ kw_of (b_runtime b) = None.
Proof.
  unfold body_ok. intros H. apply andb_true_iff in H as [H H4]. apply andb_true_iff in H as [H H3].
  apply andb_true_iff in H as [H1 H2].
  repeat split; try assumption.
  - intros t. unfold vars_body. destruct (allow_undefined_as_optional_input t); assumption.
  - apply is_kw_W. destruct (is_kw (W (b_runtime b))); [discriminate|reflexivity].
Qed.

(** ** JS visitor *)

Lemma scan_js_operation o ex k name p sel b rest :
  body_ok b = true ->
  scan (js_operation o ex k name p sel b ++ rest)
  = IDecl ex (operation_var o k name) (name_pos name p) :: scan rest.
Proof.
  intros Hb. destruct (body_ok_parts b Hb) as [_ [_ Hr]].
  unfold js_operation. rewrite <- !app_assoc. destruct ex; cbn [app]; repeat scan_step; reflexivity.
Qed.

Lemma scan_js_fragment o ex n p b rest :
  body_ok b = true ->
  scan (js_fragment o ex n p b ++ rest) = IDecl ex (fragment_var o n) p :: scan rest.
Proof.
  intros Hb. destruct (body_ok_parts b Hb) as [_ [_ Hr]].
  unfold js_fragment. rewrite <- !app_assoc. destruct ex; cbn [app]; repeat scan_step; reflexivity.
Qed.

Lemma scan_default_export_ops o k name rest :
  scan (default_export_ops o k name ++ rest) = IDefault (operation_var o k name) :: scan rest.
Proof. unfold default_export_ops. cbn [app]. apply scan_default. Qed.

Lemma scan_js_def o d x b rest :
  body_ok b = true ->
  scan (print_def js_operation default_export_ops js_fragment o d (x, b) ++ rest)
  = items o d x ++ scan rest.
Proof.
  intros Hb. unfold print_def, items. cbn [fst snd]. destruct x as [k name p sel|n p].
  - rewrite <- app_assoc. rewrite scan_js_operation by exact Hb.
    destruct (default_export_for_operation o && single_op d); cbn [app].
    + rewrite scan_default_export_ops. reflexivity.
    + reflexivity.
  - rewrite scan_js_fragment by exact Hb. reflexivity.
Qed.

Lemma scan_js_defs o d l rest :
  forallb (fun xb => body_ok (snd xb)) l = true ->
  scan (flat_map (print_def js_operation default_export_ops js_fragment o d) l ++ rest)
  = flat_map (items o d) (map fst l) ++ scan rest.
Proof.
  induction l as [|[x b] l IH]; intros H; [reflexivity|].
  cbn [forallb snd] in H. apply andb_true_iff in H as [Hb Hl].
  cbn [flat_map map fst]. rewrite <- !app_assoc. rewrite scan_js_def by exact Hb.
  rewrite IH by exact Hl. reflexivity.
Qed.

Lemma forallb_snd_combine {A} (l : list A) B f :
  forallb f B = true -> forallb (fun xb : A * defbody => f (snd xb)) (combine l B) = true.
Proof.
  revert B; induction l as [|x l IH]; intros [|b B] H; try reflexivity.
  cbn [forallb] in H. apply andb_true_iff in H as [Hb HB].
  cbn [combine forallb snd]. rewrite Hb; cbn. apply IH; exact HB.
Qed.

Lemma scan_js_ops o d B :
  bodies_ok B = true -> length B = length (defs d) ->
  scan (js_ops o d B) = flat_map (items o d) (defs d).
Proof.
  intros HB HL. unfold js_ops, print_document. cbn [app].
  rewrite <- (app_nil_r (flat_map _ _)).
  rewrite scan_js_defs by (apply forallb_snd_combine; exact HB).
  rewrite map_fst_combine by exact HL. cbn [scan]. apply app_nil_r.
Qed.

(** ** declaration-file visitor *)

Lemma scan_dts_operation t o ex k name p sel b rest :
  body_ok b = true ->
  def_names_ok_with t o name = true ->
  scan (dts_operation t o ex k name p sel b ++ rest)
  = IDecl ex (operation_var o k name) (name_pos name p) :: scan rest.
Proof.
  intros Hb Hn. destruct (body_ok_parts b Hb) as [Ht [Hv0 Hr]]. pose proof (Hv0 t) as Hv.
  unfold def_names_ok_with in Hn. apply andb_true_iff in Hn as [Hn1 Hn2].
  apply negb_true_iff in Hn1, Hn2. apply is_kw_W in Hn1, Hn2.
  unfold dts_operation, decl_prefix. cbv zeta.
  set (rt := operation_name o name ++ operation_result_type_suffix t) in *.
  set (inp := operation_name o name ++ variables_type_suffix t) in *.
  rewrite <- !app_assoc.
  destruct (export_result_type o), (export_input_type o), ex, (print_values t);
    cbn [app negb]; repeat scan_step; reflexivity.
Qed.

Lemma scan_dts_fragment t o ex n p b rest :
  body_ok b = true ->
  scan (dts_fragment t o ex n p b ++ rest) = IDecl ex (fragment_var (t_base t) n) p :: scan rest.
Proof.
  intros Hb. destruct (body_ok_parts b Hb) as [Ht [Hv Hr]].
  unfold dts_fragment, decl_prefix. cbv zeta. rewrite <- !app_assoc.
  destruct ex, (print_values t); cbn [app negb]; repeat scan_step; reflexivity.
Qed.

Lemma scan_dts_def t d x b rest :
  body_ok b = true -> def_names_ok t x = true ->
  scan (print_def (dts_operation t) default_export_ops (dts_fragment t) (t_base t) d (x, b) ++ rest)
  = items (t_base t) d x ++ scan rest.
Proof.
  intros Hb Hn. unfold print_def, items. cbn [fst snd]. destruct x as [k name p sel|n p].
  - rewrite <- app_assoc. rewrite scan_dts_operation by assumption.
    destruct (default_export_for_operation (t_base t) && single_op d); cbn [app].
    + rewrite scan_default_export_ops. reflexivity.
    + reflexivity.
  - rewrite scan_dts_fragment by exact Hb. reflexivity.
Qed.

Lemma scan_dts_defs t d l rest :
  forallb (fun xb => body_ok (snd xb)) l = true ->
  forallb (def_names_ok t) (map fst l) = true ->
  scan (flat_map (print_def (dts_operation t) default_export_ops (dts_fragment t) (t_base t) d) l ++ rest)
  = flat_map (items (t_base t) d) (map fst l) ++ scan rest.
Proof.
  induction l as [|[x b] l IH]; intros H Hn; [reflexivity|].
  cbn [forallb snd map fst] in H, Hn.
  apply andb_true_iff in H as [Hb Hl]. apply andb_true_iff in Hn as [Hx Hnl].
  cbn [flat_map map fst]. rewrite <- !app_assoc. rewrite scan_dts_def by assumption.
  rewrite IH by assumption. reflexivity.
Qed.

Lemma scan_dts_header t rest : scan (dts_header t ++ rest) = scan rest.
Proof. unfold dts_header. cbn [app]. rewrite !scan_skipW by reflexivity. reflexivity. Qed.

Lemma scan_dts_ops t d B :
  bodies_ok B = true -> names_ok t d = true -> length B = length (defs d) ->
  scan (dts_ops t d B) = flat_map (items (t_base t) d) (defs d).
Proof.
  intros HB HN HL. unfold dts_ops, print_document. rewrite scan_dts_header.
  rewrite <- (app_nil_r (flat_map _ _)).
  rewrite scan_dts_defs.
  - rewrite map_fst_combine by exact HL. cbn [scan]. apply app_nil_r.
  - apply forallb_snd_combine; exact HB.
  - rewrite map_fst_combine by exact HL. exact HN.
Qed.

(** * Same module reading on both sides *)

Lemma same_items t d B B' :
  bodies_ok B = true -> bodies_ok B' = true -> names_ok t d = true ->
  length B = length (defs d) -> length B' = length (defs d) ->
  scan (dts_ops t d B) = scan (js_ops (t_base t) d B').
Proof.
  intros. rewrite scan_dts_ops, scan_js_ops by assumption. reflexivity.
Qed.

Lemma exports_same_doc_t t d B B' :
  bodies_ok B = true -> bodies_ok B' = true -> names_ok t d = true ->
  length B = length (defs d) -> length B' = length (defs d) ->
  incl (value_exports (scan (dts_ops t d B))) (value_exports (scan (js_ops (t_base t) d B')))
  /\ default_names (scan (dts_ops t d B)) = default_names (scan (js_ops (t_base t) d B')).
Proof.
  intros. rewrite (same_items t d B B') by assumption. split; [apply incl_refl|reflexivity].
Qed.

Lemma options_shared c : t_base (type_from_config (parse_config c)) = js_from_config (parse_config c).
Proof. reflexivity. Qed.

Lemma same_module c d B B' :
  bodies_ok B = true -> bodies_ok B' = true ->
  names_ok (type_from_config (parse_config c)) d = true ->
  length B = length (defs d) -> length B' = length (defs d) ->
  scan (dts_of_config c d B) = scan (js_of_config c d B').
Proof.
  intros. unfold dts_of_config, js_of_config. rewrite <- options_shared. apply same_items; assumption.
Qed.

Lemma exports_same_doc c d B B' :
  bodies_ok B = true -> bodies_ok B' = true ->
  names_ok (type_from_config (parse_config c)) d = true ->
  length B = length (defs d) -> length B' = length (defs d) ->
  incl (value_exports (scan (dts_of_config c d B))) (value_exports (scan (js_of_config c d B')))
  /\ default_names (scan (dts_of_config c d B)) = default_names (scan (js_of_config c d B')).
Proof.
  intros. rewrite (same_module c d B B') by assumption. split; [apply incl_refl|reflexivity].
Qed.

(** * The loader's view of the document *)

Definition item_le (a b : item) : Prop :=
  match a, b with
  | IDecl e n p, IDecl e' n' p' => n' = n /\ p' = zero_file p /\ (e = true -> e' = true)
  | IDefault n, IDefault n' => n' = n
  | _, _ => False
  end.

Lemma is_op_loader x : is_op (loader_def x) = is_op x.
Proof. destruct x; reflexivity. Qed.

Lemma filter_is_op_loader l : length (filter is_op (map loader_def l)) = length (filter is_op l).
Proof.
  induction l as [|x l IH]; [reflexivity|]. cbn [map filter]. rewrite is_op_loader.
  destruct (is_op x); cbn [length]; congruence.
Qed.

Lemma single_op_loader d : single_op (loader_view d) = single_op d.
Proof. unfold single_op, operation_count, loader_view. cbn [defs]. rewrite filter_is_op_loader. reflexivity. Qed.

Lemma items_loader o d x : Forall2 item_le (items o d x) (items o (loader_view d) (loader_def x)).
Proof.
  destruct x as [k name p sel|n p]; cbn [loader_def items].
  - rewrite single_op_loader.
    assert (Hv : operation_var o k
                (match name with Some (n, np) => Some (n, zero_file np) | None => None end)
              = operation_var o k name) by (destruct name as [[? ?]|]; reflexivity).
    assert (Hp : name_pos (match name with Some (n, np) => Some (n, zero_file np) | None => None end) (zero_file p)
              = zero_file (name_pos name p)) by (destruct name as [[? ?]|]; reflexivity).
    rewrite Hv, Hp. constructor.
    + cbn. auto.
    + destruct (default_export_for_operation o && single_op d); repeat constructor.
  - constructor; [|constructor]. cbn [item_le].
    split; [reflexivity|]. split; [reflexivity|]. intros _. reflexivity.
Qed.

Lemma items_loader_all o d :
  Forall2 item_le (flat_map (items o d) (defs d))
                  (flat_map (items o (loader_view d)) (defs (loader_view d))).
Proof.
  unfold loader_view at 2. cbn [defs].
  rewrite flat_map_concat_map, (flat_map_concat_map _ (map loader_def _)), map_map, <- !flat_map_concat_map.
  apply Forall2_flat_map. intros x _. apply items_loader.
Qed.

Lemma le_default_names m m' : Forall2 item_le m m' -> default_names m' = default_names m.
Proof.
  induction 1 as [|a b m m' Hab _ IH]; [reflexivity|].
  destruct a as [e n p|n], b as [e' n' p'|n']; cbn in Hab; try contradiction; cbn [default_names].
  - exact IH.
  - subst n'. f_equal. exact IH.
Qed.

Lemma le_resolve n m m' : Forall2 item_le m m' -> resolve n m' = map zero_file (resolve n m).
Proof.
  induction 1 as [|a b m m' Hab _ IH]; [reflexivity|].
  destruct a as [e x p|x], b as [e' x' p'|x']; cbn in Hab; try contradiction; cbn [resolve].
  - destruct Hab as [-> [-> _]]. destruct (str_eqb x n); cbn [map]; [f_equal|]; exact IH.
  - exact IH.
Qed.

Lemma in_named_exports en p m :
  In (en, p) (named_exports m) <-> exists n, en = Named n /\ In (IDecl true n p) m.
Proof.
  induction m as [|a m IH]; cbn [named_exports].
  - split; [intros []|intros [n [_ []]]].
  - destruct a as [[|] x q|x].
    + cbn [In]. rewrite IH. split.
      * intros [H|[n [-> H]]]; [inversion H; subst; exists x; split; [reflexivity|left; reflexivity]|].
        exists n; split; [reflexivity|right; exact H].
      * intros [n [-> [H|H]]]; [inversion H; subst; left; reflexivity|right; exists n; split; [reflexivity|exact H]].
    + rewrite IH. split; intros [n [-> H]]; exists n; (split; [reflexivity|]).
      * right; exact H.
      * destruct H as [H|H]; [discriminate|exact H].
    + rewrite IH. split; intros [n [-> H]]; exists n; (split; [reflexivity|]).
      * right; exact H.
      * destruct H as [H|H]; [discriminate|exact H].
Qed.

Lemma in_default_names n m : In n (default_names m) <-> In (IDefault n) m.
Proof.
  induction m as [|a m IH]; cbn [default_names]; [tauto|].
  destruct a as [e x q|x]; cbn [In]; rewrite IH.
  - split; [intros H; right; exact H|intros [H|H]; [discriminate|exact H]].
  - split; (intros [H|H]; [left; congruence|right; exact H]).
Qed.

Lemma in_resolve n p m : In p (resolve n m) <-> exists e, In (IDecl e n p) m.
Proof.
  induction m as [|a m IH]; cbn [resolve].
  - split; [intros []|intros [e []]].
  - destruct a as [e x q|x].
    + destruct (str_eqb_spec x n) as [->|Hne]; cbn [In]; rewrite IH.
      * split.
        -- intros [->|[e' H]]; [exists e; left; reflexivity|exists e'; right; exact H].
        -- intros [e' [H|H]]; [inversion H; left; reflexivity|right; exists e'; exact H].
      * split.
        -- intros [e' H]; exists e'; right; exact H.
        -- intros [e' [H|H]]; [inversion H; congruence|exists e'; exact H].
    + rewrite IH. split; intros [e' H]; exists e'.
      * right; exact H.
      * destruct H as [H|H]; [discriminate|exact H].
Qed.

Lemma in_value_exports_named n p m :
  In (Named n, p) (value_exports m) <-> In (IDecl true n p) m.
Proof.
  unfold value_exports. rewrite in_app_iff, in_named_exports. split.
  - intros [[x [Hx H]]|H]; [inversion Hx; subst; exact H|].
    apply in_flat_map in H as [y [_ H]]. apply in_map_iff in H as [q [H _]]. discriminate.
  - intros H; left; exists n; split; [reflexivity|exact H].
Qed.

Lemma in_value_exports_default p m :
  In (Default, p) (value_exports m) <-> exists n e, In (IDefault n) m /\ In (IDecl e n p) m.
Proof.
  unfold value_exports. rewrite in_app_iff, in_named_exports. split.
  - intros [[x [Hx _]]|H]; [discriminate|].
    apply in_flat_map in H as [n [Hn H]]. apply in_map_iff in H as [q [Hq H]].
    inversion Hq; subst q. apply in_default_names in Hn. apply in_resolve in H as [e H].
    exists n, e; split; assumption.
  - intros [n [e [Hn H]]]. right. apply in_flat_map. exists n. split; [apply in_default_names; exact Hn|].
    apply in_map_iff. exists p. split; [reflexivity|]. apply in_resolve. exists e; exact H.
Qed.

Lemma le_value_exports m m' :
  Forall2 item_le m m' -> incl (map zero_export (value_exports m)) (value_exports m').
Proof.
  intros HF [en q] Hin. apply in_map_iff in Hin as [[en0 p] [Heq Hin]].
  unfold zero_export in Heq; cbn [fst snd] in Heq. inversion Heq; subst en q; clear Heq.
  destruct en0 as [n|].
  - apply in_value_exports_named in Hin. apply in_value_exports_named.
    destruct (Forall2_In_l _ _ _ _ HF Hin) as [b [Hb Hle]].
    destruct b as [e' n' p'|n']; cbn in Hle; [|contradiction].
    destruct Hle as [-> [-> He]]. rewrite (He eq_refl) in Hb. exact Hb.
  - apply in_value_exports_default in Hin as [n [e [Hn Hd]]]. apply in_value_exports_default.
    destruct (Forall2_In_l _ _ _ _ HF Hn) as [b [Hb Hle]].
    destruct b as [e' n' p'|n']; cbn in Hle; [contradiction|]. subst n'.
    destruct (Forall2_In_l _ _ _ _ HF Hd) as [b2 [Hb2 Hle2]].
    destruct b2 as [e2 n2 p2|n2]; cbn in Hle2; [|contradiction].
    destruct Hle2 as [-> [-> _]].
    exists n, e2. split; assumption.
Qed.

Lemma exports_loader_t t d B B' :
  bodies_ok B = true -> bodies_ok B' = true -> names_ok t d = true ->
  length B = length (defs d) -> length B' = length (defs d) ->
  incl (map zero_export (value_exports (scan (dts_ops t d B))))
       (value_exports (scan (js_ops (t_base t) (loader_view d) B')))
  /\ default_names (scan (dts_ops t d B)) = default_names (scan (js_ops (t_base t) (loader_view d) B')).
Proof.
  intros HB HB' HN HL HL'.
  rewrite scan_dts_ops by assumption.
  rewrite scan_js_ops; [|exact HB'|unfold loader_view; cbn [defs]; rewrite map_length; exact HL'].
  pose proof (items_loader_all (t_base t) d) as HF.
  split; [apply le_value_exports; exact HF|symmetry; apply le_default_names; exact HF].
Qed.

Lemma exports_loader c d B B' :
  bodies_ok B = true -> bodies_ok B' = true ->
  names_ok (type_from_config (parse_config c)) d = true ->
  length B = length (defs d) -> length B' = length (defs d) ->
  incl (map zero_export (value_exports (scan (dts_of_config c d B))))
       (value_exports (scan (js_of_config c (loader_view d) B')))
  /\ default_names (scan (dts_of_config c d B)) = default_names (scan (js_of_config c (loader_view d) B')).
Proof.
  intros. unfold dts_of_config, js_of_config. rewrite <- options_shared. apply exports_loader_t; assumption.
Qed.

(** * Exactly the exports the property's reading asks for *)

Lemma in_items_decl o d e n p :
  In (IDecl e n p) (flat_map (items o d) (defs d)) <->
  exists x, In x (defs d) /\ n = var_name o x /\ p = decl_pos x /\ e = is_named_export o d x.
Proof.
  rewrite in_flat_map. split.
  - intros [x [Hx Hin]]. exists x. split; [exact Hx|].
    destruct x as [k name q sel|m q]; cbn [items] in Hin.
    + destruct Hin as [H|H].
      * inversion H; subst. repeat split.
      * destruct (default_export_for_operation o && single_op d); [destruct H as [H|[]]; discriminate|destruct H].
    + destruct Hin as [H|[]]. inversion H; subst. repeat split.
  - intros [x [Hx [-> [-> ->]]]]. exists x. split; [exact Hx|].
    destruct x as [k name q sel|m q]; cbn [items]; left; reflexivity.
Qed.

Lemma in_items_default o d n :
  In (IDefault n) (flat_map (items o d) (defs d)) <->
  exists x, In x (defs d) /\ is_default_export o d x = true /\ n = var_name o x.
Proof.
  rewrite in_flat_map. split.
  - intros [x [Hx Hin]]. exists x. split; [exact Hx|].
    destruct x as [k name q sel|m q]; cbn [items] in Hin.
    + destruct Hin as [H|H]; [discriminate|]. cbn [is_default_export var_name].
      destruct (default_export_for_operation o && single_op d); [|destruct H].
      destruct H as [H|[]]. inversion H. split; reflexivity.
    + destruct Hin as [H|[]]. discriminate.
  - intros [x [Hx [Hd ->]]]. exists x. split; [exact Hx|].
    destruct x as [k name q sel|m q]; cbn [items is_default_export var_name] in *; [|discriminate].
    rewrite Hd. right. left. reflexivity.
Qed.

Lemma js_exports_exact o d B :
  bodies_ok B = true -> length B = length (defs d) ->
  (forall n p, In (Named n, p) (value_exports (scan (js_ops o d B))) <->
     exists x, In x (defs d) /\ is_named_export o d x = true /\ n = var_name o x /\ p = decl_pos x)
  /\ (forall p, In (Default, p) (value_exports (scan (js_ops o d B))) <->
     exists x y, In x (defs d) /\ is_default_export o d x = true /\
                 In y (defs d) /\ var_name o y = var_name o x /\ p = decl_pos y).
Proof.
  intros HB HL. rewrite scan_js_ops by assumption. split.
  - intros n p. rewrite in_value_exports_named, in_items_decl. split.
    + intros [x [Hx [Hn [Hp He]]]]. exists x. repeat split; auto.
    + intros [x [Hx [He [Hn Hp]]]]. exists x. repeat split; auto.
  - intros p. rewrite in_value_exports_default. split.
    + intros [n [e [Hn Hd]]]. apply in_items_default in Hn as [x [Hx [Hdx ->]]].
      apply in_items_decl in Hd as [y [Hy [Hv [Hp _]]]].
      exists x, y. repeat split; auto.
    + intros [x [y [Hx [Hdx [Hy [Hv ->]]]]]].
      exists (var_name o x), (is_named_export o d y). split.
      * apply in_items_default. exists x. repeat split; auto.
      * apply in_items_decl. exists y. repeat split; auto.
Qed.

(** * What a JS binding carries *)

Lemma jb_W c r :
  js_bindings (W c :: r) =
  if str_eqb c k_const then
    match r with
    | WF n p _ :: W e :: W b :: r' =>
        if str_eqb e k_eq then (n, p, b) :: js_bindings r' else js_bindings r
    | _ => js_bindings r
    end
  else js_bindings r.
Proof. reflexivity. Qed.

Lemma jb_skipW c r : str_eqb c k_const = false -> js_bindings (W c :: r) = js_bindings r.
Proof. intros H. rewrite jb_W, H. reflexivity. Qed.

Lemma jb_bind n p x b r :
  js_bindings (W k_const :: WF n p x :: W k_eq :: W b :: r) = (n, p, b) :: js_bindings r.
Proof. reflexivity. Qed.

Lemma jb_default v r :
  js_bindings (W k_export_brace :: W v :: W k_as_default :: r) = js_bindings r.
Proof.
  rewrite jb_skipW by reflexivity. rewrite (jb_W v).
  destruct (str_eqb v k_const); cbv beta iota; rewrite jb_skipW by reflexivity; reflexivity.
Qed.

Definition binding_of (o : base_opts) (xb : def * defbody) : str * pos * str :=
  (var_name o (fst xb), decl_pos (fst xb), b_runtime (snd xb)).

Lemma jb_js_def o d x b rest :
  js_bindings (print_def js_operation default_export_ops js_fragment o d (x, b) ++ rest)
  = binding_of o (x, b) :: js_bindings rest.
Proof.
  unfold print_def, binding_of. cbn [fst snd]. destruct x as [k name p sel|n p].
  - unfold js_operation, default_export_ops. rewrite <- !app_assoc.
    destruct (named_export_for_operation o), (default_export_for_operation o && single_op d);
      cbn [app]; try rewrite (jb_skipW k_export) by reflexivity; rewrite jb_bind;
      rewrite (jb_skipW k_semi2) by reflexivity; try rewrite jb_default; reflexivity.
  - unfold js_fragment. rewrite <- !app_assoc.
    destruct (frag_exported d p); cbn [app]; try rewrite (jb_skipW k_export) by reflexivity;
      rewrite jb_bind; rewrite (jb_skipW k_semi2) by reflexivity; reflexivity.
Qed.

Lemma js_carries o d B :
  js_bindings (js_ops o d B) = map (binding_of o) (combine (defs d) B).
Proof.
  unfold js_ops, print_document. cbn [app].
  induction (combine (defs d) B) as [|[x b] l IH]; [reflexivity|].
  cbn [flat_map map]. rewrite jb_js_def. f_equal. exact IH.
Qed.

(** * Runtime: the module loads iff the variable names are pairwise distinct *)

Lemma decl_names_app a b : decl_names (a ++ b) = decl_names a ++ decl_names b.
Proof.
  induction a as [|x a IH]; [reflexivity|]. destruct x; cbn [app decl_names]; rewrite IH; reflexivity.
Qed.

Lemma decl_names_items o d l : decl_names (flat_map (items o d) l) = map (var_name o) l.
Proof.
  induction l as [|x l IH]; [reflexivity|].
  cbn [flat_map map]. rewrite decl_names_app, IH. f_equal.
  destruct x as [k name p sel|n p]; cbn [items decl_names var_name app].
  - destruct (default_export_for_operation o && single_op d); reflexivity.
  - reflexivity.
Qed.

Lemma var_name_loader o x : var_name o (loader_def x) = var_name o x.
Proof. destruct x as [k [[n np]|] p sel|n p]; reflexivity. Qed.

Lemma distinct_vars_loader o d : distinct_vars o (loader_view d) = distinct_vars o d.
Proof.
  unfold distinct_vars, loader_view. cbn [defs]. rewrite map_map.
  f_equal. apply map_ext. intros x. apply var_name_loader.
Qed.

Lemma loadable_js o d B :
  bodies_ok B = true -> length B = length (defs d) ->
  loadable (scan (js_ops o d B)) = distinct_vars o d.
Proof.
  intros HB HL. rewrite scan_js_ops by assumption. unfold loadable, distinct_vars.
  rewrite decl_names_items. reflexivity.
Qed.

Lemma runtime_exports_loader_t t d B B' :
  bodies_ok B = true -> bodies_ok B' = true -> names_ok t d = true ->
  length B = length (defs d) -> length B' = length (defs d) ->
  distinct_vars (t_base t) d = true ->
  incl (map zero_export (value_exports (scan (dts_ops t d B))))
       (runtime_exports (scan (js_ops (t_base t) (loader_view d) B')))
  /\ default_names (scan (dts_ops t d B)) = default_names (scan (js_ops (t_base t) (loader_view d) B')).
Proof.
  intros HB HB' HN HL HL' HD. unfold runtime_exports.
  rewrite loadable_js; [|exact HB'|unfold loader_view; cbn [defs]; rewrite map_length; exact HL'].
  rewrite distinct_vars_loader, HD. apply exports_loader_t; assumption.
Qed.

(** the current code violates the runtime reading: a valid document (operation [Foo], fragment
    [FooQuery]; `nitrogql check` accepts it) under the default configuration *)
Definition collide_doc : doc :=
  Doc 0 [OpDef KQuery (Some (s "Foo", P 0 6 0 false)) (P 0 0 0 false) (P 0 10 0 false);
         FragDef (s "FooQuery") (P 1 0 0 false)].
Definition collide_B : list defbody :=
  [Body [W (s "{}")] [W (s "{}")] [W (s "{}")] (s "{}"); Body [W (s "{}")] [] [] (s "{}")].

Lemma runtime_exports_refuted_witness :
  doc_valid_names collide_doc = true
  /\ bodies_ok collide_B = true
  /\ names_ok (type_from_config (parse_config None)) collide_doc = true
  /\ length collide_B = length (defs collide_doc)
  /\ value_exports (scan (dts_of_config None collide_doc collide_B))
      = [(Named (s "FooQuery"), P 1 0 0 false); (Default, P 0 6 0 false); (Default, P 1 0 0 false)]
  /\ runtime_exports (scan (js_of_config None (loader_view collide_doc) collide_B)) = [].
Proof. repeat split; vm_compute; reflexivity. Qed.

(** a second shape: operations [foo] and [Foo] (distinct, valid operation names) are capitalised alike *)
Definition collide_cfg2 : cfg_text := Some (GenT None None None (Some (ExportT (Some false) None None))).
Definition collide_doc2 : doc :=
  Doc 0 [OpDef KQuery (Some (s "foo", P 0 6 0 false)) (P 0 0 0 false) (P 0 10 0 false);
         OpDef KQuery (Some (s "Foo", P 1 6 0 false)) (P 1 0 0 false) (P 1 10 0 false)].
Lemma runtime_exports_refuted_witness2 :
  doc_valid_names collide_doc2 = true
  /\ bodies_ok collide_B = true
  /\ names_ok (type_from_config (parse_config collide_cfg2)) collide_doc2 = true
  /\ value_exports (scan (dts_of_config collide_cfg2 collide_doc2 collide_B))
      = [(Named (s "FooQuery"), P 0 6 0 false); (Named (s "FooQuery"), P 1 6 0 false)]
  /\ runtime_exports (scan (js_of_config collide_cfg2 (loader_view collide_doc2) collide_B)) = [].
Proof. repeat split; vm_compute; reflexivity. Qed.

Lemma runtime_exports_refuted :
  exists c d B,
    doc_valid_names d = true
    /\ bodies_ok B = true /\ names_ok (type_from_config (parse_config c)) d = true
    /\ length B = length (defs d)
    /\ ~ incl (map zero_export (value_exports (scan (dts_of_config c d B))))
             (runtime_exports (scan (js_of_config c (loader_view d) B))).
Proof.
  exists None, collide_doc, collide_B.
  destruct runtime_exports_refuted_witness as [H0 [H1 [H2 [H3 [H4 H5]]]]].
  repeat split; try assumption. rewrite H4, H5. intros Hincl.
  apply (Hincl (zero_export (Default, P 0 6 0 false))). cbn [map]. right. left. reflexivity.
Qed.

(** * Histories of one loader instance *)

Definition step_ok (e : cfg_text * doc * list defbody * list wop) : Prop :=
  match e with
  | (c, d, B, ops) =>
      bodies_ok B = true -> names_ok (type_from_config (parse_config c)) d = true ->
      length B = length (defs d) ->
      incl (map zero_export (value_exports (scan (dts_of_config c d B)))) (value_exports (scan ops))
      /\ default_names (scan (dts_of_config c d B)) = default_names (scan ops)
  end.

Lemma history_ok h : forall cur, Forall step_ok (run_loader cur h).
Proof.
  induction h as [|[c|d B] r IH]; intros cur; cbn [run_loader].
  - constructor.
  - apply IH.
  - constructor; [|apply IH]. cbn [step_ok]. intros HB HN HL. apply exports_loader; assumption.
Qed.

Lemma history_last_config h c r cur :
  run_loader cur (h ++ LLoad c :: r) = run_loader cur h ++ run_loader c r.
Proof.
  revert cur; induction h as [|[c'|d B] h IH]; intros cur; cbn [app run_loader].
  - reflexivity.
  - apply IH.
  - f_equal. apply IH.
Qed.

(** * The guard [names_ok] is needed for the op-list reading (not a defect of the code: the text
    written is [TypedDocumentNode<export { ,  as default };…], which is no export statement) *)

Definition phantom_t : type_opts :=
  TypeOpts base_default false (s "Schema") (s "") (s "x") k_as_default k_export_brace (s "") true.
Definition phantom_doc : doc := Doc 0 [OpDef KQuery None (P 0 0 0 false) (P 0 6 0 false)].
Definition phantom_B : list defbody := [Body [] [] [] (s "{}")].

Lemma names_guard_needed :
  bodies_ok phantom_B = true /\ names_ok phantom_t phantom_doc = false /\
  scan (dts_ops phantom_t phantom_doc phantom_B) <> scan (js_ops (t_base phantom_t) phantom_doc phantom_B).
Proof. split; [reflexivity|split; [reflexivity|]]. vm_compute. discriminate. Qed.

(** * Non-vacuity: the guards hold on non-trivial inputs and the exports are not empty *)

Definition ex_cfg : cfg_text :=
  Some (GenT (Some StandaloneTS4_0) (Some (TypeT (Some false)))
             (Some (NameT None (Some (s "Vars")) None (Some false) (Some (s "Doc")) None None (Some (s "Frag"))))
             (Some (ExportT (Some false) (Some true) None))).
Definition ex_doc : doc :=
  Doc 3 [OpDef KQuery (Some (s "foo", P 0 6 3 false)) (P 0 0 3 false) (P 0 10 3 false);
         FragDef (s "F") (P 2 0 3 false);
         FragDef (s "G") (P 0 0 5 false)].
Definition ex_B : list defbody :=
  [Body [W (s "{"); Indent; WF (s "a") (P 0 12 3 false) (Some (s "a")); W (s ": number"); Dedent; W (s "}")] [W (s "{}")] [W (s "{ }")] (s "{""kind"":""Document""}");
   Body [W (s "{}")] [] [] (s "{}");
   Body [W (s "{}")] [] [] (s "{}")].

Example ex_guards :
  bodies_ok ex_B = true /\ names_ok (type_from_config (parse_config ex_cfg)) ex_doc = true
  /\ length ex_B = length (defs ex_doc).
Proof. repeat split; reflexivity. Qed.

Example ex_exports :
  value_exports (scan (dts_of_config ex_cfg ex_doc ex_B))
  = [(Named (s "fooDoc"), P 0 6 3 false); (Named (s "FFrag"), P 2 0 3 false)]
  /\ value_exports (scan (js_of_config ex_cfg (loader_view ex_doc) ex_B))
  = [(Named (s "fooDoc"), P 0 6 0 false); (Named (s "FFrag"), P 2 0 0 false); (Named (s "GFrag"), P 0 0 0 false)].
Proof. split; vm_compute; reflexivity. Qed.

(* the default configuration text: one operation => a default export that resolves to it *)
Example ex_default :
  bodies_ok ex_B = true /\ names_ok (type_from_config (parse_config None)) ex_doc = true
  /\ value_exports (scan (dts_of_config None ex_doc ex_B))
      = [(Named (s "F"), P 2 0 3 false); (Default, P 0 6 3 false)]
  /\ default_names (scan (js_of_config None (loader_view ex_doc) ex_B)) = [s "FooQuery"].
Proof. repeat split; vm_compute; reflexivity. Qed.
