(** Pinned statements of the C14 property theorems: compiled on every check, so a theorem
    cannot be weakened silently. *)
From V Require Import Base.Util C14.Model C14.Properties.

Check (C14_options_shared : forall c : cfg_text,
  t_base (type_from_config (parse_config c)) = js_from_config (parse_config c)).
Check (C14_same_module : forall (t : type_opts) (d : doc) (B B' : list defbody),
  bodies_ok B = true -> bodies_ok B' = true -> names_ok t d = true ->
  length B = length (defs d) -> length B' = length (defs d) ->
  scan (dts_ops t d B) = scan (js_ops (t_base t) d B')).
Check (C14_exports : forall (t : type_opts) (d : doc) (B B' : list defbody),
  bodies_ok B = true -> bodies_ok B' = true -> names_ok t d = true ->
  length B = length (defs d) -> length B' = length (defs d) ->
  incl (value_exports (scan (dts_ops t d B))) (value_exports (scan (js_ops (t_base t) d B')))
  /\ default_names (scan (dts_ops t d B)) = default_names (scan (js_ops (t_base t) d B'))).
Check (C14_exports_loader : forall (t : type_opts) (d : doc) (B B' : list defbody),
  bodies_ok B = true -> bodies_ok B' = true -> names_ok t d = true ->
  length B = length (defs d) -> length B' = length (defs d) ->
  incl (map zero_export (value_exports (scan (dts_ops t d B))))
       (value_exports (scan (js_ops (t_base t) (loader_view d) B')))
  /\ default_names (scan (dts_ops t d B)) = default_names (scan (js_ops (t_base t) (loader_view d) B'))).
Check (C14_runtime_exports_partial : forall (t : type_opts) (d : doc) (B B' : list defbody),
  bodies_ok B = true -> bodies_ok B' = true -> names_ok t d = true ->
  length B = length (defs d) -> length B' = length (defs d) ->
  distinct_vars (t_base t) d = true ->
  incl (map zero_export (value_exports (scan (dts_ops t d B))))
       (runtime_exports (scan (js_ops (t_base t) (loader_view d) B')))
  /\ default_names (scan (dts_ops t d B)) = default_names (scan (js_ops (t_base t) (loader_view d) B'))).
Check (C14_loadable_iff_distinct : forall (o : base_opts) (d : doc) (B : list defbody),
  bodies_ok B = true -> length B = length (defs d) ->
  loadable (scan (js_ops o d B)) = distinct_vars o d).
Check (C14_runtime_exports_refuted : exists c d B,
  doc_valid_names d = true /\
  bodies_ok B = true /\ names_ok (type_from_config (parse_config c)) d = true
  /\ length B = length (defs d)
  /\ ~ incl (map zero_export (value_exports (scan (dts_of_config c d B))))
           (runtime_exports (scan (js_of_config c (loader_view d) B)))).
Check (C14_exports_config : forall (c : cfg_text) (d : doc) (B B' : list defbody),
  bodies_ok B = true -> bodies_ok B' = true ->
  names_ok (type_from_config (parse_config c)) d = true ->
  length B = length (defs d) -> length B' = length (defs d) ->
  incl (map zero_export (value_exports (scan (dts_of_config c d B))))
       (value_exports (scan (js_of_config c (loader_view d) B')))
  /\ default_names (scan (dts_of_config c d B)) = default_names (scan (js_of_config c (loader_view d) B'))).
Check (C14_history : forall (h : list lop) (cur : cfg_text),
  Forall (fun e => match e with (c, d, B, ops) =>
      bodies_ok B = true -> names_ok (type_from_config (parse_config c)) d = true ->
      length B = length (defs d) ->
      incl (map zero_export (value_exports (scan (dts_of_config c d B)))) (value_exports (scan ops))
      /\ default_names (scan (dts_of_config c d B)) = default_names (scan ops)
    end) (run_loader cur h)).
Check (C14_history_last_config : forall (h : list lop) (c : cfg_text) (r : list lop) (cur : cfg_text),
  run_loader cur (h ++ LLoad c :: r) = run_loader cur h ++ run_loader c r).
Check (C14_exports_exact : forall (o : base_opts) (d : doc) (B : list defbody),
  bodies_ok B = true -> length B = length (defs d) ->
  (forall n p, In (Named n, p) (value_exports (scan (js_ops o d B))) <->
     exists x, In x (defs d) /\ is_named_export o d x = true /\ n = var_name o x /\ p = decl_pos x)
  /\ (forall p, In (Default, p) (value_exports (scan (js_ops o d B))) <->
     exists x y, In x (defs d) /\ is_default_export o d x = true /\
                 In y (defs d) /\ var_name o y = var_name o x /\ p = decl_pos y)).
Check (C14_js_carries : forall (o : base_opts) (d : doc) (B : list defbody),
  js_bindings (js_ops o d B)
  = map (fun xb => (var_name o (fst xb), decl_pos (fst xb), b_runtime (snd xb))) (combine (defs d) B)).
Check (C14_names_guard_needed : exists t d B,
  bodies_ok B = true /\ names_ok t d = false /\ scan (dts_ops t d B) <> scan (js_ops (t_base t) d B)).
Check (C14_history_failing : forall (h : list lop2) (cur : cfg_text),
  Forall (fun e => match e with
    | (c, d, B, EModule ops) =>
        bodies_ok B = true -> names_ok (type_from_config (parse_config c)) d = true ->
        length B = length (defs d) ->
        incl (map zero_export (value_exports (scan (dts_of_config c d B)))) (value_exports (scan ops))
        /\ default_names (scan (dts_of_config c d B)) = default_names (scan ops)
    | (c, d, B, EError n) => ~ In n (frag_names (defs d))
    end) (run_loader2 cur h)).
Check (C14_history_failures_transparent : forall (h : list lop2) (cur : cfg_text),
  filter is_module (run_loader2 cur h) = run_loader2 cur (filter (fun x => negb (failing_emit x)) h)).
Check (C14_collides_iff : forall (o : base_opts) (x y : def),
  collides o x y = true <-> var_name o x = var_name o y).
Check (C14_collision_class : forall (o : base_opts) (d : doc),
  distinct_vars o d = negb (has_collision o d)).
Check (C14_collision_class_default : forall d : doc,
  distinct_vars base_default d = negb (pairwise_exists collides_default (defs d))).
Check (C14_cross_kind_never : forall (o : base_opts) (k1 k2 : opkind) (n1 n2 : option (str * pos)),
  suffix_related (op_suffix o k1) (op_suffix o k2) = false ->
  operation_var o k1 n1 <> operation_var o k2 n2).
Check (C14_fragments_never_collide : forall (o : base_opts) (l : list def),
  nodupb (frag_names l) = true -> nodupb (map (fragment_var o) (frag_names l)) = true).
Check (C14_runtime_exports_outside_class : forall (t : type_opts) (d : doc) (B B' : list defbody),
  bodies_ok B = true -> bodies_ok B' = true -> names_ok t d = true ->
  length B = length (defs d) -> length B' = length (defs d) ->
  has_collision (t_base t) d = false ->
  incl (map zero_export (value_exports (scan (dts_ops t d B))))
       (runtime_exports (scan (js_ops (t_base t) (loader_view d) B')))
  /\ default_names (scan (dts_ops t d B)) = default_names (scan (js_ops (t_base t) (loader_view d) B'))).
Check (C14_default_export_rule : forall (c : cfg_text) (d : doc) (B B' : list defbody),
  bodies_ok B = true -> bodies_ok B' = true ->
  names_ok (type_from_config (parse_config c)) d = true ->
  length B = length (defs d) -> length B' = length (defs d) ->
  let o := js_from_config (parse_config c) in
  let expected := if cfg_default_flag c && single_op d then map (var_name o) (filter is_op (defs d)) else [] in
  default_names (scan (dts_of_config c d B)) = expected
  /\ default_names (scan (js_of_config c d B')) = expected
  /\ default_names (scan (js_of_config c (loader_view d) B')) = expected).
Check (C14_default_flag : forall c : cfg_text,
  default_export_for_operation (base_from_config (parse_config c)) = cfg_default_flag c
  /\ named_export_for_operation (base_from_config (parse_config c)) = negb (cfg_default_flag c)).
Print Assumptions C14_options_shared.
Print Assumptions C14_same_module.
Print Assumptions C14_exports.
Print Assumptions C14_exports_loader.
Print Assumptions C14_runtime_exports_partial.
Print Assumptions C14_loadable_iff_distinct.
Print Assumptions C14_runtime_exports_refuted.
Print Assumptions C14_exports_config.
Print Assumptions C14_history.
Print Assumptions C14_history_last_config.
Print Assumptions C14_exports_exact.
Print Assumptions C14_js_carries.
Print Assumptions C14_names_guard_needed.
Print Assumptions C14_history_failing.
Print Assumptions C14_history_failures_transparent.
Print Assumptions C14_collides_iff.
Print Assumptions C14_collision_class.
Print Assumptions C14_collision_class_default.
Print Assumptions C14_cross_kind_never.
Print Assumptions C14_fragments_never_collide.
Print Assumptions C14_runtime_exports_outside_class.
Print Assumptions C14_default_export_rule.
Print Assumptions C14_default_flag.
