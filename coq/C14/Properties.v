(** C14 — property theorems only.  Each is closed by [exact] of a lemma in Proofs.v and followed
    by [Print Assumptions]. *)
From V Require Import Base.Util C14.Model C14.Proofs C14.Proofs2.

(** Both sides derive their base options from the same configuration by the same function. *)
Theorem C14_options_shared : forall c : cfg_text,
  t_base (type_from_config (parse_config c)) = js_from_config (parse_config c).
Proof. exact options_shared. Qed.
Print Assumptions C14_options_shared.

(** For every value of every option (suffix strings arbitrary, any mode), every document and all
    bodies: the declaration file and the JS module printed from the same document read as the
    same list of declarations / exports. *)
Theorem C14_same_module : forall (t : type_opts) (d : doc) (B B' : list defbody),
  bodies_ok B = true -> bodies_ok B' = true -> names_ok t d = true ->
  length B = length (defs d) -> length B' = length (defs d) ->
  scan (dts_ops t d B) = scan (js_ops (t_base t) d B').
Proof. exact same_items. Qed.
Print Assumptions C14_same_module.

(** valueExports(dts_c(F)) is a subset of exports(js_c(F)), each name bound to the same
    definition (position), and the default exports name the same binding. *)
Theorem C14_exports : forall (t : type_opts) (d : doc) (B B' : list defbody),
  bodies_ok B = true -> bodies_ok B' = true -> names_ok t d = true ->
  length B = length (defs d) -> length B' = length (defs d) ->
  incl (value_exports (scan (dts_ops t d B))) (value_exports (scan (js_ops (t_base t) d B')))
  /\ default_names (scan (dts_ops t d B)) = default_names (scan (js_ops (t_base t) d B')).
Proof. exact exports_same_doc_t. Qed.
Print Assumptions C14_exports.

(** The same against the module the loader really prints: it parses every file with file index 0,
    so it also exports imported fragments; positions are compared modulo the file index. *)
Theorem C14_exports_loader : forall (t : type_opts) (d : doc) (B B' : list defbody),
  bodies_ok B = true -> bodies_ok B' = true -> names_ok t d = true ->
  length B = length (defs d) -> length B' = length (defs d) ->
  incl (map zero_export (value_exports (scan (dts_ops t d B))))
       (value_exports (scan (js_ops (t_base t) (loader_view d) B')))
  /\ default_names (scan (dts_ops t d B)) = default_names (scan (js_ops (t_base t) (loader_view d) B')).
Proof. exact exports_loader_t. Qed.
Print Assumptions C14_exports_loader.

(** Runtime reading: a JS module with two declarations of one name does not load and exports
    nothing.  If no two definitions get the same variable name, every declared value export exists
    at runtime in the module the loader prints. *)
Theorem C14_runtime_exports_partial : forall (t : type_opts) (d : doc) (B B' : list defbody),
  bodies_ok B = true -> bodies_ok B' = true -> names_ok t d = true ->
  length B = length (defs d) -> length B' = length (defs d) ->
  distinct_vars (t_base t) d = true ->
  incl (map zero_export (value_exports (scan (dts_ops t d B))))
       (runtime_exports (scan (js_ops (t_base t) (loader_view d) B')))
  /\ default_names (scan (dts_ops t d B)) = default_names (scan (js_ops (t_base t) (loader_view d) B')).
Proof. exact runtime_exports_loader_t. Qed.
Print Assumptions C14_runtime_exports_partial.

(** the guard is exactly the loadability of the module *)
Theorem C14_loadable_iff_distinct : forall (o : base_opts) (d : doc) (B : list defbody),
  bodies_ok B = true -> length B = length (defs d) ->
  loadable (scan (js_ops o d B)) = distinct_vars o d.
Proof. exact loadable_js. Qed.
Print Assumptions C14_loadable_iff_distinct.

(** KNOWN FINDING (class colliding-variable-names): without the guard the statement is false for
    the current code — operation [Foo] and fragment [FooQuery] under the default configuration. *)
Theorem C14_runtime_exports_refuted : exists c d B,
  doc_valid_names d = true /\
  bodies_ok B = true /\ names_ok (type_from_config (parse_config c)) d = true
  /\ length B = length (defs d)
  /\ ~ incl (map zero_export (value_exports (scan (dts_of_config c d B))))
           (runtime_exports (scan (js_of_config c (loader_view d) B))).
Proof. exact runtime_exports_refuted. Qed.
Print Assumptions C14_runtime_exports_refuted.

(** From one configuration text, through parse_config and the three from_config functions. *)
Theorem C14_exports_config : forall (c : cfg_text) (d : doc) (B B' : list defbody),
  bodies_ok B = true -> bodies_ok B' = true ->
  names_ok (type_from_config (parse_config c)) d = true ->
  length B = length (defs d) -> length B' = length (defs d) ->
  incl (map zero_export (value_exports (scan (dts_of_config c d B))))
       (value_exports (scan (js_of_config c (loader_view d) B')))
  /\ default_names (scan (dts_of_config c d B)) = default_names (scan (js_of_config c (loader_view d) B')).
Proof. exact exports_loader. Qed.
Print Assumptions C14_exports_config.

(** Over the life of one loader instance: whatever sequence of load_config / emit calls is made, every
    emitted module satisfies the property against the declaration file printed from the configuration text
    that was loaded last before that emission (the default one before any load_config). *)
Theorem C14_history : forall (h : list lop) (cur : cfg_text),
  Forall (fun e => match e with (c, d, B, ops) =>
      bodies_ok B = true -> names_ok (type_from_config (parse_config c)) d = true ->
      length B = length (defs d) ->
      incl (map zero_export (value_exports (scan (dts_of_config c d B)))) (value_exports (scan ops))
      /\ default_names (scan (dts_of_config c d B)) = default_names (scan ops)
    end) (run_loader cur h).
Proof. exact history_ok. Qed.
Print Assumptions C14_history.

(** an emission depends only on the configuration loaded last before it *)
Theorem C14_history_last_config : forall (h : list lop) (c : cfg_text) (r : list lop) (cur : cfg_text),
  run_loader cur (h ++ LLoad c :: r) = run_loader cur h ++ run_loader c r.
Proof. exact history_last_config. Qed.
Print Assumptions C14_history_last_config.

(** The JS module exports exactly what the property's reading asks for: a named export for every
    operation (named-export mode) and every fragment of the document's own file, under its
    variable name; a default export iff default-export mode and exactly one operation, bound to
    the declaration(s) carrying that operation's variable name. *)
Theorem C14_exports_exact : forall (o : base_opts) (d : doc) (B : list defbody),
  bodies_ok B = true -> length B = length (defs d) ->
  (forall n p, In (Named n, p) (value_exports (scan (js_ops o d B))) <->
     exists x, In x (defs d) /\ is_named_export o d x = true /\ n = var_name o x /\ p = decl_pos x)
  /\ (forall p, In (Default, p) (value_exports (scan (js_ops o d B))) <->
     exists x y, In x (defs d) /\ is_default_export o d x = true /\
                 In y (defs d) /\ var_name o y = var_name o x /\ p = decl_pos y).
Proof. exact js_exports_exact. Qed.
Print Assumptions C14_exports_exact.

(** Every JS binding is named after, positioned at, and initialised with the runtime document of
    one and the same definition — no guard. *)
Theorem C14_js_carries : forall (o : base_opts) (d : doc) (B : list defbody),
  js_bindings (js_ops o d B)
  = map (fun xb => (var_name o (fst xb), decl_pos (fst xb), b_runtime (snd xb))) (combine (defs d) B).
Proof. exact js_carries. Qed.
Print Assumptions C14_js_carries.

(** The guard [names_ok] cannot be dropped for the op-list reading. *)
Theorem C14_names_guard_needed : exists t d B,
  bodies_ok B = true /\ names_ok t d = false /\ scan (dts_ops t d B) <> scan (js_ops (t_base t) d B).
Proof. exists phantom_t, phantom_doc, phantom_B. exact names_guard_needed. Qed.
Print Assumptions C14_names_guard_needed.

(** * Histories with failing emits (emit_js since /repo 539df4b) *)

(** Every emission of every history either is a module satisfying the property against the configuration
    current at that step, or is the error naming a fragment that the resolved document indeed does not define. *)
Theorem C14_history_failing : forall (h : list lop2) (cur : cfg_text),
  Forall (fun e => match e with
    | (c, d, B, EModule ops) =>
        bodies_ok B = true -> names_ok (type_from_config (parse_config c)) d = true ->
        length B = length (defs d) ->
        incl (map zero_export (value_exports (scan (dts_of_config c d B)))) (value_exports (scan ops))
        /\ default_names (scan (dts_of_config c d B)) = default_names (scan ops)
    | (c, d, B, EError n) => ~ In n (frag_names (defs d))
    end) (run_loader2 cur h).
Proof. exact history2_ok. Qed.
Print Assumptions C14_history_failing.

(** a failing emit leaves every other emission of the history unchanged *)
Theorem C14_history_failures_transparent : forall (h : list lop2) (cur : cfg_text),
  filter is_module (run_loader2 cur h) = run_loader2 cur (filter (fun x => negb (failing_emit x)) h).
Proof. exact history2_failures_transparent. Qed.
Print Assumptions C14_history_failures_transparent.

(** * The class colliding-variable-names, characterised *)

(** [collides] is structural (same kind: names equal, modulo the case of the first letter when capitalising;
    different kinds: only if one suffix ends with the other; fragment/fragment: same name). *)
Theorem C14_collides_iff : forall (o : base_opts) (x y : def),
  collides o x y = true <-> var_name o x = var_name o y.
Proof. exact collides_iff. Qed.
Print Assumptions C14_collides_iff.

Theorem C14_collision_class : forall (o : base_opts) (d : doc),
  distinct_vars o d = negb (has_collision o d).
Proof. exact distinct_vars_has_collision. Qed.
Print Assumptions C14_collision_class.

(** under the default options the class is: two operations of the same kind whose names differ at most in
    the case of the first letter, or a fragment called like an operation's variable *)
Theorem C14_collision_class_default : forall d : doc,
  distinct_vars base_default d = negb (pairwise_exists collides_default (defs d)).
Proof. exact distinct_vars_default. Qed.
Print Assumptions C14_collision_class_default.

Theorem C14_cross_kind_never : forall (o : base_opts) (k1 k2 : opkind) (n1 n2 : option (str * pos)),
  suffix_related (op_suffix o k1) (op_suffix o k2) = false ->
  operation_var o k1 n1 <> operation_var o k2 n2.
Proof. exact cross_kind_never. Qed.
Print Assumptions C14_cross_kind_never.

Theorem C14_fragments_never_collide : forall (o : base_opts) (l : list def),
  nodupb (frag_names l) = true -> nodupb (map (fragment_var o) (frag_names l)) = true.
Proof. exact fragments_never_collide. Qed.
Print Assumptions C14_fragments_never_collide.

(** the runtime statement, with the known-finding class given structurally *)
Theorem C14_runtime_exports_outside_class : forall (t : type_opts) (d : doc) (B B' : list defbody),
  bodies_ok B = true -> bodies_ok B' = true -> names_ok t d = true ->
  length B = length (defs d) -> length B' = length (defs d) ->
  has_collision (t_base t) d = false ->
  incl (map zero_export (value_exports (scan (dts_ops t d B))))
       (runtime_exports (scan (js_ops (t_base t) (loader_view d) B')))
  /\ default_names (scan (dts_ops t d B)) = default_names (scan (js_ops (t_base t) (loader_view d) B')).
Proof. exact runtime_exports_class. Qed.
Print Assumptions C14_runtime_exports_outside_class.

(** * The default-export rule, for every configuration text *)
Theorem C14_default_export_rule : forall (c : cfg_text) (d : doc) (B B' : list defbody),
  bodies_ok B = true -> bodies_ok B' = true ->
  names_ok (type_from_config (parse_config c)) d = true ->
  length B = length (defs d) -> length B' = length (defs d) ->
  let o := js_from_config (parse_config c) in
  let expected := if cfg_default_flag c && single_op d then map (var_name o) (filter is_op (defs d)) else [] in
  default_names (scan (dts_of_config c d B)) = expected
  /\ default_names (scan (js_of_config c d B')) = expected
  /\ default_names (scan (js_of_config c (loader_view d) B')) = expected.
Proof. exact default_rule_config. Qed.
Print Assumptions C14_default_export_rule.

Theorem C14_default_flag : forall c : cfg_text,
  default_export_for_operation (base_from_config (parse_config c)) = cfg_default_flag c
  /\ named_export_for_operation (base_from_config (parse_config c)) = negb (cfg_default_flag c).
Proof. exact cfg_default_flag_spec. Qed.
Print Assumptions C14_default_flag.
