(** C14 — model of the code that decides which names the operation declaration file and the
    loader's JavaScript module export (definitions only).

    Modelled Rust code (as it is in /repo):
    - crates/config-file/src/{config.rs,parse_config.rs}: the part of [parse_config] that fills
      [Config.generate.{mode,name,export}] (serde defaults for absent keys / sections);
    - crates/printer/src/operation_base_printer/options.rs   [OperationBasePrinterOptions::{default,from_config}];
    - crates/printer/src/operation_type_printer/visitor.rs   [OperationTypePrinterOptions::{default,from_config}]
      and the visitor's five printing functions;
    - crates/printer/src/operation_js_printer/{options.rs,visitor.rs};
    - crates/printer/src/operation_base_printer/mod.rs        [OperationPrinter::print_document],
      [operation_variable_name]; crates/utils/src/capitalize.rs;
    - crates/graphql-loader/src/js_printer.rs ([print_js] = JS printer with [from_config]) and the fact
      that the loader parses every file with file index 0 ([loader_view]).

    The unit of observation is the list of writer operations a printer performs on a
    [SourceMapWriter] ([wop]); the harness records it with a recording writer.  Three kinds of
    sub-sequences are NOT modelled here and enter as data ([defbody]): the printed TypeScript type
    of a selection set / of the variables (C01/C09 territory) and the runtime JSON document
    (C12 territory).  The correspondence run supplies the bodies the implementation really
    printed; the theorems quantify over all bodies that contain no export keyword chunk. *)
From V Require Import Base.Util.

(** * Writer operations *)

Record pos := P { pline : N; pcol : N; pfile : N; pbuiltin : bool }.

Inductive wop :=
| W (c : str)                                   (* writer.write(c) *)
| WF (c : str) (p : pos) (name : option str)    (* writer.write_for(c, node): node.position(), node.name() *)
| Indent
| Dedent.

Definition pos_eqb (a b : pos) : bool :=
  N.eqb (pline a) (pline b) && N.eqb (pcol a) (pcol b) && N.eqb (pfile a) (pfile b)
  && Bool.eqb (pbuiltin a) (pbuiltin b).

Definition wop_eqb (a b : wop) : bool :=
  match a, b with
  | W x, W y => str_eqb x y
  | WF x p n, WF y q m => str_eqb x y && pos_eqb p q && option_eqb str_eqb n m
  | Indent, Indent | Dedent, Dedent => true
  | _, _ => false
  end.

(** * Documents: only what the export logic looks at *)

Inductive opkind := KQuery | KMutation | KSubscription.

Inductive def :=
| OpDef (k : opkind) (name : option (str * pos)) (p : pos) (sel : pos)
    (* operation type, optional name with the name's position, position of the definition,
       position of its selection set *)
| FragDef (name : str) (p : pos).
    (* fragment name, position of the definition *)

Record doc := Doc { doc_file : N; defs : list def }.   (* doc_file = document.position.file *)

(** what is NOT modelled, per definition: printed types and the runtime JSON *)
Record defbody := Body {
  b_type : list wop;      (* operation: result type; fragment: fragment type *)
  b_vars : list wop;      (* operation: variables type as printed with allow_undefined_as_optional_input = true; fragment: unused *)
  b_vars_strict : list wop; (* the same with allow_undefined_as_optional_input = false *)
  b_runtime : str         (* print_{operation,fragment}_runtime: one chunk of JSON *)
}.

(** * Configuration *)

Inductive gmode := WithLoaderTS5_0 | WithLoaderTS4_0 | StandaloneTS4_0.

(** The config *text*, abstractly: which keys of extensions.nitrogql.generate.{mode,name,export}
    are present and with what value ([None] = key absent, or null for the optional ones). *)
Record name_text := NameT {
  nt_result_sfx : option str;       (* operationResultTypeSuffix *)
  nt_vars_sfx : option str;         (* variablesTypeSuffix *)
  nt_ftype_sfx : option str;        (* fragmentTypeSuffix *)
  nt_capitalize : option bool;      (* capitalizeOperationNames *)
  nt_q_sfx : option str;            (* queryVariableSuffix *)
  nt_m_sfx : option str;            (* mutationVariableSuffix *)
  nt_s_sfx : option str;            (* subscriptionVariableSuffix *)
  nt_f_sfx : option str             (* fragmentVariableSuffix *)
}.
Record export_text := ExportT {
  et_default : option bool;         (* defaultExportForOperation *)
  et_result : option bool;          (* operationResultType *)
  et_vars : option bool             (* variablesType *)
}.
Record type_text := TypeT {
  tt_allow_undefined : option bool  (* allowUndefinedAsOptionalInput *)
}.
Record generate_text := GenT {
  gt_mode : option gmode;           (* mode *)
  gt_type : option type_text;       (* type: section *)
  gt_name : option name_text;       (* name: section *)
  gt_export : option export_text    (* export: section *)
}.
(** [None]: no [generate] section at all (or no [nitrogql] / no [extensions]) *)
Definition cfg_text := option generate_text.

(** [Config.generate], restricted to the fields the operation printers read *)
Record gen_export := GenExport { ge_default : bool; ge_result : bool; ge_vars : bool }.
Record config := Config {
  cf_mode : gmode;
  cf_allow_undefined : bool;        (* GenerateTypeConfig.allow_undefined_as_optional_input *)
  cf_name : name_text;              (* GenerateNameConfig: every field is an Option *)
  cf_export : gen_export
}.

Definition name_default : name_text := NameT None None None None None None None None.
(* impl Default for GenerateExportConfig *)
Definition export_default : gen_export := GenExport true false false.
(* #[serde(default)] on the struct: a missing key takes the value of the struct's Default *)
Definition parse_export (e : export_text) : gen_export :=
  GenExport (match et_default e with Some b => b | None => ge_default export_default end)
            (match et_result e with Some b => b | None => ge_result export_default end)
            (match et_vars e with Some b => b | None => ge_vars export_default end).

(* impl Default for GenerateTypeConfig: allow_undefined_as_optional_input = true; #[serde(default)] on the struct *)
Definition allow_undefined_default : bool := true.
Definition parse_type (t : option type_text) : bool :=
  match t with
  | Some (TypeT (Some b)) => b
  | _ => allow_undefined_default
  end.

Definition config_default : config := Config WithLoaderTS5_0 allow_undefined_default name_default export_default.

(** [parse_config], generate part *)
Definition parse_config (t : cfg_text) : config :=
  match t with
  | None => config_default
  | Some g =>
      Config (match gt_mode g with Some m => m | None => WithLoaderTS5_0 end)
             (parse_type (gt_type g))
             (match gt_name g with Some n => n | None => name_default end)
             (match gt_export g with Some e => parse_export e | None => export_default end)
  end.

(** * Printer options *)

Record base_opts := BaseOpts {
  default_export_for_operation : bool;
  named_export_for_operation : bool;
  export_input_type : bool;
  export_result_type : bool;
  capitalize_operation_names : bool;
  query_variable_suffix : str;
  mutation_variable_suffix : str;
  subscription_variable_suffix : str;
  fragment_variable_suffix : str
}.

Definition base_default : base_opts :=
  BaseOpts true false false false true (s "Query") (s "Mutation") (s "Subscription") (s "").

(* nitrogql_utils::clone_into *)
Definition clone_into {A} (v : option A) (target : A) : A :=
  match v with Some x => x | None => target end.

Definition base_from_config (c : config) : base_opts :=
  let n := cf_name c in
  BaseOpts (ge_default (cf_export c))
           (negb (ge_default (cf_export c)))
           (ge_vars (cf_export c))
           (ge_result (cf_export c))
           (clone_into (nt_capitalize n) (capitalize_operation_names base_default))
           (clone_into (nt_q_sfx n) (query_variable_suffix base_default))
           (clone_into (nt_m_sfx n) (mutation_variable_suffix base_default))
           (clone_into (nt_s_sfx n) (subscription_variable_suffix base_default))
           (clone_into (nt_f_sfx n) (fragment_variable_suffix base_default)).

Record type_opts := TypeOpts {
  t_base : base_opts;
  print_values : bool;
  schema_root_namespace : str;
  schema_source : str;
  typed_document_node_source : str;
  variables_type_suffix : str;
  operation_result_type_suffix : str;
  fragment_type_suffix : str;
  allow_undefined_as_optional_input : bool
}.

Definition type_default : type_opts :=
  TypeOpts base_default false (s "Schema") (s "") (s "@graphql-typed-document-node/core")
           (s "Variables") (s "Result") (s "") true.

Definition mode_eqb (a b : gmode) : bool :=
  match a, b with
  | WithLoaderTS5_0, WithLoaderTS5_0 | WithLoaderTS4_0, WithLoaderTS4_0
  | StandaloneTS4_0, StandaloneTS4_0 => true
  | _, _ => false
  end.

Definition type_from_config (c : config) : type_opts :=
  let n := cf_name c in
  TypeOpts (base_from_config c)
           (if mode_eqb (cf_mode c) StandaloneTS4_0 then true else print_values type_default)
           (schema_root_namespace type_default)
           (schema_source type_default)
           (typed_document_node_source type_default)
           (clone_into (nt_vars_sfx n) (variables_type_suffix type_default))
           (clone_into (nt_result_sfx n) (operation_result_type_suffix type_default))
           (clone_into (nt_ftype_sfx n) (fragment_type_suffix type_default))
           (* result.allow_undefined_as_optional_input = config.generate.type.allow_undefined_as_optional_input *)
           (cf_allow_undefined c).

(* OperationJSPrinterOptions::from_config: only the base options *)
Definition js_from_config (c : config) : base_opts := base_from_config c.

(** * Names *)

(** [capitalize]: first char through [char::to_uppercase].  Modelled on ASCII (the GraphQL grammar
    admits only [_A-Za-z0-9] in names); other first characters are left unchanged here. *)
Definition upper_ascii (c : N) : N := if (97 <=? c)%N && (c <=? 122)%N then (c - 32)%N else c.
Definition capitalize (x : str) : str :=
  match x with [] => [] | c :: r => upper_ascii c :: r end.

Definition op_suffix (o : base_opts) (k : opkind) : str :=
  match k with
  | KQuery => query_variable_suffix o
  | KMutation => mutation_variable_suffix o
  | KSubscription => subscription_variable_suffix o
  end.

(* OperationNames.operation_name *)
Definition operation_name (o : base_opts) (name : option (str * pos)) : str :=
  match name with
  | Some (n, _) => if capitalize_operation_names o then capitalize n else n
  | None => []
  end.
(* OperationNames.operation_variable_name *)
Definition operation_var (o : base_opts) (k : opkind) (name : option (str * pos)) : str :=
  operation_name o name ++ op_suffix o k.

Definition fragment_var (o : base_opts) (name : str) : str := name ++ fragment_variable_suffix o.

(* OperationDefinition::name_pos : position and name handed to write_for *)
Definition name_pos (name : option (str * pos)) (p : pos) : pos :=
  match name with Some (_, np) => np | None => p end.
Definition name_of (name : option (str * pos)) : option str :=
  match name with Some (n, _) => Some n | None => None end.

(** * Chunks written literally by the visitors *)

Definition k_export := s "export ".
Definition k_const := s "const ".
Definition k_declare := s "declare ".
Definition k_type := s "type ".
Definition k_export_brace := s "export { ".
Definition nl2 : str := [10; 10]%N.
Definition k_as_default : str := s " as default };" ++ nl2.
Definition k_eq := s " = ".
Definition k_colon := s ": ".
Definition k_semi2 : str := s ";" ++ nl2.
Definition k_tdn := s "TypedDocumentNode<".
Definition k_comma := s ", ".
Definition k_close_semi : str := s ">;" ++ nl2.
Definition k_close_eq := s "> = ".
Definition k_as_unknown := s " as unknown as TypedDocumentNode<".
Definition k_never := s ", never>".
Definition k_never_semi : str := s ", never>;" ++ nl2.

(** * operation_base_printer/mod.rs : print_document *)

Definition is_op (d : def) : bool := match d with OpDef _ _ _ _ => true | FragDef _ _ => false end.
Definition operation_count (d : doc) : nat := length (filter is_op (defs d)).
Definition single_op (d : doc) : bool := Nat.eqb (operation_count d) 1.

(* do not export fragment definitions imported from other files *)
Definition frag_exported (d : doc) (p : pos) : bool := N.eqb (doc_file d) (pfile p).

Section Printer.
  (** the three visitor callbacks + header, as functions to op lists *)
  Variable header : list wop.
  Variable v_operation : base_opts -> bool (* exported *) -> opkind -> option (str * pos) -> pos -> pos -> defbody -> list wop.
  Variable v_default : base_opts -> opkind -> option (str * pos) -> list wop.
  Variable v_fragment : base_opts -> bool (* exported *) -> str -> pos -> defbody -> list wop.

  Definition print_def (o : base_opts) (d : doc) (x : def * defbody) : list wop :=
    match fst x with
    | OpDef k name p sel =>
        v_operation o (named_export_for_operation o) k name p sel (snd x)
        ++ (if default_export_for_operation o && single_op d then v_default o k name else [])
    | FragDef name p =>
        v_fragment o (frag_exported d p) name p (snd x)
    end.

  Definition print_document (o : base_opts) (d : doc) (B : list defbody) : list wop :=
    header ++ flat_map (print_def o d) (combine (defs d) B).
End Printer.

(* both visitors: print_default_exported_operation_definition *)
Definition default_export_ops (o : base_opts) (k : opkind) (name : option (str * pos)) : list wop :=
  [W k_export_brace; W (operation_var o k name); W k_as_default].

(** * operation_js_printer/visitor.rs *)

Definition js_operation (o : base_opts) (exported : bool) (k : opkind) (name : option (str * pos))
    (p sel : pos) (b : defbody) : list wop :=
  (if exported then [W k_export] else [])
  ++ [W k_const; WF (operation_var o k name) (name_pos name p) (name_of name); W k_eq;
      W (b_runtime b); W k_semi2].

Definition js_fragment (o : base_opts) (exported : bool) (name : str) (p : pos) (b : defbody) : list wop :=
  (if exported then [W k_export] else [])
  ++ [W k_const; WF (fragment_var o name) p (Some name); W k_eq; W (b_runtime b); W k_semi2].

Definition js_ops (o : base_opts) (d : doc) (B : list defbody) : list wop :=
  print_document [] js_operation default_export_ops js_fragment o d B.

(** * operation_type_printer/visitor.rs *)

Definition dts_header (t : type_opts) : list wop :=
  [W (s "import type { TypedDocumentNode } from """ ++ typed_document_node_source t ++ s """;" ++ [10]%N);
   W (s "import type * as " ++ schema_root_namespace t ++ s " from """ ++ schema_source t ++ s """;" ++ nl2)].

Definition decl_prefix (t : type_opts) (exported : bool) : list wop :=
  if exported then [W k_export] else if negb (print_values t) then [W k_declare] else [].

(* get_type_for_variable_definitions reads options.allow_undefined_as_optional_input: the printed
   variables type is one of the two recorded bodies *)
Definition vars_body (t : type_opts) (b : defbody) : list wop :=
  if allow_undefined_as_optional_input t then b_vars b else b_vars_strict b.

Definition dts_operation (t : type_opts) (o : base_opts) (exported : bool) (k : opkind)
    (name : option (str * pos)) (p sel : pos) (b : defbody) : list wop :=
  let np := name_pos name p in
  let nn := name_of name in
  let result_type_name := operation_name o name ++ operation_result_type_suffix t in
  let input_variable_name := operation_name o name ++ variables_type_suffix t in
  (if export_result_type o then [W k_export] else [])
  ++ [W k_type; WF result_type_name np nn; WF k_eq sel None]
  ++ b_type b
  ++ [W k_semi2]
  ++ (if export_input_type o then [W k_export] else [])
  ++ [W k_type; WF input_variable_name np nn; W k_eq]
  ++ vars_body t b
  ++ [W k_semi2]
  ++ decl_prefix t exported
  ++ [W k_const; WF (operation_var o k name) np nn; WF k_colon sel None; W k_tdn;
      W result_type_name; W k_comma; W input_variable_name]
  ++ (if negb (print_values t) then [W k_close_semi]
      else [W k_close_eq; W (b_runtime b); W k_as_unknown; W result_type_name; W k_comma;
            W input_variable_name; W k_close_semi]).

Definition dts_fragment (t : type_opts) (o : base_opts) (exported : bool) (name : str) (p : pos)
    (b : defbody) : list wop :=
  let fragment_type_name := name ++ fragment_type_suffix t in
  (if exported then [W k_export] else [])
  ++ [W k_type; WF fragment_type_name p (Some name); W k_eq]
  ++ b_type b
  ++ [W k_semi2]
  ++ decl_prefix t exported
     (* the visitor recomputes the variable name from its own copy of the base options *)
  ++ [W k_const; WF (fragment_var (t_base t) name) p (Some name); W k_colon; W k_tdn;
      WF fragment_type_name p (Some name); W k_never]
  ++ (if negb (print_values t) then [W k_semi2]
      else [W k_eq; W (b_runtime b); W k_as_unknown; WF fragment_type_name p (Some name); W k_never_semi]).

(* print_types_for_operation_document: the base options handed to OperationPrinter are a clone of
   options.base_options *)
Definition dts_ops (t : type_opts) (d : doc) (B : list defbody) : list wop :=
  print_document (dts_header t) (dts_operation t) default_export_ops (dts_fragment t) (t_base t) d B.

(** * The two artefacts of one configuration text *)

(* CLI generate: .d.graphql.ts / .graphql.d.ts / .graphql.ts *)
Definition dts_of_config (c : cfg_text) (d : doc) (B : list defbody) : list wop :=
  dts_ops (type_from_config (parse_config c)) d B.
(* loader: emit_js -> print_js *)
Definition js_of_config (c : cfg_text) (d : doc) (B : list defbody) : list wop :=
  js_ops (js_from_config (parse_config c)) d B.

(** The loader never calls [set_current_file_of_pos]: every position it produces has file 0. *)
Definition zero_file (p : pos) : pos := P (pline p) (pcol p) 0 (pbuiltin p).
Definition loader_def (x : def) : def :=
  match x with
  | OpDef k name p sel =>
      OpDef k (match name with Some (n, np) => Some (n, zero_file np) | None => None end)
            (zero_file p) (zero_file sel)
  | FragDef name p => FragDef name (zero_file p)
  end.
Definition loader_view (d : doc) : doc := Doc 0 (map loader_def (defs d)).

(** * Reading a module's exports off its op list

    An export statement is recognised by the chunks the visitors write for it:
    ["export "; "const "; write_for(name)], ["const "; write_for(name)] (a local or [declare]d
    binding) and ["export { "; name; " as default };\n\n"]. *)

Inductive item :=
| IDecl (exported : bool) (name : str) (p : pos)    (* [export] const name, written for the node at p *)
| IDefault (name : str).                            (* export { name as default } *)

Inductive kwd := KwExport | KwConst | KwExportBrace.
Definition kw_of (c : str) : option kwd :=
  if str_eqb c k_export then Some KwExport
  else if str_eqb c k_const then Some KwConst
  else if str_eqb c k_export_brace then Some KwExportBrace
  else None.

Fixpoint scan (ops : list wop) : list item :=
  match ops with
  | [] => []
  | W c :: r =>
      match kw_of c with
      | None => scan r
      | Some KwExport =>
          match r with
          | W c2 :: WF n p _ :: r' => if str_eqb c2 k_const then IDecl true n p :: scan r' else scan r
          | _ => scan r
          end
      | Some KwConst =>
          match r with
          | WF n p _ :: r' => IDecl false n p :: scan r'
          | _ => scan r
          end
      | Some KwExportBrace =>
          match r with
          | W n :: W t :: r' => if str_eqb t k_as_default then IDefault n :: scan r' else scan r
          | _ => scan r
          end
      end
  | _ :: r => scan r
  end.

(** exported names of a module *)
Inductive ename := Named (n : str) | Default.

Definition ename_eqb (a b : ename) : bool :=
  match a, b with
  | Named x, Named y => str_eqb x y
  | Default, Default => true
  | _, _ => false
  end.

(* positions of the bindings called n *)
Fixpoint resolve (n : str) (m : list item) : list pos :=
  match m with
  | [] => []
  | IDecl _ x p :: r => if str_eqb x n then p :: resolve n r else resolve n r
  | IDefault _ :: r => resolve n r
  end.

Fixpoint named_exports (m : list item) : list (ename * pos) :=
  match m with
  | [] => []
  | IDecl true n p :: r => (Named n, p) :: named_exports r
  | _ :: r => named_exports r
  end.

Fixpoint default_names (m : list item) : list str :=
  match m with
  | [] => []
  | IDefault n :: r => n :: default_names r
  | _ :: r => default_names r
  end.

(** the value exports of a module: (exported name, position identifying the definition the
    exported binding was written for) *)
Definition value_exports (m : list item) : list (ename * pos) :=
  named_exports m ++ flat_map (fun n => map (fun p => (Default, p)) (resolve n m)) (default_names m).

(* the same export, as seen in a document whose positions all have file index 0 *)
Definition zero_export (x : ename * pos) : ename * pos := (fst x, zero_file (snd x)).

(** ** Runtime reading of a JS module

    ECMAScript: two lexical declarations of the same name in one module are an early
    SyntaxError; the module is never evaluated and exports nothing.  (Observed with node 20 on
    the loader's real output: "Identifier 'FooQuery' has already been declared".) *)
Fixpoint decl_names (m : list item) : list str :=
  match m with
  | [] => []
  | IDecl _ n _ :: r => n :: decl_names r
  | IDefault _ :: r => decl_names r
  end.
Fixpoint nodupb (l : list str) : bool :=
  match l with
  | [] => true
  | x :: r => negb (existsb (str_eqb x) r) && nodupb r
  end.
Definition loadable (m : list item) : bool := nodupb (decl_names m).
Definition runtime_exports (m : list item) : list (ename * pos) :=
  if loadable m then value_exports m else [].

(** what a JS binding carries: ["const "; write_for(name); " = "; body] *)
Fixpoint js_bindings (ops : list wop) : list (str * pos * str) :=
  match ops with
  | [] => []
  | W c :: r =>
      if str_eqb c k_const then
        match r with
        | WF n p _ :: W e :: W b :: r' =>
            if str_eqb e k_eq then (n, p, b) :: js_bindings r' else js_bindings r
        | _ => js_bindings r
        end
      else js_bindings r
  | _ :: r => js_bindings r
  end.

(** * Guards *)

Definition is_kw (o : wop) : bool :=
  match o with
  | W c => match kw_of c with Some _ => true | None => false end
  | _ => false
  end.
Definition kw_free (ops : list wop) : bool := forallb (fun o => negb (is_kw o)) ops.

(** the unmodelled bodies contain no chunk equal to an export keyword *)
Definition body_ok (b : defbody) : bool :=
  kw_free (b_type b) && kw_free (b_vars b) && kw_free (b_vars_strict b) && negb (is_kw (W (b_runtime b))).
Definition bodies_ok (B : list defbody) : bool := forallb body_ok B.

(** the two type names written as plain chunks inside [TypedDocumentNode<…>] are not, as a
    whole chunk, one of the three keyword chunks (a type-name suffix such as ["export { "]
    with an empty operation name would be; see design/C14.md) *)
Definition def_names_ok_with (t : type_opts) (o : base_opts) (name : option (str * pos)) : bool :=
  negb (is_kw (W (operation_name o name ++ operation_result_type_suffix t)))
  && negb (is_kw (W (operation_name o name ++ variables_type_suffix t))).
Definition def_names_ok (t : type_opts) (x : def) : bool :=
  match x with
  | OpDef _ name _ _ => def_names_ok_with t (t_base t) name
  | FragDef _ _ => true
  end.
Definition names_ok (t : type_opts) (d : doc) : bool := forallb (def_names_ok t) (defs d).

(** * The property's reference reading (written from the property text, not from the code):
    which definition should be reachable under which exported name *)

(* position that identifies a definition in both printers' write_for calls *)
Definition decl_pos (x : def) : pos :=
  match x with OpDef _ name p _ => name_pos name p | FragDef _ p => p end.
Definition var_name (o : base_opts) (x : def) : str :=
  match x with OpDef k name _ _ => operation_var o k name | FragDef n _ => fragment_var o n end.
Definition is_named_export (o : base_opts) (d : doc) (x : def) : bool :=
  match x with
  | OpDef _ _ _ _ => named_export_for_operation o
  | FragDef _ p => frag_exported d p
  end.
Definition is_default_export (o : base_opts) (d : doc) (x : def) : bool :=
  match x with
  | OpDef _ _ _ _ => default_export_for_operation o && single_op d
  | FragDef _ _ => false
  end.

(** no two definitions of the document get the same variable name *)
Definition distinct_vars (o : base_opts) (d : doc) : bool := nodupb (map (var_name o) (defs d)).

(** GraphQL's own uniqueness rules on names (spec 5.2.1.1, 5.2.2.1, 5.5.1.1): operation names
    unique, an anonymous operation only alone, fragment names unique.  `nitrogql check` enforces
    them; the runtime reading of the property is asked only of such documents. *)
Fixpoint op_names (l : list def) : list str :=
  match l with
  | [] => []
  | OpDef _ (Some (n, _)) _ _ :: r => n :: op_names r
  | _ :: r => op_names r
  end.
Fixpoint frag_names (l : list def) : list str :=
  match l with
  | [] => []
  | FragDef n _ :: r => n :: frag_names r
  | _ :: r => frag_names r
  end.
Definition has_anonymous (l : list def) : bool :=
  existsb (fun x => match x with OpDef _ None _ _ => true | _ => false end) l.
Definition doc_valid_names (d : doc) : bool :=
  nodupb (op_names (defs d)) && nodupb (frag_names (defs d))
  && (if has_anonymous (defs d) then single_op d else true).

(** * One loader instance over time (crates/graphql-loader/src/main.rs)

    [CONFIG] is a thread-local, [Config::default()] until the first [load_config] (whose [generate] part is
    [parse_config None]); [load_config_impl] replaces it; [emit_js] hands the CURRENT one to [print_js], which
    derives the printer options from it on every call.  So a module emitted at some point of a history depends
    only on the configuration text loaded last before it. *)
Inductive lop :=
| LLoad (c : cfg_text)                    (* load_config(text) *)
| LEmit (d : doc) (B : list defbody).     (* initiate_task … emit_js for a file whose resolved document is d (CLI view) *)

(** the emissions of a history: (configuration current at that step, document, bodies, emitted op list) *)
Fixpoint run_loader (cur : cfg_text) (h : list lop) : list (cfg_text * doc * list defbody * list wop) :=
  match h with
  | [] => []
  | LLoad c :: r => run_loader c r
  | LEmit d B :: r => (cur, d, B, js_of_config cur (loader_view d) B) :: run_loader cur r
  end.
(* a fresh instance *)
Definition loader_history (h : list lop) := run_loader None h.

(** * emit_js since /repo 539df4b: a spread of a fragment defined nowhere in the resolved document is an
    error ([LoaderError::FragmentNotDefined], emit_js returns false), no module is produced.
    [spreads] = the fragment names spread in the resolved document, in the order
    [find_undefined_fragment_spread] visits them (definitions in order, selection sets depth first). *)
Fixpoint first_undefined (defined : list str) (spreads : list str) : option str :=
  match spreads with
  | [] => None
  | x :: r => if existsb (str_eqb x) defined then first_undefined defined r else Some x
  end.
Definition undefined_spread (d : doc) (spreads : list str) : option str :=
  first_undefined (frag_names (defs d)) spreads.

Inductive lop2 :=
| L2Load (c : cfg_text)
| L2Emit (d : doc) (B : list defbody) (spreads : list str).
Inductive emission := EModule (ops : list wop) | EError (fragment : str).

Definition emit2 (cur : cfg_text) (d : doc) (B : list defbody) (spreads : list str) : emission :=
  match undefined_spread d spreads with
  | Some n => EError n
  | None => EModule (js_of_config cur (loader_view d) B)
  end.
Fixpoint run_loader2 (cur : cfg_text) (h : list lop2) : list (cfg_text * doc * list defbody * emission) :=
  match h with
  | [] => []
  | L2Load c :: r => run_loader2 c r
  | L2Emit d B sp :: r => (cur, d, B, emit2 cur d B sp) :: run_loader2 cur r
  end.
Definition failing_emit (x : lop2) : bool :=
  match x with L2Emit d _ sp => match undefined_spread d sp with Some _ => true | None => false end | L2Load _ => false end.
Definition is_module (e : cfg_text * doc * list defbody * emission) : bool :=
  match e with (_, _, _, EModule _) => true | _ => false end.

(** * When do two definitions get the same variable name?  (the class colliding-variable-names, structurally) *)

Fixpoint prefixb (a b : str) : bool :=
  match a, b with
  | [], _ => true
  | x :: a', y :: b' => N.eqb x y && prefixb a' b'
  | _ :: _, [] => false
  end.
Definition is_suffixb (a b : str) : bool := prefixb (rev a) (rev b).
(* x ++ a = y ++ b is possible for some x, y iff one of a, b is a suffix of the other *)
Definition suffix_related (a b : str) : bool := is_suffixb a b || is_suffixb b a.

(* capitalize a = capitalize b *)
Definition eq_mod_first_case (a b : str) : bool :=
  match a, b with
  | [], [] => true
  | x :: a', y :: b' => N.eqb (upper_ascii x) (upper_ascii y) && str_eqb a' b'
  | _, _ => false
  end.

Definition opkind_eq (a b : opkind) : bool :=
  match a, b with
  | KQuery, KQuery | KMutation, KMutation | KSubscription, KSubscription => true
  | _, _ => false
  end.
Definition raw_name (name : option (str * pos)) : str := match name with Some (n, _) => n | None => [] end.

Definition collides (o : base_opts) (x y : def) : bool :=
  match x, y with
  | OpDef k1 n1 _ _, OpDef k2 n2 _ _ =>
      if opkind_eq k1 k2 then
        (if capitalize_operation_names o then eq_mod_first_case (raw_name n1) (raw_name n2)
         else str_eqb (raw_name n1) (raw_name n2))
      else suffix_related (op_suffix o k1) (op_suffix o k2)
           && str_eqb (operation_var o k1 n1) (operation_var o k2 n2)
  | OpDef k n _ _, FragDef f _ => str_eqb (operation_var o k n) (fragment_var o f)
  | FragDef f _, OpDef k n _ _ => str_eqb (fragment_var o f) (operation_var o k n)
  | FragDef f1 _, FragDef f2 _ => str_eqb f1 f2
  end.

Fixpoint pairwise_exists {A} (f : A -> A -> bool) (l : list A) : bool :=
  match l with
  | [] => false
  | x :: r => existsb (f x) r || pairwise_exists f r
  end.
Definition has_collision (o : base_opts) (d : doc) : bool := pairwise_exists (collides o) (defs d).

(** * The default-export rule, read off the configuration text *)
Definition cfg_default_flag (c : cfg_text) : bool :=
  match c with
  | Some g => match gt_export g with
              | Some e => match et_default e with Some b => b | None => true end
              | None => true
              end
  | None => true
  end.
Definition expected_default_names (o : base_opts) (d : doc) : list str :=
  if default_export_for_operation o && single_op d then map (var_name o) (filter is_op (defs d)) else [].

(** the executable description of the class under the default options *)
Definition collides_default (x y : def) : bool :=
  match x, y with
  | OpDef k1 n1 _ _, OpDef k2 n2 _ _ => opkind_eq k1 k2 && eq_mod_first_case (raw_name n1) (raw_name n2)
  | OpDef k n _ _, FragDef f _ | FragDef f _, OpDef k n _ _ =>
      str_eqb f (capitalize (raw_name n) ++ op_suffix base_default k)
  | FragDef f1 _, FragDef f2 _ => str_eqb f1 f2
  end.

