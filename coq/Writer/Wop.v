(** Writer operations: the unit of comparison for every printer (DESIGN §2.2).  The Rust
    harness records them with a [SourceMapWriter] implementation (harness/src/rec.rs). *)
From V Require Import Base.Util Gql.Ast.

Inductive wop :=
| W (c : str)                                   (* writer.write(c) *)
| WF (c : str) (p : pos) (name : option str)    (* writer.write_for(c, node): node.position(), node.name() *)
| Indent
| Dedent.

Definition wop_eqb (a b : wop) : bool :=
  match a, b with
  | W x, W y => str_eqb x y
  | WF x p n, WF y q m => str_eqb x y && pos_eqb p q && option_eqb str_eqb n m
  | Indent, Indent | Dedent, Dedent => true
  | _, _ => false
  end.

(** [write!(writer, …)] goes through [fmt::Write::write_str], i.e. one [write] per literal piece
    and per argument; the recording writer coalesces adjacent [W]s so both sides agree on a
    normal form regardless of how the text was chunked. *)
Fixpoint coalesce (l : list wop) : list wop :=
  match l with
  | W a :: r =>
      match coalesce r with
      | W b :: r' => W (a ++ b) :: r'
      | r' => match a with [] => r' | _ => W a :: r' end
      end
  | x :: r => x :: coalesce r
  | [] => []
  end.

Definition wops_eqb (a b : list wop) : bool := list_eqb wop_eqb (coalesce a) (coalesce b).

(** all text written, ignoring indentation and mappings *)
Definition wop_text (o : wop) : str := match o with W c | WF c _ _ => c | _ => [] end.
Definition raw_text (l : list wop) : str := flat_map wop_text l.
