(** C12 — proofs, part 1: the graphql-js reader inverts the JSON printer on every node kind. *)
From V Require Import Base.Util Gql.Ast C12.Model C12.Spec.

(** * Induction principles for the nested inductives of Gql/Ast.v *)

Section ValueInd.
  Variable P : value -> Prop.
  Hypothesis HVar : forall n p, P (VVar n p).
  Hypothesis HInt : forall p l, P (VInt p l).
  Hypothesis HFloat : forall p l, P (VFloat p l).
  Hypothesis HString : forall p x, P (VString p x).
  Hypothesis HBool : forall p b, P (VBool p b).
  Hypothesis HNull : forall p, P (VNull p).
  Hypothesis HEnum : forall p x, P (VEnum p x).
  Hypothesis HList : forall p vs, Forall P vs -> P (VList p vs).
  Hypothesis HObject : forall p fs, Forall (fun kv => P (snd kv)) fs -> P (VObject p fs).

  Fixpoint value_ind' (v : value) : P v :=
    match v with
    | VVar n p => HVar n p
    | VInt p l => HInt p l
    | VFloat p l => HFloat p l
    | VString p x => HString p x
    | VBool p b => HBool p b
    | VNull p => HNull p
    | VEnum p x => HEnum p x
    | VList p vs =>
        HList p vs ((fix go (l : list value) : Forall P l :=
                       match l with
                       | [] => Forall_nil _
                       | x :: r => Forall_cons _ (value_ind' x) (go r)
                       end) vs)
    | VObject p fs =>
        HObject p fs ((fix go (l : list (ident * value)) : Forall (fun kv => P (snd kv)) l :=
                         match l with
                         | [] => Forall_nil _
                         | kv :: r => Forall_cons _ (value_ind' (snd kv)) (go r)
                         end) fs)
    end.
End ValueInd.

Section SelInd.
  Variable P : selection -> Prop.
  Variable Q : selset -> Prop.
  Definition optQ (sel : option selset) : Prop := match sel with Some ss => Q ss | None => True end.
  Hypothesis HField : forall al n ar d sel, optQ sel -> P (SField al n ar d sel).
  Hypothesis HSpread : forall p n d, P (SSpread p n d).
  Hypothesis HInline : forall p c d ss, Q ss -> P (SInline p c d ss).
  Hypothesis HSet : forall p sels, Forall P sels -> Q (SelSet p sels).

  Fixpoint sel_ind' (x : selection) : P x :=
    match x with
    | SField al n ar d sel =>
        HField al n ar d sel (match sel as s0 return optQ s0 with
                              | Some ss => selset_ind' ss
                              | None => I
                              end)
    | SSpread p n d => HSpread p n d
    | SInline p c d ss => HInline p c d ss (selset_ind' ss)
    end
  with selset_ind' (ss : selset) : Q ss :=
    match ss with
    | SelSet p sels =>
        HSet p sels ((fix go (l : list selection) : Forall P l :=
                        match l with
                        | [] => Forall_nil _
                        | x :: r => Forall_cons _ (sel_ind' x) (go r)
                        end) sels)
    end.
End SelInd.

(** * Generic facts about the reader's combinators *)

Lemma all_some_map {A B C} (f : B -> option C) (g : A -> B) (h : A -> C) (l : list A) :
  Forall (fun x => f (g x) = Some (h x)) l ->
  all_some (map f (map g l)) = Some (map h l).
Proof.
  induction 1 as [|x r Hx _ IH]; cbn [map all_some]; [reflexivity|].
  rewrite Hx, IH. reflexivity.
Qed.

Lemma arr_of_map {A B} (f : json -> option B) (g : A -> json) (h : A -> B) (l : list A) :
  Forall (fun x => f (g x) = Some (h x)) l ->
  arr_of f (JArr (map g l)) = Some (map h l).
Proof. intros H. unfold arr_of. apply all_some_map, H. Qed.

Lemma Forall_all {A} (P : A -> Prop) (l : list A) : (forall x, P x) -> Forall P l.
Proof. intros H. induction l; constructor; auto. Qed.

(** * Names, types *)

Lemma rd_name_jname n : rd_name (jname n) = Some n.
Proof. reflexivity. Qed.

Lemma rd_type_fields t : rd_type (JObj (type_fields t)) = Some (erase_ty t).
Proof.
  induction t as [n|t IH|p t IH].
  - reflexivity.
  - cbn [type_fields erase_ty].
    change (rd_type (JObj [kind n_NonNullType; (k_type, JObj (type_fields t))]))
      with (option_map ANonNull (rd_type (JObj (type_fields t)))). now rewrite IH.
  - cbn [type_fields erase_ty].
    change (rd_type (JObj [kind n_ListType; (k_type, JObj (type_fields t))]))
      with (option_map AList (rd_type (JObj (type_fields t)))). now rewrite IH.
Qed.

Lemma rd_named_type_cond c : rd_named_type (JObj (type_fields (TNamed c))) = Some (iname c).
Proof. reflexivity. Qed.

(** * Values *)

Definition rd_object_field (f : json) : option (str * aval) :=
  match f with
  | JObj fo =>
      if kind_is fo n_ObjectField then
        match req rd_name k_name fo, req rd_value k_value fo with
        | Some n, Some v => Some (n, v)
        | _, _ => None
        end
      else None
  | _ => None
  end.

Lemma rd_value_list o :
  kind_of o = Some n_ListValue -> rd_value (JObj o) = option_map AListV (req (arr_of rd_value) k_values o).
Proof. intros H. cbn [rd_value]. rewrite H. reflexivity. Qed.

Lemma rd_value_object o :
  kind_of o = Some n_ObjectValue ->
  rd_value (JObj o) = option_map AObjV (req (arr_of rd_object_field) k_fields o).
Proof. intros H. cbn [rd_value]. rewrite H. reflexivity. Qed.

Lemma rd_value_fields v : rd_value (JObj (value_fields v)) = Some (erase_value v).
Proof.
  induction v as [n p|p l|p l|p x|p b|p|p x|p vs IH|p fs IH] using value_ind'; try reflexivity.
  - cbn [value_fields erase_value]. rewrite rd_value_list by reflexivity.
    change (req (arr_of rd_value) k_values [kind n_ListValue; (k_values, JArr (map (fun x => JObj (value_fields x)) vs))])
      with (arr_of rd_value (JArr (map (fun x => JObj (value_fields x)) vs))).
    rewrite (arr_of_map rd_value _ erase_value) by exact IH. reflexivity.
  - cbn [value_fields erase_value]. rewrite rd_value_object by reflexivity.
    match goal with |- option_map _ (req _ _ [_; (_, JArr (map ?g fs))]) = _ =>
      change (req (arr_of rd_object_field) k_fields [kind n_ObjectValue; (k_fields, JArr (map g fs))])
        with (arr_of rd_object_field (JArr (map g fs))) end.
    rewrite (arr_of_map rd_object_field _ (fun kv => match kv with (k, x) => (iname k, erase_value x) end)).
    + reflexivity.
    + eapply Forall_impl; [|exact IH]. intros [k x] Hx. cbn [snd] in Hx.
      change (match rd_value (JObj (value_fields x)) with
              | Some v => Some (iname k, v)
              | None => None
              end = Some (iname k, erase_value x)).
      now rewrite Hx.
Qed.

(** * Arguments, directives, variable definitions *)

Lemma rd_argument_fields a :
  rd_argument (JObj (argument_fields a)) = Some (iname (fst a), erase_value (snd a)).
Proof.
  destruct a as [k x]. cbn [fst snd argument_fields].
  change (match rd_value (JObj (value_fields x)) with
          | Some v => Some (iname k, v)
          | None => None
          end = Some (iname k, erase_value x)).
  now rewrite rd_value_fields.
Qed.

Lemma arr_arguments a : arr_of rd_argument (arguments_json a) = Some (erase_args a).
Proof.
  unfold arguments_json, erase_args.
  apply (arr_of_map rd_argument _ (fun kv => (iname (fst kv), erase_value (snd kv)))).
  apply Forall_all. intros x. apply rd_argument_fields.
Qed.

Lemma rd_directive_fields d : rd_directive (JObj (directive_fields d)) = Some (erase_dir d).
Proof.
  unfold directive_fields, erase_dir.
  change (rd_directive (JObj [kind n_Directive; (k_name, jname (iname (dir_name d))); (k_arguments, arguments_json (dir_args d))]))
    with (match opt_arr rd_argument k_arguments [(k_arguments, arguments_json (dir_args d))] with
          | Some a => Some (mkADir (iname (dir_name d)) a)
          | None => None
          end).
  unfold opt_arr, opt. cbn [jget_with]. rewrite str_eqb_refl.
  unfold arguments_json at 1. cbn [option_map].
  change (JArr (map (fun y => JObj (argument_fields y)) match dir_args d with Some x => args_list x | None => [] end))
    with (arguments_json (dir_args d)).
  rewrite arr_arguments. reflexivity.
Qed.

Lemma arr_directives ds : arr_of rd_directive (directives_json ds) = Some (erase_dirs ds).
Proof.
  unfold directives_json, erase_dirs. apply (arr_of_map rd_directive _ erase_dir).
  apply Forall_all. intros d. apply rd_directive_fields.
Qed.

(** reading an optional-array key whose value is a printed array *)
Lemma opt_arr_here {A} (f : json -> option A) k (l : list json) rest (r : list A) :
  jget_with (fun j => match j with JNull => Some None | _ => option_map Some (arr_of f j) end) k rest = None ->
  arr_of f (JArr l) = Some r ->
  opt_arr f k ((k, JArr l) :: rest) = Some r.
Proof.
  intros Hrest Hl. unfold opt_arr, opt. cbn [jget_with]. rewrite Hrest, str_eqb_refl, Hl. reflexivity.
Qed.

(** * Selections *)

Definition alias_part (al : option str) : fields := match al with Some a => [(k_alias, jname a)] | None => [] end.
Definition selset_part (s : option fields) : fields := match s with Some x => [(k_selectionSet, JObj x)] | None => [] end.
Definition cond_part (c : option str) : fields :=
  match c with Some n => [(k_typeCondition, JObj [kind n_NamedType; (k_name, jname n)])] | None => [] end.

Lemma rd_field_obj n al la ld ra rd so rsub :
  arr_of rd_argument (JArr la) = Some ra ->
  arr_of rd_directive (JArr ld) = Some rd ->
  match so with Some s => rd_selset (JObj s) = Some rsub | None => rsub = [] end ->
  rd_selection (JObj ([kind n_Field; (k_name, jname n)] ++ alias_part al
                      ++ [(k_arguments, JArr la); (k_directives, JArr ld)] ++ selset_part so))
  = Some (AField al n ra rd rsub).
Proof.
  intros Ha Hd Hs. unfold arr_of in Ha, Hd.
  destruct al as [a|], so as [s|]; cbn [alias_part selset_part app];
    unfold rd_selset, rd_selset_with in Hs; cbn; unfold opt_arr, opt; cbn; cbn in Hs;
    rewrite ?Ha, ?Hd, ?Hs; subst; reflexivity.
Qed.

Lemma rd_spread_obj n ld rd :
  arr_of rd_directive (JArr ld) = Some rd ->
  rd_selection (JObj [kind n_FragmentSpread; (k_name, jname n); (k_directives, JArr ld)]) = Some (ASpread n rd).
Proof.
  intros Hd. unfold arr_of in Hd. cbn; unfold opt_arr, opt; cbn. rewrite Hd. reflexivity.
Qed.

Lemma rd_inline_obj c ld rd s rsub :
  arr_of rd_directive (JArr ld) = Some rd ->
  rd_selset (JObj s) = Some rsub ->
  rd_selection (JObj ([kind n_InlineFragment] ++ cond_part c ++ [(k_directives, JArr ld)] ++ [(k_selectionSet, JObj s)]))
  = Some (AInline c rd rsub).
Proof.
  intros Hd Hs. unfold arr_of in Hd.
  destruct c as [c|]; cbn [cond_part app];
    unfold rd_selset, rd_selset_with in Hs; cbn; unfold opt_arr, opt; cbn; cbn in Hs;
    rewrite ?Hd, ?Hs; reflexivity.
Qed.

Lemma rd_selset_obj (l : list json) r :
  arr_of rd_selection (JArr l) = Some r ->
  rd_selset (JObj [kind n_SelectionSet; (k_selections, JArr l)]) = Some r.
Proof. intros H. unfold rd_selset, rd_selset_with. cbn. exact H. Qed.

Lemma forallb_Forall {A} (f : A -> bool) (P : A -> Prop) l :
  Forall (fun x => f x = true -> P x) l -> forallb f l = true -> Forall P l.
Proof.
  induction 1 as [|x r Hx _ IH]; cbn [forallb]; intros H; constructor;
    apply andb_prop in H; destruct H; auto.
Qed.

Definition sels_json (sels : list selection) : list json := map (fun x => JObj (selection_fields x)) sels.

Lemma selset_fields_eq p sels :
  selset_fields (SelSet p sels) = [kind n_SelectionSet; (k_selections, JArr (sels_json sels))].
Proof. reflexivity. Qed.

Lemma rd_selection_fields :
  forall x, wf_sel x = true -> rd_selection (JObj (selection_fields x)) = Some (erase_sel x).
Proof.
  apply (sel_ind'
           (fun x => wf_sel x = true -> rd_selection (JObj (selection_fields x)) = Some (erase_sel x))
           (fun ss => forallb wf_sel (selset_sels ss) = true ->
                      arr_of rd_selection (JArr (sels_json (selset_sels ss))) = Some (map erase_sel (selset_sels ss)))).
  - (* field *)
    intros al n ar d sel IH Hwf.
    assert (Ha := arr_arguments ar). assert (Hd := arr_directives d).
    unfold arguments_json in Ha. unfold directives_json in Hd.
    destruct sel as [[p sels]|].
    + cbn [wf_sel] in Hwf. cbn [optQ selset_sels] in IH. specialize (IH Hwf).
      destruct sels as [|x r].
      * destruct al as [a|];
          [apply (rd_field_obj (iname n) (Some (iname a)) _ _ _ _ None [] Ha Hd eq_refl)
          |apply (rd_field_obj (iname n) None _ _ _ _ None [] Ha Hd eq_refl)].
      * assert (Hs := rd_selset_obj _ _ IH).
        destruct al as [a|];
          [apply (rd_field_obj (iname n) (Some (iname a)) _ _ _ _ (Some _) _ Ha Hd Hs)
          |apply (rd_field_obj (iname n) None _ _ _ _ (Some _) _ Ha Hd Hs)].
    + destruct al as [a|];
        [apply (rd_field_obj (iname n) (Some (iname a)) _ _ _ _ None [] Ha Hd eq_refl)
        |apply (rd_field_obj (iname n) None _ _ _ _ None [] Ha Hd eq_refl)].
  - (* spread *)
    intros p n d _. assert (Hd := arr_directives d). unfold directives_json in Hd.
    apply (rd_spread_obj (iname n) _ _ Hd).
  - (* inline fragment *)
    intros p c d [p' sels] IH Hwf.
    assert (Hd := arr_directives d). unfold directives_json in Hd.
    cbn [wf_sel] in Hwf. destruct sels as [|x r]; [discriminate|].
    cbn [selset_sels] in IH. specialize (IH Hwf). assert (Hs := rd_selset_obj _ _ IH).
    destruct c as [c|];
      [apply (rd_inline_obj (Some (iname c)) _ _ _ _ Hd Hs)|apply (rd_inline_obj None _ _ _ _ Hd Hs)].
  - (* selection set *)
    intros p sels IH Hwf. cbn [selset_sels] in *.
    apply (arr_of_map rd_selection _ erase_sel). apply (forallb_Forall wf_sel); assumption.
Qed.

Lemma rd_selset_fields ss :
  wf_selset ss = true -> rd_selset (JObj (selset_fields ss)) = Some (erase_selset ss).
Proof.
  destruct ss as [p sels]. unfold wf_selset, erase_selset. cbn [selset_sels]. intros H.
  rewrite selset_fields_eq. apply rd_selset_obj.
  apply (arr_of_map rd_selection _ erase_sel).
  destruct sels as [|x r]; [discriminate|].
  apply (forallb_Forall wf_sel); [|exact H]. apply Forall_all. intros y. apply rd_selection_fields.
Qed.

(** * Variable definitions, definitions, documents *)

Definition default_part (d : option fields) : fields :=
  match d with Some x => [(k_defaultValue, JObj x)] | None => [] end.

Lemma rd_vardef_obj n (tf : fields) t dv rdv ld rd :
  rd_type (JObj tf) = Some t ->
  match dv with Some x => rd_value (JObj x) = Some rdv /\ True | None => True end ->
  arr_of rd_directive (JArr ld) = Some rd ->
  rd_vardef (JObj ([kind n_VariableDefinition; (k_variable, JObj (variable_fields n)); (k_type, JObj tf)]
                   ++ default_part dv ++ [(k_directives, JArr ld)]))
  = Some (mkAVar n t (match dv with Some _ => Some rdv | None => None end) rd).
Proof.
  intros Ht Hv Hd. unfold arr_of in Hd.
  destruct dv as [x|]; cbn [default_part app]; cbn -[rd_type rd_value]; unfold opt_arr, opt; cbn -[rd_type rd_value].
  - destruct Hv as [Hv _]. rewrite Ht, Hv, Hd. reflexivity.
  - rewrite Ht, Hd. reflexivity.
Qed.

Lemma rd_vardef_fields v : rd_vardef (JObj (vardef_fields v)) = Some (erase_vardef v).
Proof.
  unfold vardef_fields, erase_vardef.
  assert (Hd := arr_directives (vd_dirs v)). unfold directives_json in Hd.
  destruct (vd_default v) as [x|].
  - apply (rd_vardef_obj (vd_name v) _ _ (Some (value_fields x)) (erase_value x) _ _ (rd_type_fields _)
             (conj (rd_value_fields x) I) Hd).
  - apply (rd_vardef_obj (vd_name v) _ _ None ANull _ _ (rd_type_fields _) I Hd).
Qed.

Definition opname_part (n : option str) : fields := match n with Some x => [(k_name, jname x)] | None => [] end.

Lemma rd_opdef_obj t n lv rv ld rd s rsel :
  arr_of rd_vardef (JArr lv) = Some rv ->
  arr_of rd_directive (JArr ld) = Some rd ->
  rd_selset (JObj s) = Some rsel ->
  rd_definition (JObj ([kind n_OperationDefinition; (k_operation, JStr (optype_str t))] ++ opname_part n
                       ++ [(k_variableDefinitions, JArr lv); (k_directives, JArr ld)] ++ [(k_selectionSet, JObj s)]))
  = Some (AOp t n rv rd rsel).
Proof.
  intros Hv Hd Hs. unfold arr_of in Hv, Hd.
  destruct n as [n|], t; cbn [opname_part app optype_str];
    cbn -[rd_selset]; unfold opt_arr, opt; cbn -[rd_selset]; rewrite Hv, Hd, Hs; reflexivity.
Qed.

Lemma rd_fragdef_obj n c ld rd s rsel :
  arr_of rd_directive (JArr ld) = Some rd ->
  rd_selset (JObj s) = Some rsel ->
  rd_definition (JObj ([kind n_FragmentDefinition; (k_name, jname n);
                        (k_typeCondition, JObj [kind n_NamedType; (k_name, jname c)]); (k_directives, JArr ld)]
                       ++ [(k_selectionSet, JObj s)]))
  = Some (AFrag n c rd rsel).
Proof.
  intros Hd Hs. unfold arr_of in Hd.
  cbn -[rd_selset]; unfold opt_arr, opt; cbn -[rd_selset]; rewrite Hd, Hs; reflexivity.
Qed.

Lemma write_selection_set_wf ss :
  wf_selset ss = true -> write_selection_set ss = [(k_selectionSet, JObj (selset_fields ss))].
Proof. destruct ss as [p [|x r]]; [discriminate|reflexivity]. Qed.

Lemma arr_vardefs l : arr_of rd_vardef (JArr (map (fun v => JObj (vardef_fields v)) l)) = Some (map erase_vardef l).
Proof. apply (arr_of_map rd_vardef _ erase_vardef). apply Forall_all. intros v. apply rd_vardef_fields. Qed.

Lemma rd_definition_fields d :
  wf_def d = true -> option_map Some (rd_definition (JObj (execdef_fields d))) = Some (erase_def d).
Proof.
  destruct d as [o|f|i]; cbn [wf_def execdef_fields erase_def]; intros Hwf; [| |discriminate].
  - unfold opdef_fields, erase_op, directives_json. rewrite (write_selection_set_wf _ Hwf).
    assert (Hd := arr_directives (op_dirs o)). unfold directives_json in Hd.
    assert (Hs := rd_selset_fields _ Hwf).
    destruct (op_name o) as [n|].
    + exact (f_equal (option_map Some) (rd_opdef_obj (op_type o) (Some (iname n)) _ _ _ _ _ _ (arr_vardefs _) Hd Hs)).
    + exact (f_equal (option_map Some) (rd_opdef_obj (op_type o) None _ _ _ _ _ _ (arr_vardefs _) Hd Hs)).
  - unfold fragdef_fields, erase_frag, type_condition, directives_json. cbn [type_fields].
    rewrite (write_selection_set_wf _ Hwf).
    assert (Hd := arr_directives (fr_dirs f)). unfold directives_json in Hd.
    assert (Hs := rd_selset_fields _ Hwf).
    exact (f_equal (option_map Some) (rd_fragdef_obj (iname (fr_name f)) (iname (fr_cond f)) _ _ _ _ Hd Hs)).
Qed.

(** the whole document: every definition reads back as its erasure *)
Theorem to_json_roundtrip ds :
  forallb wf_def ds = true ->
  toModel (JObj (document_fields ds)) = Some (erase_defs ds).
Proof.
  intros H. unfold document_fields.
  change (toModel (JObj [kind n_Document; (k_definitions, JArr (map (fun d => JObj (execdef_fields d)) ds))]))
    with (arr_of rd_definition (JArr (map (fun d => JObj (execdef_fields d)) ds))).
  unfold arr_of. induction ds as [|d r IH]; [reflexivity|].
  cbn [forallb] in H. apply andb_prop in H. destruct H as [Hd Hr].
  cbn [map all_some]. apply rd_definition_fields in Hd.
  destruct (rd_definition (JObj (execdef_fields d))) as [a|]; [|discriminate].
  rewrite (IH Hr). cbn [option_map] in Hd. cbn [erase_defs].
  destruct (erase_def d) as [a'|]; [|discriminate]. congruence.
Qed.

(** one definition *)
Theorem to_json_roundtrip_def d :
  wf_def d = true -> rd_definition (JObj (execdef_fields d)) = erase_def d.
Proof.
  intros H. apply rd_definition_fields in H. destruct (rd_definition _); cbn in H; congruence.
Qed.
