(** C12 — proofs, part 4: the JSON reader of the specification side inverts the model of json-writer
    ([jparse (ser j) = Some j] for every tree without number lexemes, which is every tree the printer builds). *)
From V Require Import Base.Util Gql.Ast C12.Model C12.Spec C12.Proofs1.

Local Open Scope N_scope.

Section JsonInd.
  Variable P : json -> Prop.
  Hypothesis HNull : P JNull.
  Hypothesis HBool : forall b, P (JBool b).
  Hypothesis HNum : forall l, P (JNum l).
  Hypothesis HStr : forall x, P (JStr x).
  Hypothesis HArr : forall l, Forall P l -> P (JArr l).
  Hypothesis HObj : forall l, Forall (fun kv => P (snd kv)) l -> P (JObj l).
  Fixpoint json_ind' (j : json) : P j :=
    match j with
    | JNull => HNull
    | JBool b => HBool b
    | JNum l => HNum l
    | JStr x => HStr x
    | JArr l => HArr l ((fix go (l : list json) : Forall P l :=
                           match l with [] => Forall_nil _ | x :: r => Forall_cons _ (json_ind' x) (go r) end) l)
    | JObj l => HObj l ((fix go (l : list (str * json)) : Forall (fun kv => P (snd kv)) l :=
                           match l with [] => Forall_nil _ | kv :: r => Forall_cons _ (json_ind' (snd kv)) (go r) end) l)
    end.
End JsonInd.

Fixpoint no_num (j : json) : bool :=
  match j with
  | JNum _ => false
  | JArr l => forallb no_num l
  | JObj l => forallb (fun kv => no_num (snd kv)) l
  | _ => true
  end.

(** * Strings *)

Lemma hex_val_digit n : n < 16 -> hex_val (hex_digit n) = Some n.
Proof.
  intros H. unfold hex_digit, hex_val.
  destruct (N.ltb_spec n 10) as [H10|H10].
  - replace ((48 <=? 48 + n) && (48 + n <=? 57)) with true
      by (symmetry; apply andb_true_intro; split; apply N.leb_le; lia).
    f_equal. lia.
  - replace ((48 <=? 55 + n) && (55 + n <=? 57)) with false
      by (symmetry; apply andb_false_intro2; apply N.leb_gt; lia).
    replace ((65 <=? 55 + n) && (55 + n <=? 70)) with true
      by (symmetry; apply andb_true_intro; split; apply N.leb_le; lia).
    f_equal. lia.
Qed.

Lemma hex4_low c r : c < 32 -> hex4 (48 :: 48 :: hex_digit (c / 16) :: hex_digit (c mod 16) :: r) = Some (c, r).
Proof.
  intros H. unfold hex4.
  change (hex_val 48) with (Some 0).
  assert (Hd : c / 16 < 16) by (apply N.div_lt_upper_bound; lia).
  assert (Hm : c mod 16 < 16) by (apply N.mod_lt; lia).
  rewrite (hex_val_digit _ Hd), (hex_val_digit _ Hm). f_equal. f_equal.
  rewrite (N.div_mod c 16) at 3 by lia. lia.
Qed.

Lemma esc_len x : (length x <= length (esc x))%nat.
Proof.
  induction x as [|c x IH]; [apply le_n|]. unfold esc in *. cbn [flat_map length]. rewrite app_length.
  assert (1 <= length (esc_char c))%nat; [|lia].
  unfold esc_char. repeat match goal with |- context [if ?b then _ else _] => destruct b end; cbn; lia.
Qed.

Lemma esc_cons c x : esc (c :: x) = esc_char c ++ esc x.
Proof. reflexivity. Qed.

Lemma parse_chars_esc : forall x fuel rest,
  (length x < fuel)%nat -> parse_chars fuel (esc x ++ 34 :: rest) = Some (x, rest).
Proof.
  induction x as [|c x IH]; intros fuel rest Hf; (destruct fuel as [|fu]; [inversion Hf|]).
  - reflexivity.
  - cbn [length] in Hf. assert (Hf' : (length x < fu)%nat) by lia. specialize (IH fu rest Hf').
    rewrite esc_cons. unfold esc_char.
    destruct (N.eqb_spec c 34) as [->|N34]; [cbn [app]; cbn [parse_chars]; cbn; rewrite IH; reflexivity|].
    destruct (N.eqb_spec c 92) as [->|N92]; [cbn [app]; cbn [parse_chars]; cbn; rewrite IH; reflexivity|].
    destruct (N.eqb_spec c 47) as [->|N47]; [cbn [app]; cbn [parse_chars]; cbn; rewrite IH; reflexivity|].
    destruct (N.eqb_spec c 8) as [->|N8]; [cbn [app]; cbn [parse_chars]; cbn; rewrite IH; reflexivity|].
    destruct (N.eqb_spec c 12) as [->|N12]; [cbn [app]; cbn [parse_chars]; cbn; rewrite IH; reflexivity|].
    destruct (N.eqb_spec c 10) as [->|N10]; [cbn [app]; cbn [parse_chars]; cbn; rewrite IH; reflexivity|].
    destruct (N.eqb_spec c 13) as [->|N13]; [cbn [app]; cbn [parse_chars]; cbn; rewrite IH; reflexivity|].
    destruct (N.eqb_spec c 9) as [->|N9]; [cbn [app]; cbn [parse_chars]; cbn; rewrite IH; reflexivity|].
    destruct (N.ltb_spec c 32) as [L32|G32].
    + cbn [app]. cbn [parse_chars].
      change (92 =? 34) with false. change (92 =? 92) with true. cbv iota.
      change (117 =? 34) with false. change (117 =? 92) with false. change (117 =? 47) with false.
      change (117 =? 98) with false. change (117 =? 102) with false. change (117 =? 110) with false.
      change (117 =? 114) with false. change (117 =? 116) with false. change (117 =? 117) with true. cbv iota.
      rewrite (hex4_low c _ L32).
      replace ((55296 <=? c) && (c <=? 56319)) with false
        by (symmetry; apply andb_false_intro1; apply N.leb_gt; lia).
      replace ((56320 <=? c) && (c <=? 57343)) with false
        by (symmetry; apply andb_false_intro1; apply N.leb_gt; lia).
      rewrite IH. reflexivity.
    + cbn [app]. cbn [parse_chars].
      destruct (N.eqb_spec c 34); [contradiction|]. destruct (N.eqb_spec c 92); [contradiction|].
      destruct (N.ltb_spec c 32); [lia|]. rewrite IH. reflexivity.
Qed.

Lemma parse_string x len rest :
  (length x < len)%nat -> parse_chars len (tl (ser_string x) ++ rest) = Some (x, rest).
Proof.
  intros H. unfold ser_string. cbn [tl]. rewrite <- app_assoc. cbn [app]. now apply parse_chars_esc.
Qed.

(** * Values *)

Fixpoint ser_tail (l : list json) : str :=
  match l with [] => [] | x :: r => 44 :: ser x ++ ser_tail r end.
Definition ser_list (l : list json) : str :=
  match l with [] => [] | x :: r => ser x ++ ser_tail r end.

Lemma ser_arr l : ser (JArr l) = 91 :: ser_list l ++ [93].
Proof.
  cbn [ser]. f_equal. f_equal. destruct l as [|x r]; [reflexivity|]. cbn [ser_list app]. f_equal.
  induction r as [|y r IH]; [reflexivity|]. cbn [ser_tail app]. now rewrite IH.
Qed.

Definition ser_member (kv : str * json) : str := ser_string (fst kv) ++ [58] ++ ser (snd kv).
Fixpoint ser_mtail (l : list (str * json)) : str :=
  match l with [] => [] | kv :: r => 44 :: ser_member kv ++ ser_mtail r end.
Definition ser_members (l : list (str * json)) : str :=
  match l with [] => [] | kv :: r => ser_member kv ++ ser_mtail r end.

Lemma ser_obj l : ser (JObj l) = 123 :: ser_members l ++ [125].
Proof.
  cbn [ser]. f_equal. f_equal. destruct l as [|[k x] r]; [reflexivity|]. cbn [ser_members app]. unfold ser_member at 1.
  cbn [fst snd app]. rewrite <- !app_assoc. f_equal. cbn [app]. f_equal. f_equal.
  induction r as [|[k' y] r IH]; [reflexivity|]. cbn [ser_mtail app]. unfold ser_member at 1. cbn [fst snd].
  rewrite <- !app_assoc. cbn [app]. now rewrite IH.
Qed.

(** the first character of a serialized value: not white space, not a closing bracket *)
Definition good_head (t : str) : Prop :=
  exists c r, t = c :: r /\ is_ws c = false /\ (c =? 93) = false /\ (c =? 125) = false.

Lemma ser_head j : no_num j = true -> good_head (ser j).
Proof.
  destruct j as [|[|]|l|x|l|l]; intros H; try discriminate; unfold good_head.
  - exists 110, [117; 108; 108]. repeat split.
  - exists 116, [114; 117; 101]. repeat split.
  - exists 102, [97; 108; 115; 101]. repeat split.
  - eexists 34, _. unfold ser, ser_string. repeat split.
  - rewrite ser_arr. eexists 91, _. repeat split.
  - rewrite ser_obj. eexists 123, _. repeat split.
Qed.

Lemma skip_ws_good t rest : good_head t -> skip_ws (t ++ rest) = t ++ rest.
Proof. intros [c [r [-> [H _]]]]. cbn [app skip_ws]. now rewrite H. Qed.

(** sizes: what [len] must bound *)
Fixpoint jsize (j : json) : nat :=
  match j with
  | JStr x => S (length x)
  | JArr l => S (length l + fold_right (fun x a => jsize x + a) 0 l)%nat
  | JObj l => S (length l + fold_right (fun kv a => S (length (fst kv)) + jsize (snd kv) + a) 0 l)%nat
  | _ => 1
  end.
Fixpoint jdepth (j : json) : nat :=
  match j with
  | JArr l => S (fold_right (fun x a => Nat.max (jdepth x) a) 0%nat l)
  | JObj l => S (fold_right (fun kv a => Nat.max (jdepth (snd kv)) a) 0%nat l)
  | _ => 1
  end.

Definition parses (len fu : nat) (x : json) : Prop :=
  forall rest, parse_value len fu (ser x ++ rest) = Some (x, rest).

Lemma parse_elems_ok len fu : forall l n rest,
  l <> [] -> Forall (parses len fu) l -> forallb no_num l = true -> (length l <= n)%nat ->
  parse_elems (parse_value len fu) n (ser_list l ++ 93 :: rest) = Some (l, rest).
Proof.
  induction l as [|x r IH]; intros n rest Hne Hall Hnn Hn; [contradiction|].
  destruct n as [|m]; [cbn in Hn; lia|]. inversion Hall as [|? ? Hx Hr]; subst.
  cbn [forallb] in Hnn. apply andb_prop in Hnn. destruct Hnn as [Hnx Hnr].
  cbn [ser_list parse_elems]. rewrite <- app_assoc. rewrite Hx.
  destruct r as [|y r'].
  - cbn [ser_tail app skip_ws]. reflexivity.
  - cbn [ser_tail app skip_ws]. change (is_ws 44) with false. cbv iota.
    change (44 =? 44) with true. cbv iota.
    assert (E : ser y ++ ser_tail r' = ser_list (y :: r')) by reflexivity.
    rewrite <- app_assoc. rewrite (app_assoc (ser y)), E.
    rewrite (IH m rest); [reflexivity|discriminate|assumption|assumption|cbn [length] in *; lia].
Qed.

Lemma parse_members_ok len fu : forall l n rest,
  l <> [] -> Forall (fun kv => parses len fu (snd kv)) l -> forallb (fun kv => no_num (snd kv)) l = true ->
  Forall (fun kv => (length (fst kv) < len)%nat) l -> (length l <= n)%nat ->
  parse_members (parse_value len fu) len n (ser_members l ++ 125 :: rest) = Some (l, rest).
Proof.
  induction l as [|[k x] r IH]; intros n rest Hne Hall Hnn Hk Hn; [contradiction|].
  destruct n as [|m]; [cbn in Hn; lia|]. inversion Hall as [|? ? Hx Hr]; subst. inversion Hk as [|? ? Hkx Hkr]; subst.
  cbn [forallb] in Hnn. apply andb_prop in Hnn. destruct Hnn as [Hnx Hnr]. cbn [fst snd] in *.
  cbn [ser_members parse_members]. unfold ser_member at 1. cbn [fst snd].
  unfold ser_string at 1. cbn [app skip_ws]. change (is_ws 34) with false. cbv iota.
  change (34 =? 34) with true. cbv iota.
  rewrite <- !app_assoc. cbn [app]. rewrite (parse_chars_esc k len _ Hkx).
  cbn [skip_ws]. change (is_ws 58) with false. cbv iota. change (58 =? 58) with true. cbv iota.
  rewrite Hx.
  destruct r as [|[k' y] r'].
  - cbn [ser_mtail app skip_ws]. reflexivity.
  - cbn [ser_mtail app skip_ws]. change (is_ws 44) with false. cbv iota. change (44 =? 44) with true. cbv iota.
    assert (E : ser_member (k', y) ++ ser_mtail r' = ser_members ((k', y) :: r')) by reflexivity.
    rewrite E.
    rewrite (IH m rest); [reflexivity|discriminate|assumption|assumption|assumption|cbn [length] in *; lia].
Qed.

Lemma fold_max_le {A} (f : A -> nat) l x : In x l -> (f x <= fold_right (fun y a => Nat.max (f y) a) 0%nat l)%nat.
Proof. induction l as [|y l IH]; [intros []|]. cbn [fold_right]. intros [->|H]; [lia|]. specialize (IH H). lia. Qed.

Lemma fold_sum_le {A} (f : A -> nat) l x : In x l -> (f x <= fold_right (fun y a => f y + a) 0 l)%nat.
Proof. induction l as [|y l IH]; [intros []|]. cbn [fold_right]. intros [->|H]; [lia|]. specialize (IH H). lia. Qed.

Theorem parse_value_ser : forall j len fuel rest,
  no_num j = true -> (jdepth j <= fuel)%nat -> (jsize j <= len)%nat ->
  parse_value len fuel (ser j ++ rest) = Some (j, rest).
Proof.
  induction j as [|b|l|x|l IH|l IH] using json_ind'; intros len fuel rest Hnn Hd Hs;
    (destruct fuel as [|fu]; [cbn in Hd; lia|]); try discriminate.
  - reflexivity.
  - destruct b; reflexivity.
  - cbn [jsize] in Hs. cbn [parse_value ser]. unfold ser_string at 1. cbn [app skip_ws].
    change (is_ws 34) with false. cbv iota. change (34 =? 34) with true. cbv iota.
    rewrite <- app_assoc. cbn [app]. rewrite parse_chars_esc by lia. reflexivity.
  - (* array *)
    cbn [no_num] in Hnn. cbn [jdepth] in Hd. cbn [jsize] in Hs.
    rewrite ser_arr. cbn [app parse_value skip_ws]. change (is_ws 91) with false. cbv iota.
    change (91 =? 34) with false. change (91 =? 91) with true. cbv iota.
    destruct l as [|x r]; [reflexivity|].
    assert (Hh : good_head (ser_list (x :: r))).
    { cbn [forallb] in Hnn. apply andb_prop in Hnn. destruct (ser_head x (proj1 Hnn)) as [c [t [E [H1 [H2 H3]]]]].
      cbn [ser_list]. rewrite E. eexists c, _. cbn [app]. repeat split; assumption. }
    rewrite <- app_assoc. rewrite (skip_ws_good _ _ Hh).
    destruct Hh as [c [t [E [_ [H93 _]]]]]. rewrite E at 1. cbn [app starts_with]. rewrite H93.
    rewrite parse_elems_ok; [reflexivity|discriminate| |assumption|cbn [length] in *; lia].
    apply Forall_forall. intros y Hy rest'. rewrite Forall_forall in IH. apply (IH y Hy).
    + rewrite forallb_forall in Hnn. now apply Hnn.
    + assert (H := fold_max_le jdepth (x :: r) y Hy). lia.
    + assert (H := fold_sum_le jsize (x :: r) y Hy). lia.
  - (* object *)
    cbn [no_num] in Hnn. cbn [jdepth] in Hd. cbn [jsize] in Hs.
    rewrite ser_obj. cbn [app parse_value skip_ws]. change (is_ws 123) with false. cbv iota.
    change (123 =? 34) with false. change (123 =? 91) with false. change (123 =? 123) with true. cbv iota.
    destruct l as [|[k x] r]; [reflexivity|].
    assert (Hh : good_head (ser_members ((k, x) :: r))).
    { cbn [ser_members]. unfold ser_member, ser_string. cbn [fst app]. eexists 34, _. repeat split. }
    rewrite <- app_assoc. rewrite (skip_ws_good _ _ Hh).
    destruct Hh as [c [t [E [_ [_ H125]]]]]. rewrite E at 1. cbn [app starts_with]. rewrite H125.
    rewrite parse_members_ok; [reflexivity|discriminate| |assumption| |].
    3: (unfold str in *; cbn [length] in *; lia).
    + apply Forall_forall. intros kv Hkv rest'. rewrite Forall_forall in IH. apply (IH kv Hkv).
      * rewrite forallb_forall in Hnn. now apply Hnn.
      * assert (H := fold_max_le (fun kv => jdepth (snd kv)) _ kv Hkv). cbn beta in H. unfold str in *. lia.
      * assert (H := fold_sum_le (fun kv => S (length (fst kv)) + jsize (snd kv))%nat _ kv Hkv). cbn beta in H.
        unfold str in *. lia.
    + apply Forall_forall. intros kv Hkv.
      assert (H := fold_sum_le (fun kv => S (length (fst kv)) + jsize (snd kv))%nat _ kv Hkv). cbn beta in H.
      unfold str in *. lia.
Qed.

(** * Whole texts *)

Lemma jsize_le_ser j : no_num j = true -> (jsize j <= length (ser j))%nat.
Proof.
  induction j as [|b|l|x|l IH|l IH] using json_ind'; intros Hnn; try discriminate.
  - cbn. lia.
  - destruct b; cbn; lia.
  - cbn [jsize ser]. unfold ser_string. cbn [length]. rewrite app_length. cbn [length].
    assert (H := esc_len x). lia.
  - rewrite ser_arr. cbn [jsize length]. rewrite app_length. cbn [length]. cbn [no_num] in Hnn.
    assert (Ht : forall r, Forall (fun x => no_num x = true -> (jsize x <= length (ser x))%nat) r ->
                           forallb no_num r = true ->
                           (length r + fold_right (fun x a => jsize x + a) 0 r <= length (ser_tail r))%nat).
    { induction r as [|y r IHr]; intros Hall Hn; [cbn; lia|]. inversion Hall as [|? ? Hy Hr]; subst.
      cbn [forallb] in Hn. apply andb_prop in Hn. destruct Hn as [Hn1 Hn2].
      cbn [length fold_right ser_tail]. rewrite app_length. specialize (Hy Hn1). specialize (IHr Hr Hn2). lia. }
    destruct l as [|x r]; [cbn; lia|]. inversion IH as [|? ? Hx Hr]; subst.
    cbn [forallb] in Hnn. apply andb_prop in Hnn. destruct Hnn as [Hn1 Hn2].
    cbn [length fold_right ser_list]. rewrite app_length. specialize (Hx Hn1). specialize (Ht r Hr Hn2). lia.
  - rewrite ser_obj. cbn [jsize length]. rewrite app_length. cbn [length]. cbn [no_num] in Hnn.
    assert (Hm : forall kv, (no_num (snd kv) = true -> (jsize (snd kv) <= length (ser (snd kv)))%nat) ->
                            no_num (snd kv) = true ->
                            (S (length (fst kv)) + jsize (snd kv) < length (ser_member kv))%nat).
    { intros [k v] H1 H2. cbn [fst snd] in *. unfold ser_member, ser_string. cbn [fst snd].
      rewrite !app_length. cbn [length]. rewrite app_length. cbn [length]. specialize (H1 H2).
      assert (H := esc_len k). unfold str in *. lia. }
    assert (Ht : forall r, Forall (fun kv => no_num (snd kv) = true -> (jsize (snd kv) <= length (ser (snd kv)))%nat) r ->
                           forallb (fun kv => no_num (snd kv)) r = true ->
                           (length r + fold_right (fun kv a => S (length (fst kv)) + jsize (snd kv) + a) 0 r
                            <= length (ser_mtail r))%nat).
    { induction r as [|y r IHr]; intros Hall Hn; [cbn; lia|]. inversion Hall as [|? ? Hy Hr]; subst.
      cbn [forallb] in Hn. apply andb_prop in Hn. destruct Hn as [Hn1 Hn2].
      cbn [length fold_right ser_mtail]. rewrite app_length. specialize (Hm y Hy Hn1). specialize (IHr Hr Hn2). unfold str in *. lia. }
    destruct l as [|x r]; [cbn; lia|]. inversion IH as [|? ? Hx Hr]; subst.
    cbn [forallb] in Hnn. apply andb_prop in Hnn. destruct Hnn as [Hn1 Hn2].
    cbn [length fold_right ser_members]. rewrite app_length. specialize (Hm x Hx Hn1). specialize (Ht r Hr Hn2). unfold str in *. lia.
Qed.

Lemma jdepth_le_jsize j : (jdepth j <= jsize j)%nat.
Proof.
  induction j as [|b|l|x|l IH|l IH] using json_ind'; cbn [jdepth jsize]; try lia.
  - assert (fold_right (fun x a => Nat.max (jdepth x) a) 0 l <= fold_right (fun x a => jsize x + a) 0 l)%nat; [|lia].
    induction IH as [|x r Hx _ IHr]; cbn [fold_right]; lia.
  - assert (fold_right (fun kv a => Nat.max (jdepth (snd kv)) a) 0 l
            <= fold_right (fun kv a => S (length (fst kv)) + jsize (snd kv) + a) 0 l)%nat; [|unfold str in *; lia].
    induction IH as [|x r Hx _ IHr]; cbn [fold_right]; unfold str in *; lia.
Qed.

(** the specification's JSON reader inverts the model of json-writer *)
Theorem parse_ser j : no_num j = true -> jparse (ser j) = Some j.
Proof.
  intros Hnn. unfold jparse.
  assert (Hs := jsize_le_ser j Hnn). assert (Hd := jdepth_le_jsize j).
  rewrite <- (app_nil_r (ser j)) at 3.
  rewrite parse_value_ser; [reflexivity|assumption|lia|lia].
Qed.

(** * The printer builds no number lexemes *)

Lemma nn_cons k v r : no_num (JObj ((k, v) :: r)) = no_num v && no_num (JObj r).
Proof. reflexivity. Qed.
Lemma nn_nil : no_num (JObj []) = true.
Proof. reflexivity. Qed.
Lemma nn_app a b : no_num (JObj (a ++ b)) = no_num (JObj a) && no_num (JObj b).
Proof.
  induction a as [|[k v] a IH]; [reflexivity|]. cbn [app]. rewrite !nn_cons, IH. now rewrite andb_assoc.
Qed.
Lemma nn_arr_map {A} (f : A -> json) l : (forall x, no_num (f x) = true) -> no_num (JArr (map f l)) = true.
Proof. intros H. cbn [no_num]. induction l as [|x l IH]; [reflexivity|]. cbn [map forallb]. now rewrite H, IH. Qed.
Lemma nn_arr_Forall {A} (f : A -> json) l : Forall (fun x => no_num (f x) = true) l -> no_num (JArr (map f l)) = true.
Proof. intros H. cbn [no_num]. induction H as [|x l Hx _ IH]; [reflexivity|]. cbn [map forallb]. now rewrite Hx, IH. Qed.
Lemma nn_jname n : no_num (jname n) = true.
Proof. reflexivity. Qed.

Ltac nn := unfold kind; rewrite ?nn_app, ?nn_cons, ?nn_nil, ?nn_jname; cbn [no_num andb].

Lemma nn_type t : no_num (JObj (type_fields t)) = true.
Proof.
  induction t as [n|t IH|p t IH]; [reflexivity| |]; cbn [type_fields]; unfold kind; rewrite !nn_cons, IH; reflexivity.
Qed.

Lemma nn_value v : no_num (JObj (value_fields v)) = true.
Proof.
  induction v as [n p|p l|p l|p x|p b|p|p x|p vs IH|p fs IH] using value_ind'; try reflexivity.
  - cbn [value_fields]. unfold kind. rewrite !nn_cons, (nn_arr_Forall _ vs IH). reflexivity.
  - cbn [value_fields]. unfold kind. rewrite !nn_cons, nn_arr_Forall; [reflexivity|].
    eapply Forall_impl; [|exact IH]. intros [k x] H. cbn [snd] in H.
    unfold kind. rewrite !nn_cons, H. reflexivity.
Qed.

Lemma nn_arguments a : no_num (arguments_json a) = true.
Proof.
  unfold arguments_json. apply nn_arr_map. intros [k x].
  unfold argument_fields, kind. cbn [fst snd]. rewrite !nn_cons, nn_value. reflexivity.
Qed.

Lemma nn_directives ds : no_num (directives_json ds) = true.
Proof.
  unfold directives_json. apply nn_arr_map. intros d.
  unfold directive_fields, kind. rewrite !nn_cons, nn_arguments. reflexivity.
Qed.

Lemma nn_selection : forall x, no_num (JObj (selection_fields x)) = true.
Proof.
  apply (sel_ind' (fun x => no_num (JObj (selection_fields x)) = true)
                  (fun ss => no_num (JObj (selset_fields ss)) = true)).
  - intros al n ar d sel IH. cbn [selection_fields]. unfold kind.
    destruct al as [a|]; (destruct sel as [[p [|y r]]|]; cbn [app optQ] in *;
      rewrite ?nn_cons, ?nn_jname, ?nn_arguments, ?nn_directives, ?nn_nil, ?IH; reflexivity).
  - intros p n d. cbn [selection_fields]. unfold kind. rewrite !nn_cons, nn_directives. reflexivity.
  - intros p c d [p' sels] IH. cbn [selection_fields]. unfold kind, type_condition.
    destruct c as [c|]; (destruct sels as [|y r]; cbn [app] in *;
      rewrite ?nn_cons, ?nn_type, ?nn_directives, ?nn_nil, ?IH; reflexivity).
  - intros p sels IH. cbn [selset_fields]. unfold kind. rewrite !nn_cons, (nn_arr_Forall _ sels IH). reflexivity.
Qed.

Lemma nn_selset ss : no_num (JObj (selset_fields ss)) = true.
Proof.
  destruct ss as [p sels]. cbn [selset_fields]. unfold kind. rewrite !nn_cons, nn_arr_map; [reflexivity|apply nn_selection].
Qed.

Lemma nn_write_selection_set ss : no_num (JObj (write_selection_set ss)) = true.
Proof.
  destruct ss as [p [|x r]]; [reflexivity|]. cbn [write_selection_set]. rewrite nn_cons, nn_selset. reflexivity.
Qed.

Lemma nn_vardef v : no_num (JObj (vardef_fields v)) = true.
Proof.
  unfold vardef_fields, kind. destruct (vd_default v) as [x|]; cbn [app];
    rewrite ?nn_cons, ?nn_type, ?nn_value, ?nn_directives, ?nn_nil; reflexivity.
Qed.

Lemma nn_execdef d : no_num (JObj (execdef_fields d)) = true.
Proof.
  destruct d as [o|f|i]; [| |reflexivity]; cbn [execdef_fields].
  - unfold opdef_fields, kind. rewrite !nn_app, nn_write_selection_set.
    destruct (op_name o); rewrite ?nn_cons, ?nn_directives, ?(nn_arr_map _ _ nn_vardef), ?nn_nil; reflexivity.
  - unfold fragdef_fields, kind, type_condition. rewrite !nn_app, !nn_cons, nn_directives, nn_write_selection_set, nn_type.
    reflexivity.
Qed.

Theorem nn_document ds : no_num (JObj (document_fields ds)) = true.
Proof.
  unfold document_fields, kind. rewrite !nn_cons, (nn_arr_map _ _ nn_execdef). reflexivity.
Qed.

(** the text [print_to_json_string] produces for a list of definitions reads back, as JSON and then as a
    graphql-js document, to the erased definitions *)
Theorem text_roundtrip ds :
  forallb wf_def ds = true ->
  read_document (print_to_json_string (document_fields ds)) = Some (erase_defs ds).
Proof.
  intros H. unfold read_document, print_to_json_string.
  rewrite (parse_ser _ (nn_document ds)). cbn [obind]. now apply to_json_roundtrip.
Qed.
