(** C12 — proofs, part 5: the property on the emitted text (model of the printers composed with the
    specification's JSON reader and graphql-js reader). *)
From V Require Import Base.Util Gql.Ast C12.Model C12.Spec C12.Proofs1 C12.Proofs2 C12.Proofs3 C12.Proofs4.

Lemma runtime_text_of_defs defs d ds :
  runtime_defs defs d = Ok ds -> runtime_text defs d = Ok (print_to_json_string (document_fields ds)).
Proof. intros H. unfold runtime_text, runtime_json. rewrite H. reflexivity. Qed.

(** For a document whose definitions are well formed and whose spreads are all defined, the text embedded
    for operation [o] reads back as [o] followed by the definitions [fs] of the names [names]; [names] has
    no repetition and is exactly the set of names transitively spread from [o]. *)
Theorem operation_text_denotes defs o :
  In (DOp o) defs -> forallb wf_def defs = true -> spreads_defined_b defs = true ->
  exists t names fs,
    runtime_text defs (DOp o) = Ok t
    /\ read_document t = Some (erase_op o :: map erase_frag fs)
    /\ Forall2 (fun n f => get_frag defs n = Some f) names fs
    /\ NoDup names
    /\ forall n, In n names <-> reach (get_frag defs) (op_sel o) n.
Proof.
  intros Hin Hwf Hsp.
  destruct (operation_runtime_exact defs o) as [names [fs [Hrt [Hf2 [Hnd Hiff]]]]].
  { intros n Hr. eapply spreads_defined_reach; [eassumption|exact Hin|reflexivity|exact Hr]. }
  eexists; exists names, fs. split; [apply runtime_text_of_defs; exact Hrt|].
  split; [|split; [assumption|split; assumption]].
  rewrite text_roundtrip.
  - cbn [erase_defs erase_def]. now rewrite erase_defs_frags.
  - cbn [forallb]. rewrite (wf_of_lookup defs names fs Hwf Hf2), andb_true_r.
    rewrite forallb_forall in Hwf. apply (Hwf _ Hin).
Qed.

Theorem fragment_text_denotes defs f :
  In (DFrag f) defs -> forallb wf_def defs = true -> spreads_defined_b defs = true ->
  exists t names fs,
    runtime_text defs (DFrag f) = Ok t
    /\ read_document t = Some (erase_frag f :: map erase_frag fs)
    /\ Forall2 (fun n g => get_frag defs n = Some g) names fs
    /\ NoDup names
    /\ forall n, In n names <-> (reach (get_frag defs) (fr_sel f) n /\ n <> iname (fr_name f)).
Proof.
  intros Hin Hwf Hsp.
  destruct (fragment_runtime_exact defs f) as [names [fs [Hrt [Hf2 [Hnd Hiff]]]]].
  { intros n Hr _. eapply spreads_defined_reach; [eassumption|exact Hin|reflexivity|exact Hr]. }
  eexists; exists names, fs. split; [apply runtime_text_of_defs; exact Hrt|].
  split; [|split; [assumption|split; assumption]].
  rewrite text_roundtrip.
  - cbn [erase_defs erase_def]. now rewrite erase_defs_frags.
  - cbn [forallb]. rewrite (wf_of_lookup defs names fs Hwf Hf2), andb_true_r.
    rewrite forallb_forall in Hwf. apply (Hwf _ Hin).
Qed.

(** the module as a whole: under the same guards no definition makes the printer panic, and there is
    one text per definition *)
Theorem document_texts_total d :
  forallb wf_def (od_defs d) = true -> spreads_defined_b (od_defs d) = true ->
  exists ts, document_runtime_texts d = Ok ts /\ length ts = length (od_defs d).
Proof.
  intros Hwf Hsp. unfold document_runtime_texts.
  assert (H : forall todo, incl todo (od_defs d) ->
                           exists ts, runtime_texts_of (od_defs d) todo = Ok ts /\ length ts = length todo).
  { induction todo as [|x r IH]; intros Hi; [exists []; split; reflexivity|].
    destruct IH as [ts [Hts Hlen]]; [intros y Hy; apply Hi; now right|].
    assert (Hx : In x (od_defs d)) by (apply Hi; now left).
    destruct x as [o|f|i].
    - destruct (operation_text_denotes _ o Hx Hwf Hsp) as [t [_ [_ [Ht _]]]].
      exists (t :: ts). cbn [runtime_texts_of]. rewrite Ht, Hts. split; [reflexivity|cbn [length]; now rewrite Hlen].
    - destruct (fragment_text_denotes _ f Hx Hwf Hsp) as [t [_ [_ [Ht _]]]].
      exists (t :: ts). cbn [runtime_texts_of]. rewrite Ht, Hts. split; [reflexivity|cbn [length]; now rewrite Hlen].
    - rewrite forallb_forall in Hwf. specialize (Hwf _ Hx). discriminate. }
  apply H. intros y Hy. exact Hy.
Qed.

(** * Every check-accepted document gets a runtime document for every definition

    [check] (crates/checker) is not modelled here; it enters as an oracle.  What the theorem needs from it is
    validation rule 5.5.2.1 on the *whole* document — every fragment spread, also inside a fragment that no
    operation spreads, names a defined fragment ([spreads_defined_b]).  /repo c67e45e made the real checker
    enforce exactly that (fragments nothing spreads are checked on their own); the correspondence run tests
    the hypothesis on every document the real [check] accepts ([Corr.holds]: accepted implies
    [spreads_defined_b]) and keeps producing accepted documents extended by an offending unspread fragment,
    which must be rejected. *)
Section AcceptedDocuments.
  Variable check : list execdef -> bool.
  Hypothesis check_enforces_defined_spreads :
    forall defs, check defs = true -> spreads_defined_b defs = true.

  Theorem accepted_document_denotes d :
    check (od_defs d) = true -> forallb wf_def (od_defs d) = true ->
    (exists ts, document_runtime_texts d = Ok ts /\ length ts = length (od_defs d))
    /\ (forall o, In (DOp o) (od_defs d) ->
         exists t names fs,
           runtime_text (od_defs d) (DOp o) = Ok t
           /\ read_document t = Some (erase_op o :: map erase_frag fs)
           /\ Forall2 (fun n f => get_frag (od_defs d) n = Some f) names fs
           /\ NoDup names
           /\ forall n, In n names <-> reach (get_frag (od_defs d)) (op_sel o) n)
    /\ (forall f, In (DFrag f) (od_defs d) ->
         exists t names fs,
           runtime_text (od_defs d) (DFrag f) = Ok t
           /\ read_document t = Some (erase_frag f :: map erase_frag fs)
           /\ Forall2 (fun n g => get_frag (od_defs d) n = Some g) names fs
           /\ NoDup names
           /\ forall n, In n names <-> (reach (get_frag (od_defs d)) (fr_sel f) n /\ n <> iname (fr_name f))).
  Proof.
    intros Hc Hwf. apply check_enforces_defined_spreads in Hc.
    split; [now apply document_texts_total|].
    split; [intros o Hin; now apply operation_text_denotes|intros f Hin; now apply fragment_text_denotes].
  Qed.
End AcceptedDocuments.
