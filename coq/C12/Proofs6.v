(** C12 — proofs, part 6: the oracle of [accepted_document_denotes] discharged by C03's theorem about the
    modelled checker.  C03 and C12 use the same document type ([Gql.Ast.opdoc]); C03 proves that in a document
    its model of [check_operation_document] accepts, every fragment-spread site of every definition (spread or
    not) names a defined fragment.  Here: that implies [spreads_defined_b]. *)
From V Require Import Base.Util Gql.Ast C12.Model C12.Spec C12.Proofs1 C12.Proofs2 C12.Proofs3 C12.Proofs4 C12.Proofs5.
From V Require C03.Model C03.Spec C03.Properties.

(** every name spread in a selection has a spread site, whatever the parent type *)
Lemma spread_has_site S :
  forall x parent n, In n (spreads_sel x) ->
    exists p id, In (C03.Spec.StSpread p id) (C03.Spec.sites_sel S parent x) /\ iname id = n.
Proof.
  apply (sel_ind'
    (fun x => forall parent n, In n (spreads_sel x) ->
       exists p id, In (C03.Spec.StSpread p id) (C03.Spec.sites_sel S parent x) /\ iname id = n)
    (fun ss => forall parent n, In n (spreads_of ss) ->
       exists p id, In (C03.Spec.StSpread p id) (C03.Spec.sites_selset S parent ss) /\ iname id = n)).
  - intros al name ar d [[p sels]|] IH parent n Hn; cbn [spreads_sel] in Hn; [|contradiction].
    cbn [optQ] in IH. destruct (IH (C03.Spec.child_type S parent (iname name)) n Hn) as [q [id [Hin He]]].
    exists q, id. split; [|exact He]. cbn [C03.Spec.sites_sel]. right. right. exact Hin.
  - intros p name d parent n [<-|[]]. exists parent, name. split; [left; reflexivity|reflexivity].
  - intros p c d [p' sels] IH parent n Hn. cbn [spreads_sel] in Hn.
    destruct c as [c|].
    + destruct (IH (C03.Spec.sp_type S (iname c)) n Hn) as [q [id [Hin He]]].
      exists q, id. split; [|exact He]. cbn [C03.Spec.sites_sel]. right. right. exact Hin.
    + destruct (IH parent n Hn) as [q [id [Hin He]]].
      exists q, id. split; [|exact He]. cbn [C03.Spec.sites_sel]. right. exact Hin.
  - intros p sels IH parent n Hn. unfold spreads_of in Hn. cbn [selset_sels] in Hn.
    unfold C03.Spec.sites_selset. cbn [selset_sels].
    apply in_flat_map in Hn. destruct Hn as [x [Hx Hn]]. rewrite Forall_forall in IH.
    destruct (IH x Hx parent n Hn) as [q [id [Hin He]]]. exists q, id. split; [|exact He].
    apply in_flat_map. exists x. split; assumption.
Qed.

Lemma spread_has_site_set S ss parent n :
  In n (spreads_of ss) ->
  exists p id, In (C03.Spec.StSpread p id) (C03.Spec.sites_selset S parent ss) /\ iname id = n.
Proof.
  intros Hn. destruct ss as [p sels]. unfold spreads_of in Hn. cbn [selset_sels] in Hn.
  apply in_flat_map in Hn. destruct Hn as [x [Hx Hn]].
  destruct (spread_has_site S x parent n Hn) as [q [id [Hin He]]]. exists q, id. split; [|exact He].
  unfold C03.Spec.sites_selset. cbn [selset_sels]. apply in_flat_map. exists x. split; assumption.
Qed.

(** the sites of a definition are among the sites of its document *)
Lemma def_sites_in_all S D d ss parent0 :
  In d (od_defs D) -> def_selset d = Some ss ->
  parent0 = match d with
            | DOp o => C03.Spec.sp_root S (op_type o)
            | DFrag f => C03.Spec.sp_type S (iname (fr_cond f))
            | DImport _ => None
            end ->
  forall x, In x (C03.Spec.sites_selset S parent0 ss) -> In x (C03.Spec.all_sites S D).
Proof.
  intros Hd Hs -> x Hx. unfold C03.Spec.all_sites. apply in_or_app.
  destruct d as [o|f|i]; cbn [def_selset] in Hs; [| |discriminate]; injection Hs as <-.
  - left. apply in_flat_map. exists o. split.
    + unfold C03.Spec.doc_ops. apply in_flat_map. exists (DOp o). split; [exact Hd|now left].
    + apply in_or_app. left. unfold C03.Spec.op_sites. right. exact Hx.
  - right. apply in_flat_map. exists f. split.
    + unfold C03.Spec.doc_fragdefs. apply in_flat_map. exists (DFrag f). split; [exact Hd|now left].
    + unfold C03.Spec.frag_sites. right. exact Hx.
Qed.

(** C03's lookup (first definition of the name) and the printer's map (last one) are defined on the same names
    ([get_frag_defined], Proofs2.v) *)
Lemma sp_frag_get_frag D n f : C03.Spec.sp_frag D n = Some f -> get_frag (od_defs D) n <> None.
Proof.
  unfold C03.Spec.sp_frag. intros H. apply find_some in H. destruct H as [Hin He].
  destruct (str_eqb_spec (iname (fr_name f)) n) as [<-|]; [|discriminate].
  apply get_frag_defined. unfold C03.Spec.doc_fragdefs in Hin. apply in_flat_map in Hin.
  destruct Hin as [d [Hd Hf]]. destruct d as [o|g|i]; try contradiction.
  destruct Hf as [->|[]]. exact Hd.
Qed.

(** what C03 proves about accepted documents gives C12's guard *)
Theorem accepted_spreads_defined S D :
  C03.Spec.schema_wf S = true -> C03.Model.check_operation_document S D = [] ->
  spreads_defined_b (od_defs D) = true.
Proof.
  intros Hwf Hc.
  assert (H := C03.Properties.C03_accepted_fields_and_fragments_defined S D Hwf Hc).
  rewrite Forall_forall in H.
  unfold spreads_defined_b. apply forallb_forall. intros d Hd.
  destruct (def_selset d) as [ss|] eqn:Hs; [|reflexivity].
  apply forallb_forall. intros n Hn.
  destruct (spread_has_site_set S ss
              (match d with
               | DOp o => C03.Spec.sp_root S (op_type o)
               | DFrag f => C03.Spec.sp_type S (iname (fr_cond f))
               | DImport _ => None
               end) n Hn) as [q [id [Hin He]]].
  assert (Hall := def_sites_in_all S D d ss _ Hd Hs eq_refl _ Hin).
  specialize (H _ Hall). cbn beta iota in H. destruct H as [f [Hf _]]. rewrite He in Hf.
  apply sp_frag_get_frag in Hf. destruct (get_frag (od_defs D) n); [reflexivity|contradiction].
Qed.

(** The end statement, without oracle: for every well-formed schema [S] and document [D] that nitrogql's
    (modelled, C03) [check_operation_document] accepts, every definition gets a runtime document, and its text
    denotes the definition followed by exactly the fragments it transitively spreads, each once. *)
Theorem checked_document_denotes S D :
  C03.Spec.schema_wf S = true -> C03.Model.check_operation_document S D = [] ->
  forallb wf_def (od_defs D) = true ->
  (exists ts, document_runtime_texts D = Ok ts /\ length ts = length (od_defs D))
  /\ (forall o, In (DOp o) (od_defs D) ->
       exists t names fs,
         runtime_text (od_defs D) (DOp o) = Ok t
         /\ read_document t = Some (erase_op o :: map erase_frag fs)
         /\ Forall2 (fun n f => get_frag (od_defs D) n = Some f) names fs
         /\ NoDup names
         /\ forall n, In n names <-> reach (get_frag (od_defs D)) (op_sel o) n)
  /\ (forall f, In (DFrag f) (od_defs D) ->
       exists t names fs,
         runtime_text (od_defs D) (DFrag f) = Ok t
         /\ read_document t = Some (erase_frag f :: map erase_frag fs)
         /\ Forall2 (fun n g => get_frag (od_defs D) n = Some g) names fs
         /\ NoDup names
         /\ forall n, In n names <-> (reach (get_frag (od_defs D)) (fr_sel f) n /\ n <> iname (fr_name f))).
Proof.
  intros Hwf Hc Hd.
  apply (accepted_document_denotes
           (fun defs => match C03.Model.check_operation_document S (mkOpDoc (od_pos D) defs) with [] => true | _ => false end)).
  - intros defs H. destruct (C03.Model.check_operation_document S (mkOpDoc (od_pos D) defs)) eqn:E; [|discriminate].
    exact (accepted_spreads_defined S (mkOpDoc (od_pos D) defs) Hwf E).
  - destruct D as [p defs]. cbn [od_pos od_defs]. now rewrite Hc.
  - exact Hd.
Qed.
