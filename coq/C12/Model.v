(** C12 — model of the code that produces the runtime DocumentNode JSON (definitions only).

    Modelled Rust code (as it is in /repo):
    - crates/printer/src/json_printer/to_json.rs   every [JsonPrintable] impl, [write_selection_set];
    - crates/printer/src/json_printer/helpers.rs   [Name], [Variable], [Argument], [JSONValue];
    - crates/printer/src/json_printer/mod.rs       [print_to_json_string];
    - the part of the json-writer 0.4.0 crate those impls drive: [JSONObjectWriter::{new,value,object,array,end}],
      [JSONArrayWriter::object], [impl JSONWriter for String] and [write_string] (the escape table);
    - crates/printer/src/utils.rs                  [fragment_names_in_selection_set];
    - crates/printer/src/operation_js_printer/printers.rs  [print_operation_runtime], [print_fragment_runtime];
    - crates/printer/src/operation_base_printer/mod.rs     the [fragments] map of [print_document]
      (a [HashMap] collected from (name, definition) pairs: the last definition of a name wins) and the
      order in which definitions are visited;
    - crates/printer/src/operation_js_printer/visitor.rs, crates/printer/src/operation_type_printer/visitor.rs
      (print_values) and crates/graphql-loader/src/js_printer.rs: each definition's runtime value is the one
      string written by [print_operation_runtime] / [print_fragment_runtime].

    [to_json.rs] writes key/value pairs into a [JSONObjectWriter]; the model of one [print_json] is the
    list of pairs it writes, in order ([fields]).  A panic ([expect("fragment not found")]) is the
    explicit result [Panic]. *)
From V Require Import Base.Util Gql.Ast.

(** * JSON trees, object keys in the order written *)

Inductive json :=
| JNull
| JBool (b : bool)
| JNum (lexeme : str)
| JStr (v : str)
| JArr (l : list json)
| JObj (l : list (str * json)).

Definition fields := list (str * json).

(** keys and node kinds as literal lists (so that comparisons reduce quickly) *)
Definition k_kind := Eval vm_compute in s "kind".
Definition k_value := Eval vm_compute in s "value".
Definition k_name := Eval vm_compute in s "name".
Definition k_type := Eval vm_compute in s "type".
Definition k_definitions := Eval vm_compute in s "definitions".
Definition k_operation := Eval vm_compute in s "operation".
Definition k_variableDefinitions := Eval vm_compute in s "variableDefinitions".
Definition k_directives := Eval vm_compute in s "directives".
Definition k_typeCondition := Eval vm_compute in s "typeCondition".
Definition k_variable := Eval vm_compute in s "variable".
Definition k_defaultValue := Eval vm_compute in s "defaultValue".
Definition k_arguments := Eval vm_compute in s "arguments".
Definition k_values := Eval vm_compute in s "values".
Definition k_fields := Eval vm_compute in s "fields".
Definition k_selections := Eval vm_compute in s "selections".
Definition k_alias := Eval vm_compute in s "alias".
Definition k_selectionSet := Eval vm_compute in s "selectionSet".

Definition n_Document := Eval vm_compute in s "Document".
Definition n_OperationDefinition := Eval vm_compute in s "OperationDefinition".
Definition n_FragmentDefinition := Eval vm_compute in s "FragmentDefinition".
Definition n_VariableDefinition := Eval vm_compute in s "VariableDefinition".
Definition n_Directive := Eval vm_compute in s "Directive".
Definition n_NonNullType := Eval vm_compute in s "NonNullType".
Definition n_NamedType := Eval vm_compute in s "NamedType".
Definition n_ListType := Eval vm_compute in s "ListType".
Definition n_Name := Eval vm_compute in s "Name".
Definition n_Variable := Eval vm_compute in s "Variable".
Definition n_Argument := Eval vm_compute in s "Argument".
Definition n_BooleanValue := Eval vm_compute in s "BooleanValue".
Definition n_IntValue := Eval vm_compute in s "IntValue".
Definition n_FloatValue := Eval vm_compute in s "FloatValue".
Definition n_StringValue := Eval vm_compute in s "StringValue".
Definition n_NullValue := Eval vm_compute in s "NullValue".
Definition n_ListValue := Eval vm_compute in s "ListValue".
Definition n_ObjectValue := Eval vm_compute in s "ObjectValue".
Definition n_ObjectField := Eval vm_compute in s "ObjectField".
Definition n_EnumValue := Eval vm_compute in s "EnumValue".
Definition n_SelectionSet := Eval vm_compute in s "SelectionSet".
Definition n_Field := Eval vm_compute in s "Field".
Definition n_FragmentSpread := Eval vm_compute in s "FragmentSpread".
Definition n_InlineFragment := Eval vm_compute in s "InlineFragment".
Definition n_query := Eval vm_compute in s "query".
Definition n_mutation := Eval vm_compute in s "mutation".
Definition n_subscription := Eval vm_compute in s "subscription".

Definition kind (n : str) : str * json := (k_kind, JStr n).

(** * helpers.rs *)

(** [impl JsonPrintable for Name] *)
Definition name_fields (n : str) : fields := [kind n_Name; (k_value, JStr n)].
(** [JSONValue(&Name(n))] : a nested object *)
Definition jname (n : str) : json := JObj (name_fields n).
(** [impl JsonPrintable for Variable] *)
Definition variable_fields (n : str) : fields := [kind n_Variable; (k_name, jname n)].

(** * to_json.rs *)

(** [impl JsonPrintable for Type] *)
Fixpoint type_fields (t : ty) : fields :=
  match t with
  | TNonNull i => [kind n_NonNullType; (k_type, JObj (type_fields i))]
  | TNamed n => [kind n_NamedType; (k_name, jname (iname n))]
  | TList _ i => [kind n_ListType; (k_type, JObj (type_fields i))]
  end.

(** [impl JsonPrintable for Value] *)
Fixpoint value_fields (v : value) : fields :=
  match v with
  | VVar n _ => variable_fields n
  | VBool _ b => [kind n_BooleanValue; (k_value, JBool b)]
  | VInt _ l => [kind n_IntValue; (k_value, JStr l)]
  | VFloat _ l => [kind n_FloatValue; (k_value, JStr l)]
  | VString _ x => [kind n_StringValue; (k_value, JStr x)]
  | VNull _ => [kind n_NullValue]
  | VList _ vs => [kind n_ListValue; (k_values, JArr (map (fun x => JObj (value_fields x)) vs))]
  | VObject _ fs =>
      [kind n_ObjectValue;
       (k_fields, JArr (map (fun kv => match kv with (k, x) =>
          JObj [kind n_ObjectField; (k_name, jname (iname k)); (k_value, JObj (value_fields x))] end) fs))]
  | VEnum _ x => [kind n_EnumValue; (k_value, JStr x)]
  end.

(** [impl JsonPrintable for Argument] (helpers.rs) *)
Definition argument_fields (a : ident * value) : fields :=
  [kind n_Argument; (k_name, jname (iname (fst a))); (k_value, JObj (value_fields (snd a)))].

(** the loop [if let Some(ref arguments) = … { for (name, value) in … }] *)
Definition arguments_json (a : option arguments) : json :=
  JArr (map (fun x => JObj (argument_fields x)) (match a with Some x => args_list x | None => [] end)).

(** [impl JsonPrintable for Directive] *)
Definition directive_fields (d : directive) : fields :=
  [kind n_Directive; (k_name, jname (iname (dir_name d))); (k_arguments, arguments_json (dir_args d))].
Definition directives_json (ds : list directive) : json := JArr (map (fun d => JObj (directive_fields d)) ds).

(** [Type::Named(NamedType { name })] printed under the key "typeCondition" *)
Definition type_condition (c : ident) : str * json := (k_typeCondition, JObj (type_fields (TNamed c))).

(** [impl JsonPrintable for Selection / Field / FragmentSpread / InlineFragment / SelectionSet] and
    [write_selection_set] (which writes nothing for an empty selection set) *)
Fixpoint selection_fields (x : selection) : fields :=
  match x with
  | SField alias name args dirs sel =>
      [kind n_Field; (k_name, jname (iname name))]
      ++ (match alias with Some a => [(k_alias, jname (iname a))] | None => [] end)
      ++ [(k_arguments, arguments_json args); (k_directives, directives_json dirs)]
      ++ (match sel with
          | Some ss => match ss with
                       | SelSet _ [] => []
                       | SelSet _ (_ :: _) => [(k_selectionSet, JObj (selset_fields ss))]
                       end
          | None => []
          end)
  | SSpread _ name dirs =>
      [kind n_FragmentSpread; (k_name, jname (iname name)); (k_directives, directives_json dirs)]
  | SInline _ cond dirs ss =>
      [kind n_InlineFragment]
      ++ (match cond with Some c => [type_condition c] | None => [] end)
      ++ [(k_directives, directives_json dirs)]
      ++ (match ss with
          | SelSet _ [] => []
          | SelSet _ (_ :: _) => [(k_selectionSet, JObj (selset_fields ss))]
          end)
  end
with selset_fields (ss : selset) : fields :=
  match ss with
  | SelSet _ sels => [kind n_SelectionSet; (k_selections, JArr (map (fun x => JObj (selection_fields x)) sels))]
  end.

Definition write_selection_set (ss : selset) : fields :=
  match ss with
  | SelSet _ [] => []
  | SelSet _ (_ :: _) => [(k_selectionSet, JObj (selset_fields ss))]
  end.

(** [impl JsonPrintable for VariableDefinition] *)
Definition vardef_fields (v : vardef) : fields :=
  [kind n_VariableDefinition; (k_variable, JObj (variable_fields (vd_name v))); (k_type, JObj (type_fields (vd_type v)))]
  ++ (match vd_default v with Some x => [(k_defaultValue, JObj (value_fields x))] | None => [] end)
  ++ [(k_directives, directives_json (vd_dirs v))].

Definition optype_str (t : optype) : str :=
  match t with Query => n_query | Mutation => n_mutation | Subscription => n_subscription end.

(** [impl JsonPrintable for OperationDefinition] *)
Definition opdef_fields (o : opdef) : fields :=
  [kind n_OperationDefinition; (k_operation, JStr (optype_str (op_type o)))]
  ++ (match op_name o with Some n => [(k_name, jname (iname n))] | None => [] end)
  ++ [(k_variableDefinitions,
       JArr (map (fun v => JObj (vardef_fields v)) (match op_vars o with Some d => vds_list d | None => [] end)));
      (k_directives, directives_json (op_dirs o))]
  ++ write_selection_set (op_sel o).

(** [impl JsonPrintable for FragmentDefinition] *)
Definition fragdef_fields (f : fragdef) : fields :=
  [kind n_FragmentDefinition; (k_name, jname (iname (fr_name f))); type_condition (fr_cond f);
   (k_directives, directives_json (fr_dirs f))]
  ++ write_selection_set (fr_sel f).

(** [ExecutableDefinition] / [ExecutableDefinitionRef]; an [OperationDocument] has no import definitions
    ([DImport] exists only in [OperationDocumentExt], which is never printed): modelled as an empty object *)
Definition execdef_fields (d : execdef) : fields :=
  match d with
  | DOp o => opdef_fields o
  | DFrag f => fragdef_fields f
  | DImport _ => []
  end.

(** [impl JsonPrintable for OperationDocument], [for [ExecutableDefinitionRef]], [for [&FragmentDefinition]] *)
Definition document_fields (ds : list execdef) : fields :=
  [kind n_Document; (k_definitions, JArr (map (fun d => JObj (execdef_fields d)) ds))].

(** * json-writer: the text *)

Local Open Scope N_scope.

Definition hex_digit (n : N) : N := if n <? 10 then 48 + n else 55 + n.   (* "0123456789ABCDEF" *)

(** [REPLACEMENTS] / [write_part_of_string_impl]: all escaped bytes are < 128, so working on scalar
    values instead of UTF-8 bytes is the same *)
Definition esc_char (c : N) : str :=
  if c =? 34 then [92; 34]
  else if c =? 92 then [92; 92]
  else if c =? 47 then [92; 47]
  else if c =? 8 then [92; 98]
  else if c =? 12 then [92; 102]
  else if c =? 10 then [92; 110]
  else if c =? 13 then [92; 114]
  else if c =? 9 then [92; 116]
  else if c <? 32 then [92; 117; 48; 48; hex_digit (c / 16); hex_digit (c mod 16)]
  else [c].

Definition esc (x : str) : str := flat_map esc_char x.
(** [write_string] *)
Definition ser_string (x : str) : str := 34 :: esc x ++ [34].

Definition lit_true := Eval vm_compute in s "true".
Definition lit_false := Eval vm_compute in s "false".
Definition lit_null := Eval vm_compute in s "null".

(** the text [JSONObjectWriter]/[JSONArrayWriter] over a [String] produce: no white space,
    "," before every entry but the first, keys through [write_string] *)
Fixpoint ser (j : json) : str :=
  match j with
  | JNull => lit_null
  | JBool true => lit_true
  | JBool false => lit_false
  | JNum l => l
  | JStr x => ser_string x
  | JArr l =>
      91 :: (fix go (l : list json) (first : bool) : str :=
               match l with
               | [] => []
               | x :: r => (if first then [] else [44]) ++ ser x ++ go r false
               end) l true ++ [93]
  | JObj l =>
      123 :: (fix go (l : list (str * json)) (first : bool) : str :=
                match l with
                | [] => []
                | (k, x) :: r => (if first then [] else [44]) ++ ser_string k ++ [58] ++ ser x ++ go r false
                end) l true ++ [125]
  end.

Local Close Scope N_scope.

(** [print_to_json_string] *)
Definition print_to_json_string (fs : fields) : str := ser (JObj fs).

(** * utils.rs: fragment_names_in_selection_set *)

Definition mem (n : str) (names : list str) : bool := existsb (str_eqb n) names.

(** the recursion [rec] over one selection set; [jump n names'] is what happens at a spread of a name [n]
    that was not yet in [names] ([names'] = names with [n] pushed): look the fragment up and recurse *)
Section Walk.
  Variable jump : str -> list str -> option (list str).

  Fixpoint walk_sel (x : selection) (names : list str) {struct x} : option (list str) :=
    match x with
    | SField _ _ _ _ (Some ss) => walk_set ss names
    | SField _ _ _ _ None => Some names
    | SSpread _ name _ =>
        if mem (iname name) names then Some names
        else jump (iname name) (names ++ [iname name])
    | SInline _ _ _ ss => walk_set ss names
    end
  with walk_set (ss : selset) (names : list str) {struct ss} : option (list str) :=
    match ss with
    | SelSet _ sels =>
        (fix walk_list (l : list selection) (names : list str) {struct l} : option (list str) :=
           match l with
           | [] => Some names
           | x :: r => match walk_sel x names with
                       | Some names' => walk_list r names'
                       | None => None
                       end
           end) sels names
    end.
End Walk.

(** [None] = out of fuel (never happens with the fuel used below: theorem [C12_closure_terminates]) *)
Fixpoint fnames (get : str -> option fragdef) (fuel : nat) {struct fuel} : selset -> list str -> option (list str) :=
  walk_set (fun n names' =>
              match get n with
              | None => Some names'
              | Some f => match fuel with
                          | O => None
                          | S fu => fnames get fu (fr_sel f) names'
                          end
              end).

(** * operation_base_printer: the fragment map *)

(** [.filter_map(…).collect::<HashMap<_,_>>()] : a later definition with the same name replaces an earlier one *)
Definition get_frag (defs : list execdef) (n : str) : option fragdef :=
  fold_left (fun acc d => match d with
                          | DFrag f => if str_eqb (iname (fr_name f)) n then Some f else acc
                          | _ => acc
                          end) defs None.

Definition frag_count (defs : list execdef) : nat :=
  length (filter (fun d => match d with DFrag _ => true | _ => false end) defs).

Definition closure_fuel (defs : list execdef) : nat := S (frag_count defs).

(** * printers.rs *)

Inductive res (A : Type) :=
| Ok (a : A)
| Panic (msg : str)
| OutOfFuel.
Arguments Ok {A} a. Arguments Panic {A} msg. Arguments OutOfFuel {A}.

Definition msg_fragment_not_found := Eval vm_compute in s "fragment not found".

(** [.map(|name| fragments.get(name).expect("fragment not found"))] collected *)
Fixpoint lookup_all (get : str -> option fragdef) (names : list str) : option (list fragdef) :=
  match names with
  | [] => Some []
  | n :: r => match get n with
              | None => None
              | Some f => match lookup_all get r with Some fs => Some (f :: fs) | None => None end
              end
  end.

Definition fragment_names_in_selection_set (defs : list execdef) (ss : selset) : option (list str) :=
  fnames (get_frag defs) (closure_fuel defs) ss [].

(** [print_operation_runtime]: the definitions of the emitted document *)
Definition operation_runtime (defs : list execdef) (o : opdef) : res (list execdef) :=
  match fragment_names_in_selection_set defs (op_sel o) with
  | None => OutOfFuel
  | Some names =>
      match lookup_all (get_frag defs) names with
      | None => Panic msg_fragment_not_found
      | Some fs => Ok (DOp o :: map DFrag fs)
      end
  end.

(** [print_fragment_runtime]: the fragment's own name is filtered out before the lookups *)
Definition fragment_runtime (defs : list execdef) (f : fragdef) : res (list execdef) :=
  match fragment_names_in_selection_set defs (fr_sel f) with
  | None => OutOfFuel
  | Some names =>
      match lookup_all (get_frag defs) (filter (fun n => negb (str_eqb n (iname (fr_name f)))) names) with
      | None => Panic msg_fragment_not_found
      | Some fs => Ok (DFrag f :: map DFrag fs)
      end
  end.

Definition runtime_defs (defs : list execdef) (d : execdef) : res (list execdef) :=
  match d with
  | DOp o => operation_runtime defs o
  | DFrag f => fragment_runtime defs f
  | DImport _ => Ok []
  end.

(** the string written by [writer.write(&print_to_json_string(&this_document[..]))] *)
Definition runtime_json (defs : list execdef) (d : execdef) : res json :=
  match runtime_defs defs d with
  | Ok ds => Ok (JObj (document_fields ds))
  | Panic m => Panic m
  | OutOfFuel => OutOfFuel
  end.

Definition runtime_text (defs : list execdef) (d : execdef) : res str :=
  match runtime_json defs d with
  | Ok j => Ok (ser j)
  | Panic m => Panic m
  | OutOfFuel => OutOfFuel
  end.

(** * print_document: one runtime value per definition, in document order; the first panic aborts *)
Fixpoint runtime_texts_of (defs : list execdef) (todo : list execdef) : res (list str) :=
  match todo with
  | [] => Ok []
  | DImport _ :: r => runtime_texts_of defs r
  | d :: r =>
      match runtime_text defs d with
      | Ok t => match runtime_texts_of defs r with
                | Ok ts => Ok (t :: ts)
                | Panic m => Panic m
                | OutOfFuel => OutOfFuel
                end
      | Panic m => Panic m
      | OutOfFuel => OutOfFuel
      end
  end.

(** [print_js_for_operation_document] / [print_types_for_operation_document] with print_values /
    the loader's [print_js]: the JSON chunks written, in order *)
Definition document_runtime_texts (d : opdoc) : res (list str) := runtime_texts_of (od_defs d) (od_defs d).

(** [print_to_json_string(&document)] for a whole [OperationDocument] *)
Definition document_text (d : opdoc) : str := print_to_json_string (document_fields (od_defs d)).

(** * crates/graphql-loader/src/loader.rs: emit_js (since /repo 539df4b)

    After import resolution the loader, which runs no checker, looks for a fragment spread whose fragment is
    not defined in the resolved document and returns [Err(FragmentNotDefined { name })] (Display:
    "Fragment 'name' is not defined") before printing; otherwise it returns [print_js]'s text. *)
Section FindUndefined.
  Variable is_defined : str -> bool.
  (** [find_in_selection_set]: [find_map] in source order *)
  Fixpoint fu_sel (x : selection) : option str :=
    match x with
    | SField _ _ _ _ (Some ss) => fu_set ss
    | SField _ _ _ _ None => None
    | SSpread _ n _ => if is_defined (iname n) then None else Some (iname n)
    | SInline _ _ _ ss => fu_set ss
    end
  with fu_set (ss : selset) : option str :=
    match ss with
    | SelSet _ sels =>
        (fix go (l : list selection) : option str :=
           match l with
           | [] => None
           | x :: r => match fu_sel x with Some n => Some n | None => go r end
           end) sels
    end.
End FindUndefined.

(** [is_defined]: some fragment definition of the document has that name *)
Definition is_defined_in (defs : list execdef) (n : str) : bool :=
  existsb (fun d => match d with DFrag f => str_eqb (iname (fr_name f)) n | _ => false end) defs.

(** [find_undefined_fragment_spread]: definitions in document order *)
Definition find_undefined_fragment_spread (defs : list execdef) : option str :=
  (fix go (l : list execdef) : option str :=
     match l with
     | [] => None
     | d :: r =>
         match match d with
               | DOp o => fu_set (is_defined_in defs) (op_sel o)
               | DFrag f => fu_set (is_defined_in defs) (fr_sel f)
               | DImport _ => None
               end with
         | Some n => Some n
         | None => go r
         end
     end) defs.

Definition msg_fnd_pre := Eval vm_compute in s "Fragment '".
Definition msg_fnd_post := Eval vm_compute in s "' is not defined".
Definition msg_fragment_not_defined (n : str) : str := msg_fnd_pre ++ n ++ msg_fnd_post.

Inductive lres (T : Type) :=
| LOk (texts : list T)       (* emit_js returned true; the JSON chunks of the module text *)
| LErr (msg : str)           (* emit_js returned false; the result string *)
| LPanic (msg : str)         (* a panic inside extern "C": the process aborts *)
| LOutOfFuel.
Arguments LOk {T} texts. Arguments LErr {T} msg. Arguments LPanic {T} msg. Arguments LOutOfFuel {T}.

(** [emit_js] on the resolved document *)
Definition loader_emit_js (d : opdoc) : lres str :=
  match find_undefined_fragment_spread (od_defs d) with
  | Some n => LErr (msg_fragment_not_defined n)
  | None =>
      match document_runtime_texts d with
      | Ok ts => LOk ts
      | Panic m => LPanic m
      | OutOfFuel => LOutOfFuel
      end
  end.
