(** C12 — proofs, part 7: the loader route ([emit_js] since /repo 539df4b): the pre-check is exactly the
    guard of the printer theorems, so the loader never reaches a panic and either reports an undefined
    fragment that really is spread and undefined, or emits the runtime documents. *)
From V Require Import Base.Util Gql.Ast C12.Model C12.Spec C12.Proofs1 C12.Proofs2 C12.Proofs3 C12.Proofs4 C12.Proofs5.

Lemma find_app {A} (f : A -> bool) a b :
  find f (a ++ b) = match find f a with Some x => Some x | None => find f b end.
Proof. induction a as [|x a IH]; [reflexivity|]. cbn [app find]. destruct (f x); [reflexivity|exact IH]. Qed.

(** [find_in_selection_set] returns the first spread, in source order, whose name is not defined *)
Lemma fu_set_find def : forall ss, fu_set def ss = find (fun n => negb (def n)) (spreads_of ss).
Proof.
  apply (selset_ind'
           (fun x => fu_sel def x = find (fun n => negb (def n)) (spreads_sel x))
           (fun ss => fu_set def ss = find (fun n => negb (def n)) (spreads_of ss))).
  - intros al n ar d [ss|] IH; [|reflexivity].
    change (fu_sel def (SField al n ar d (Some ss))) with (fu_set def ss).
    replace (spreads_sel (SField al n ar d (Some ss))) with (spreads_of ss) by (destruct ss; reflexivity).
    exact IH.
  - intros p n d. cbn [fu_sel spreads_sel find]. destruct (def (iname n)); reflexivity.
  - intros p c d ss IH.
    change (fu_sel def (SInline p c d ss)) with (fu_set def ss).
    replace (spreads_sel (SInline p c d ss)) with (spreads_of ss) by (destruct ss; reflexivity).
    exact IH.
  - intros p sels IH. unfold spreads_of. cbn [selset_sels].
    induction IH as [|x r Hx _ IHr]; [reflexivity|]. cbn [flat_map]. rewrite find_app, <- Hx, <- IHr.
    change (fu_set def (SelSet p (x :: r)))
      with (match fu_sel def x with Some n => Some n | None => fu_set def (SelSet p r) end).
    reflexivity.
Qed.

(** [is_defined] of the loader = membership in the printer's map *)
Lemma is_defined_get_frag defs n : is_defined_in defs n = true <-> get_frag defs n <> None.
Proof.
  unfold is_defined_in. rewrite existsb_exists. split.
  - intros [d [Hd He]]. destruct d as [o|f|i]; try discriminate.
    destruct (str_eqb_spec (iname (fr_name f)) n) as [<-|]; [|discriminate]. now apply get_frag_defined.
  - intros H. destruct (get_frag defs n) as [f|] eqn:Hg; [|contradiction].
    apply get_frag_some in Hg. destruct Hg as [Hin <-]. exists (DFrag f). split; [exact Hin|apply str_eqb_refl].
Qed.

Lemma is_defined_false defs n : is_defined_in defs n = false <-> get_frag defs n = None.
Proof.
  split; intros H.
  - destruct (get_frag defs n) eqn:Hg; [|reflexivity].
    assert (Ht : is_defined_in defs n = true) by (apply is_defined_get_frag; congruence). congruence.
  - destruct (is_defined_in defs n) eqn:Hd; [|reflexivity]. apply is_defined_get_frag in Hd. contradiction.
Qed.

Definition def_fu (defs : list execdef) (d : execdef) : option str :=
  match d with
  | DOp o => fu_set (is_defined_in defs) (op_sel o)
  | DFrag f => fu_set (is_defined_in defs) (fr_sel f)
  | DImport _ => None
  end.

Lemma def_fu_find defs d :
  def_fu defs d = match def_selset d with
                  | Some ss => find (fun n => negb (is_defined_in defs n)) (spreads_of ss)
                  | None => None
                  end.
Proof. destruct d; cbn [def_fu def_selset]; try apply fu_set_find; reflexivity. Qed.

Section FuDefs.
  Variable defs : list execdef.
  Fixpoint fu_defs (l : list execdef) : option str :=
    match l with
    | [] => None
    | d :: r => match def_fu defs d with Some n => Some n | None => fu_defs r end
    end.
End FuDefs.

Lemma find_undefined_eq defs : find_undefined_fragment_spread defs = fu_defs defs defs.
Proof. reflexivity. Qed.

Definition def_spreads_defined (defs : list execdef) (d : execdef) : bool :=
  match def_selset d with
  | Some ss => forallb (fun n => match get_frag defs n with Some _ => true | None => false end) (spreads_of ss)
  | None => true
  end.

Lemma fu_defs_none defs l : fu_defs defs l = None <-> forallb (def_spreads_defined defs) l = true.
Proof.
  induction l as [|d r IH]; [split; reflexivity|].
  cbn [fu_defs forallb]. rewrite def_fu_find. unfold def_spreads_defined at 1. destruct (def_selset d) as [ss|].
  - destruct (find _ (spreads_of ss)) as [n|] eqn:Hf.
    + split; [discriminate|]. intros H. apply andb_prop in H. destruct H as [H _].
      apply find_some in Hf. destruct Hf as [Hin Hn]. rewrite forallb_forall in H. specialize (H n Hin).
      destruct (is_defined_in defs n) eqn:Hd; [discriminate|]. apply is_defined_false in Hd. now rewrite Hd in H.
    + rewrite IH. split; intros H.
      * rewrite H, andb_true_r. apply forallb_forall. intros n Hin.
        assert (Hn := find_none _ _ Hf n Hin). cbn beta in Hn.
        destruct (is_defined_in defs n) eqn:Hd; [|discriminate]. apply is_defined_get_frag in Hd.
        destruct (get_frag defs n); [reflexivity|contradiction].
      * apply andb_prop in H. tauto.
  - rewrite IH. cbn [andb]. tauto.
Qed.

Lemma find_undefined_none defs :
  find_undefined_fragment_spread defs = None <-> spreads_defined_b defs = true.
Proof. rewrite find_undefined_eq. apply fu_defs_none. Qed.

Lemma fu_defs_some defs l n :
  fu_defs defs l = Some n ->
  exists d ss, In d l /\ def_selset d = Some ss /\ In n (spreads_of ss) /\ get_frag defs n = None.
Proof.
  induction l as [|d r IH]; [discriminate|]. cbn [fu_defs]. rewrite def_fu_find.
  destruct (def_selset d) as [ss|] eqn:Hs.
  - destruct (find _ (spreads_of ss)) as [m|] eqn:Hf.
    + intros [= <-]. apply find_some in Hf. destruct Hf as [Hin Hn].
      exists d, ss. split; [now left|]. split; [exact Hs|]. split; [exact Hin|].
      apply is_defined_false. destruct (is_defined_in defs m); [discriminate|reflexivity].
    + intros H. destruct (IH H) as [d0 [ss0 [H1 H2]]]. exists d0, ss0. split; [now right|exact H2].
  - intros H. destruct (IH H) as [d0 [ss0 [H1 H2]]]. exists d0, ss0. split; [now right|exact H2].
Qed.

Lemma find_undefined_some defs n :
  find_undefined_fragment_spread defs = Some n ->
  exists d ss, In d defs /\ def_selset d = Some ss /\ In n (spreads_of ss) /\ get_frag defs n = None.
Proof. rewrite find_undefined_eq. apply fu_defs_some. Qed.

(** without the well-formedness guard: with every spread defined the module printer does not panic *)
Lemma document_texts_no_panic d :
  spreads_defined_b (od_defs d) = true -> exists ts, document_runtime_texts d = Ok ts.
Proof.
  intros Hsp. unfold document_runtime_texts.
  assert (H : forall todo, incl todo (od_defs d) -> exists ts, runtime_texts_of (od_defs d) todo = Ok ts).
  { induction todo as [|x r IH]; intros Hi; [exists []; reflexivity|].
    destruct IH as [ts Hts]; [intros y Hy; apply Hi; now right|].
    assert (Hx : In x (od_defs d)) by (apply Hi; now left).
    destruct x as [o|f|i].
    - destruct (operation_runtime_exact (od_defs d) o) as [names [fs [Hrt _]]].
      { intros n Hr. eapply spreads_defined_reach; [eassumption|exact Hx|reflexivity|exact Hr]. }
      eexists. cbn [runtime_texts_of]. rewrite (runtime_text_of_defs (od_defs d) (DOp o) _ Hrt), Hts. reflexivity.
    - destruct (fragment_runtime_exact (od_defs d) f) as [names [fs [Hrt _]]].
      { intros n Hr _. eapply spreads_defined_reach; [eassumption|exact Hx|reflexivity|exact Hr]. }
      eexists. cbn [runtime_texts_of]. rewrite (runtime_text_of_defs (od_defs d) (DFrag f) _ Hrt), Hts. reflexivity.
    - exists ts. exact Hts. }
  apply H. intros y Hy. exact Hy.
Qed.

(** the loader route: either the runtime documents of the module (and then every spread is defined, so the
    printer theorems apply), or the error naming a fragment that some definition spreads and no definition
    defines; never a panic *)
Theorem loader_emit_js_spec d :
  (exists ts, loader_emit_js d = LOk ts /\ document_runtime_texts d = Ok ts
              /\ spreads_defined_b (od_defs d) = true)
  \/ (exists n, loader_emit_js d = LErr (msg_fragment_not_defined n)
               /\ spreads_defined_b (od_defs d) = false
               /\ exists x ss, In x (od_defs d) /\ def_selset x = Some ss /\ In n (spreads_of ss)
                               /\ get_frag (od_defs d) n = None).
Proof.
  unfold loader_emit_js. destruct (find_undefined_fragment_spread (od_defs d)) as [n|] eqn:Hf.
  - right. exists n. split; [reflexivity|]. split; [|now apply find_undefined_some].
    destruct (spreads_defined_b (od_defs d)) eqn:Hs; [|reflexivity].
    apply find_undefined_none in Hs. congruence.
  - left. apply find_undefined_none in Hf. destruct (document_texts_no_panic d Hf) as [ts Hts].
    exists ts. rewrite Hts. repeat split; assumption.
Qed.

Theorem loader_emit_js_never_panics d m :
  loader_emit_js d <> LPanic m /\ loader_emit_js d <> LOutOfFuel.
Proof.
  destruct (loader_emit_js_spec d) as [[ts [H _]]|[n [H _]]]; rewrite H; split; discriminate.
Qed.
