(** C12 — proofs, part 3: the emitted runtime document denotes the definition followed by exactly the
    fragments it transitively spreads; witnesses of the behaviour that violates the property;
    non-vacuity examples. *)
From V Require Import Base.Util Gql.Ast C12.Model C12.Spec C12.Proofs1 C12.Proofs2.

Lemma erase_defs_frags fs : erase_defs (map DFrag fs) = map erase_frag fs.
Proof. induction fs as [|f r IH]; cbn [map erase_defs erase_def]; now rewrite ?IH. Qed.

(** in a document whose spreads are all defined, everything reachable is defined *)
Lemma spreads_defined_reach defs d ss n :
  spreads_defined_b defs = true -> In d defs -> def_selset d = Some ss ->
  reach (get_frag defs) ss n -> get_frag defs n <> None.
Proof.
  intros Hb Hd Hs Hr. unfold spreads_defined_b in Hb. rewrite forallb_forall in Hb.
  induction Hr as [n Hn|m f n _ _ Hg Hn].
  - specialize (Hb d Hd). rewrite Hs in Hb. rewrite forallb_forall in Hb. specialize (Hb n Hn).
    destruct (get_frag defs n); [discriminate|discriminate].
  - apply get_frag_some in Hg. destruct Hg as [Hin _]. specialize (Hb (DFrag f) Hin). cbn [def_selset] in Hb.
    rewrite forallb_forall in Hb. specialize (Hb n Hn). destruct (get_frag defs n); discriminate.
Qed.

Lemma wf_of_lookup defs names fs :
  forallb wf_def defs = true ->
  Forall2 (fun n f => get_frag defs n = Some f) names fs ->
  forallb wf_def (map DFrag fs) = true.
Proof.
  intros Hwf H. rewrite forallb_forall in Hwf. induction H as [|n f names fs Hg _ IH]; [reflexivity|].
  cbn [map forallb]. rewrite IH, andb_true_r. apply Hwf. apply get_frag_some in Hg. tauto.
Qed.

(** the property for operations, on the model: for a document whose definitions are well formed and whose
    spreads are all defined, the JSON emitted for operation [o] reads back (by the independent reader) as [o]
    followed by the definitions [fs] of names [names], where [names] has no repetition and contains exactly
    the names transitively spread from [o] *)
Theorem operation_document_denotes defs o :
  In (DOp o) defs -> forallb wf_def defs = true -> spreads_defined_b defs = true ->
  exists j names fs,
    runtime_json defs (DOp o) = Ok j
    /\ toModel j = Some (erase_op o :: map erase_frag fs)
    /\ Forall2 (fun n f => get_frag defs n = Some f) names fs
    /\ NoDup names
    /\ forall n, In n names <-> reach (get_frag defs) (op_sel o) n.
Proof.
  intros Hin Hwf Hsp.
  destruct (operation_runtime_exact defs o) as [names [fs [Hrt [Hf2 [Hnd Hiff]]]]].
  { intros n Hr. eapply spreads_defined_reach; [eassumption|exact Hin|reflexivity|exact Hr]. }
  unfold runtime_json. cbn [runtime_defs]. rewrite Hrt.
  eexists; exists names, fs. split; [reflexivity|]. split; [|split; [assumption|split; assumption]].
  rewrite to_json_roundtrip.
  - cbn [erase_defs erase_def]. now rewrite erase_defs_frags.
  - cbn [forallb]. rewrite (wf_of_lookup defs names fs Hwf Hf2), andb_true_r.
    rewrite forallb_forall in Hwf. apply (Hwf _ Hin).
Qed.

(** the property for fragments *)
Theorem fragment_document_denotes defs f :
  In (DFrag f) defs -> forallb wf_def defs = true -> spreads_defined_b defs = true ->
  exists j names fs,
    runtime_json defs (DFrag f) = Ok j
    /\ toModel j = Some (erase_frag f :: map erase_frag fs)
    /\ Forall2 (fun n g => get_frag defs n = Some g) names fs
    /\ NoDup names
    /\ forall n, In n names <-> (reach (get_frag defs) (fr_sel f) n /\ n <> iname (fr_name f)).
Proof.
  intros Hin Hwf Hsp.
  destruct (fragment_runtime_exact defs f) as [names [fs [Hrt [Hf2 [Hnd Hiff]]]]].
  { intros n Hr _. eapply spreads_defined_reach; [eassumption|exact Hin|reflexivity|exact Hr]. }
  unfold runtime_json. cbn [runtime_defs]. rewrite Hrt.
  eexists; exists names, fs. split; [reflexivity|]. split; [|split; [assumption|split; assumption]].
  rewrite to_json_roundtrip.
  - cbn [erase_defs erase_def]. now rewrite erase_defs_frags.
  - cbn [forallb]. rewrite (wf_of_lookup defs names fs Hwf Hf2), andb_true_r.
    rewrite forallb_forall in Hwf. apply (Hwf _ Hin).
Qed.

(** with unique fragment names, "the definition of name n" is the fragment of the document with that name *)
Theorem get_frag_iff defs n f :
  NoDup (keys defs) -> (get_frag defs n = Some f <-> In (DFrag f) defs /\ iname (fr_name f) = n).
Proof.
  intros Hnd. split; [apply get_frag_some|]. intros [Hin <-]. now apply get_frag_unique.
Qed.

(** * What the current code does outside the guard *)

Definition mkid (x : str) : ident := mkId x pos0.
Definition fld (x : str) : selection := SField None (mkid x) None [] None.

(** query Q { x }   fragment U on Query { x ...Missing } *)
Definition witness_unspread : list execdef :=
  [DOp (mkOp pos0 Query (Some (mkid (s "Q"))) None [] (SelSet pos0 [fld (s "x")]));
   DFrag (mkFrag pos0 (mkid (s "U")) (mkid (s "Query")) []
            (SelSet pos0 [fld (s "x"); SSpread pos0 (mkid (s "Missing")) []]))].

(** The guard [spreads_defined_b] is necessary: the printers are not total.  Here a fragment that no
    operation spreads spreads an undefined fragment, and the printer panics for the fragment's own runtime
    document and hence for the whole module.  (Before /repo c67e45e the real [check] accepted this document,
    which made it a violation of the property; since that commit [check] reports UnknownFragment for it — the
    correspondence run keeps generating such documents and requires them to be rejected — so the panic is
    only reachable by calling the printer on a document that was not checked.) *)
Lemma undefined_spread_panics :
  exists defs f,
    In (DFrag f) defs
    /\ (forall o n, In (DOp o) defs -> ~ reach (get_frag defs) (op_sel o) n)
    /\ runtime_defs defs (DFrag f) = Panic msg_fragment_not_found
    /\ document_runtime_texts (mkOpDoc pos0 defs) = Panic msg_fragment_not_found.
Proof.
  exists witness_unspread.
  eexists. split; [right; left; reflexivity|]. split; [|split; vm_compute; reflexivity].
  intros o n [Ho|[Ho|[]]] Hr; [|discriminate]. injection Ho as <-.
  unfold reach in Hr. cbn in Hr. induction Hr as [n []|m f n _ IH _ _]; exact IH.
Qed.

(** a cycle among fragments is handled: each fragment's document contains the others once, itself first *)
Definition witness_cycle : list execdef :=
  [DFrag (mkFrag pos0 (mkid (s "A")) (mkid (s "Query")) []
            (SelSet pos0 [SField None (mkid (s "a")) None [] (Some (SelSet pos0 [SSpread pos0 (mkid (s "B")) []]))]));
   DFrag (mkFrag pos0 (mkid (s "B")) (mkid (s "Query")) []
            (SelSet pos0 [SSpread pos0 (mkid (s "A")) []; fld (s "x")]))].

(** * Non-vacuity *)

(** query getUser($v: Int = 3 @tag(name: "t")) { k: y(i: {l: [$v, null], s: "a\""/"}) @skip(if: true) ...A ...B }
    fragment D on Query { x }   fragment B on Query { ... on Query { ...D } }   fragment A on Query { a { ...D } }
    fragment Unused on Query { ...A } *)
Definition sample_dir (n : str) (k : str) (v : value) : directive :=
  mkDir pos0 (mkid n) (Some (mkArgs pos0 [(mkid k, v)])).
Definition sample_doc : list execdef :=
  [DOp (mkOp pos0 Query (Some (mkid (s "getUser")))
          (Some (mkVarDefs pos0 [mkVarDef pos0 (s "v") pos0 (TNamed (mkid (s "Int"))) (Some (VInt pos0 (s "3")))
                                   [sample_dir (s "tag") (s "name") (VString pos0 (s "t"))]]))
          []
          (SelSet pos0
             [SField (Some (mkid (s "k"))) (mkid (s "y"))
                (Some (mkArgs pos0 [(mkid (s "i"),
                   VObject pos0 [(mkid (s "l"), VList pos0 [VVar (s "v") pos0; VNull pos0]);
                                 (mkid (s "s"), VString pos0 (s "a""/"))])]))
                [sample_dir (s "skip") (s "if") (VBool pos0 true)] None;
              SSpread pos0 (mkid (s "A")) []; SSpread pos0 (mkid (s "B")) []]));
   DFrag (mkFrag pos0 (mkid (s "D")) (mkid (s "Query")) [] (SelSet pos0 [fld (s "x")]));
   DFrag (mkFrag pos0 (mkid (s "B")) (mkid (s "Query")) []
            (SelSet pos0 [SInline pos0 (Some (mkid (s "Query"))) [] (SelSet pos0 [SSpread pos0 (mkid (s "D")) []])]));
   DFrag (mkFrag pos0 (mkid (s "A")) (mkid (s "Query")) []
            (SelSet pos0 [SField None (mkid (s "a")) None [] (Some (SelSet pos0 [SSpread pos0 (mkid (s "D")) []]))]));
   DFrag (mkFrag pos0 (mkid (s "Unused")) (mkid (s "Query")) [] (SelSet pos0 [SSpread pos0 (mkid (s "A")) []]))].

Example sample_guards :
  forallb wf_def sample_doc = true /\ spreads_defined_b sample_doc = true /\ NoDup (keys sample_doc).
Proof.
  split; [reflexivity|]. split; [reflexivity|].
  vm_compute. repeat constructor; cbn; intros H; repeat (destruct H as [H|H]; [discriminate|]); exact H.
Qed.

(** the closure of the operation is A, D, B in that order: D once although spread twice, Unused absent *)
Example sample_closure :
  option_map (map (fun n => n)) (fragment_names_in_selection_set sample_doc
     (match sample_doc with DOp o :: _ => op_sel o | _ => SelSet pos0 [] end))
  = Some [s "A"; s "D"; s "B"].
Proof. vm_compute. reflexivity. Qed.

Example sample_text_reads_back :
  match document_runtime_texts (mkOpDoc pos0 sample_doc) with
  | Ok (t :: _) => option_map (@length adef) (read_document t)
  | _ => None
  end = Some 4.
Proof. vm_compute. reflexivity. Qed.

Example cycle_ok :
  match document_runtime_texts (mkOpDoc pos0 witness_cycle) with
  | Ok ts => map (fun t => option_map (map adef_name) (read_document t)) ts
  | _ => []
  end = [Some [Some (s "A"); Some (s "B")]; Some [Some (s "B"); Some (s "A")]].
Proof. vm_compute. reflexivity. Qed.

(** the embedded operation keeps its name exactly as written (lower-case first letter included): the name
    the reader finds is the source name, not the capitalised TypeScript identifier *)
Example sample_operation_name :
  match document_runtime_texts (mkOpDoc pos0 sample_doc) with
  | Ok (t :: _) => option_map (fun ds => match ds with d :: _ => adef_name d | [] => None end) (read_document t)
  | _ => None
  end = Some (Some (s "getUser")).
Proof. vm_compute. reflexivity. Qed.
