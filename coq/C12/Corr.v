(** C12 — correspondence ([agree]: model output = implementation output) and the property read on the
    implementation's own outputs ([holds], specification side only: [Spec.read_document], [Spec.expected_ok]). *)
From V Require Import Base.Util Gql.Ast C12.Model C12.Spec.

(** An emitted text as the harness carries it.  The same definition objects recur in many texts of one
    case, so the harness sends every distinct piece once ([table]) and a text
    [{"kind":"Document","definitions":[P1,P2,…]}] as the indices of its pieces; it has verified that
    re-assembly gives back the exact text (otherwise it sends the text raw).  [decode_text] is that re-assembly. *)
Inductive ztext := Z_ (coded : str) | R_ (raw : str).
Inductive text := TPieces (idx : list N) | TRaw (t : ztext).

(** static dictionary coding (harness: dict_encode): code point 57344+k stands for the k-th entry of the
    dictionary the harness writes at the top of each case file ([dict_]) *)
Definition expand_char (dict : list str) (c : N) : str :=
  if (57344 <=? c)%N && (c <? 57344 + N.of_nat (length dict))%N then nth (N.to_nat (c - 57344)) dict [] else [c].
Definition expand (dict : list str) (z : ztext) : str :=
  match z with Z_ x => flat_map (expand_char dict) x | R_ x => x end.

Definition text_prefix := Eval vm_compute in s "{""kind"":""Document"",""definitions"":[".
Definition text_suffix := Eval vm_compute in s "]}".

Fixpoint join_pieces (table : list str) (idx : list N) (first : bool) : str :=
  match idx with
  | [] => []
  | i :: r => (if first then [] else [44%N]) ++ nth (N.to_nat i) table [] ++ join_pieces table r false
  end.

Definition decode_text (dict : list str) (table : list str) (t : text) : str :=
  match t with
  | TPieces idx => text_prefix ++ join_pieces table idx true ++ text_suffix
  | TRaw x => expand dict x
  end.

(** what a printer run produced: the JSON chunks it wrote (one per definition, in order), or a panic *)
Inductive outcome_of (T : Type) := OOk (texts : list T) | OPanic (msg : str).
Arguments OOk {T} texts. Arguments OPanic {T} msg.
Definition outcome := outcome_of str.

Definition decode_outcome (dict : list str) (table : list str) (o : outcome_of text) : outcome :=
  match o with OOk ts => OOk (map (decode_text dict table) ts) | OPanic m => OPanic m end.

(** positions play no role in C12/Model.v; the harness replaces every position by this constant *)
Definition p_ : pos := pos0.

Inductive case :=
| CDoc (accepted : bool)          (* the real [check] raised no diagnostic for the document (false also when no schema was used) *)
       (d : opdoc)                (* the document as the real parser (+ resolve_operation_extensions, + AST edits) produced it *)
       (dict : list str)          (* the harness's coding dictionary *)
       (table0 : list ztext)      (* distinct pieces of the texts below *)
       (js : outcome_of text)     (* print_js_for_operation_document through a recording SourceMapWriter *)
       (ts : option (outcome_of text)) (* print_types_for_operation_document with print_values = true (standalone-ts mode), if run *)
       (whole : text)             (* verif_hooks::print_to_json_string(&document) *)
       (ld : option (lres text))  (* the loader's emit_js on the source files (child process; LPanic = the process died), if run *)
       (names : list (list str)). (* verif_hooks::fragment_names_in_selection_set for every definition, with the printer's map *)

Definition decode_lres (dict : list str) (table : list str) (o : lres text) : lres str :=
  match o with
  | LOk ts => LOk (map (decode_text dict table) ts)
  | LErr m => LErr m
  | LPanic m => LPanic m
  | LOutOfFuel => LOutOfFuel
  end.
(** an abort of the child process carries no message *)
Definition lres_eqb (model impl : lres str) : bool :=
  match model, impl with
  | LOk x, LOk y => list_eqb str_eqb x y
  | LErr x, LErr y => str_eqb x y
  | LPanic _, LPanic _ => true
  | _, _ => false
  end.

Definition outcome_eqb (a b : outcome) : bool :=
  match a, b with
  | OOk x, OOk y => list_eqb str_eqb x y
  | OPanic x, OPanic y => str_eqb x y
  | _, _ => false
  end.

Definition model_outcome (d : opdoc) : option outcome :=
  match document_runtime_texts d with
  | Ok ts => Some (OOk ts)
  | Panic m => Some (OPanic m)
  | OutOfFuel => None
  end.

Fixpoint model_names (defs todo : list execdef) : option (list (list str)) :=
  match todo with
  | [] => Some []
  | d :: r =>
      match def_selset d with
      | None => model_names defs r
      | Some ss =>
          match fragment_names_in_selection_set defs ss, model_names defs r with
          | Some n, Some ns => Some (n :: ns)
          | _, _ => None
          end
      end
  end.

Definition agree (c : case) : bool :=
  match c with
  | CDoc _ d dict table0 js0 ts0 whole0 ld0 names =>
      let table := map (expand dict) table0 in
      let js := decode_outcome dict table js0 in
      let ts := option_map (decode_outcome dict table) ts0 in
      let whole := decode_text dict table whole0 in
      option_eqb outcome_eqb (model_outcome d) (Some js)
      && (match ts with Some t => option_eqb outcome_eqb (model_outcome d) (Some t) | None => true end)
      && str_eqb (document_text d) whole
      && (match ld0 with Some l => lres_eqb (loader_emit_js d) (decode_lres dict table l) | None => true end)
      && option_eqb (list_eqb (list_eqb str_eqb)) (model_names (od_defs d) (od_defs d)) (Some names)
  end.

(** * the property on the implementation's outputs *)

(** every emitted text reads back, as JSON and then as a graphql-js DocumentNode, to: the definition
    itself followed by exactly the fragments of the document it transitively spreads *)
Fixpoint texts_ok (doc : list adef) (todo : list adef) (texts : list str) : bool :=
  match todo, texts with
  | [], [] => true
  | x :: r, t :: ts =>
      match read_document t with
      | Some got => expected_ok doc x got && texts_ok doc r ts
      | None => false
      end
  | _, _ => false
  end.

Definition outcome_ok (doc : list adef) (o : outcome) : bool :=
  match o with
  | OOk texts => texts_ok doc doc texts
  | OPanic _ => false
  end.

Definition holds (c : case) : bool :=
  match c with
  | CDoc accepted d dict table0 js0 ts0 whole0 ld0 _ =>
      let table := map (expand dict) table0 in
      let js := decode_outcome dict table js0 in
      let ts := option_map (decode_outcome dict table) ts0 in
      let whole := decode_text dict table whole0 in
      let doc := erase_defs (od_defs d) in
      (* documents the grammar can produce (operation / fragment / inline-fragment selection sets are
         non-empty); the harness also edits ASTs into shapes outside it, for the correspondence only *)
      if negb (forallb wf_def (od_defs d)) then true else
      (* node-for-node: the whole document's JSON denotes the document *)
      (match read_document whole with Some got => leqb adef_eqb got doc | None => false end)
      (* per definition: only for documents that are accepted (by the real checker, or closed by the
         specification's own rules when the checker was not run) *)
      (* what the property needs from the real checker (enforced since /repo c67e45e): an accepted document
         has no spread of an undefined fragment anywhere, also not in a fragment no operation spreads *)
      && (if accepted then spreads_defined_b (od_defs d) else true)
      (* the loader route runs no checker: it must never abort, and for a closed document it must emit the
         runtime documents *)
      && (match option_map (decode_lres dict table) ld0 with
          | None => true
          | Some (LOk texts) => if closed_doc doc then texts_ok doc doc texts else true
          | Some (LErr _) => negb (accepted || closed_doc doc)
          | Some _ => false
          end)
      && (if accepted || closed_doc doc
          then outcome_ok doc js && (match ts with Some t => outcome_ok doc t | None => true end)
          else true)
  end.
