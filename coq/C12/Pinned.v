(** Pinned statements of the C12 property theorems: compiled on every check, so a theorem cannot be
    weakened silently. *)
From V Require Import Base.Util Gql.Ast C12.Model C12.Spec C12.Proofs2 C12.Proofs4 C12.Properties.
From V Require C03.Model C03.Spec.

Check (C12_to_json_roundtrip :
  forall ds, forallb wf_def ds = true -> toModel (JObj (document_fields ds)) = Some (erase_defs ds)).
Check (C12_to_json_roundtrip_def :
  forall d, wf_def d = true -> rd_definition (JObj (execdef_fields d)) = erase_def d).
Check (C12_closure_terminates :
  forall defs ss, exists names, fragment_names_in_selection_set defs ss = Some names).
Check (C12_closure_exact :
  forall defs ss names, fragment_names_in_selection_set defs ss = Some names ->
  NoDup names /\ forall n, In n names <-> reach (get_frag defs) ss n).
Check (C12_runtime_never_out_of_fuel :
  forall defs d, runtime_defs defs d <> OutOfFuel).
Check (C12_operation_runtime_exact :
  forall defs o,
  (forall n, reach (get_frag defs) (op_sel o) n -> get_frag defs n <> None) ->
  exists names fs,
    operation_runtime defs o = Ok (DOp o :: map DFrag fs)
    /\ Forall2 (fun n f => get_frag defs n = Some f) names fs
    /\ NoDup names
    /\ forall n, In n names <-> reach (get_frag defs) (op_sel o) n).
Check (C12_operation_runtime_panics :
  forall defs o n,
  reach (get_frag defs) (op_sel o) n -> get_frag defs n = None ->
  operation_runtime defs o = Panic msg_fragment_not_found).
Check (C12_fragment_runtime_exact :
  forall defs f,
  (forall n, reach (get_frag defs) (fr_sel f) n -> n <> iname (fr_name f) -> get_frag defs n <> None) ->
  exists names fs,
    fragment_runtime defs f = Ok (DFrag f :: map DFrag fs)
    /\ Forall2 (fun n g => get_frag defs n = Some g) names fs
    /\ NoDup names
    /\ forall n, In n names <-> (reach (get_frag defs) (fr_sel f) n /\ n <> iname (fr_name f))).
Check (C12_fragment_runtime_panics :
  forall defs f n,
  reach (get_frag defs) (fr_sel f) n -> n <> iname (fr_name f) -> get_frag defs n = None ->
  fragment_runtime defs f = Panic msg_fragment_not_found).
Check (C12_operation_document_denotes :
  forall defs o,
  In (DOp o) defs -> forallb wf_def defs = true -> spreads_defined_b defs = true ->
  exists j names fs,
    runtime_json defs (DOp o) = Ok j
    /\ toModel j = Some (erase_op o :: map erase_frag fs)
    /\ Forall2 (fun n f => get_frag defs n = Some f) names fs
    /\ NoDup names
    /\ forall n, In n names <-> reach (get_frag defs) (op_sel o) n).
Check (C12_fragment_document_denotes :
  forall defs f,
  In (DFrag f) defs -> forallb wf_def defs = true -> spreads_defined_b defs = true ->
  exists j names fs,
    runtime_json defs (DFrag f) = Ok j
    /\ toModel j = Some (erase_frag f :: map erase_frag fs)
    /\ Forall2 (fun n g => get_frag defs n = Some g) names fs
    /\ NoDup names
    /\ forall n, In n names <-> (reach (get_frag defs) (fr_sel f) n /\ n <> iname (fr_name f))).
Check (C12_get_frag_iff :
  forall defs n f,
  NoDup (keys defs) -> (get_frag defs n = Some f <-> In (DFrag f) defs /\ iname (fr_name f) = n)).
Check (C12_guard_necessary :
  exists defs f,
    In (DFrag f) defs
    /\ (forall o n, In (DOp o) defs -> ~ reach (get_frag defs) (op_sel o) n)
    /\ runtime_defs defs (DFrag f) = Panic msg_fragment_not_found
    /\ document_runtime_texts (mkOpDoc pos0 defs) = Panic msg_fragment_not_found).
Check (C12_parse_ser :
  forall j, no_num j = true -> jparse (ser j) = Some j).
Check (C12_printer_builds_no_numbers :
  forall ds, no_num (JObj (document_fields ds)) = true).
Check (C12_text_roundtrip :
  forall ds, forallb wf_def ds = true ->
  read_document (print_to_json_string (document_fields ds)) = Some (erase_defs ds)).
Check (C12_operation_text_denotes :
  forall defs o,
  In (DOp o) defs -> forallb wf_def defs = true -> spreads_defined_b defs = true ->
  exists t names fs,
    runtime_text defs (DOp o) = Ok t
    /\ read_document t = Some (erase_op o :: map erase_frag fs)
    /\ Forall2 (fun n f => get_frag defs n = Some f) names fs
    /\ NoDup names
    /\ forall n, In n names <-> reach (get_frag defs) (op_sel o) n).
Check (C12_fragment_text_denotes :
  forall defs f,
  In (DFrag f) defs -> forallb wf_def defs = true -> spreads_defined_b defs = true ->
  exists t names fs,
    runtime_text defs (DFrag f) = Ok t
    /\ read_document t = Some (erase_frag f :: map erase_frag fs)
    /\ Forall2 (fun n g => get_frag defs n = Some g) names fs
    /\ NoDup names
    /\ forall n, In n names <-> (reach (get_frag defs) (fr_sel f) n /\ n <> iname (fr_name f))).
Check (C12_document_texts_total :
  forall d,
  forallb wf_def (od_defs d) = true -> spreads_defined_b (od_defs d) = true ->
  exists ts, document_runtime_texts d = Ok ts /\ length ts = length (od_defs d)).
Check (C12_accepted_document_denotes :
  forall (check : list execdef -> bool),
  (forall defs, check defs = true -> spreads_defined_b defs = true) ->
  forall d,
    check (od_defs d) = true -> forallb wf_def (od_defs d) = true ->
    (exists ts, document_runtime_texts d = Ok ts /\ length ts = length (od_defs d))
    /\ (forall o, In (DOp o) (od_defs d) ->
         exists t names fs,
           runtime_text (od_defs d) (DOp o) = Ok t
           /\ read_document t = Some (erase_op o :: map erase_frag fs)
           /\ Forall2 (fun n f => get_frag (od_defs d) n = Some f) names fs
           /\ NoDup names
           /\ forall n, In n names <-> reach (get_frag (od_defs d)) (op_sel o) n)
    /\ (forall f, In (DFrag f) (od_defs d) ->
         exists t names fs,
           runtime_text (od_defs d) (DFrag f) = Ok t
           /\ read_document t = Some (erase_frag f :: map erase_frag fs)
           /\ Forall2 (fun n g => get_frag (od_defs d) n = Some g) names fs
           /\ NoDup names
           /\ forall n, In n names <-> (reach (get_frag (od_defs d)) (fr_sel f) n /\ n <> iname (fr_name f)))).
Check (C12_accepted_spreads_defined :
  forall S D,
  C03.Spec.schema_wf S = true -> C03.Model.check_operation_document S D = [] ->
  spreads_defined_b (od_defs D) = true).
Check (C12_checked_document_denotes :
  forall S D,
  C03.Spec.schema_wf S = true -> C03.Model.check_operation_document S D = [] ->
  forallb wf_def (od_defs D) = true ->
  (exists ts, document_runtime_texts D = Ok ts /\ length ts = length (od_defs D))
  /\ (forall o, In (DOp o) (od_defs D) ->
       exists t names fs,
         runtime_text (od_defs D) (DOp o) = Ok t
         /\ read_document t = Some (erase_op o :: map erase_frag fs)
         /\ Forall2 (fun n f => get_frag (od_defs D) n = Some f) names fs
         /\ NoDup names
         /\ forall n, In n names <-> reach (get_frag (od_defs D)) (op_sel o) n)
  /\ (forall f, In (DFrag f) (od_defs D) ->
       exists t names fs,
         runtime_text (od_defs D) (DFrag f) = Ok t
         /\ read_document t = Some (erase_frag f :: map erase_frag fs)
         /\ Forall2 (fun n g => get_frag (od_defs D) n = Some g) names fs
         /\ NoDup names
         /\ forall n, In n names <-> (reach (get_frag (od_defs D)) (fr_sel f) n /\ n <> iname (fr_name f)))).
Check (C12_loader_emit_js_spec :
  forall d,
  (exists ts, loader_emit_js d = LOk ts /\ document_runtime_texts d = Ok ts
              /\ spreads_defined_b (od_defs d) = true)
  \/ (exists n, loader_emit_js d = LErr (msg_fragment_not_defined n)
               /\ spreads_defined_b (od_defs d) = false
               /\ exists x ss, In x (od_defs d) /\ def_selset x = Some ss /\ In n (spreads_of ss)
                               /\ get_frag (od_defs d) n = None)).
Check (C12_loader_emit_js_never_panics :
  forall d m, loader_emit_js d <> LPanic m /\ loader_emit_js d <> LOutOfFuel).
Print Assumptions C12_to_json_roundtrip.
Print Assumptions C12_to_json_roundtrip_def.
Print Assumptions C12_closure_terminates.
Print Assumptions C12_closure_exact.
Print Assumptions C12_runtime_never_out_of_fuel.
Print Assumptions C12_operation_runtime_exact.
Print Assumptions C12_operation_runtime_panics.
Print Assumptions C12_fragment_runtime_exact.
Print Assumptions C12_fragment_runtime_panics.
Print Assumptions C12_operation_document_denotes.
Print Assumptions C12_fragment_document_denotes.
Print Assumptions C12_get_frag_iff.
Print Assumptions C12_guard_necessary.
Print Assumptions C12_parse_ser.
Print Assumptions C12_printer_builds_no_numbers.
Print Assumptions C12_text_roundtrip.
Print Assumptions C12_operation_text_denotes.
Print Assumptions C12_fragment_text_denotes.
Print Assumptions C12_document_texts_total.
Print Assumptions C12_accepted_document_denotes.
Print Assumptions C12_accepted_spreads_defined.
Print Assumptions C12_checked_document_denotes.
Print Assumptions C12_loader_emit_js_spec.
Print Assumptions C12_loader_emit_js_never_panics.
