(** C12 — proofs, part 2: the fragment closure ([fragment_names_in_selection_set]) terminates and computes
    exactly the set of transitively spread names, each once; the runtime documents are the definition
    followed by exactly those fragments. *)
From V Require Import Base.Util Gql.Ast C12.Model C12.Spec C12.Proofs1.

(** * The walk over one selection set is a fold over its spreads, in order *)

Fixpoint fold_opt (f : str -> list str -> option (list str)) (l : list str) (names : list str)
  : option (list str) :=
  match l with
  | [] => Some names
  | n :: r => match f n names with Some names' => fold_opt f r names' | None => None end
  end.

Definition visit (jump : str -> list str -> option (list str)) (n : str) (names : list str) : option (list str) :=
  if mem n names then Some names else jump n (names ++ [n]).

Lemma fold_opt_app f a b names :
  fold_opt f (a ++ b) names = match fold_opt f a names with Some n' => fold_opt f b n' | None => None end.
Proof.
  revert names. induction a as [|x a IH]; intros names; cbn [app fold_opt]; [reflexivity|].
  destruct (f x names); [apply IH|reflexivity].
Qed.

Lemma walk_flat jump :
  forall ss names, walk_set jump ss names = fold_opt (visit jump) (spreads_of ss) names.
Proof.
  apply (selset_ind'
           (fun x => forall names, walk_sel jump x names = fold_opt (visit jump) (spreads_sel x) names)
           (fun ss => forall names, walk_set jump ss names = fold_opt (visit jump) (spreads_of ss) names)).
  - intros al n ar d [ss|] IH names; [|reflexivity].
    change (walk_sel jump (SField al n ar d (Some ss)) names) with (walk_set jump ss names).
    replace (spreads_sel (SField al n ar d (Some ss))) with (spreads_of ss) by (destruct ss; reflexivity).
    apply IH.
  - intros p n d names. cbn [walk_sel spreads_sel fold_opt]. unfold visit.
    destruct (mem (iname n) names); [reflexivity|]. destruct (jump _ _); reflexivity.
  - intros p c d ss IH names.
    change (walk_sel jump (SInline p c d ss) names) with (walk_set jump ss names).
    replace (spreads_sel (SInline p c d ss)) with (spreads_of ss) by (destruct ss; reflexivity).
    apply IH.
  - intros p sels IH. unfold spreads_of. cbn [selset_sels walk_set].
    induction IH as [|x r Hx _ IHr]; intros names; cbn [flat_map fold_opt]; [reflexivity|].
    rewrite fold_opt_app, Hx. destruct (fold_opt (visit jump) (spreads_sel x) names); [apply IHr|reflexivity].
Qed.

(** * The closure as a depth-first search over names *)

Definition jump_of (get : str -> option fragdef) (fuel : nat) (n : str) (names' : list str) : option (list str) :=
  match get n with
  | None => Some names'
  | Some f => match fuel with
              | O => None
              | S fu => fnames get fu (fr_sel f) names'
              end
  end.

Definition dfs (get : str -> option fragdef) (fuel : nat) (todo : list str) (names : list str) : option (list str) :=
  fold_opt (visit (jump_of get fuel)) todo names.

Lemma fnames_dfs get fuel ss names : fnames get fuel ss names = dfs get fuel (spreads_of ss) names.
Proof.
  unfold dfs. rewrite <- walk_flat. destruct fuel; reflexivity.
Qed.

Definition succs (get : str -> option fragdef) (n : str) : list str :=
  match get n with Some f => spreads_of (fr_sel f) | None => [] end.

Lemma mem_In n l : mem n l = true <-> In n l.
Proof.
  unfold mem. rewrite existsb_exists. split.
  - intros [x [Hx He]]. destruct (str_eqb_spec n x); [subst; assumption|discriminate].
  - intros H. exists n. split; [assumption|apply str_eqb_refl].
Qed.

Lemma mem_false n l : mem n l = false <-> ~ In n l.
Proof. rewrite <- mem_In. destruct (mem n l); split; congruence. Qed.

Lemma dfs_nil get fuel names : dfs get fuel [] names = Some names.
Proof. reflexivity. Qed.

Lemma dfs_cons get fuel n r names :
  dfs get fuel (n :: r) names =
  if mem n names then dfs get fuel r names
  else match get n with
       | None => dfs get fuel r (names ++ [n])
       | Some f =>
           match fuel with
           | O => None
           | S fu => match dfs get fu (spreads_of (fr_sel f)) (names ++ [n]) with
                     | Some names2 => dfs get fuel r names2
                     | None => None
                     end
           end
       end.
Proof.
  unfold dfs at 1. cbn [fold_opt]. unfold visit at 1.
  destruct (mem n names); [reflexivity|].
  unfold jump_of at 1. destruct (get n) as [f|]; [|reflexivity].
  destruct fuel as [|fu]; [reflexivity|]. rewrite fnames_dfs. reflexivity.
Qed.

Lemma reach_from_mono get a b n : incl a b -> reach_from get a n -> reach_from get b n.
Proof.
  intros Hi H. induction H as [n Hn|m f n _ IH Hg Hn]; [apply reach_direct, Hi, Hn|].
  eapply reach_step; eassumption.
Qed.

Lemma reach_from_succ get start m f n :
  reach_from get start m -> get m = Some f -> reach_from get (spreads_of (fr_sel f)) n -> reach_from get start n.
Proof.
  intros Hm Hg H. induction H as [n Hn|k g n _ IH Hk Hn].
  - eapply reach_step; eassumption.
  - eapply reach_step; eassumption.
Qed.

(** what one search returns *)
Record dfs_post (get : str -> option fragdef) (todo names names' : list str) : Prop := {
  post_ext : exists extra, names' = names ++ extra;
  post_todo : forall n, In n todo -> In n names';
  post_closed : forall n, In n names' -> ~ In n names -> forall m, In m (succs get n) -> In m names';
  post_sound : forall n, In n names' -> ~ In n names -> reach_from get todo n;
  post_nodup : NoDup names -> NoDup names'
}.

Lemma NoDup_snoc (l : list str) n : NoDup l -> ~ In n l -> NoDup (l ++ [n]).
Proof.
  intros Hl Hn. induction Hl as [|x l Hx Hl IH]; cbn [app].
  - constructor; [intros []|constructor].
  - constructor.
    + rewrite in_app_iff. intros [H|[H|[]]]; [contradiction|]. subst. apply Hn. now left.
    + apply IH. intros H. apply Hn. now right.
Qed.

Lemma dfs_spec get fuel : forall todo names names',
  dfs get fuel todo names = Some names' -> dfs_post get todo names names'.
Proof.
  induction fuel as [|fu IHf]; (induction todo as [|n r IHr]; intros names names' H;
    [rewrite dfs_nil in H; injection H as <-; constructor;
       [exists []; now rewrite app_nil_r|intros ? []|intros; contradiction|intros; contradiction|auto]|]);
    rewrite dfs_cons in H.
  - (* fuel 0 *)
    destruct (mem n names) eqn:Hm.
    + apply IHr in H. destruct H as [He Ht Hc Hs Hn]. constructor; auto.
      * intros x [<-|Hx]; [|auto]. apply mem_In in Hm. destruct He as [e ->]. apply in_or_app. now left.
      * intros x Hx Hnx. eapply reach_from_mono; [|apply Hs; assumption]. intros y Hy. now right.
    + destruct (get n) as [f|] eqn:Hg; [discriminate|].
      apply IHr in H. destruct H as [[e He] Ht Hc Hs Hn]. apply mem_false in Hm.
      assert (Hin : In n names') by (subst; rewrite !in_app_iff; cbn; tauto).
      constructor.
      * exists ([n] ++ e). now rewrite app_assoc.
      * intros x [<-|Hx]; auto.
      * intros x Hx Hnx m Hmx. destruct (str_eqb_spec x n) as [->|Hne].
        -- unfold succs in Hmx. rewrite Hg in Hmx. contradiction.
        -- apply (Hc x Hx); [|assumption]. rewrite in_app_iff. cbn. intros [?|[?|[]]]; congruence.
      * intros x Hx Hnx. destruct (str_eqb_spec x n) as [->|Hne]; [apply reach_direct; now left|].
        eapply reach_from_mono; [|apply Hs; [assumption|]].
        -- intros y Hy. now right.
        -- rewrite in_app_iff. cbn. intros [?|[?|[]]]; congruence.
      * intros Hnd. apply Hn, NoDup_snoc; assumption.
  - (* fuel S fu *)
    destruct (mem n names) eqn:Hm.
    + apply IHr in H. destruct H as [He Ht Hc Hs Hn]. constructor; auto.
      * intros x [<-|Hx]; [|auto]. apply mem_In in Hm. destruct He as [e ->]. apply in_or_app. now left.
      * intros x Hx Hnx. eapply reach_from_mono; [|apply Hs; assumption]. intros y Hy. now right.
    + apply mem_false in Hm. destruct (get n) as [f|] eqn:Hg.
      * destruct (dfs get fu (spreads_of (fr_sel f)) (names ++ [n])) as [names2|] eqn:H2; [|discriminate].
        apply IHf in H2. destruct H2 as [[e2 He2] Ht2 Hc2 Hs2 Hn2].
        apply IHr in H. destruct H as [[e He] Ht Hc Hs Hn].
        assert (Hin2 : In n names2) by (subst names2; rewrite !in_app_iff; cbn; tauto).
        assert (Hsub : forall y, In y names2 -> In y names') by (intros y Hy; subst names'; apply in_or_app; now left).
        constructor.
        -- exists ([n] ++ e2 ++ e). subst. now rewrite !app_assoc.
        -- intros x [<-|Hx]; auto.
        -- intros x Hx Hnx m Hmx.
           destruct (in_dec (list_eq_dec N.eq_dec) x names2) as [Hx2|Hx2].
           ++ destruct (str_eqb_spec x n) as [->|Hne].
              ** apply Hsub, Ht2. unfold succs in Hmx. now rewrite Hg in Hmx.
              ** apply Hsub. apply (Hc2 x Hx2); [|assumption].
                 rewrite in_app_iff. cbn. intros [?|[?|[]]]; congruence.
           ++ apply (Hc x Hx Hx2 m Hmx).
        -- intros x Hx Hnx.
           destruct (in_dec (list_eq_dec N.eq_dec) x names2) as [Hx2|Hx2].
           ++ destruct (str_eqb_spec x n) as [->|Hne]; [apply reach_direct; now left|].
              apply (reach_from_succ get (n :: r) n f); [apply reach_direct; now left|assumption|].
              apply Hs2; [assumption|]. rewrite in_app_iff. cbn. intros [?|[?|[]]]; congruence.
           ++ eapply reach_from_mono; [|apply Hs; assumption]. intros y Hy. now right.
        -- intros Hnd. apply Hn, Hn2, NoDup_snoc; assumption.
      * apply IHr in H. destruct H as [[e He] Ht Hc Hs Hn].
        assert (Hin : In n names') by (subst; rewrite !in_app_iff; cbn; tauto).
        constructor.
        -- exists ([n] ++ e). now rewrite app_assoc.
        -- intros x [<-|Hx]; auto.
        -- intros x Hx Hnx m Hmx. destruct (str_eqb_spec x n) as [->|Hne].
           ++ unfold succs in Hmx. rewrite Hg in Hmx. contradiction.
           ++ apply (Hc x Hx); [|assumption]. rewrite in_app_iff. cbn. intros [?|[?|[]]]; congruence.
        -- intros x Hx Hnx. destruct (str_eqb_spec x n) as [->|Hne]; [apply reach_direct; now left|].
           eapply reach_from_mono; [|apply Hs; [assumption|]].
           ++ intros y Hy. now right.
           ++ rewrite in_app_iff. cbn. intros [?|[?|[]]]; congruence.
        -- intros Hnd. apply Hn, NoDup_snoc; assumption.
Qed.

(** started from nothing, the search returns exactly the reachable names, each once *)
Theorem dfs_exact get fuel todo names' :
  dfs get fuel todo [] = Some names' ->
  NoDup names' /\ forall n, In n names' <-> reach_from get todo n.
Proof.
  intros H. apply dfs_spec in H. destruct H as [_ Ht Hc Hs Hn]. split; [apply Hn; constructor|].
  intros n; split.
  - intros Hin. apply Hs; [assumption|intros []].
  - intros Hr. induction Hr as [n Hn'|m f n _ IH Hg Hn']; [auto|].
    apply (Hc m IH); [intros []|]. unfold succs. now rewrite Hg.
Qed.

(** * Enough fuel *)

Definition keys (defs : list execdef) : list str :=
  flat_map (fun d => match d with DFrag f => [iname (fr_name f)] | _ => [] end) defs.

Lemma length_keys defs : length (keys defs) = frag_count defs.
Proof.
  unfold keys, frag_count. induction defs as [|d r IH]; [reflexivity|].
  destruct d; cbn [flat_map filter app length]; now rewrite ?IH.
Qed.

Lemma get_frag_acc defs n : forall acc f,
  fold_left (fun acc d => match d with
                          | DFrag f => if str_eqb (iname (fr_name f)) n then Some f else acc
                          | _ => acc
                          end) defs acc = Some f ->
  acc = Some f \/ (In (DFrag f) defs /\ iname (fr_name f) = n).
Proof.
  induction defs as [|d r IH]; intros acc f H; cbn [fold_left] in H; [now left|].
  apply IH in H. destruct H as [H|[H1 H2]]; [|right; split; [now right|assumption]].
  destruct d as [o|g|i]; [now left| |now left].
  destruct (str_eqb_spec (iname (fr_name g)) n) as [E|E]; [|now left].
  injection H as <-. right. split; [now left|assumption].
Qed.

Lemma get_frag_some defs n f :
  get_frag defs n = Some f -> In (DFrag f) defs /\ iname (fr_name f) = n.
Proof. intros H. apply get_frag_acc in H. destruct H as [H|H]; [discriminate|assumption]. Qed.

Lemma get_frag_key defs n f : get_frag defs n = Some f -> In n (keys defs).
Proof.
  intros H. apply get_frag_some in H. destruct H as [H <-]. unfold keys. apply in_flat_map.
  exists (DFrag f). split; [assumption|now left].
Qed.

Lemma get_frag_keep n r : forall acc,
  ~ In n (keys r) ->
  fold_left (fun acc d => match d with
                          | DFrag f => if str_eqb (iname (fr_name f)) n then Some f else acc
                          | _ => acc
                          end) r acc = acc.
Proof.
  induction r as [|d r IH]; intros acc Hn; [reflexivity|]. cbn [fold_left].
  destruct d as [o|g|i]; cbn [keys flat_map app] in Hn; try (apply IH; exact Hn).
  destruct (str_eqb_spec (iname (fr_name g)) n) as [E|E].
  - exfalso. apply Hn. left. exact E.
  - apply IH. intros H. apply Hn. right. exact H.
Qed.

(** with unique fragment names the map returns the definition itself *)
Lemma get_frag_unique defs f :
  NoDup (keys defs) -> In (DFrag f) defs -> get_frag defs (iname (fr_name f)) = Some f.
Proof.
  unfold get_frag. generalize (@None fragdef) as acc.
  induction defs as [|d r IH]; intros acc Hnd Hin; [contradiction|].
  cbn [fold_left]. destruct Hin as [->|Hin].
  - rewrite str_eqb_refl. cbn [keys flat_map app] in Hnd. inversion Hnd as [|x l Hx Hl]; subst.
    apply get_frag_keep. exact Hx.
  - apply IH; [|assumption]. destruct d; cbn [keys flat_map app] in Hnd; try assumption.
    inversion Hnd; assumption.
Qed.

(** a name some fragment definition has is in the map *)
Lemma get_frag_acc_some defs n : forall acc,
  acc <> None ->
  fold_left (fun acc d => match d with
                          | DFrag f => if str_eqb (iname (fr_name f)) n then Some f else acc
                          | _ => acc
                          end) defs acc <> None.
Proof.
  induction defs as [|d r IH]; intros acc Ha; [exact Ha|]. cbn [fold_left]. apply IH.
  destruct d as [o|f|i]; try exact Ha. destruct (str_eqb _ _); [discriminate|exact Ha].
Qed.

Lemma get_frag_defined_acc defs f : forall acc,
  In (DFrag f) defs ->
  fold_left (fun acc d => match d with
                          | DFrag g => if str_eqb (iname (fr_name g)) (iname (fr_name f)) then Some g else acc
                          | _ => acc
                          end) defs acc <> None.
Proof.
  induction defs as [|d r IH]; intros acc Hin; [contradiction|]. cbn [fold_left].
  destruct Hin as [->|Hin]; [|apply IH, Hin].
  rewrite str_eqb_refl. apply get_frag_acc_some. discriminate.
Qed.

Lemma get_frag_defined defs f : In (DFrag f) defs -> get_frag defs (iname (fr_name f)) <> None.
Proof. intros H. unfold get_frag. now apply get_frag_defined_acc. Qed.

Definition undone (U names : list str) : nat := length (filter (fun k => negb (mem k names)) U).

Lemma undone_mono U names names' : incl names names' -> undone U names' <= undone U names.
Proof.
  intros Hi. unfold undone. induction U as [|k U IH]; cbn [filter]; [lia|].
  destruct (mem k names') eqn:H'; destruct (mem k names) eqn:H; cbn [negb length]; try lia.
  apply mem_In in H. apply Hi in H. apply mem_In in H. congruence.
Qed.

Lemma undone_snoc U names n : In n U -> ~ In n names -> undone U (names ++ [n]) < undone U names.
Proof.
  intros Hu Hn. unfold undone. induction U as [|k U IH]; [contradiction|].
  assert (Hle : length (filter (fun k => negb (mem k (names ++ [n]))) U) <= length (filter (fun k => negb (mem k names)) U))
    by (apply (undone_mono U names (names ++ [n])); intros y Hy; apply in_or_app; now left).
  cbn [filter]. destruct Hu as [->|Hu].
  - assert (H1 : mem n (names ++ [n]) = true) by (apply mem_In, in_or_app; right; now left).
    assert (H2 : mem n names = false) by (now apply mem_false).
    rewrite H1, H2. cbn [negb length]. lia.
  - specialize (IH Hu).
    destruct (mem k (names ++ [n])) eqn:H'; destruct (mem k names) eqn:H; cbn [negb length]; try lia.
    apply mem_In in H. apply mem_false in H'. exfalso. apply H', in_or_app. now left.
Qed.

Lemma dfs_total get U (HU : forall n f, get n = Some f -> In n U) : forall fuel todo names,
  undone U names < fuel -> exists names', dfs get fuel todo names = Some names'.
Proof.
  induction fuel as [|fu IHf]; [intros; lia|].
  induction todo as [|n r IHr]; intros names Hlt; [eexists; apply dfs_nil|].
  rewrite dfs_cons. destruct (mem n names) eqn:Hm; [apply IHr, Hlt|]. apply mem_false in Hm.
  destruct (get n) as [f|] eqn:Hg.
  - assert (Hs := undone_snoc U names n (HU n f Hg) Hm).
    destruct (IHf (spreads_of (fr_sel f)) (names ++ [n])) as [names2 H2]; [lia|].
    rewrite H2. apply dfs_spec in H2. destruct H2 as [[e He] _ _ _ _].
    apply IHr. assert (undone U names2 <= undone U (names ++ [n])); [|lia].
    apply undone_mono. subst names2. intros y Hy. apply in_or_app. now left.
  - apply IHr. assert (undone U (names ++ [n]) <= undone U names); [|lia].
    apply undone_mono. intros y Hy. apply in_or_app. now left.
Qed.

Theorem closure_terminates defs ss :
  exists names, fragment_names_in_selection_set defs ss = Some names.
Proof.
  unfold fragment_names_in_selection_set. rewrite fnames_dfs.
  apply (dfs_total (get_frag defs) (keys defs)); [apply get_frag_key|].
  unfold undone, closure_fuel. rewrite <- length_keys.
  assert (H : forall (g : str -> bool) l, length (filter g l) <= length l).
  { intros g l. induction l as [|x l IH]; cbn [filter length]; [lia|]. destruct (g x); cbn [length]; lia. }
  specialize (H (fun k => negb (mem k [])) (keys defs)). lia.
Qed.

Theorem closure_exact defs ss names :
  fragment_names_in_selection_set defs ss = Some names ->
  NoDup names /\ forall n, In n names <-> reach (get_frag defs) ss n.
Proof.
  unfold fragment_names_in_selection_set. rewrite fnames_dfs. apply dfs_exact.
Qed.

(** * The runtime documents *)

Lemma lookup_all_Forall2 get names fs :
  lookup_all get names = Some fs <-> Forall2 (fun n f => get n = Some f) names fs.
Proof.
  revert fs. induction names as [|n r IH]; intros fs; cbn [lookup_all].
  - split; [intros [= <-]; constructor|intros H; inversion H; reflexivity].
  - destruct (get n) as [f|] eqn:Hg.
    + destruct (lookup_all get r) as [fs'|] eqn:Hl.
      * split.
        -- intros [= <-]. constructor; [assumption|]. now apply IH.
        -- intros H. inversion H as [|? ? ? ? H1 H2]; subst. apply IH in H2. congruence.
      * split; [discriminate|]. intros H. inversion H as [|? ? ? ? H1 H2]; subst. apply IH in H2. discriminate.
    + split; [discriminate|]. intros H. inversion H; congruence.
Qed.

Lemma lookup_all_total get names :
  (forall n, In n names -> get n <> None) -> exists fs, lookup_all get names = Some fs.
Proof.
  induction names as [|n r IH]; intros H; cbn [lookup_all]; [eexists; reflexivity|].
  destruct (get n) as [f|] eqn:Hg; [|exfalso; apply (H n); [now left|assumption]].
  destruct IH as [fs ->]; [intros m Hm; apply H; now right|]. eexists; reflexivity.
Qed.

Lemma lookup_all_none get names n :
  In n names -> get n = None -> lookup_all get names = None.
Proof.
  induction names as [|m r IH]; intros Hin Hg; [contradiction|]. cbn [lookup_all].
  destruct Hin as [->|Hin]; [now rewrite Hg|].
  destruct (get m); [|reflexivity]. now rewrite (IH Hin Hg).
Qed.

(** an operation's document: the operation, then exactly the defined fragments it transitively spreads *)
Theorem operation_runtime_exact defs o :
  (forall n, reach (get_frag defs) (op_sel o) n -> get_frag defs n <> None) ->
  exists names fs,
    operation_runtime defs o = Ok (DOp o :: map DFrag fs)
    /\ Forall2 (fun n f => get_frag defs n = Some f) names fs
    /\ NoDup names
    /\ forall n, In n names <-> reach (get_frag defs) (op_sel o) n.
Proof.
  intros Hdef. unfold operation_runtime.
  destruct (closure_terminates defs (op_sel o)) as [names Hn]. rewrite Hn.
  destruct (closure_exact _ _ _ Hn) as [Hnd Hiff].
  destruct (lookup_all_total (get_frag defs) names) as [fs Hfs]; [intros n Hin; apply Hdef, Hiff, Hin|].
  rewrite Hfs. exists names, fs.
  split; [reflexivity|]. split; [now apply lookup_all_Forall2|]. split; assumption.
Qed.

Theorem operation_runtime_panics defs o n :
  reach (get_frag defs) (op_sel o) n -> get_frag defs n = None ->
  operation_runtime defs o = Panic msg_fragment_not_found.
Proof.
  intros Hr Hg. unfold operation_runtime.
  destruct (closure_terminates defs (op_sel o)) as [names Hn]. rewrite Hn.
  destruct (closure_exact _ _ _ Hn) as [_ Hiff].
  now rewrite (lookup_all_none _ names n (proj2 (Hiff n) Hr) Hg).
Qed.

(** a fragment's document: the fragment, then exactly the other defined fragments it transitively spreads *)
Theorem fragment_runtime_exact defs f :
  (forall n, reach (get_frag defs) (fr_sel f) n -> n <> iname (fr_name f) -> get_frag defs n <> None) ->
  exists names fs,
    fragment_runtime defs f = Ok (DFrag f :: map DFrag fs)
    /\ Forall2 (fun n g => get_frag defs n = Some g) names fs
    /\ NoDup names
    /\ forall n, In n names <-> (reach (get_frag defs) (fr_sel f) n /\ n <> iname (fr_name f)).
Proof.
  intros Hdef. unfold fragment_runtime.
  destruct (closure_terminates defs (fr_sel f)) as [names Hn]. rewrite Hn.
  destruct (closure_exact _ _ _ Hn) as [Hnd Hiff].
  set (keep := fun n => negb (str_eqb n (iname (fr_name f)))).
  assert (Hk : forall n, In n (filter keep names) <-> reach (get_frag defs) (fr_sel f) n /\ n <> iname (fr_name f)).
  { intros n. rewrite filter_In, Hiff. unfold keep.
    destruct (str_eqb_spec n (iname (fr_name f))); cbn [negb]; split; intros [H1 H2]; split; congruence. }
  destruct (lookup_all_total (get_frag defs) (filter keep names)) as [fs Hfs].
  { intros n Hin. apply Hk in Hin. destruct Hin. now apply Hdef. }
  rewrite Hfs. exists (filter keep names), fs.
  split; [reflexivity|]. split; [now apply lookup_all_Forall2|]. split; [now apply NoDup_filter|exact Hk].
Qed.

Theorem fragment_runtime_panics defs f n :
  reach (get_frag defs) (fr_sel f) n -> n <> iname (fr_name f) -> get_frag defs n = None ->
  fragment_runtime defs f = Panic msg_fragment_not_found.
Proof.
  intros Hr Hne Hg. unfold fragment_runtime.
  destruct (closure_terminates defs (fr_sel f)) as [names Hn]. rewrite Hn.
  destruct (closure_exact _ _ _ Hn) as [_ Hiff].
  rewrite (lookup_all_none _ _ n); [reflexivity| |assumption].
  apply filter_In. split; [now apply Hiff|]. destruct (str_eqb_spec n (iname (fr_name f))); [contradiction|reflexivity].
Qed.

Theorem runtime_never_out_of_fuel defs d : runtime_defs defs d <> OutOfFuel.
Proof.
  destruct d as [o|f|i]; cbn [runtime_defs]; [| |discriminate].
  - unfold operation_runtime. destruct (closure_terminates defs (op_sel o)) as [names ->].
    destruct (lookup_all _ _); discriminate.
  - unfold fragment_runtime. destruct (closure_terminates defs (fr_sel f)) as [names ->].
    destruct (lookup_all _ _); discriminate.
Qed.
