(** C12 — specification side (definitions only), written from the property text, the GraphQL
    specification's abstract syntax and graphql-js's [language/ast.ts], not from nitrogql's printer:

    - abstract executable documents without positions ([adef]) and the erasure of a parsed document;
    - [jparse]: a reader of JSON text (RFC 8259 grammar: white space, strings with all escapes and
      surrogate pairs, literals, numbers kept as lexemes, arrays, objects);
    - [toModel]: an independent reader of the graphql-js AST shape (objects read by key, last duplicate
      wins as in JavaScript, unknown keys ignored, optional arrays default to empty as graphql-js's own
      visitors treat them);
    - [spreads_of], [reach]: "transitively spread from";
    - [expected_ok]: the property's right-hand side, as a predicate on what the reader returns. *)
From V Require Import Base.Util Gql.Ast C12.Model.

(** * Abstract documents *)

Inductive aty := ANamed (n : str) | ANonNull (t : aty) | AList (t : aty).

Inductive aval :=
| AVar (n : str)
| AInt (lexeme : str)
| AFloat (lexeme : str)
| AStr (v : str)
| ABool (b : bool)
| ANull
| AEnum (v : str)
| AListV (vs : list aval)
| AObjV (fs : list (str * aval)).

Definition aargs := list (str * aval).
Record adir := mkADir { ad_name : str; ad_args : aargs }.

(** a field without sub-selection has [sub = []] (a selection set is never empty in the grammar) *)
Inductive asel :=
| AField (alias : option str) (name : str) (args : aargs) (dirs : list adir) (sub : list asel)
| ASpread (name : str) (dirs : list adir)
| AInline (cond : option str) (dirs : list adir) (sub : list asel).

Record avardef := mkAVar { av_name : str; av_type : aty; av_default : option aval; av_dirs : list adir }.

Inductive adef :=
| AOp (t : optype) (name : option str) (vars : list avardef) (dirs : list adir) (sel : list asel)
| AFrag (name : str) (cond : str) (dirs : list adir) (sel : list asel).

(** * Erasure of positions (and of the syntactic distinction "no parentheses" / "empty list") *)

Fixpoint erase_ty (t : ty) : aty :=
  match t with
  | TNamed n => ANamed (iname n)
  | TNonNull i => ANonNull (erase_ty i)
  | TList _ i => AList (erase_ty i)
  end.

Fixpoint erase_value (v : value) : aval :=
  match v with
  | VVar n _ => AVar n
  | VInt _ l => AInt l
  | VFloat _ l => AFloat l
  | VString _ x => AStr x
  | VBool _ b => ABool b
  | VNull _ => ANull
  | VEnum _ x => AEnum x
  | VList _ vs => AListV (map erase_value vs)
  | VObject _ fs => AObjV (map (fun kv => match kv with (k, x) => (iname k, erase_value x) end) fs)
  end.

Definition erase_args (a : option arguments) : aargs :=
  map (fun kv => (iname (fst kv), erase_value (snd kv))) (match a with Some x => args_list x | None => [] end).
Definition erase_dir (d : directive) : adir := mkADir (iname (dir_name d)) (erase_args (dir_args d)).
Definition erase_dirs (ds : list directive) : list adir := map erase_dir ds.

Fixpoint erase_sel (x : selection) : asel :=
  match x with
  | SField alias name args dirs sel =>
      AField (option_map iname alias) (iname name) (erase_args args) (erase_dirs dirs)
             (match sel with Some (SelSet _ sels) => map erase_sel sels | None => [] end)
  | SSpread _ name dirs => ASpread (iname name) (erase_dirs dirs)
  | SInline _ cond dirs (SelSet _ sels) => AInline (option_map iname cond) (erase_dirs dirs) (map erase_sel sels)
  end.
Definition erase_selset (ss : selset) : list asel := map erase_sel (selset_sels ss).

Definition erase_vardef (v : vardef) : avardef :=
  mkAVar (vd_name v) (erase_ty (vd_type v)) (option_map erase_value (vd_default v)) (erase_dirs (vd_dirs v)).

Definition erase_op (o : opdef) : adef :=
  AOp (op_type o) (option_map iname (op_name o))
      (map erase_vardef (match op_vars o with Some d => vds_list d | None => [] end))
      (erase_dirs (op_dirs o)) (erase_selset (op_sel o)).
Definition erase_frag (f : fragdef) : adef :=
  AFrag (iname (fr_name f)) (iname (fr_cond f)) (erase_dirs (fr_dirs f)) (erase_selset (fr_sel f)).

Definition erase_def (d : execdef) : option adef :=
  match d with
  | DOp o => Some (erase_op o)
  | DFrag f => Some (erase_frag f)
  | DImport _ => None
  end.

Fixpoint erase_defs (ds : list execdef) : list adef :=
  match ds with
  | [] => []
  | d :: r => match erase_def d with Some a => a :: erase_defs r | None => erase_defs r end
  end.

(** * Well-formedness the grammar guarantees (SelectionSet = "{" Selection+ "}")

    [to_json.rs] writes no "selectionSet" key for an empty selection set; for a field that is the same as
    having none, but an operation, a fragment or an inline fragment without one is not a graphql-js node.
    The round-trip theorem is stated for definitions whose operation / fragment / inline-fragment
    selection sets are non-empty, which is every definition the parser can produce. *)
Fixpoint wf_sel (x : selection) : bool :=
  match x with
  | SField _ _ _ _ (Some (SelSet _ sels)) => forallb wf_sel sels
  | SField _ _ _ _ None => true
  | SSpread _ _ _ => true
  | SInline _ _ _ (SelSet _ sels) => match sels with [] => false | _ :: _ => forallb wf_sel sels end
  end.
Definition wf_selset (ss : selset) : bool :=
  match selset_sels ss with [] => false | l => forallb wf_sel l end.
Definition wf_def (d : execdef) : bool :=
  match d with
  | DOp o => wf_selset (op_sel o)
  | DFrag f => wf_selset (fr_sel f)
  | DImport _ => false
  end.

(** * Equality on abstract documents *)

Section ListEqb.
  Context {A : Type} (eqb : A -> A -> bool).
  Fixpoint leqb (a b : list A) : bool :=
    match a, b with
    | [], [] => true
    | x :: a', y :: b' => eqb x y && leqb a' b'
    | _, _ => false
    end.
End ListEqb.

Fixpoint aty_eqb (a b : aty) : bool :=
  match a, b with
  | ANamed x, ANamed y => str_eqb x y
  | ANonNull x, ANonNull y => aty_eqb x y
  | AList x, AList y => aty_eqb x y
  | _, _ => false
  end.

Fixpoint aval_eqb (a b : aval) : bool :=
  match a, b with
  | AVar x, AVar y | AInt x, AInt y | AFloat x, AFloat y | AStr x, AStr y | AEnum x, AEnum y => str_eqb x y
  | ABool x, ABool y => Bool.eqb x y
  | ANull, ANull => true
  | AListV x, AListV y => leqb aval_eqb x y
  | AObjV x, AObjV y => leqb (fun p q => str_eqb (fst p) (fst q) && aval_eqb (snd p) (snd q)) x y
  | _, _ => false
  end.

Definition aargs_eqb (a b : aargs) : bool :=
  leqb (fun p q => str_eqb (fst p) (fst q) && aval_eqb (snd p) (snd q)) a b.
Definition adir_eqb (a b : adir) : bool := str_eqb (ad_name a) (ad_name b) && aargs_eqb (ad_args a) (ad_args b).
Definition adirs_eqb := leqb adir_eqb.

Fixpoint asel_eqb (a b : asel) : bool :=
  match a, b with
  | AField al n ar d sub, AField al' n' ar' d' sub' =>
      option_eqb str_eqb al al' && str_eqb n n' && aargs_eqb ar ar' && adirs_eqb d d' && leqb asel_eqb sub sub'
  | ASpread n d, ASpread n' d' => str_eqb n n' && adirs_eqb d d'
  | AInline c d sub, AInline c' d' sub' => option_eqb str_eqb c c' && adirs_eqb d d' && leqb asel_eqb sub sub'
  | _, _ => false
  end.

Definition avardef_eqb (a b : avardef) : bool :=
  str_eqb (av_name a) (av_name b) && aty_eqb (av_type a) (av_type b)
  && option_eqb aval_eqb (av_default a) (av_default b) && adirs_eqb (av_dirs a) (av_dirs b).

Definition adef_eqb (a b : adef) : bool :=
  match a, b with
  | AOp t n v d sel, AOp t' n' v' d' sel' =>
      optype_eqb t t' && option_eqb str_eqb n n' && leqb avardef_eqb v v' && adirs_eqb d d' && leqb asel_eqb sel sel'
  | AFrag n c d sel, AFrag n' c' d' sel' => str_eqb n n' && str_eqb c c' && adirs_eqb d d' && leqb asel_eqb sel sel'
  | _, _ => false
  end.

(** * Reading JSON text *)

Local Open Scope N_scope.

Definition is_ws (c : N) : bool := (c =? 32) || (c =? 9) || (c =? 10) || (c =? 13).
Fixpoint skip_ws (i : str) : str :=
  match i with
  | c :: r => if is_ws c then skip_ws r else i
  | [] => []
  end.

Definition hex_val (c : N) : option N :=
  if (48 <=? c) && (c <=? 57) then Some (c - 48)
  else if (65 <=? c) && (c <=? 70) then Some (c - 55)
  else if (97 <=? c) && (c <=? 102) then Some (c - 87)
  else None.

Definition hex4 (i : str) : option (N * str) :=
  match i with
  | a :: b :: c :: d :: r =>
      match hex_val a, hex_val b, hex_val c, hex_val d with
      | Some a, Some b, Some c, Some d => Some (((a * 16 + b) * 16 + c) * 16 + d, r)
      | _, _, _, _ => None
      end
  | _ => None
  end.

(** the characters of a string after the opening quote, up to and including the closing quote.
    Raw control characters are rejected; \uD800–\uDBFF must be followed by a low surrogate escape and
    the pair denotes one scalar value; a lone surrogate is rejected.  [fuel] >= length of the input. *)
Definition cons_char (c : N) (r : option (str * str)) : option (str * str) :=
  match r with Some (x, r') => Some (c :: x, r') | None => None end.

Fixpoint parse_chars (fuel : nat) (i : str) : option (str * str) :=
  match fuel with
  | O => None
  | S fu =>
      match i with
      | [] => None
      | c :: r =>
          if c =? 34 then Some ([], r)
          else if c =? 92 then
            match r with
            | [] => None
            | e :: r =>
                if e =? 34 then cons_char 34 (parse_chars fu r)
                else if e =? 92 then cons_char 92 (parse_chars fu r)
                else if e =? 47 then cons_char 47 (parse_chars fu r)
                else if e =? 98 then cons_char 8 (parse_chars fu r)
                else if e =? 102 then cons_char 12 (parse_chars fu r)
                else if e =? 110 then cons_char 10 (parse_chars fu r)
                else if e =? 114 then cons_char 13 (parse_chars fu r)
                else if e =? 116 then cons_char 9 (parse_chars fu r)
                else if e =? 117 then
                  match hex4 r with
                  | Some (u, r1) =>
                      if (55296 <=? u) && (u <=? 56319) then
                        match r1 with
                        | b :: v :: r2 =>
                            if (b =? 92) && (v =? 117) then
                              match hex4 r2 with
                              | Some (l, r3) =>
                                  if (56320 <=? l) && (l <=? 57343)
                                  then cons_char (65536 + (u - 55296) * 1024 + (l - 56320)) (parse_chars fu r3)
                                  else None
                              | None => None
                              end
                            else None
                        | _ => None
                        end
                      else if (56320 <=? u) && (u <=? 57343) then None
                      else cons_char u (parse_chars fu r1)
                  | None => None
                  end
                else None
            end
          else if c <? 32 then None
          else cons_char c (parse_chars fu r)
      end
  end.

Definition is_num_char (c : N) : bool :=
  ((48 <=? c) && (c <=? 57)) || (c =? 45) || (c =? 43) || (c =? 46) || (c =? 101) || (c =? 69).
Fixpoint span_num (i : str) : str * str :=
  match i with
  | c :: r => if is_num_char c then let (a, b) := span_num r in (c :: a, b) else ([], i)
  | [] => ([], [])
  end.

Fixpoint strip_prefix (p i : str) : option str :=
  match p, i with
  | [], _ => Some i
  | a :: p', b :: i' => if a =? b then strip_prefix p' i' else None
  | _ :: _, [] => None
  end.

Section Loops.
  (** the value parser one level down; [len] >= length of the whole text (fuel for scanning strings) *)
  Variable pv : str -> option (json * str).
  Variable len : nat.

  (** after '[' and a first look that was not ']' : value (',' value)* ']' ; [n] >= length of input *)
  Fixpoint parse_elems (n : nat) (i : str) : option (list json * str) :=
    match n with
    | O => None
    | S m =>
        match pv i with
        | Some (x, r) =>
            match skip_ws r with
            | sep :: r' =>
                if sep =? 44 then
                  match parse_elems m r' with Some (xs, r'') => Some (x :: xs, r'') | None => None end
                else if sep =? 93 then Some ([x], r')
                else None
            | [] => None
            end
        | None => None
        end
    end.

  (** after '{' and a first look that was not '}' : string ':' value (',' string ':' value)* '}' *)
  Fixpoint parse_members (n : nat) (i : str) : option (list (str * json) * str) :=
    match n with
    | O => None
    | S m =>
        match skip_ws i with
        | q :: r =>
            if q =? 34 then
              match parse_chars len r with
              | Some (k, r1) =>
                  match skip_ws r1 with
                  | colon :: r2 =>
                      if colon =? 58 then
                        match pv r2 with
                        | Some (x, r3) =>
                            match skip_ws r3 with
                            | sep :: r4 =>
                                if sep =? 44 then
                                  match parse_members m r4 with
                                  | Some (xs, r5) => Some ((k, x) :: xs, r5)
                                  | None => None
                                  end
                                else if sep =? 125 then Some ([(k, x)], r4)
                                else None
                            | [] => None
                            end
                        | None => None
                        end
                      else None
                  | [] => None
                  end
              | None => None
              end
            else None
        | [] => None
        end
    end.
End Loops.

(** [fuel] bounds the nesting depth, [len] >= length of the whole text *)
Definition starts_with (c : N) (i : str) : bool := match i with x :: _ => x =? c | [] => false end.

Fixpoint parse_value (len : nat) (fuel : nat) (i : str) : option (json * str) :=
  match fuel with
  | O => None
  | S fu =>
      match skip_ws i with
      | [] => None
      | (c :: r) as i' =>
          if c =? 34 then
            match parse_chars len r with Some (x, r') => Some (JStr x, r') | None => None end
          else if c =? 91 then
            if starts_with 93 (skip_ws r) then Some (JArr [], tl (skip_ws r))
            else match parse_elems (parse_value len fu) len r with
                 | Some (xs, r') => Some (JArr xs, r')
                 | None => None
                 end
          else if c =? 123 then
            if starts_with 125 (skip_ws r) then Some (JObj [], tl (skip_ws r))
            else match parse_members (parse_value len fu) len len r with
                 | Some (xs, r') => Some (JObj xs, r')
                 | None => None
                 end
          else
            match strip_prefix lit_true i', strip_prefix lit_false i', strip_prefix lit_null i' with
            | Some r', _, _ => Some (JBool true, r')
            | _, Some r', _ => Some (JBool false, r')
            | _, _, Some r' => Some (JNull, r')
            | _, _, _ =>
                if ((48 <=? c) && (c <=? 57)) || (c =? 45) then
                  let (l, r') := span_num i' in Some (JNum l, r')
                else None
            end
      end
  end.

Local Close Scope N_scope.

(** a whole text: one value, optional trailing white space *)
Definition jparse (t : str) : option json :=
  match parse_value (S (length t)) (S (length t)) t with
  | Some (j, r) => match skip_ws r with [] => Some j | _ => None end
  | None => None
  end.

(** * Reading the graphql-js AST shape *)

Section GetWith.
  Context {A : Type} (f : json -> A) (k : str).
  (** the value of key [k] (last occurrence) read by [f] *)
  Fixpoint jget_with (l : list (str * json)) : option A :=
    match l with
    | [] => None
    | (k', v) :: r =>
        match jget_with r with
        | Some x => Some x
        | None => if str_eqb k k' then Some (f v) else None
        end
    end.
End GetWith.

Definition jget (k : str) (l : list (str * json)) : option json := jget_with (fun x => x) k l.

Fixpoint all_some {A} (l : list (option A)) : option (list A) :=
  match l with
  | [] => Some []
  | Some x :: r => match all_some r with Some xs => Some (x :: xs) | None => None end
  | None :: _ => None
  end.

Definition obind {A B} (o : option A) (f : A -> option B) : option B :=
  match o with Some x => f x | None => None end.

(** a required key read by a partial reader *)
Definition req {A} (f : json -> option A) (k : str) (o : list (str * json)) : option A :=
  match jget_with f k o with Some r => r | None => None end.
(** an optional key: absent (or JS null/undefined) is [Some None] *)
Definition opt {A} (f : json -> option A) (k : str) (o : list (str * json)) : option (option A) :=
  match jget_with (fun j => match j with JNull => Some None | _ => option_map Some (f j) end) k o with
  | None => Some None
  | Some r => r
  end.
(** an optional array of nodes: absent = empty *)
Definition arr_of {A} (f : json -> option A) (j : json) : option (list A) :=
  match j with JArr l => all_some (map f l) | _ => None end.
Definition opt_arr {A} (f : json -> option A) (k : str) (o : list (str * json)) : option (list A) :=
  match opt (arr_of f) k o with
  | Some (Some l) => Some l
  | Some None => Some []
  | None => None
  end.

Definition rd_string (j : json) : option str := match j with JStr x => Some x | _ => None end.
Definition rd_bool (j : json) : option bool := match j with JBool b => Some b | _ => None end.
Definition kind_of (o : list (str * json)) : option str := req rd_string k_kind o.
Definition kind_is (o : list (str * json)) (n : str) : bool :=
  match kind_of o with Some x => str_eqb x n | None => false end.

(** NameNode *)
Definition rd_name (j : json) : option str :=
  match j with
  | JObj o => if kind_is o n_Name then req rd_string k_value o else None
  | _ => None
  end.

(** TypeNode *)
Fixpoint rd_type (j : json) : option aty :=
  match j with
  | JObj o =>
      match kind_of o with
      | Some x =>
          if str_eqb x n_NamedType then option_map ANamed (req rd_name k_name o)
          else if str_eqb x n_NonNullType then option_map ANonNull (req rd_type k_type o)
          else if str_eqb x n_ListType then option_map AList (req rd_type k_type o)
          else None
      | None => None
      end
  | _ => None
  end.

Definition rd_named_type (j : json) : option str :=
  match rd_type j with Some (ANamed n) => Some n | _ => None end.

(** ValueNode *)
Fixpoint rd_value (j : json) : option aval :=
  match j with
  | JObj o =>
      match kind_of o with
      | Some x =>
          if str_eqb x n_Variable then option_map AVar (req rd_name k_name o)
          else if str_eqb x n_IntValue then option_map AInt (req rd_string k_value o)
          else if str_eqb x n_FloatValue then option_map AFloat (req rd_string k_value o)
          else if str_eqb x n_StringValue then option_map AStr (req rd_string k_value o)
          else if str_eqb x n_BooleanValue then option_map ABool (req rd_bool k_value o)
          else if str_eqb x n_NullValue then Some ANull
          else if str_eqb x n_EnumValue then option_map AEnum (req rd_string k_value o)
          else if str_eqb x n_ListValue then option_map AListV (req (arr_of rd_value) k_values o)
          else if str_eqb x n_ObjectValue then
            option_map AObjV
              (req (arr_of (fun f => match f with
                                     | JObj fo =>
                                         if kind_is fo n_ObjectField then
                                           match req rd_name k_name fo, req rd_value k_value fo with
                                           | Some n, Some v => Some (n, v)
                                           | _, _ => None
                                           end
                                         else None
                                     | _ => None
                                     end)) k_fields o)
          else None
      | None => None
      end
  | _ => None
  end.

(** ArgumentNode *)
Definition rd_argument (j : json) : option (str * aval) :=
  match j with
  | JObj o =>
      if kind_is o n_Argument then
        match req rd_name k_name o, req rd_value k_value o with
        | Some n, Some v => Some (n, v)
        | _, _ => None
        end
      else None
  | _ => None
  end.

(** DirectiveNode *)
Definition rd_directive (j : json) : option adir :=
  match j with
  | JObj o =>
      if kind_is o n_Directive then
        match req rd_name k_name o, opt_arr rd_argument k_arguments o with
        | Some n, Some a => Some (mkADir n a)
        | _, _ => None
        end
      else None
  | _ => None
  end.

(** SelectionNode; a SelectionSetNode is read by [rd_selset_with] *)
Definition rd_selset_with {A} (f : json -> option A) (j : json) : option (list A) :=
  match j with
  | JObj o => if kind_is o n_SelectionSet then req (arr_of f) k_selections o else None
  | _ => None
  end.

Fixpoint rd_selection (j : json) : option asel :=
  match j with
  | JObj o =>
      match kind_of o with
      | Some x =>
          if str_eqb x n_Field then
            match opt rd_name k_alias o, req rd_name k_name o, opt_arr rd_argument k_arguments o,
                  opt_arr rd_directive k_directives o,
                  opt (fun s => match s with
                                | JObj so => if kind_is so n_SelectionSet
                                             then req (arr_of rd_selection) k_selections so else None
                                | _ => None
                                end) k_selectionSet o with
            | Some al, Some n, Some ar, Some d, Some sub =>
                Some (AField al n ar d (match sub with Some l => l | None => [] end))
            | _, _, _, _, _ => None
            end
          else if str_eqb x n_FragmentSpread then
            match req rd_name k_name o, opt_arr rd_directive k_directives o with
            | Some n, Some d => Some (ASpread n d)
            | _, _ => None
            end
          else if str_eqb x n_InlineFragment then
            match opt rd_named_type k_typeCondition o, opt_arr rd_directive k_directives o,
                  req (fun s => match s with
                                | JObj so => if kind_is so n_SelectionSet
                                             then req (arr_of rd_selection) k_selections so else None
                                | _ => None
                                end) k_selectionSet o with
            | Some c, Some d, Some sub => Some (AInline c d sub)
            | _, _, _ => None
            end
          else None
      | None => None
      end
  | _ => None
  end.

Definition rd_selset (j : json) : option (list asel) := rd_selset_with rd_selection j.

(** VariableDefinitionNode *)
Definition rd_variable (j : json) : option str :=
  match j with
  | JObj o => if kind_is o n_Variable then req rd_name k_name o else None
  | _ => None
  end.
Definition rd_vardef (j : json) : option avardef :=
  match j with
  | JObj o =>
      if kind_is o n_VariableDefinition then
        match req rd_variable k_variable o, req rd_type k_type o, opt rd_value k_defaultValue o,
              opt_arr rd_directive k_directives o with
        | Some n, Some t, Some dv, Some d => Some (mkAVar n t dv d)
        | _, _, _, _ => None
        end
      else None
  | _ => None
  end.

Definition rd_optype (j : json) : option optype :=
  match j with
  | JStr x => if str_eqb x n_query then Some Query
              else if str_eqb x n_mutation then Some Mutation
              else if str_eqb x n_subscription then Some Subscription
              else None
  | _ => None
  end.

(** ExecutableDefinitionNode: selectionSet is required for operations and fragments *)
Definition rd_definition (j : json) : option adef :=
  match j with
  | JObj o =>
      match kind_of o with
      | Some x =>
          if str_eqb x n_OperationDefinition then
            match req rd_optype k_operation o, opt rd_name k_name o, opt_arr rd_vardef k_variableDefinitions o,
                  opt_arr rd_directive k_directives o, req rd_selset k_selectionSet o with
            | Some t, Some n, Some v, Some d, Some sel => Some (AOp t n v d sel)
            | _, _, _, _, _ => None
            end
          else if str_eqb x n_FragmentDefinition then
            match req rd_name k_name o, req rd_named_type k_typeCondition o, opt_arr rd_directive k_directives o,
                  req rd_selset k_selectionSet o with
            | Some n, Some c, Some d, Some sel => Some (AFrag n c d sel)
            | _, _, _, _ => None
            end
          else None
      | None => None
      end
  | _ => None
  end.

(** DocumentNode *)
Definition toModel (j : json) : option (list adef) :=
  match j with
  | JObj o => if kind_is o n_Document then req (arr_of rd_definition) k_definitions o else None
  | _ => None
  end.

(** the text embedded in the generated module, read as JSON and then as a DocumentNode *)
Definition read_document (t : str) : option (list adef) := obind (jparse t) toModel.

(** * "transitively spread from" *)

(** the names spread directly in a selection set (through fields and inline fragments), in source order *)
Fixpoint spreads_sel (x : selection) : list str :=
  match x with
  | SField _ _ _ _ (Some (SelSet _ sels)) => flat_map spreads_sel sels
  | SField _ _ _ _ None => []
  | SSpread _ n _ => [iname n]
  | SInline _ _ _ (SelSet _ sels) => flat_map spreads_sel sels
  end.
Definition spreads_of (ss : selset) : list str := flat_map spreads_sel (selset_sels ss).

(** [reach_from get start n]: fragment name [n] is in [start], or is spread in the selection set of a
    *defined* fragment that is itself reachable *)
Inductive reach_from (get : str -> option fragdef) (start : list str) : str -> Prop :=
| reach_direct n : In n start -> reach_from get start n
| reach_step m f n :
    reach_from get start m -> get m = Some f -> In n (spreads_of (fr_sel f)) -> reach_from get start n.

(** transitively spread from a selection set *)
Definition reach (get : str -> option fragdef) (ss : selset) : str -> Prop := reach_from get (spreads_of ss).

(** validation rule 5.5.2.1 (fragment spread target defined) on a whole document, fragments that no
    operation spreads included: every spread anywhere names a defined fragment *)
Definition def_selset (d : execdef) : option selset :=
  match d with DOp o => Some (op_sel o) | DFrag f => Some (fr_sel f) | DImport _ => None end.
Definition spreads_defined_b (defs : list execdef) : bool :=
  forallb (fun d => match def_selset d with
                    | Some ss => forallb (fun n => match get_frag defs n with Some _ => true | None => false end)
                                         (spreads_of ss)
                    | None => true
                    end) defs.

(** the same on abstract documents, computed by saturation (used by [holds] on the implementation's output) *)
Fixpoint a_spreads (x : asel) : list str :=
  match x with
  | AField _ _ _ _ sub => flat_map a_spreads sub
  | ASpread n _ => [n]
  | AInline _ _ sub => flat_map a_spreads sub
  end.

Definition adef_name (d : adef) : option str := match d with AOp _ n _ _ _ => n | AFrag n _ _ _ => Some n end.
Definition adef_sel (d : adef) : list asel := match d with AOp _ _ _ _ s => s | AFrag _ _ _ s => s end.
Definition is_afrag (d : adef) : bool := match d with AFrag _ _ _ _ => true | _ => false end.
Definition afrag_named (n : str) (d : adef) : bool :=
  match d with AFrag m _ _ _ => str_eqb m n | _ => false end.

Definition add_new (acc : list str) (ns : list str) : list str :=
  fold_left (fun a n => if mem n a then a else a ++ [n]) ns acc.

(** one round: add the direct spreads of every fragment of [doc] whose name is already in the set *)
Definition sat_step (doc : list adef) (set : list str) : list str :=
  fold_left (fun a d => match d with
                        | AFrag n _ _ sel => if mem n set then add_new a (flat_map a_spreads sel) else a
                        | _ => a
                        end) doc set.
Fixpoint sat (doc : list adef) (rounds : nat) (set : list str) : list str :=
  match rounds with O => set | S r => sat doc r (sat_step doc set) end.
Definition a_reach (doc : list adef) (x : adef) : list str :=
  sat doc (S (length doc)) (add_new [] (flat_map a_spreads (adef_sel x))).

Fixpoint nodup_b (l : list str) : bool :=
  match l with [] => true | x :: r => negb (mem x r) && nodup_b r end.

Definition frag_names_of (doc : list adef) : list str :=
  flat_map (fun d => match d with AFrag n _ _ _ => [n] | _ => [] end) doc.

(** "accepted" as far as this property needs it: fragment names are unique and every fragment spread
    anywhere in the document names a defined fragment (GraphQL validation rules 5.5.1.1 and 5.5.2.1) *)
Definition closed_doc (doc : list adef) : bool :=
  nodup_b (frag_names_of doc)
  && forallb (fun d => forallb (fun n => mem n (frag_names_of doc)) (flat_map a_spreads (adef_sel d))) doc.

(** the right-hand side of the property for definition [x] of document [doc], as a predicate on what the
    reader returned ([got]): [x] first, then exactly the fragments of [doc] reachable from [x] (other
    than [x] itself), each once, each equal to its definition in [doc] *)
Definition expected_ok (doc : list adef) (x : adef) (got : list adef) : bool :=
  match got with
  | [] => false
  | h :: tail =>
      let r := a_reach doc x in
      let want := filter (fun n => match x with AFrag m _ _ _ => negb (str_eqb n m) | _ => true end) r in
      let tnames := frag_names_of tail in
      adef_eqb h x
      && forallb is_afrag tail
      && nodup_b tnames
      && forallb (fun t => existsb (adef_eqb t) doc) tail
      && forallb (fun n => mem n want) tnames
      && forallb (fun n => mem n tnames || negb (mem n (frag_names_of doc))) want
  end.
