(** C04 — the property read on the implementation's outputs, on the cases of C03/Corr.v
    (same model, same correspondence [C03.Corr.agree]).

    [holds4]: a document the reference validator (C03/Spec.v, every rule on every syntactic position)
    finds valid gets no diagnostic at all from the implementation. The guards of the theorems are evaluated
    too, so that their coverage of the generated inputs is measured on every run: [schema_wf] and
    [schema_closed] on every schema; on every valid document [doc_fine_vis] (hypothesis of C04_complete_vis) and the two
    hypotheses of C04_complete that are stated in the implementation's terms (every fragment is spread by an operation;
    a subscription's response keys). *)
From V Require Import Base.Util Gql.Ast C03.Model C03.Spec C03.Corr.

Definition complete_hyps (D : opdoc) : bool :=
  forallb (fun f => mem_str (iname (fr_name f)) (spread_by_operations (doc_fuel D) (doc_frags D) (od_defs D))) (doc_frags D)
  && forallb (fun o => match op_type o with
                       | Subscription => Nat.leb (length (collect_response_keys (doc_fuel D) (doc_frags D) [] (op_sel o) [])) 1
                       | _ => true
                       end) (doc_ops D).

Definition holds4 (c : case) : bool :=
  schema_wf (c_schema c) && schema_closed (c_schema c) &&
  if spec_valid (c_schema c) (c_doc c)
  then doc_fine_vis (c_schema c) (c_doc c)
       && (negb (every_fragment_spread (c_doc c)) || complete_hyps (c_doc c))
       && match c_out c with [] => true | _ => false end
  else true.
