(** C04 — the property read on the implementation's outputs, on the cases of C03/Corr.v
    (same model, same correspondence [C03.Corr.agree]).

    [holds4]: a document the reference validator (C03/Spec.v, every rule on every syntactic position)
    finds valid gets no diagnostic at all from the implementation. The guards of the theorems are evaluated
    too, so that their coverage of the generated inputs is measured on every run: [schema_wf] and
    [schema_closed] on every schema, [doc_fine_vis] (hypothesis of C04_complete_vis) on every valid document. *)
From V Require Import Base.Util Gql.Ast C03.Model C03.Spec C03.Corr.

Definition holds4 (c : case) : bool :=
  schema_wf (c_schema c) && schema_closed (c_schema c) &&
  if spec_valid (c_schema c) (c_doc c)
  then doc_fine_vis (c_schema c) (c_doc c) && match c_out c with [] => true | _ => false end
  else true.
