(** C04 — property theorems only. The model is C03/Model.v ([check_operation_document]); [spec_valid] is the
    reference validator of C03/Spec.v (every implemented rule on every syntactic position). *)
From V Require Import Base.Util Gql.Ast C03.Model C03.Spec C03.Witness C03.Proofs C03.Proofs2 C03.Proofs3 C04.Proofs C04.Proofs2 C04.Proofs3.

(** check_type_compatibility accepts exactly the pairs the specification's AreTypesCompatible accepts *)
Theorem C04_type_compat_complete : forall vt lt, types_compatible vt lt = true -> type_compat vt lt = true.
Proof. intros vt lt H. rewrite type_compat_spec. exact H. Qed.
Print Assumptions C04_type_compat_complete.

(** check_value accepts every literal that has the expected type under the specification's input coercions and whose
    variables are defined and usable at their positions (IsVariableUsageAllowed without hasLocationDefaultValue, which
    the code does not implement: see C04_variable_default_position_refuted). Together with C03_check_value_sound this
    makes check_value exact on well-formed schemas, up to that clause. *)
Theorem C04_check_value_complete : forall S vars,
  schema_wf S = true -> input_types_closed S = true ->
  forall v t ld,
    resolves S t = true -> lit_ok S v t = true ->
    Forall (use_strict vars) (var_uses false S v (Some t) ld) ->
    check_value S vars v t = [].
Proof. exact check_value_complete. Qed.
Print Assumptions C04_check_value_complete.

(** check_arguments reports nothing when every supplied argument is defined, every required one is supplied, and the
    value supplied for each defined argument has its type (with variables usable as above) *)
Theorem C04_check_arguments_complete : forall S vars,
  schema_wf S = true -> input_types_closed S = true ->
  forall ppos pname kind args defs,
    (forall d, In d defs -> resolves S (iv_type d) = true) ->
    (forall a, args = Some a -> args_list a <> []) ->
    args_defined_ok (provided args, defs) = true ->
    required_args_ok (provided args, defs) = true ->
    literal_types_vis S (provided args, defs) = true ->
    Forall (use_strict vars) (args_var_uses false S (provided args) defs) ->
    check_arguments S vars ppos pname kind args defs = [].
Proof. exact check_arguments_complete. Qed.
Print Assumptions C04_check_arguments_complete.

(** check_directives reports nothing for a directive list in which every directive is defined, allowed at the location,
    given well-typed arguments ([directive_fine]), and no non-repeatable directive occurs twice
    ([nonrep] = names of the defined non-repeatable directives of the list, as in Spec.v R_directives_unique) *)
Theorem C04_check_directives_complete : forall S vars,
  schema_wf S = true -> input_types_closed S = true ->
  forall loc ds,
    (forall d, In d ds -> directive_fine S vars loc d) ->
    nodup_str (nonrep S ds) = true ->
    check_directives S vars loc ds = [].
Proof. exact check_directives_complete. Qed.
Print Assumptions C04_check_directives_complete.

Theorem C04_guard_satisfiable : schema_wf w_schema_0 = true /\ input_types_closed w_schema_0 = true.
Proof. split; vm_compute; reflexivity. Qed.
Print Assumptions C04_guard_satisfiable.

(** The converse of C03_sound. [schema_closed]: further parts of "the schema passed check" (unique type names, field
    and argument types exist, union members are objects). [doc_fine_vis]: every implemented rule holds on the sites
    reached by following spreads from the operations ([rule_ok_vis]), variables are usable without relying on a default
    of the position, written argument lists are non-empty (grammar), root operation types are object types.
    The proof includes that [doc_fuel] suffices: the model never answers OutOfFuel on such a document.
    The subscription rule stays outside (the implementation's own count is a hypothesis), as in C03. *)
Theorem C04_complete_vis : forall S D,
  schema_wf S = true -> schema_closed S = true -> doc_fine_vis S D = true ->
  (forall o, In o (doc_ops D) -> op_type o = Subscription ->
     count_fields (doc_fuel D) (doc_frags D) [] (op_sel o) <= 1) ->
  check_operation_document S D = [].
Proof. exact complete_vis. Qed.
Print Assumptions C04_complete_vis.

Theorem C04_complete_vis_guard_satisfiable :
  schema_wf w_schema_0 = true /\ schema_closed w_schema_0 = true /\ doc_fine_vis w_schema_0 w_doc_14 = true.
Proof. repeat split; vm_compute; reflexivity. Qed.
Print Assumptions C04_complete_vis_guard_satisfiable.

(** every-position reading implies visible-site reading: the sites reached by following spreads from an operation are
    sites of the operation or of fragment definitions the reference validator's closure reaches (so its variable rules
    cover them), shallow variable uses are deep ones, and a cycle met on the way is a cycle of the fragment graph *)
Theorem C04_full_to_vis : forall S D,
  schema_wf S = true -> (forall r, rule_ok S D r = true) -> forall r, rule_ok_vis S D r = true.
Proof. intros S D Hw Hf r. exact (full_to_vis S D Hw Hf r). Qed.
Print Assumptions C04_full_to_vis.

(** C04_complete: a document the reference validator finds valid (every implemented rule on every syntactic position)
    is accepted by the model with no diagnostic — and the model does not run out of fuel on it.
    Guards, all computable and evaluated on every generated case: [schema_wf], [schema_closed] ("the schema passed
    check"); [doc_guard]: no variable usage relies on a default value of its position (the clause of
    IsVariableUsageAllowed the code lacks: C04_variable_default_position_refuted), written argument lists are
    non-empty (grammar), root operation types are object types. The subscription rule: the specification counts
    response keys, the code counts selections; the code's count is a hypothesis, and `subscription { s s }`
    (C04_subscription_same_field_refuted) is the gap between the two. *)
Theorem C04_complete : forall S D,
  schema_wf S = true -> schema_closed S = true ->
  spec_valid S D = true -> doc_guard S D = true ->
  (forall o, In o (doc_ops D) -> op_type o = Subscription ->
     count_fields (doc_fuel D) (doc_frags D) [] (op_sel o) <= 1) ->
  check_operation_document S D = [].
Proof. exact complete_full. Qed.
Print Assumptions C04_complete.

Theorem C04_complete_guard_satisfiable :
  schema_wf w_schema_0 = true /\ schema_closed w_schema_0 = true
  /\ spec_valid w_schema_0 w_doc_14 = true /\ doc_guard w_schema_0 w_doc_14 = true.
Proof. repeat split; vm_compute; reflexivity. Qed.
Print Assumptions C04_complete_guard_satisfiable.

(** spec-valid documents the current code rejects (known findings) *)
Theorem C04_variable_default_position_refuted :
  exists S D, spec_valid S D = true /\ check_operation_document S D <> [].
Proof. exists w_schema_0, w_doc_15. exact variable_default_position_refuted. Qed.
Print Assumptions C04_variable_default_position_refuted.

Theorem C04_subscription_same_field_refuted :
  exists S D, spec_valid S D = true /\ rule_ok S D R_single_subscription_root = true
              /\ check_operation_document S D <> [].
Proof.
  exists w_schema_0, w_doc_16. destruct subscription_same_field_refuted as [A B].
  split; [exact A|]. split; [vm_compute; reflexivity | exact B].
Qed.
Print Assumptions C04_subscription_same_field_refuted.

(** valid documents of the corpus are accepted (non-vacuity of the reading "valid implies accepted") *)
Theorem C04_valid_documents_accepted :
  forallb (fun D => spec_valid w_schema_0 D && match check_operation_document w_schema_0 D with [] => true | _ => false end)
          [w_doc_6; w_doc_7; w_doc_14] = true.
Proof. exact valid_documents_accepted. Qed.
Print Assumptions C04_valid_documents_accepted.
