(** C04 — property theorems only. The model is C03/Model.v ([check_operation_document]); [spec_valid] is the
    reference validator of C03/Spec.v (every implemented rule on every syntactic position). *)
From V Require Import Base.Util Gql.Ast C03.Model C03.Spec C03.Witness C03.Proofs C03.Proofs2 C03.Proofs3 C04.Proofs C04.Proofs2 C04.Proofs3.

(** check_type_compatibility accepts exactly the pairs the specification's AreTypesCompatible accepts *)
Theorem C04_type_compat_complete : forall vt lt, types_compatible vt lt = true -> type_compat vt lt = true.
Proof. intros vt lt H. rewrite type_compat_spec. exact H. Qed.
Print Assumptions C04_type_compat_complete.

(** check_value accepts every literal that has the expected type under the specification's input coercions and whose
    variables are defined and usable at their positions (IsVariableUsageAllowed, both halves: [use_ok] judges a use with
    the default value of its position). Together with C03_check_value_sound this makes check_value exact on well-formed
    schemas. [resolves], [input_types_closed]: input positions have existing input types. *)
Theorem C04_check_value_complete : forall S vars,
  schema_wf S = true -> input_types_closed S = true ->
  forall v t,
    resolves S t = true -> lit_ok S v t = true ->
    Forall (use_ok vars) (var_uses false S v (Some t) false) ->
    check_value S vars v t = [].
Proof. exact check_value_complete. Qed.
Print Assumptions C04_check_value_complete.

(** the value given for an argument / input field (expected_type_of_location: a variable given directly for a non-null
    position that has a default value is judged with hasLocationDefaultValue) *)
Theorem C04_value_at_location_complete : forall S vars,
  schema_wf S = true -> input_types_closed S = true ->
  forall d v,
    ty_wf (iv_type d) = true -> resolves S (iv_type d) = true ->
    lit_ok S v (iv_type d) = true ->
    Forall (use_ok vars) (var_uses false S v (Some (iv_type d)) (has_default d)) ->
    check_value S vars v (loc_type d v) = [].
Proof. exact value_at_location_complete. Qed.
Print Assumptions C04_value_at_location_complete.

(** check_arguments reports nothing when every supplied argument is defined, every required one is supplied, and every
    supplied value has the type of its argument (with variables usable as above) *)
Theorem C04_check_arguments_complete : forall S vars,
  schema_wf S = true -> input_types_closed S = true ->
  forall ppos pname kind args defs,
    NoDup (def_names defs) -> (forall d, In d defs -> ty_wf (iv_type d) = true) ->
    (forall d, In d defs -> resolves S (iv_type d) = true) ->
    (forall a, args = Some a -> args_list a <> []) ->
    args_defined_ok (provided args, defs) = true ->
    required_args_ok (provided args, defs) = true ->
    literal_types_vis S (provided args, defs) = true ->
    Forall (use_ok vars) (args_var_uses false S (provided args) defs) ->
    check_arguments S vars ppos pname kind args defs = [].
Proof. exact check_arguments_complete. Qed.
Print Assumptions C04_check_arguments_complete.

(** check_directives reports nothing for a directive list in which every directive is defined, allowed at the location,
    given well-typed arguments ([directive_fine]), and no non-repeatable directive occurs twice *)
Theorem C04_check_directives_complete : forall S vars,
  schema_wf S = true -> input_types_closed S = true ->
  forall loc ds,
    (forall d, In d ds -> directive_fine S vars loc d) ->
    nodup_str (nonrep S ds) = true ->
    check_directives S vars loc ds = [].
Proof. exact check_directives_complete. Qed.
Print Assumptions C04_check_directives_complete.

(** The converse of C03_sound on the visible sites. [schema_closed]: further parts of "the schema passed check".
    [doc_fine_vis]: every implemented rule holds on the sites reached by following spreads from the operations, written
    argument lists are non-empty (grammar), root operation types are object types. The proof includes that [doc_fuel]
    suffices: the model never answers OutOfFuel on such a document. Two hypotheses are in the implementation's own terms:
    its collection of response keys finds at most one for a subscription (the specification-side rule is part of
    [doc_fine_vis]; that the path-based collection finds no other key than CollectFields is not proved), and every
    fragment definition is transitively spread by an operation (Fragments Must Be Used), so that the pass over
    never-spread fragments (commit c67e45e) is empty. *)
Theorem C04_complete_vis : forall S D,
  schema_wf S = true -> schema_closed S = true -> doc_fine_vis S D = true ->
  (forall o, In o (doc_ops D) -> op_type o = Subscription ->
     length (collect_response_keys (doc_fuel D) (doc_frags D) [] (op_sel o) []) <= 1) ->
  forallb (fun f => mem_str (iname (fr_name f)) (spread_by_operations (doc_fuel D) (doc_frags D) (od_defs D))) (doc_frags D) = true ->
  check_operation_document S D = [].
Proof. exact complete_vis. Qed.
Print Assumptions C04_complete_vis.

(** every-position reading implies visible-site reading *)
Theorem C04_full_to_vis : forall S D,
  (forall r, rule_ok S D r = true) -> forall r, rule_ok_vis S D r = true.
Proof. intros S D Hf r. exact (full_to_vis S D Hf r). Qed.
Print Assumptions C04_full_to_vis.

(** C04_complete: a document the reference validator finds valid (every implemented rule on every syntactic position)
    is accepted by the model with no diagnostic — and the model does not run out of fuel on it. [doc_guard]: written
    argument lists are non-empty (grammar), root operation types are object types. No reliance on a clause the code lacks
    remains: the two former gaps (hasLocationDefaultValue; a subscription's root field selected twice) are repaired in
    /repo (commits aff743c, a3d3d08). The last two hypotheses are as in C04_complete_vis. *)
Theorem C04_complete : forall S D,
  schema_wf S = true -> schema_closed S = true ->
  spec_valid S D = true -> doc_guard S D = true ->
  (forall o, In o (doc_ops D) -> op_type o = Subscription ->
     length (collect_response_keys (doc_fuel D) (doc_frags D) [] (op_sel o) []) <= 1) ->
  forallb (fun f => mem_str (iname (fr_name f)) (spread_by_operations (doc_fuel D) (doc_frags D) (od_defs D))) (doc_frags D) = true ->
  check_operation_document S D = [].
Proof. exact complete_full. Qed.
Print Assumptions C04_complete.

Theorem C04_complete_guard_satisfiable :
  schema_wf w_schema_0 = true /\ schema_closed w_schema_0 = true
  /\ spec_valid w_schema_0 w_doc_14 = true /\ doc_guard w_schema_0 w_doc_14 = true /\ doc_fine_vis w_schema_0 w_doc_14 = true
  /\ forallb (fun f => mem_str (iname (fr_name f))
                         (spread_by_operations (doc_fuel w_doc_14) (doc_frags w_doc_14) (od_defs w_doc_14))) (doc_frags w_doc_14) = true.
Proof. repeat split; vm_compute; reflexivity. Qed.
Print Assumptions C04_complete_guard_satisfiable.

(** spec-valid forms the code used to reject, accepted since the fixes *)
Theorem C04_variable_default_position_now_accepted :
  spec_valid w_schema_0 w_doc_15 = true /\ check_operation_document w_schema_0 w_doc_15 = [].
Proof. exact variable_default_position_now_accepted. Qed.
Print Assumptions C04_variable_default_position_now_accepted.

Theorem C04_subscription_same_field_now_accepted :
  spec_valid w_schema_0 w_doc_16 = true /\ check_operation_document w_schema_0 w_doc_16 = []
  /\ spec_valid w_schema_0 w_doc_23 = true /\ check_operation_document w_schema_0 w_doc_23 = []
  /\ rule_ok w_schema_0 w_doc_24 R_single_subscription_root = false
  /\ (exists p i, check_operation_document w_schema_0 w_doc_24 = [mkErr SubscriptionMustHaveExactlyOneRootField p i]).
Proof. exact subscription_same_field_now_accepted. Qed.
Print Assumptions C04_subscription_same_field_now_accepted.

(** valid documents of the corpus are accepted (non-vacuity of the reading "valid implies accepted") *)
Theorem C04_valid_documents_accepted :
  forallb (fun D => spec_valid w_schema_0 D && match check_operation_document w_schema_0 D with [] => true | _ => false end)
          [w_doc_6; w_doc_7; w_doc_14; w_doc_15; w_doc_16; w_doc_23] = true.
Proof. exact valid_documents_accepted. Qed.
Print Assumptions C04_valid_documents_accepted.
