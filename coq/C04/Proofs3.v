(** C04 — proofs, part 3: the every-position reading of the rules implies the visible-site reading
    ([rule_ok] ⇒ [rule_ok_vis]): every site reached by following spreads from an operation is a site of the
    operation or of a fragment definition that the reference validator's closure reaches, shallow variable uses are
    deep variable uses, and a cycle met on the way is a cycle of the fragment graph. *)
From V Require Import Base.Util Gql.Ast C03.Model C03.Spec C03.Proofs C03.Proofs2 C03.Proofs3 C03.Proofs4 C03.Proofs5
  C03.Proofs6 C04.Proofs C04.Proofs2.

(** * The reference validator's closure *)

Definition succs (D : opdoc) (names : list str) : list str :=
  flat_map (fun x => match sp_frag D x with Some f => spreads_selset (fr_sel f) | None => [] end) names.
Definition cstep (D : opdoc) (names : list str) : list str := add_new names (succs D names).

Lemma closure_S k D x : closure (Datatypes.S k) D x = closure k D (cstep D x).
Proof. reflexivity. Qed.

Lemma closure_step : forall k D x, closure k D (cstep D x) = cstep D (closure k D x).
Proof.
  induction k as [|k IH]; intros D x; [reflexivity|].
  rewrite !closure_S. rewrite (IH D (cstep D x)). reflexivity.
Qed.

Lemma add_new_keeps : forall l acc b, mem b acc = true -> mem b (add_new acc l) = true.
Proof.
  unfold add_new. induction l as [|x l IH]; intros acc b H; [exact H|]. cbn [fold_left]. apply IH.
  destruct (mem x acc); [exact H|]. rewrite mem_app, H. reflexivity.
Qed.

Lemma add_new_adds : forall l acc b, In b l -> mem b (add_new acc l) = true.
Proof.
  unfold add_new. induction l as [|x l IH]; intros acc b H; [contradiction|]. cbn [fold_left].
  destruct H as [<-|H]; [|apply IH, H].
  apply (add_new_keeps l). destruct (mem x acc) eqn:E; [exact E|]. rewrite mem_app. cbn [mem existsb].
  rewrite str_eqb_refl. apply orb_true_r.
Qed.

Definition lvl (D : opdoc) (X : list str) (k : nat) (b : str) : Prop := mem b (closure k D X) = true.

Lemma lvl_mono D X k b : lvl D X k b -> lvl D X (Datatypes.S k) b.
Proof. unfold lvl. rewrite closure_S, closure_step. unfold cstep. apply add_new_keeps. Qed.

Lemma lvl_le D X j k b : j <= k -> lvl D X j b -> lvl D X k b.
Proof. intros Hle. induction Hle as [|k Hle IH]; [auto|]. intros Hb. apply lvl_mono; auto. Qed.

Lemma lvl_step D X k a f b :
  lvl D X k a -> sp_frag D a = Some f -> In b (spreads_selset (fr_sel f)) -> lvl D X (Datatypes.S k) b.
Proof.
  unfold lvl. intros Ha Hf Hb. rewrite closure_S, closure_step. unfold cstep. apply add_new_adds.
  unfold succs. apply in_flat_map. exists a. split; [apply mem_In, Ha|]. rewrite Hf. exact Hb.
Qed.

Lemma lvl_0 D l b : In b l -> lvl D (add_new [] l) 0 b.
Proof. unfold lvl. cbn [closure]. apply add_new_adds. Qed.

(** * Following spreads stays inside the closure *)

Lemma sp_frag_defined D n :
  In n (map (fun f => iname (fr_name f)) (doc_fragdefs D)) ->
  exists f, sp_frag D n = Some f /\ In f (doc_fragdefs D) /\ iname (fr_name f) = n.
Proof.
  unfold sp_frag. induction (doc_fragdefs D) as [|g l IH]; cbn [map find]; intros H; [contradiction|].
  destruct (str_eqb_spec (iname (fr_name g)) n) as [E|E].
  - exists g. split; [reflexivity|]. split; [left; reflexivity | exact E].
  - destruct H as [H|H]; [contradiction|]. destruct (IH H) as [f [Hf [Hin Hn]]]. exists f. split; [exact Hf|]. split; [right; exact Hin | exact Hn].
Qed.

Lemma sp_frag_In D n f : sp_frag D n = Some f -> In f (doc_fragdefs D) /\ iname (fr_name f) = n.
Proof. unfold sp_frag. intros H. apply find_some in H as [H1 H2]. apply str_eqb_eq in H2. auto. Qed.

Section Enum.
  Variable S : tsdoc.
  Variable D : opdoc.
  Variable o : opdef.
  Notation N := (length (doc_fragdefs D)).
  Notation fnames := (map (fun f => iname (fr_name f)) (doc_fragdefs D)).

  Definition X0 : list str := add_new [] (spreads_selset (op_sel o)).
  Definition Xf (a : str) : list str :=
    add_new [] (match sp_frag D a with Some f => spreads_selset (fr_sel f) | None => [] end).

  Definition Inv (seen : list str) : Prop :=
    (forall j b, nth_error seen j = Some b -> lvl D X0 j b)
    /\ (forall i a j b, nth_error seen i = Some a -> nth_error seen (i + 1 + j) = Some b -> lvl D (Xf a) j b).

  (** where the spread names of the container being walked come from: the operation, or the fragment entered last *)
  Definition origin (seen : list str) (n : str) : Prop :=
    (seen = [] /\ In n (spreads_selset (op_sel o)))
    \/ (exists pre a f, seen = pre ++ [a] /\ sp_frag D a = Some f /\ In n (spreads_selset (fr_sel f))).

  Lemma nth_error_snoc {A} (l : list A) x j b :
    nth_error (l ++ [x]) j = Some b -> (j < length l /\ nth_error l j = Some b) \/ (j = length l /\ b = x).
  Proof.
    intros H. destruct (Nat.lt_ge_cases j (length l)) as [Hlt|Hge].
    - left. split; [exact Hlt|]. rewrite nth_error_app1 in H by exact Hlt. exact H.
    - right. rewrite nth_error_app2 in H by exact Hge.
      destruct (j - length l) as [|m] eqn:E; cbn in H; [|destruct m; discriminate].
      injection H as <-. split; [lia | reflexivity].
  Qed.

  Lemma nth_error_last {A} (pre : list A) a : nth_error (pre ++ [a]) (length pre) = Some a.
  Proof. rewrite nth_error_app2 by lia. rewrite Nat.sub_diag. reflexivity. Qed.

  Lemma inv_extend seen n : Inv seen -> origin seen n -> Inv (seen ++ [n]).
  Proof.
    intros [I1 I2] Ho. split.
    - intros j b H. apply nth_error_snoc in H as [[Hlt H]|[-> ->]]; [apply I1, H|].
      destruct Ho as [[-> Hin]|[pre [a [f [-> [Hf Hin]]]]]].
      + apply lvl_0, Hin.
      + rewrite app_length. cbn [length]. replace (length pre + 1) with (Datatypes.S (length pre)) by lia.
        apply (lvl_step D X0 _ a f); [apply I1, nth_error_last | exact Hf | exact Hin].
    - intros i a j b Ha Hb.
      apply nth_error_snoc in Hb as [[Hlt Hb]|[Hj ->]].
      + apply nth_error_snoc in Ha as [[_ Ha]|[Hi _]]; [apply (I2 i a j b Ha Hb) | lia].
      + apply nth_error_snoc in Ha as [[Hilt Ha]|[Hi _]]; [|lia].
        destruct Ho as [[-> _]|[pre [a' [f [-> [Hf Hin]]]]]]; [cbn in Hilt; lia|].
        rewrite app_length in Hj, Hilt. cbn [length] in Hj, Hilt.
        destruct j as [|j'].
        * assert (Ei : i = length pre) by lia. subst i. rewrite nth_error_last in Ha. injection Ha as <-.
          unfold Xf. rewrite Hf. apply lvl_0, Hin.
        * apply (lvl_step D (Xf a) j' a' f); [|exact Hf | exact Hin].
          apply (I2 i a j' a' Ha). replace (i + 1 + j') with (length pre) by lia. apply nth_error_last.
  Qed.

  Lemma inv_nil : Inv [].
  Proof. split; [intros j b H; destruct j; discriminate | intros i a j b H; destruct i; discriminate]. Qed.

  (** a spread of a name that is already on the path closes a cycle of the fragment graph *)
  Lemma cycle_found seen n :
    Inv seen -> origin seen n -> In n seen -> incl seen fnames -> length seen <= N ->
    exists f, In f (doc_fragdefs D) /\ mem (iname (fr_name f)) (reachable_from D (fr_sel f)) = true.
  Proof.
    intros [I1 I2] Ho Hin Hincl Hlen.
    destruct (sp_frag_defined D n (Hincl n Hin)) as [fn [Hfn [Hfin Hname]]].
    exists fn. split; [exact Hfin|]. rewrite Hname.
    assert (Hl : exists k, k <= N /\ lvl D (Xf n) k n).
    { apply In_nth_error in Hin as [i Hi].
      destruct Ho as [[-> _]|[pre [a' [f [-> [Hf Hn]]]]]]; [destruct i; discriminate|].
      rewrite app_length in Hlen. cbn [length] in Hlen.
      assert (Hilt : i < length (pre ++ [a'])) by (apply nth_error_Some; congruence).
      rewrite app_length in Hilt. cbn [length] in Hilt.
      destruct (Nat.eq_dec i (length pre)) as [->|Hne].
      - rewrite nth_error_last in Hi. injection Hi as ->. exists 0. split; [lia|].
        unfold Xf. rewrite Hf. apply lvl_0, Hn.
      - exists (Datatypes.S (length pre - i - 1)). split; [lia|].
        apply (lvl_step D (Xf n) _ a' f); [|exact Hf | exact Hn].
        apply (I2 i n (length pre - i - 1) a' Hi). replace (i + 1 + (length pre - i - 1)) with (length pre) by lia.
        apply nth_error_last. }
    destruct Hl as [k [Hk Hl]]. apply (lvl_le D (Xf n) k N n Hk) in Hl.
    unfold lvl, Xf in Hl. rewrite Hfn in Hl. exact Hl.
  Qed.

  Definition frag_site (y : site) : Prop :=
    exists f, In f (reachable_frags D (op_sel o)) /\ In y (frag_sites S f).
  Definition parent_ok (p : option typedef) : Prop := match p with Some t => In (TSType t) S | None => True end.
  Definition site_parent_ok (y : site) : Prop :=
    match y with StField p _ _ _ | StSpread p _ | StInline p _ => parent_ok p | _ => True end.
  Definition no_cycle (y : site) : Prop := forall n, y <> StCycle n.

  Lemma sp_type_parent_ok n : parent_ok (sp_type S n).
  Proof.
    unfold parent_ok. destruct (sp_type S n) as [t|] eqn:E; [|exact I]. rewrite <- get_type_sp in E. apply (get_type_In _ _ _ E).
  Qed.
  Lemma child_parent_ok p n : parent_ok (child_type S p n).
  Proof. unfold child_type. destruct p as [t|]; [|exact I]. destruct (sp_field t n); [apply sp_type_parent_ok | exact I]. Qed.

  (** ** one container, given what entering a fragment yields *)
  Section Container.
    Variable enter : option typedef -> ident -> list site.
    Variable orig : str -> Prop.
    Hypothesis Henter : forall p n, orig (iname n) ->
      forall y, In y (enter p n) -> frag_site y /\ site_parent_ok y /\ no_cycle y.

    Definition good_at (full : list site) (y : site) : Prop :=
      (In y full \/ frag_site y) /\ site_parent_ok y /\ no_cycle y.

    Lemma container_sel :
      forall x p, parent_ok p -> (forall n, In n (spreads_sel x) -> orig n) ->
        forall y, In y (vsites_sel S enter p x) -> good_at (sites_sel S p x) y.
    Proof.
      apply (sel_ind'
        (fun x => forall p, parent_ok p -> (forall n, In n (spreads_sel x) -> orig n) ->
                  forall y, In y (vsites_sel S enter p x) -> good_at (sites_sel S p x) y)
        (fun ss => forall p, parent_ok p -> (forall n, In n (spreads_selset ss) -> orig n) ->
                   forall y, In y (flat_map (vsites_sel S enter p) (selset_sels ss)) -> good_at (sites_selset S p ss) y)).
      - (* field *)
        intros a n ar d sub IH p Hp Ho y Hy. cbn [vsites_sel sites_sel] in *.
        destruct Hy as [<-|[<-|Hy]].
        + split; [left; left; reflexivity|]. split; [exact Hp | intros m; discriminate].
        + split; [left; right; left; reflexivity|]. split; [exact I | intros m; discriminate].
        + destruct sub as [[q l]|]; [|contradiction].
          destruct (IH (SelSet q l) eq_refl (child_type S p (iname n)) (child_parent_ok p (iname n)) Ho y Hy) as [[H|H] H2].
          * split; [left; right; right; exact H | exact H2].
          * split; [right; exact H | exact H2].
      - (* spread *)
        intros p0 n d p Hp Ho y Hy. cbn [vsites_sel sites_sel] in *.
        destruct Hy as [<-|[<-|Hy]].
        + split; [left; left; reflexivity|]. split; [exact Hp | intros m; discriminate].
        + split; [left; right; left; reflexivity|]. split; [exact I | intros m; discriminate].
        + destruct (Henter p n (Ho (iname n) (or_introl eq_refl)) y Hy) as [H1 H2]. split; [right; exact H1 | exact H2].
      - (* inline *)
        intros p0 c d ss IH p Hp Ho y Hy. destruct ss as [q l]. cbn [vsites_sel sites_sel] in *.
        destruct c as [c|].
        + destruct Hy as [<-|[<-|Hy]].
          * split; [left; left; reflexivity|]. split; [exact Hp | intros m; discriminate].
          * split; [left; right; left; reflexivity|]. split; [exact I | intros m; discriminate].
          * destruct (IH (sp_type S (iname c)) (sp_type_parent_ok _) Ho y Hy) as [[H|H] H2].
            -- split; [left; right; right; exact H | exact H2].
            -- split; [right; exact H | exact H2].
        + destruct Hy as [<-|Hy].
          * split; [left; left; reflexivity|]. split; [exact I | intros m; discriminate].
          * destruct (IH p Hp Ho y Hy) as [[H|H] H2].
            -- split; [left; right; exact H | exact H2].
            -- split; [right; exact H | exact H2].
      - (* selection set *)
        intros q l IH p Hp Ho y Hy. cbn [selset_sels] in Hy. apply in_flat_map in Hy as [x [Hx Hy]].
        rewrite Forall_forall in IH.
        destruct (IH x Hx p Hp) with (y := y) as [[H|H] H2]; [|exact Hy| |].
        + intros n Hn. apply Ho. unfold spreads_selset. cbn [selset_sels]. apply in_flat_map. eauto.
        + split; [left; unfold sites_selset; cbn [selset_sels]; apply in_flat_map; eauto | exact H2].
        + split; [right; exact H | exact H2].
    Qed.

    Lemma container_selset ss p :
      parent_ok p -> (forall n, In n (spreads_selset ss) -> orig n) ->
      forall y, In y (flat_map (vsites_sel S enter p) (selset_sels ss)) -> good_at (sites_selset S p ss) y.
    Proof.
      intros Hp Ho y Hy. apply in_flat_map in Hy as [x [Hx Hy]].
      destruct (container_sel x p Hp) with (y := y) as [[H|H] H2]; [|exact Hy| |].
      - intros n Hn. apply Ho. unfold spreads_selset. apply in_flat_map. eauto.
      - split; [left; unfold sites_selset; apply in_flat_map; eauto | exact H2].
      - split; [right; exact H | exact H2].
    Qed.
  End Container.
End Enum.

Section Enter.
  Variable S : tsdoc.
  Variable D : opdoc.
  Variable o : opdef.
  Hypothesis Hnocyc : no_cycles_ok D = true.
  Notation N := (length (doc_fragdefs D)).
  Notation fnames := (map (fun f => iname (fr_name f)) (doc_fragdefs D)).

  Lemma reachable_frag_of_lvl k n f :
    k <= N -> lvl D (X0 o) k n -> sp_frag D n = Some f -> In f (reachable_frags D (op_sel o)).
  Proof.
    intros Hk Hl Hf. apply (lvl_le D _ k N n Hk) in Hl. unfold lvl, X0 in Hl.
    unfold reachable_frags. apply in_flat_map. exists n. split; [apply mem_In; exact Hl|]. rewrite Hf. left. reflexivity.
  Qed.

  Lemma enter_ok : forall fv seen,
    Inv D o seen -> NoDup seen -> incl seen fnames ->
    forall p n, origin D o seen (iname n) ->
    forall y, In y (vis_enter fv S D seen p n) -> frag_site S D o y /\ site_parent_ok S y /\ no_cycle y.
  Proof.
    induction fv as [|k IH]; intros seen Hinv Hnd Hincl p n Ho y Hy; [contradiction|].
    cbn [vis_enter] in Hy.
    assert (Hlen : length seen <= N).
    { rewrite <- (map_length (fun f => iname (fr_name f))). apply NoDup_incl_length; assumption. }
    destruct (mem (iname n) seen) eqn:Emem.
    { exfalso. apply mem_In in Emem.
      destruct (cycle_found D o seen (iname n) Hinv Ho Emem Hincl Hlen) as [f [Hf Hc]].
      unfold no_cycles_ok in Hnocyc. rewrite forallb_forall in Hnocyc. specialize (Hnocyc f Hf).
      rewrite Hc in Hnocyc. discriminate. }
    destruct (sp_frag D (iname n)) as [f|] eqn:Ef; [|contradiction].
    destruct (sp_frag_In D _ _ Ef) as [Hfin Hfname].
    assert (Hinv' : Inv D o (seen ++ [iname n])) by (apply inv_extend; assumption).
    assert (Hreach : In f (reachable_frags D (op_sel o))).
    { destruct Hinv' as [I1 _]. apply (reachable_frag_of_lvl (length seen) (iname n) f); [lia | | exact Ef].
      apply I1. apply nth_error_last. }
    destruct Hy as [<-|Hy].
    - split; [|split; [exact I | intros m; discriminate]].
      exists f. split; [exact Hreach | left; reflexivity].
    - assert (Hnd' : NoDup (seen ++ [iname n])).
      { apply NoDup_snoc; [exact Hnd|]. intros Hin. apply mem_In in Hin. congruence. }
      assert (Hincl' : incl (seen ++ [iname n]) fnames).
      { intros x Hx. apply in_app_or in Hx as [Hx|[<-|[]]]; [apply Hincl, Hx|].
        rewrite <- Hfname. apply (in_map (fun f0 => iname (fr_name f0))), Hfin. }
      destruct (container_selset S D o (vis_enter k S D (seen ++ [iname n])) (origin D o (seen ++ [iname n]))
                  (fun p' n' Ho' y' Hy' => IH (seen ++ [iname n]) Hinv' Hnd' Hincl' p' n' Ho' y' Hy')
                  (fr_sel f) (sp_type S (iname (fr_cond f))) (sp_type_parent_ok S _)) with (y := y) as [[H|H] H2];
        [|exact Hy| |].
      + intros m Hm. right. exists seen, (iname n), f. auto.
      + split; [|exact H2]. exists f. split; [exact Hreach | right; exact H].
      + split; [exact H | exact H2].
  Qed.

  (** every visible site of the operation is a site of the operation itself or of a fragment definition the
      closure reaches; parents are types of the schema; no cycle marker *)
  Theorem vis_sites_full y :
    In y (vis_op_sites S D o) ->
    (In y (op_sites S o) \/ frag_site S D o y) /\ site_parent_ok S y /\ no_cycle y.
  Proof.
    unfold vis_op_sites, op_sites. intros [<-|Hy].
    - split; [left; left; reflexivity|]. split; [exact I | intros m; discriminate].
    - destruct (container_selset S D o (vis_enter (Datatypes.S N) S D []) (origin D o [])
                  (fun p' n' Ho' y' Hy' => enter_ok (Datatypes.S N) [] (inv_nil D o) (NoDup_nil _) (fun x Hx => match Hx with end)
                                              p' n' Ho' y' Hy')
                  (op_sel o) (sp_root S (op_type o))) with (y := y) as [[H|H] H2]; [| |exact Hy| |].
      + unfold sp_root. destruct (sp_schema_def S) as [sd|]; [|apply sp_type_parent_ok].
        destruct (find _ (rev (sd_ops sd))); [apply sp_type_parent_ok | exact I].
      + intros m Hm. left. auto.
      + split; [left; right; exact H | exact H2].
      + split; [right; exact H | exact H2].
  Qed.
End Enter.

(** * Shallow reading of argument values from the deep one *)

Lemma var_uses_shallow_deep S : forall v t ld u, In u (var_uses false S v t ld) -> In u (var_uses true S v t ld).
Proof.
  induction v as [n p|p l|p l|p l|p b|p|p l|p vs IHvs|p fs IHfs] using value_ind'; intros t ld u H; try exact H.
  - (* list *)
    cbn [var_uses orb] in *.
    destruct (match t with Some t' => match strip_nonnull t' with TList _ i => Some i | _ => None end | None => None end) as [i|].
    + destruct (match t with Some t' => custom_scalar S (strip_nonnull t') | None => false end);
        apply in_flat_map in H as [e [He Hu]]; apply in_flat_map; exists e; (split; [exact He|]);
        rewrite Forall_forall in IHvs; apply (IHvs e He), Hu.
    + destruct (match t with Some t' => custom_scalar S (strip_nonnull t') | None => false end); [exact H | contradiction].
  - (* object *)
    cbn [var_uses orb] in *. revert H.
    generalize (match t with
                | Some t' => match unwrap_lists t' with
                             | TNamed n => match sp_type S (iname n) with Some (TDInput _ _ _ _ fields _) => fields | _ => [] end
                             | _ => [] end
                | None => [] end) as defs. intros defs.
    generalize (match t with Some t' => custom_scalar S (unwrap_lists t') | None => false end) as c. intros c.
    induction fs as [|[k fv] r IHr]; intros H; [contradiction|].
    inversion IHfs as [|? ? Hk Hr]; subst. apply in_app_or in H as [H|H]; apply in_or_app.
    + left. destruct (find (fun d => str_eqb (iname (iv_name d)) (iname k)) defs) as [d|].
      * apply (Hk _ _ _ H).
      * destruct c; [exact H | contradiction].
    + right. apply (IHr Hr H).
Qed.

Lemma args_uses_shallow_deep S args defs u :
  In u (args_var_uses false S args defs) -> In u (args_var_uses true S args defs).
Proof.
  intros H. unfold args_var_uses in *. apply in_flat_map in H as [kv [Hkv Hu]]. apply in_flat_map. exists kv. split; [exact Hkv|].
  destruct (find (fun d => str_eqb (iname (iv_name d)) (iname (fst kv))) defs) as [d|]; [|contradiction].
  apply var_uses_shallow_deep, Hu.
Qed.

Section Transfer.
  Variable S : tsdoc.
  Variable D : opdoc.

  (** since /repo commit 7d19234 both readings judge every supplied value: the site rules coincide *)
  Lemma site_ok_full_vis r x : site_ok false S D r x = true -> site_ok true S D r x = true.
  Proof. intros H. destruct r; exact H. Qed.

  Lemma site_uses_shallow_deep x u : In u (site_var_uses false S x) -> In u (site_var_uses true S x).
  Proof.
    intros H. destruct x as [p name args sel|p name|p c|loc ds|n]; cbn [site_var_uses] in *; try contradiction.
    - apply args_uses_shallow_deep, H.
    - apply in_flat_map in H as [d [Hd Hu]]. apply in_flat_map. exists d. split; [exact Hd|].
      apply args_uses_shallow_deep, Hu.
  Qed.
End Transfer.

(** * Every-position reading implies visible-site reading *)
Section FullToVis.
  Variable S : tsdoc.
  Variable D : opdoc.
  Hypothesis Hwf : schema_wf S = true.
  Hypothesis Hfull : forall r, rule_ok S D r = true.

  Lemma nocyc : no_cycles_ok D = true.
  Proof. exact (Hfull R_no_cycles). Qed.

  Lemma op_sites_all o x : In o (doc_ops D) -> In x (op_sites S o ++ op_const_sites o) -> In x (all_sites S D).
  Proof. intros Ho Hx. unfold all_sites. apply in_or_app. left. apply in_flat_map. eauto. Qed.

  Lemma reachable_in_defs o f : In f (reachable_frags D (op_sel o)) -> In f (doc_fragdefs D).
  Proof.
    unfold reachable_frags. intros H. apply in_flat_map in H as [n [_ H]].
    destruct (sp_frag D n) as [g|] eqn:E; [|contradiction]. destruct H as [<-|[]]. apply (sp_frag_In D n g E).
  Qed.

  Lemma vis_in_all o x : In o (doc_ops D) -> In x (vis_op_sites S D o) -> In x (all_sites S D).
  Proof.
    intros Ho Hx. destruct (vis_sites_full S D o nocyc x Hx) as [[H|[f [Hf H]]] _].
    - apply (op_sites_all o x Ho). apply in_or_app. left. exact H.
    - unfold all_sites. apply in_or_app. right. apply in_flat_map. exists f. split; [apply (reachable_in_defs o f Hf) | exact H].
  Qed.

  Lemma vis_in_scope o x : In x (vis_op_sites S D o) -> In x (op_scope_sites S D o).
  Proof.
    intros Hx. destruct (vis_sites_full S D o nocyc x Hx) as [[H|[f [Hf H]]] _]; unfold op_scope_sites; apply in_or_app.
    - left. exact H.
    - right. apply in_flat_map. eauto.
  Qed.

  Lemma const_parent_ok o x : In x (op_const_sites o) -> site_parent_ok S x.
  Proof. unfold op_const_sites. intros H. apply in_map_iff in H as [v [<- _]]. exact I. Qed.

  Theorem full_to_vis r : rule_ok_vis S D r = true.
  Proof.
    unfold rule_ok_vis.
    assert (Hsite : forall r' o x, In o (doc_ops D) -> In x (vis_op_sites S D o ++ op_const_sites o) ->
              (match r' with R_fields_exist | R_leaf_vs_composite | R_args_defined | R_required_args | R_literal_types
                           | R_fragment_targets | R_spreads_defined | R_spread_possible | R_directives_defined
                           | R_directives_location | R_directives_unique => True | _ => False end) ->
              site_ok true S D r' x = true).
    { intros r' o x Ho Hx Hr'.
      assert (Hall : In x (all_sites S D) /\ site_parent_ok S x).
      { apply in_app_or in Hx as [Hx|Hx].
        - split; [apply (vis_in_all o x Ho Hx) | apply (vis_sites_full S D o nocyc x Hx)].
        - split; [apply (op_sites_all o x Ho); apply in_or_app; right; exact Hx | apply (const_parent_ok o x Hx)]. }
      destruct Hall as [Hall Hpar]. apply (site_ok_full_vis S D r' x).
      pose proof (Hfull r') as Hf.
      destruct r'; try contradiction; cbn [rule_ok] in Hf;
        try (rewrite forallb_forall in Hf; apply Hf, Hall).
      apply andb_true_iff in Hf as [_ Hf]. rewrite forallb_forall in Hf. apply Hf, Hall. }
    assert (Hsites : forall r', (match r' with R_fields_exist | R_leaf_vs_composite | R_args_defined | R_required_args | R_literal_types
                           | R_fragment_targets | R_spreads_defined | R_spread_possible | R_directives_defined
                           | R_directives_location | R_directives_unique => True | _ => False end) ->
              forallb (fun ov : opdef * list site => forallb (site_ok true S D r') (snd ov ++ op_const_sites (fst ov)))
                      (vis_doc_sites S D) = true).
    { intros r' Hr'. apply forallb_forall. intros ov Hov. unfold vis_doc_sites in Hov. apply in_map_iff in Hov as [o [<- Ho]].
      cbn [fst snd]. apply forallb_forall. intros x Hx. apply (Hsite r' o x Ho Hx Hr'). }
    destruct r; cbn [rule_ok_vis_on]; try (apply Hsites; exact I); try apply Hfull.
    - (* variables defined *)
      apply forallb_forall. intros ov Hov. unfold vis_doc_sites in Hov. apply in_map_iff in Hov as [o [<- Ho]]. cbn [fst snd].
      pose proof (Hfull R_vars_defined) as Hf. cbn [rule_ok] in Hf. rewrite forallb_forall in Hf. specialize (Hf o Ho).
      unfold op_vars_defined, vars_defined_on in *. apply andb_true_iff in Hf as [Hf1 Hf2]. rewrite andb_true_iff. split.
      + apply forallb_forall. intros x Hx. apply forallb_forall. intros u Hu.
        rewrite forallb_forall in Hf1. specialize (Hf1 x (vis_in_scope o x Hx)). rewrite forallb_forall in Hf1.
        apply Hf1. apply (site_uses_shallow_deep S x u Hu).
      + apply forallb_forall. intros x Hx. rewrite forallb_forall in Hf2. specialize (Hf2 x Hx).
        destruct (site_var_uses false S x) as [|u us] eqn:E; [reflexivity|].
        assert (Hin : In u (site_var_uses true S x)).
        { apply (site_uses_shallow_deep S x u). rewrite E. left. reflexivity. }
        destruct (site_var_uses true S x); [contradiction | discriminate].
    - (* variable usages *)
      apply forallb_forall. intros ov Hov. unfold vis_doc_sites in Hov. apply in_map_iff in Hov as [o [<- Ho]]. cbn [fst snd].
      pose proof (Hfull R_var_usage_compatible) as Hf. cbn [rule_ok] in Hf. rewrite forallb_forall in Hf. specialize (Hf o Ho).
      unfold op_var_usage_ok, var_usage_on in *.
      apply forallb_forall. intros x Hx. apply forallb_forall. intros u Hu.
      rewrite forallb_forall in Hf. specialize (Hf x (vis_in_scope o x Hx)). rewrite forallb_forall in Hf.
      apply Hf. apply (site_uses_shallow_deep S x u Hu).
    - (* fragment targets *)
      pose proof (Hfull R_fragment_targets) as Hf. cbn [rule_ok] in Hf. apply andb_true_iff in Hf as [Hf1 _].
      rewrite andb_true_iff. split; [exact Hf1|].
      apply forallb_forall. intros ov Hov. unfold vis_doc_sites in Hov. apply in_map_iff in Hov as [o [<- Ho]]. cbn [fst snd].
      apply forallb_forall. intros x Hx. apply (Hsite R_fragment_targets o x Ho); [apply in_or_app; left; exact Hx | exact I].
    - (* no cycles *)
      apply forallb_forall. intros ov Hov. unfold vis_doc_sites in Hov. apply in_map_iff in Hov as [o [<- Ho]]. cbn [fst snd].
      apply forallb_forall. intros x Hx. destruct (vis_sites_full S D o nocyc x Hx) as [_ [_ Hc]].
      destruct x; try reflexivity. exfalso. apply (Hc name). reflexivity.
  Qed.
End FullToVis.

(** * C04_complete on the every-position reading *)
Theorem complete_full S D :
  schema_wf S = true -> schema_closed S = true ->
  spec_valid S D = true -> doc_guard S D = true ->
  (forall o, In o (doc_ops D) -> op_type o = Subscription ->
     length (collect_response_keys (doc_fuel D) (doc_frags D) [] (op_sel o) []) <= 1) ->
  forallb (fun f => mem_str (iname (fr_name f)) (spread_by_operations (doc_fuel D) (doc_frags D) (od_defs D))) (doc_frags D) = true ->
  check_operation_document S D = [].
Proof.
  intros Hwf Hcl Hvalid Hguard Hsub Hspread.
  assert (Hfull : forall r, rule_ok S D r = true).
  { intros r. unfold spec_valid in Hvalid. rewrite forallb_forall in Hvalid. apply Hvalid, all_rules_complete. }
  apply (complete_vis S D Hwf Hcl); [|exact Hsub|exact Hspread].
  unfold doc_fine_vis. rewrite Hguard, andb_true_r. apply forallb_forall. intros r _.
  apply (full_to_vis S D Hfull).
Qed.
