(** C04 — proofs about the model of C03/Model.v read in the "valid implies accepted" direction. *)
From V Require Import Base.Util Gql.Ast C03.Model C03.Spec C03.Witness C03.Proofs C03.Proofs2.

(** * Refutations: spec-valid documents the current code rejects *)

Lemma variable_default_position_refuted :
  spec_valid w_schema_0 w_doc_15 = true /\ check_operation_document w_schema_0 w_doc_15 <> [].
Proof. split; [vm_compute; reflexivity | vm_compute; discriminate]. Qed.

Lemma subscription_same_field_refuted :
  spec_valid w_schema_0 w_doc_16 = true /\ check_operation_document w_schema_0 w_doc_16 <> [].
Proof. split; [vm_compute; reflexivity | vm_compute; discriminate]. Qed.

(** * Non-vacuity: valid documents of the corpus are accepted *)
Example valid_documents_accepted :
  forallb (fun D => spec_valid w_schema_0 D && match check_operation_document w_schema_0 D with [] => true | _ => false end)
          [w_doc_6; w_doc_7; w_doc_14] = true.
Proof. vm_compute. reflexivity. Qed.

(** * check_value is complete for "Values of Correct Type" (with the variable rule read without
      hasLocationDefaultValue, which the code does not implement — see the refutation above) *)

Lemma Forall_flat_map_inv {A B} (P : B -> Prop) (f : A -> list B) l :
  Forall P (flat_map f l) -> forall x, In x l -> Forall P (f x).
Proof.
  induction l as [|a l IH]; cbn; intros H x Hx; [contradiction|].
  apply Forall_app in H as [Ha Hl]. destruct Hx as [<-|Hx]; auto.
Qed.

Lemma lit_fields_inv lo fields fs :
  lit_fields lo fields fs = true ->
  forall k v, In (k, v) fs ->
    exists d, find (fun d => str_eqb (iname (iv_name d)) (iname k)) fields = Some d /\ lo v (iv_type d) = true.
Proof.
  induction fs as [|[k0 v0] r IH]; cbn [lit_fields]; intros H k v Hin; [contradiction|].
  apply andb_true_iff in H as [H0 Hr]. destruct Hin as [E|Hin]; [|apply (IH Hr _ _ Hin)].
  injection E as <- <-. destruct (find _ fields) as [d|]; [|discriminate]. eauto.
Qed.

Lemma scalar_complete name v :
  is_var v = false -> builtin_scalar_ok name v = true -> scalar_accepts name v = true.
Proof.
  intros Hv. unfold scalar_accepts, builtin_scalar_ok.
  destruct s_consts as [-> [-> [-> [-> ->]]]].
  destruct (str_eqb_spec name str_Boolean) as [E1|E1];
  destruct (str_eqb_spec name str_Int) as [E2|E2];
  destruct (str_eqb_spec name str_Float) as [E3|E3];
  destruct (str_eqb_spec name str_String) as [E4|E4];
  destruct (str_eqb_spec name str_ID) as [E5|E5];
  unfold str_Boolean, str_Int, str_Float, str_String, str_ID in *;
  try congruence; destruct v; cbn in *; rewrite <- ?parse_i32_spec in *; congruence.
Qed.

Lemma scalar_accepts_null name p : scalar_accepts name (VNull p) = true.
Proof.
  unfold scalar_accepts.
  destruct (str_eqb name str_Boolean), (str_eqb name str_Int), (str_eqb name str_Float),
           (str_eqb name str_String), (str_eqb name str_ID); reflexivity.
Qed.

Lemma wf_closed S n d p name dirs fields kw :
  input_types_closed S = true -> get_type S n = Some (TDInput d p name dirs fields kw) ->
  forall f, In f fields -> resolves S (iv_type f) = true.
Proof.
  intros Hc Hg f Hf. apply get_type_In in Hg. unfold input_types_closed in Hc.
  rewrite forallb_forall in Hc. specialize (Hc _ Hg). cbn in Hc. rewrite forallb_forall in Hc. apply Hc, Hf.
Qed.

Section ValueComplete.
  Variable S : tsdoc.
  Variable vars : option vardefs.
  Hypothesis Hwf : schema_wf S = true.
  Hypothesis Hclosed : input_types_closed S = true.

  Definition use_strict (u : var_use) : Prop :=
    exists vd, get_variable_definition vars (u_name u) = Some vd
      /\ forall t, u_type u = Some t -> variable_usage_allowed vd t false = true.

  Lemma variable_complete n p t ld :
    use_strict (mkUse n (Some t) ld) -> check_variable_value vars n p t = [].
  Proof.
    intros [vd [Hvd Hall]]. cbn [u_name u_type] in *. specialize (Hall t eq_refl).
    unfold check_variable_value. rewrite Hvd. unfold variable_usage_allowed in Hall.
    assert (Hd : match vd_default vd with Some (VNull _) => false | Some _ => true | None => false end
                 = match vd_default vd with Some d => negb (value_is_null d) | None => false end).
    { destruct (vd_default vd) as [[]|]; reflexivity. }
    rewrite Hd in Hall. clear Hd.
    destruct t as [tn|ti|tp ti].
    - assert (E : type_compat (vd_type vd) (TNamed tn) = true) by (rewrite type_compat_spec; destruct (vd_type vd); exact Hall).
      rewrite E. reflexivity.
    - destruct (vd_type vd) as [vn|vi|vp vi] eqn:Ev; cbn [ty_is_nonnull negb andb].
      + rewrite orb_false_r in Hall. destruct (match vd_default vd with Some d => negb (value_is_null d) | None => false end);
          [|discriminate]. rewrite <- type_compat_spec in Hall. rewrite Hall. reflexivity.
      + rewrite <- type_compat_spec in Hall. rewrite Hall. reflexivity.
      + rewrite orb_false_r in Hall. destruct (match vd_default vd with Some d => negb (value_is_null d) | None => false end);
          [|discriminate]. rewrite <- type_compat_spec in Hall. rewrite Hall. reflexivity.
    - assert (E : type_compat (vd_type vd) (TList tp ti) = true) by (rewrite type_compat_spec; destruct (vd_type vd); exact Hall).
      rewrite E. reflexivity.
  Qed.

  Lemma resolves_named n : resolves S (TNamed n) = true -> exists td, get_type S (iname n) = Some td /\ is_input_type td = true.
  Proof.
    unfold resolves. cbn [ty_unwrapped]. rewrite <- get_type_sp.
    destruct (get_type S (iname n)) as [td|]; [eauto | discriminate].
  Qed.

  (** the named arm *)
  Lemma named_complete v n :
    is_var v = false -> resolves S (TNamed n) = true ->
    match v with
    | VObject _ fs =>
        Forall (fun kv => forall t ld, resolves S t = true -> lit_ok S (snd kv) t = true ->
                                       Forall use_strict (var_uses false S (snd kv) (Some t) ld) ->
                                       check_value S vars (snd kv) t = []) fs
        /\ Forall use_strict (obj_uses S (input_defs S (TNamed n)) fs)
    | _ => True
    end ->
    lit_ok S v (TNamed n) = true ->
    check_named S (check_value S vars) v (TNamed n) n = [].
  Proof.
    intros Hv Hres IH Hlit. destruct (resolves_named n Hres) as [td [Eg Hin]].
    rewrite (lo_named S v n Hv) in Hlit. unfold check_named. rewrite Eg.
    destruct (value_is_null v) eqn:Enull.
    { destruct v; try discriminate. destruct td; try discriminate Hin; cbn zeta; try reflexivity.
      rewrite scalar_accepts_null. reflexivity. }
    assert (G : lit_named (lit_ok S) S v n = true) by (destruct v; try exact Hlit; discriminate).
    clear Hlit. unfold lit_named in G. rewrite <- get_type_sp, Eg in G.
    destruct td as [d p name dirs kw|d p name impls dirs fs' kw|d p name impls dirs fs' kw|d p name dirs mem' kw
                   |d p name dirs vals kw|d p name dirs fields kw]; try discriminate Hin; cbn zeta.
    - rewrite (scalar_complete _ _ Hv G). reflexivity.
    - destruct v; try discriminate.
      assert (E : forallb (fun ev => negb (str_eqb (iname (ev_name ev)) v)) vals = false).
      { apply mem_In, in_map_iff in G as [e [He Hine]]. clear -He Hine.
        induction vals as [|x vals IHv]; [contradiction|]. cbn [forallb].
        destruct Hine as [->|Hine].
        - rewrite He, str_eqb_refl. reflexivity.
        - rewrite (IHv Hine). apply andb_false_r. }
      rewrite E. reflexivity.
    - destruct v as [| | | | | | | |q fs]; try discriminate.
      destruct IH as [IHfs Huses].
      rewrite !andb_true_iff in G. destruct G as [[Glit Gnd] Greq].
      apply nodup_str_NoDup in Gnd. fold (keys fs) in Gnd, Greq.
      pose proof (wf_input S _ _ _ _ _ _ _ Hwf Eg) as Hnd.
      pose proof (lit_fields_inv _ _ _ Glit) as Hl.
      unfold input_object_check. cbn zeta.
      pose proof (io_fold (check_value S vars) fs fields (mkIo [] true [] 0)) as [F1 [F2 F3]].
      cbn zeta in F1, F2, F3. cbn [io_errs io_res io_seen app andb Nat.add] in F1, F2, F3.
      rewrite F1, F2, F3.
      assert (Herrs : flat_map (ef_errs (check_value S vars) fs) fields = []).
      { assert (Hall : forall ef, In ef fields -> ef_errs (check_value S vars) fs ef = []).
        { intros ef Hef. unfold ef_errs.
          destruct (find_val (fun fv => check_value S vars fv (iv_type ef)) (iname (iv_name ef)) fs) as [es|] eqn:Efv;
            [|reflexivity].
          apply find_val_some_first in Efv as [k' [v' [Hfind ->]]].
          apply find_some in Hfind as [Hin' Hname]. cbn in Hname. apply str_eqb_eq in Hname.
          destruct (Hl k' v' Hin') as [dd [Hfd Hlo]].
          pose proof (find_some _ _ Hfd) as [Hdin Hdn]. apply str_eqb_eq in Hdn.
          assert (Edd : dd = ef).
          { apply (NoDup_map_inj (fun d0 => iname (iv_name d0)) fields); auto. cbn. congruence. }
          subst dd. rewrite Forall_forall in IHfs.
          apply (IHfs (k', v') Hin' (iv_type ef) (match iv_default ef with Some _ => true | None => false end)).
          - apply (wf_closed S _ _ _ _ _ _ _ Hclosed Eg ef Hef).
          - exact Hlo.
          - unfold obj_uses, input_defs in Huses. cbn [unwrap_lists] in Huses. rewrite <- get_type_sp, Eg in Huses.
            pose proof (Forall_flat_map_inv _ _ _ Huses (k', v') Hin') as Hu. cbn [fst snd] in Hu.
            rewrite Hfd in Hu. exact Hu. }
        clear -Hall. induction fields as [|ef fields IHf]; [reflexivity|]. cbn [flat_map].
        rewrite (Hall ef (or_introl eq_refl)). cbn [app]. apply IHf. intros x Hx. apply Hall. right. exact Hx. }
      rewrite Herrs. cbn [app].
      assert (Hok : forallb (ef_ok fs) fields = true).
      { apply forallb_forall. intros ef Hef. rewrite forallb_forall in Greq. specialize (Greq ef Hef).
        unfold ef_ok. rewrite orb_comm. exact Greq. }
      rewrite Hok.
      assert (Hlen : length fs <= length (filter (fun ef => mem (iname (iv_name ef)) (keys fs)) fields)).
      { rewrite <- (map_length (fun kv => iname (fst kv)) fs). fold (keys fs).
        rewrite <- (map_length (fun d0 => iname (iv_name d0)) (filter _ fields)).
        apply NoDup_incl_length; [exact Gnd|]. intros k Hk.
        unfold keys in Hk. apply in_map_iff in Hk as [[k0 v0] [<- Hin0]]. cbn [fst].
        destruct (Hl k0 v0 Hin0) as [dd [Hfd _]]. pose proof (find_some _ _ Hfd) as [Hdin Hdn]. apply str_eqb_eq in Hdn.
        apply in_map_iff. exists dd. split; [exact Hdn|]. apply filter_In. split; [exact Hdin|].
        rewrite Hdn. apply mem_In. unfold keys. apply in_map_iff. exists (k0, v0). auto. }
      apply Nat.ltb_ge in Hlen. rewrite Hlen. reflexivity.
  Qed.

  Theorem check_value_complete : forall v t ld,
    resolves S t = true -> lit_ok S v t = true ->
    Forall use_strict (var_uses false S v (Some t) ld) ->
    check_value S vars v t = [].
  Proof.
    induction v as [n p|p l|p l|p l|p b|p|p l|p vs IHvs|p fs IHfs] using value_ind'; intros t ld Hres Hlit Hu.
    - rewrite cv_var. cbn [var_uses] in Hu. inversion Hu as [|? ? Hu1 _]; subst.
      apply (variable_complete n p t ld Hu1).
    - induction t as [n|i IHt|q i IHt].
      + rewrite cv_named by reflexivity. apply named_complete; auto.
      + rewrite cv_nonnull by reflexivity. rewrite lo_nonnull in Hlit by reflexivity. apply IHt; auto.
      + rewrite cv_list by reflexivity. rewrite lo_list in Hlit by reflexivity. apply IHt; auto.
    - induction t as [n|i IHt|q i IHt].
      + rewrite cv_named by reflexivity. apply named_complete; auto.
      + rewrite cv_nonnull by reflexivity. rewrite lo_nonnull in Hlit by reflexivity. apply IHt; auto.
      + rewrite cv_list by reflexivity. rewrite lo_list in Hlit by reflexivity. apply IHt; auto.
    - induction t as [n|i IHt|q i IHt].
      + rewrite cv_named by reflexivity. apply named_complete; auto.
      + rewrite cv_nonnull by reflexivity. rewrite lo_nonnull in Hlit by reflexivity. apply IHt; auto.
      + rewrite cv_list by reflexivity. rewrite lo_list in Hlit by reflexivity. apply IHt; auto.
    - induction t as [n|i IHt|q i IHt].
      + rewrite cv_named by reflexivity. apply named_complete; auto.
      + rewrite cv_nonnull by reflexivity. rewrite lo_nonnull in Hlit by reflexivity. apply IHt; auto.
      + rewrite cv_list by reflexivity. rewrite lo_list in Hlit by reflexivity. apply IHt; auto.
    - (* null *)
      destruct t as [n|i|q i].
      + rewrite cv_named by reflexivity. apply named_complete; auto.
      + rewrite lo_nonnull in Hlit by reflexivity. discriminate.
      + rewrite cv_list by reflexivity. reflexivity.
    - induction t as [n|i IHt|q i IHt].
      + rewrite cv_named by reflexivity. apply named_complete; auto.
      + rewrite cv_nonnull by reflexivity. rewrite lo_nonnull in Hlit by reflexivity. apply IHt; auto.
      + rewrite cv_list by reflexivity. rewrite lo_list in Hlit by reflexivity. apply IHt; auto.
    - (* list *)
      rewrite Forall_forall in IHvs.
      induction t as [n|i IHt|q i IHt].
      + rewrite cv_named by reflexivity. apply named_complete; auto.
      + rewrite cv_nonnull by reflexivity. rewrite lo_nonnull in Hlit by reflexivity.
        apply IHt; auto.
      + rewrite cv_list by reflexivity. rewrite lo_list in Hlit by reflexivity.
        rewrite list_uses_unfold in Hu. cbn [strip_nonnull] in Hu.
        rewrite forallb_forall in Hlit.
        assert (Hall : forall e, In e vs -> check_value S vars e i = []).
        { intros e He. apply (IHvs e He i false); auto. apply (Forall_flat_map_inv _ _ _ Hu e He). }
        clear -Hall. induction vs as [|e vs IHl]; [reflexivity|]. cbn [flat_map].
        rewrite (Hall e (or_introl eq_refl)). cbn [app]. apply IHl. intros x Hx. apply Hall. right. exact Hx.
    - (* object *)
      induction t as [n|i IHt|q i IHt].
      + rewrite cv_named by reflexivity. apply named_complete; auto. split.
        * apply Forall_forall. intros kv Hin t' ld' Hr' Hl' Hu'. rewrite Forall_forall in IHfs.
          apply (IHfs kv Hin t' ld' Hr' Hl' Hu').
        * rewrite obj_uses_unfold in Hu. exact Hu.
      + rewrite cv_nonnull by reflexivity. rewrite lo_nonnull in Hlit by reflexivity.
        apply IHt; auto.
      + rewrite cv_list by reflexivity. rewrite lo_list in Hlit by reflexivity.
        apply IHt; auto.
  Qed.
End ValueComplete.

(** * check_arguments is complete for the argument rules *)
From V Require Import C03.Proofs3.

Section ArgsComplete.
  Variable S : tsdoc.
  Variable vars : option vardefs.
  Hypothesis Hwf : schema_wf S = true.
  Hypothesis Hclosed : input_types_closed S = true.

  Lemma flat_map_all_nil {A B} (f : A -> list B) l : (forall x, In x l -> f x = []) -> flat_map f l = [].
  Proof.
    induction l as [|a l IH]; intros H; [reflexivity|]. cbn [flat_map].
    rewrite (H a (or_introl eq_refl)). apply IH. intros x Hx. apply H. right. exact Hx.
  Qed.

  Theorem check_arguments_complete ppos pname kind args defs :
    (forall d, In d defs -> resolves S (iv_type d) = true) ->
    (forall a, args = Some a -> args_list a <> []) ->
    args_defined_ok (provided args, defs) = true ->
    required_args_ok (provided args, defs) = true ->
    literal_types_vis S (provided args, defs) = true ->
    Forall (use_strict vars) (args_var_uses false S (provided args) defs) ->
    check_arguments S vars ppos pname kind args defs = [].
  Proof.
    intros Hres Hne Hdef Hreq Hlit Huses. unfold check_arguments.
    assert (Hmain : forall apos,
      (let st := fold_left (arg_step S vars apos (provided args)) defs ([], 0) in
       fst st ++ (if Nat.ltb (snd st) (length (provided args)) then
                    flat_map (fun kv => if forallb (fun ad => negb (str_eqb (iname (iv_name ad)) (iname (fst kv)))) defs
                                        then [err0 (UnknownArgument (iname (fst kv))) (ipos (fst kv))] else []) (provided args)
                  else [])) = []).
    { intros apos. cbn zeta. rewrite arg_fold. cbn [fst snd app Nat.add].
      assert (H1 : flat_map (ad_errs S vars apos (provided args)) defs = []).
      { apply flat_map_all_nil. intros ad Hin. unfold ad_errs, arg_step.
        unfold required_args_ok in Hreq. cbn [fst snd] in Hreq. rewrite forallb_forall in Hreq. specialize (Hreq ad Hin).
        unfold literal_types_vis in Hlit. cbn [fst snd] in Hlit. rewrite forallb_forall in Hlit. specialize (Hlit ad Hin).
        unfold args_var_uses in Huses. pose proof (Forall_flat_map_inv _ _ _ Huses ad Hin) as Hu.
        unfold arg_for in *.
        destruct (find (fun kv => str_eqb (iname (iv_name ad)) (iname (fst kv))) (provided args)) as [kv|] eqn:Ef.
        - cbn [fst app]. apply (check_value_complete S vars Hwf Hclosed _ _ (has_default ad)); auto.
        - apply find_arg_none in Ef. unfold arg_keys in Ef. rewrite Ef, orb_false_r in Hreq.
          rewrite required_input_eq in Hreq.
          destruct (ty_is_nonnull (iv_type ad)); cbn [negb andb] in *; [|reflexivity].
          destruct (iv_default ad); cbn in *; [reflexivity | discriminate]. }
      rewrite H1. cbn [app].
      destruct (Nat.ltb _ (length (provided args))); [|reflexivity].
      apply flat_map_all_nil. intros kv Hin.
      unfold args_defined_ok in Hdef. cbn [fst snd] in Hdef. rewrite forallb_forall in Hdef. specialize (Hdef kv Hin).
      apply mem_In, in_map_iff in Hdef as [ad [Hn Hadin]].
      assert (E : forallb (fun ad0 => negb (str_eqb (iname (iv_name ad0)) (iname (fst kv)))) defs = false).
      { clear -Hn Hadin. induction defs as [|x l IH]; [contradiction|]. cbn [forallb].
        destruct Hadin as [->|Hin]; [rewrite Hn, str_eqb_refl; reflexivity | rewrite (IH Hin); apply andb_false_r]. }
      rewrite E. reflexivity. }
    destruct args as [a|]; destruct defs as [|d0 defs0].
    - exfalso. apply (Hne a eq_refl). unfold args_defined_ok in Hdef. cbn [fst snd provided] in Hdef.
      destruct (args_list a) as [|kv r]; [reflexivity|]. cbn in Hdef. discriminate.
    - apply (Hmain (args_pos a)).
    - reflexivity.
    - apply (Hmain ppos).
  Qed.
End ArgsComplete.

(** * check_directives is complete for the directive rules *)
Section DirsComplete.
  Variable S : tsdoc.
  Variable vars : option vardefs.
  Hypothesis Hwf : schema_wf S = true.
  Hypothesis Hclosed : input_types_closed S = true.

  (** what the specification asks of one directive application at location [loc] *)
  Definition directive_fine (loc : str) (d : directive) : Prop :=
    exists dd, sp_directive S (iname (dir_name d)) = Some dd
      /\ mem loc (names_of (dd_locs dd)) = true
      /\ (forall x, In x (dir_argdefs dd) -> resolves S (iv_type x) = true)
      /\ (forall a, dir_args d = Some a -> args_list a <> [])
      /\ args_defined_ok (provided (dir_args d), dir_argdefs dd) = true
      /\ required_args_ok (provided (dir_args d), dir_argdefs dd) = true
      /\ literal_types_vis S (provided (dir_args d), dir_argdefs dd) = true
      /\ Forall (use_strict vars) (args_var_uses false S (provided (dir_args d)) (dir_argdefs dd)).

  Lemma check_directives_from_complete loc : forall ds seen,
    (forall d, In d ds -> directive_fine loc d) ->
    nodup_str (nonrep S ds) = true ->
    (forall n, In n (nonrep S ds) -> mem n seen = false) ->
    check_directives_from S vars seen loc ds = [].
  Proof.
    induction ds as [|d ds IH]; intros seen Hall Hnd Hseen; [reflexivity|].
    cbn [check_directives_from]. cbn zeta.
    destruct (Hall d (or_introl eq_refl)) as [dd [Esp [Hloc [Hres [Hne [A1 [A2 [A3 A4]]]]]]]].
    rewrite get_directive_sp, Esp.
    cbn [nonrep flat_map] in Hnd, Hseen. rewrite Esp in Hnd, Hseen. fold (nonrep S ds) in Hnd, Hseen.
    assert (E1 : forallb (fun l => negb (str_eqb (iname l) loc)) (dd_locs dd) = false).
    { clear -Hloc. unfold names_of in Hloc. induction (dd_locs dd) as [|l ls IHl]; [discriminate|].
      cbn [forallb map] in *. rewrite mem_cons, (str_eqb_sym loc) in Hloc.
      destruct (str_eqb (iname l) loc); cbn [negb andb orb] in *; [reflexivity | apply IHl, Hloc]. }
    rewrite E1. cbn [app].
    rewrite (check_arguments_complete S vars Hwf Hclosed (dir_pos d) (iname (dir_name d)) str_directive
               (dir_args d) (dd_argdefs dd) Hres Hne A1 A2 A3 A4). cbn [app].
    destruct (dd_repeatable dd) as [r|] eqn:Er.
    - (* repeatable *)
      cbn [app] in Hnd, Hseen.
      assert (E2 : (if mem_str (iname (dir_name d)) seen then [] else []) = @nil err) by (destruct (mem_str _ seen); reflexivity).
      rewrite E2. cbn [app].
      apply IH; [intros x Hx; apply Hall; right; exact Hx | exact Hnd |].
      intros n Hn. specialize (Hseen n Hn).
      destruct (mem_str (iname (dir_name d)) seen); [exact Hseen|].
      rewrite mem_app. cbn [mem existsb]. rewrite Hseen. cbn [orb]. rewrite orb_false_r.
      destruct (str_eqb_spec n (iname (dir_name d))) as [E|E]; [|reflexivity].
      (* a repeatable directive is not in nonrep: n would be non-repeatable and equal to d's name *)
      exfalso. subst n. unfold nonrep in Hn. apply in_flat_map in Hn as [d' [Hd' Hn]].
      destruct (sp_directive S (iname (dir_name d'))) as [dd'|] eqn:E'; [|contradiction].
      destruct (dd_repeatable dd') eqn:Er'; [contradiction|]. destruct Hn as [Hn|[]].
      rewrite Hn in E'. rewrite Esp in E'. injection E' as <-. congruence.
    - (* not repeatable *)
      cbn [app nodup_str] in Hnd. apply andb_true_iff in Hnd as [Hnotin Hnd].
      assert (Hs : mem_str (iname (dir_name d)) seen = false) by (apply Hseen; left; reflexivity).
      rewrite Hs. cbn [app].
      apply IH; [intros x Hx; apply Hall; right; exact Hx | exact Hnd |].
      intros n Hn. rewrite mem_app. cbn [mem existsb]. rewrite (Hseen n (or_intror Hn)). cbn [orb]. rewrite orb_false_r.
      destruct (str_eqb_spec n (iname (dir_name d))) as [E|E]; [|reflexivity].
      subst n. apply mem_In in Hn. rewrite Hn in Hnotin. discriminate.
  Qed.

  Theorem check_directives_complete loc ds :
    (forall d, In d ds -> directive_fine loc d) ->
    nodup_str (nonrep S ds) = true ->
    check_directives S vars loc ds = [].
  Proof.
    intros Hall Hnd. unfold check_directives. apply check_directives_from_complete; auto.
  Qed.
End DirsComplete.
