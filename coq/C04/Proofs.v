(** C04 — proofs about the model of C03/Model.v read in the "valid implies accepted" direction. *)
From V Require Import Base.Util Gql.Ast C03.Model C03.Spec C03.Witness C03.Proofs C03.Proofs2 C03.Proofs3.

(** * Spec-valid forms that used to be rejected and are accepted since the fixes in /repo *)

(** commit aff743c: a nullable variable may be used where the argument or input field has a default value *)
Lemma variable_default_position_now_accepted :
  spec_valid w_schema_0 w_doc_15 = true /\ check_operation_document w_schema_0 w_doc_15 = [].
Proof. split; vm_compute; reflexivity. Qed.

(** commit a3d3d08: response keys are counted, not selections: `subscription S { s s }` and `{ s ...F }` with F selecting s
    have one root field; `{ s t: s }` has two *)
Lemma subscription_same_field_now_accepted :
  spec_valid w_schema_0 w_doc_16 = true /\ check_operation_document w_schema_0 w_doc_16 = []
  /\ spec_valid w_schema_0 w_doc_23 = true /\ check_operation_document w_schema_0 w_doc_23 = []
  /\ rule_ok w_schema_0 w_doc_24 R_single_subscription_root = false
  /\ (exists p i, check_operation_document w_schema_0 w_doc_24 = [mkErr SubscriptionMustHaveExactlyOneRootField p i]).
Proof. repeat split; try (vm_compute; reflexivity). do 2 eexists. vm_compute. reflexivity. Qed.

(** * Non-vacuity: valid documents of the corpus are accepted *)
Example valid_documents_accepted :
  forallb (fun D => spec_valid w_schema_0 D && match check_operation_document w_schema_0 D with [] => true | _ => false end)
          [w_doc_6; w_doc_7; w_doc_14; w_doc_15; w_doc_16; w_doc_23] = true.
Proof. vm_compute. reflexivity. Qed.

(** * check_value is complete for "Values of Correct Type" and IsVariableUsageAllowed (both halves) *)

Lemma Forall_flat_map_inv {A B} (P : B -> Prop) (f : A -> list B) l :
  Forall P (flat_map f l) -> forall x, In x l -> Forall P (f x).
Proof.
  induction l as [|a l IH]; cbn; intros H x Hx; [contradiction|].
  apply Forall_app in H as [Ha Hl]. destruct Hx as [<-|Hx]; auto.
Qed.

Lemma lit_fields_inv lo fields fs :
  lit_fields lo fields fs = true ->
  forall k v, In (k, v) fs ->
    exists d, find (fun d => str_eqb (iname (iv_name d)) (iname k)) fields = Some d /\ lo v (iv_type d) = true.
Proof.
  induction fs as [|[k0 v0] r IH]; cbn [lit_fields]; intros H k v Hin; [contradiction|].
  apply andb_true_iff in H as [H0 Hr]. destruct Hin as [E|Hin]; [|apply (IH Hr _ _ Hin)].
  injection E as <- <-. destruct (find _ fields) as [d|]; [|discriminate]. eauto.
Qed.

Lemma scalar_complete name v :
  is_var v = false -> builtin_scalar_ok name v = true -> scalar_accepts name v = true.
Proof.
  intros Hv. unfold scalar_accepts, builtin_scalar_ok.
  destruct s_consts as [-> [-> [-> [-> ->]]]].
  destruct (str_eqb_spec name str_Boolean) as [E1|E1];
  destruct (str_eqb_spec name str_Int) as [E2|E2];
  destruct (str_eqb_spec name str_Float) as [E3|E3];
  destruct (str_eqb_spec name str_String) as [E4|E4];
  destruct (str_eqb_spec name str_ID) as [E5|E5];
  unfold str_Boolean, str_Int, str_Float, str_String, str_ID in *;
  try congruence; destruct v; cbn in *; rewrite <- ?parse_i32_spec in *; congruence.
Qed.

Lemma scalar_accepts_null name p : scalar_accepts name (VNull p) = true.
Proof.
  unfold scalar_accepts.
  destruct (str_eqb name str_Boolean), (str_eqb name str_Int), (str_eqb name str_Float),
           (str_eqb name str_String), (str_eqb name str_ID); reflexivity.
Qed.

Lemma wf_closed S n d p name dirs fields kw :
  input_types_closed S = true -> get_type S n = Some (TDInput d p name dirs fields kw) ->
  forall f, In f fields -> resolves S (iv_type f) = true.
Proof.
  intros Hc Hg f Hf. apply get_type_In in Hg. unfold input_types_closed in Hc.
  rewrite forallb_forall in Hc. specialize (Hc _ Hg). cbn in Hc. rewrite forallb_forall in Hc. apply Hc, Hf.
Qed.

Lemma var_uses_ld dp S v t ld : is_var v = false -> var_uses dp S v t ld = var_uses dp S v t false.
Proof. destruct v; intros H; try discriminate H; reflexivity. Qed.

Lemma allowed_ld_irrelevant vd t ld : ty_is_nonnull t = false -> variable_usage_allowed vd t ld = variable_usage_allowed vd t false.
Proof. destruct t; intros H; try discriminate H; reflexivity. Qed.

Lemma flat_map_all_nil' {A B} (f : A -> list B) l : (forall x, In x l -> f x = []) -> flat_map f l = [].
Proof.
  induction l as [|a l IH]; intros H; [reflexivity|]. cbn [flat_map].
  rewrite (H a (or_introl eq_refl)). apply IH. intros x Hx. apply H. right. exact Hx.
Qed.

Lemma concat_all_nil {A} (l : list (list A)) : (forall x, In x l -> x = []) -> concat l = [].
Proof.
  induction l as [|a l IH]; intros H; [reflexivity|]. cbn [concat].
  rewrite (H a (or_introl eq_refl)). apply IH. intros x Hx. apply H. right. exact Hx.
Qed.

Section ValueComplete.
  Variable S : tsdoc.
  Variable vars : option vardefs.
  Hypothesis Hwf : schema_wf S = true.
  Hypothesis Hclosed : input_types_closed S = true.

  Lemma variable_complete n p t :
    use_ok vars (mkUse n (Some t) false) -> check_variable_value vars n p t = [].
  Proof.
    intros [vd [Hvd Hall]]. cbn [u_name u_type u_loc_default] in *. specialize (Hall t eq_refl).
    unfold check_variable_value. rewrite Hvd. unfold variable_usage_allowed in Hall.
    assert (Hd : match vd_default vd with Some (VNull _) => false | Some _ => true | None => false end
                 = match vd_default vd with Some d => negb (value_is_null d) | None => false end).
    { destruct (vd_default vd) as [[]|]; reflexivity. }
    rewrite Hd in Hall. clear Hd.
    destruct t as [tn|ti|tp ti].
    - assert (E : type_compat (vd_type vd) (TNamed tn) = true) by (rewrite type_compat_spec; destruct (vd_type vd); exact Hall).
      rewrite E. reflexivity.
    - destruct (vd_type vd) as [vn|vi|vp vi] eqn:Ev; cbn [ty_is_nonnull negb andb].
      + rewrite orb_false_r in Hall. destruct (match vd_default vd with Some d => negb (value_is_null d) | None => false end);
          [|discriminate]. rewrite <- type_compat_spec in Hall. rewrite Hall. reflexivity.
      + rewrite <- type_compat_spec in Hall. rewrite Hall. reflexivity.
      + rewrite orb_false_r in Hall. destruct (match vd_default vd with Some d => negb (value_is_null d) | None => false end);
          [|discriminate]. rewrite <- type_compat_spec in Hall. rewrite Hall. reflexivity.
    - assert (E : type_compat (vd_type vd) (TList tp ti) = true) by (rewrite type_compat_spec; destruct (vd_type vd); exact Hall).
      rewrite E. reflexivity.
  Qed.

  (** expected_type_of_location, the converse of [var_loc_sound] *)
  Lemma var_loc_complete d n p :
    ty_wf (iv_type d) = true ->
    use_ok vars (mkUse n (Some (iv_type d)) (has_default d)) ->
    check_variable_value vars n p (loc_type d (VVar n p)) = [].
  Proof.
    intros Hty Hu. unfold loc_type. destruct (iv_type d) as [tn|inner|tp ti] eqn:Et.
    - apply variable_complete. destruct Hu as [vd [H1 H2]]. exists vd. split; [exact H1|]. intros t E. cbn [u_type u_loc_default] in *.
      injection E as <-. rewrite <- (allowed_ld_irrelevant vd _ (has_default d)); [apply H2; reflexivity | reflexivity].
    - unfold has_default in Hu. destruct (iv_default d) as [dv|]; [|apply variable_complete, Hu].
      assert (Hinner : ty_is_nonnull inner = false) by (destruct inner; [reflexivity | discriminate Hty | reflexivity]).
      destruct Hu as [vd [Hvd Hall]]. cbn [u_name u_type u_loc_default] in *. specialize (Hall _ eq_refl).
      unfold check_variable_value. rewrite Hvd. unfold variable_usage_allowed in Hall. rewrite orb_true_r in Hall.
      assert (Hc : type_compat (vd_type vd) inner = true).
      { rewrite type_compat_spec. destruct (vd_type vd) as [vn|vi|vp vi] eqn:Ev; try exact Hall.
        cbn [types_compatible] in Hall. destruct inner; try discriminate Hinner; exact Hall. }
      destruct inner; try discriminate Hinner; rewrite Hc; reflexivity.
    - apply variable_complete. destruct Hu as [vd [H1 H2]]. exists vd. split; [exact H1|]. intros t E. cbn [u_type u_loc_default] in *.
      injection E as <-. rewrite <- (allowed_ld_irrelevant vd _ (has_default d)); [apply H2; reflexivity | reflexivity].
  Qed.

  Lemma cviv_complete : forall v, Forall (use_ok vars) (var_uses true S v None false) -> check_variables_in_value vars v = [].
  Proof.
    induction v as [n p|p l|p l|p l|p b|p|p l|p vs IHvs|p fs IHfs] using value_ind'; intros H; try reflexivity.
    - cbn [var_uses] in H. inversion H as [|? ? [vd [Hvd _]] _]; subst. cbn [check_variables_in_value u_name] in *. rewrite Hvd. reflexivity.
    - cbn [check_variables_in_value]. rewrite deep_list_unfold in H. apply flat_map_all_nil'. intros e He.
      rewrite Forall_forall in IHvs. apply (IHvs e He). apply (Forall_flat_map_inv _ _ _ H e He).
    - cbn [check_variables_in_value]. rewrite deep_obj_unfold in H. revert H.
      induction fs as [|[k fv] r IHr]; intros H; [reflexivity|].
      inversion IHfs as [|? ? Hk Hr]; subst. cbn [flat_map snd] in H. apply Forall_app in H as [H1 H2].
      cbn [snd] in Hk. specialize (Hk H1). specialize (IHr Hr H2). cbn. cbn in IHr. rewrite Hk, IHr. reflexivity.
  Qed.

  Lemma resolves_named n : resolves S (TNamed n) = true -> exists td, get_type S (iname n) = Some td /\ is_input_type td = true.
  Proof.
    unfold resolves. cbn [ty_unwrapped]. rewrite <- get_type_sp.
    destruct (get_type S (iname n)) as [td|]; [eauto | discriminate].
  Qed.

  (** the named arm *)
  Lemma named_complete v n :
    is_var v = false -> resolves S (TNamed n) = true ->
    match v with
    | VObject _ fs =>
        Forall (fun kv => forall t, resolves S t = true -> lit_ok S (snd kv) t = true ->
                                    Forall (use_ok vars) (var_uses false S (snd kv) (Some t) false) ->
                                    check_value S vars (snd kv) t = []) fs
    | _ => True
    end ->
    Forall (use_ok vars) (var_uses false S v (Some (TNamed n)) false) ->
    lit_ok S v (TNamed n) = true ->
    check_named S vars (check_value S vars) v (TNamed n) n = [].
  Proof.
    intros Hv Hres IH Huses Hlit. destruct (resolves_named n Hres) as [td [Eg Hin]].
    rewrite (lo_named S v n Hv) in Hlit. unfold check_named. rewrite Eg.
    destruct (value_is_null v) eqn:Enull.
    { destruct v; try discriminate. destruct td; try discriminate Hin; cbn zeta; try reflexivity.
      rewrite scalar_accepts_null. destruct (is_builtin_scalar (iname name)); reflexivity. }
    assert (G : lit_named (lit_ok S) S v n = true) by (destruct v; try exact Hlit; discriminate).
    clear Hlit. unfold lit_named in G. rewrite <- get_type_sp, Eg in G.
    destruct td as [d p name dirs kw|d p name impls dirs fs' kw|d p name impls dirs fs' kw|d p name dirs mem' kw
                   |d p name dirs vals kw|d p name dirs fields kw]; try discriminate Hin; cbn zeta.
    - (* scalar *)
      destruct (is_builtin_scalar (iname name)) eqn:Eb; [rewrite (scalar_complete _ _ Hv G); reflexivity|].
      assert (Hc : custom_scalar S (TNamed n) = true).
      { unfold custom_scalar. rewrite <- get_type_sp, Eg, <- builtin_agree, Eb. reflexivity. }
      destruct v as [vn vp|q l|q l|q l|q bb|q|q l|q vs|q fs]; try reflexivity; try discriminate Hv.
      + rewrite list_uses_unfold in Huses. cbn [strip_nonnull] in Huses. rewrite Hc in Huses.
        apply cviv_complete. rewrite deep_list_unfold. exact Huses.
      + rewrite obj_uses_unfold in Huses. cbn [unwrap_lists] in Huses. rewrite Hc in Huses.
        apply cviv_complete. rewrite deep_obj_unfold.
        unfold obj_uses, input_defs in Huses. cbn [unwrap_lists] in Huses. rewrite <- get_type_sp, Eg in Huses. exact Huses.
    - (* enum *)
      destruct v; try discriminate.
      assert (E : forallb (fun ev => negb (str_eqb (iname (ev_name ev)) v)) vals = false).
      { apply mem_In, in_map_iff in G as [e [He Hine]]. clear -He Hine.
        induction vals as [|x vals IHv]; [contradiction|]. cbn [forallb].
        destruct Hine as [->|Hine].
        - rewrite He, str_eqb_refl. reflexivity.
        - rewrite (IHv Hine). apply andb_false_r. }
      rewrite E. reflexivity.
    - (* input object *)
      destruct v as [| | | | | | | |q fs]; try discriminate.
      rewrite andb_true_iff in G. destruct G as [Glit Greq]. fold (keys fs) in Greq.
      destruct (wf_input_both S _ _ _ _ _ _ _ Hwf Eg) as [Hnd Hty].
      pose proof (lit_fields_inv _ _ _ Glit) as Hl.
      rewrite obj_uses_unfold in Huses. unfold input_defs, obj_uses in Huses. cbn [unwrap_lists] in Huses.
      rewrite <- get_type_sp, Eg in Huses.
      unfold input_object_check. cbn zeta.
      pose proof (io_fold (check_value S vars) fs fields (mkIo [] true [] 0)) as [F1 [F2 F3]].
      cbn zeta in F1, F2, F3. cbn [io_errs io_res io_seen app andb Nat.add] in F1, F2, F3.
      rewrite F1, F2, F3.
      assert (Herrs : flat_map (fun ef => concat (ef_vals (check_value S vars) fs ef)) fields = []).
      { apply flat_map_all_nil'. intros ef Hef. apply concat_all_nil. intros y Hy.
        unfold ef_vals in Hy. apply filter_vals_In in Hy as [k' [v' [Hin' [Hname ->]]]].
        destruct (Hl k' v' Hin') as [dd [Hfd Hlo]].
        pose proof (find_some _ _ Hfd) as [Hdin Hdn]. apply str_eqb_eq in Hdn.
        assert (Edd : dd = ef).
        { apply (NoDup_map_inj (fun d0 => iname (iv_name d0)) fields); auto. cbn. congruence. }
        subst dd.
        pose proof (Forall_flat_map_inv _ _ _ Huses (k', v') Hin') as Hu. cbn [fst snd] in Hu. rewrite Hfd in Hu.
        destruct (is_var v') eqn:Evar.
        - destruct v' as [vn vp| | | | | | | |]; try discriminate Evar. rewrite cv_var.
          apply (var_loc_complete ef vn vp (Hty ef Hef)). cbn [var_uses] in Hu. inversion Hu; subst. assumption.
        - rewrite (loc_type_nonvar ef v' Evar). rewrite Forall_forall in IH.
          apply (IH (k', v') Hin' (iv_type ef)).
          + apply (wf_closed S _ _ _ _ _ _ _ Hclosed Eg ef Hef).
          + exact Hlo.
          + rewrite (var_uses_ld false S v' _ _ Evar) in Hu. exact Hu. }
      rewrite Herrs. cbn [app].
      assert (Hok : forallb (ef_ok fs) fields = true).
      { apply forallb_forall. intros ef Hef. rewrite forallb_forall in Greq. specialize (Greq ef Hef).
        unfold ef_ok. rewrite orb_comm. exact Greq. }
      rewrite Hok.
      assert (Hlen : length fs <= sumc (map (fun ef => iname (iv_name ef)) fields) (keys fs)).
      { rewrite <- (map_length (fun kv => iname (fst kv)) fs). fold (keys fs). apply (sumc_defined_ge _ _ Hnd).
        intros k Hk. unfold keys in Hk. apply in_map_iff in Hk as [[k0 v0] [<- Hin0]]. cbn [fst].
        destruct (Hl k0 v0 Hin0) as [dd [Hfd _]]. pose proof (find_some _ _ Hfd) as [Hdin Hdn]. apply str_eqb_eq in Hdn.
        apply in_map_iff. exists dd. auto. }
      apply Nat.ltb_ge in Hlen. rewrite Hlen. reflexivity.
  Qed.

  Theorem check_value_complete : forall v t,
    resolves S t = true -> lit_ok S v t = true ->
    Forall (use_ok vars) (var_uses false S v (Some t) false) ->
    check_value S vars v t = [].
  Proof.
    assert (Hatom : forall v, is_var v = false -> (match v with VList _ _ | VObject _ _ => False | _ => True end) ->
              forall t, resolves S t = true -> lit_ok S v t = true -> check_value S vars v t = []).
    { intros v Hv Hshape t. induction t as [n|i IHt|q i IHt]; intros Hres Hlit.
      - rewrite cv_named by exact Hv. apply named_complete; auto; destruct v; try exact I; try contradiction; try discriminate Hv; constructor.
      - rewrite cv_nonnull by exact Hv. rewrite lo_nonnull in Hlit by exact Hv.
        destruct v; try contradiction; try discriminate Hv; try discriminate Hlit; apply IHt; auto.
      - rewrite cv_list by exact Hv. rewrite lo_list in Hlit by exact Hv.
        destruct v; try contradiction; try discriminate Hv; try reflexivity; apply IHt; auto. }
    induction v as [n p|p l|p l|p l|p b|p|p l|p vs IHvs|p fs IHfs] using value_ind'; intros t Hres Hlit Hu;
      try (apply Hatom; [reflexivity | exact I | exact Hres | exact Hlit]).
    - rewrite cv_var. cbn [var_uses] in Hu. inversion Hu as [|? ? Hu1 _]; subst. apply (variable_complete n p t Hu1).
    - (* list *)
      rewrite Forall_forall in IHvs.
      induction t as [n|i IHt|q i IHt].
      + rewrite cv_named by reflexivity. apply named_complete; auto.
      + rewrite cv_nonnull by reflexivity. rewrite lo_nonnull in Hlit by reflexivity. apply IHt; auto.
      + rewrite cv_list by reflexivity. rewrite lo_list in Hlit by reflexivity.
        rewrite list_uses_unfold in Hu. cbn [strip_nonnull] in Hu.
        rewrite forallb_forall in Hlit.
        apply flat_map_all_nil'. intros e He. apply (IHvs e He i); auto. apply (Forall_flat_map_inv _ _ _ Hu e He).
    - (* object *)
      induction t as [n|i IHt|q i IHt].
      + rewrite cv_named by reflexivity. apply named_complete; auto.
      + rewrite cv_nonnull by reflexivity. rewrite lo_nonnull in Hlit by reflexivity. apply IHt; auto.
      + rewrite cv_list by reflexivity. rewrite lo_list in Hlit by reflexivity. apply IHt; auto.
  Qed.

  (** a value given for an argument / input field: the converse of [value_at_location] *)
  Lemma value_at_location_complete d v :
    ty_wf (iv_type d) = true -> resolves S (iv_type d) = true ->
    lit_ok S v (iv_type d) = true ->
    Forall (use_ok vars) (var_uses false S v (Some (iv_type d)) (has_default d)) ->
    check_value S vars v (loc_type d v) = [].
  Proof.
    intros Hty Hres Hlit Hu. destruct (is_var v) eqn:Ev.
    - destruct v as [n p| | | | | | | |]; try discriminate Ev. rewrite cv_var.
      apply (var_loc_complete d n p Hty). cbn [var_uses] in Hu. inversion Hu; subst. assumption.
    - rewrite (loc_type_nonvar d v Ev). apply check_value_complete; auto. rewrite (var_uses_ld false S v _ _ Ev) in Hu. exact Hu.
  Qed.
End ValueComplete.

(** * check_arguments is complete for the argument rules *)
Section ArgsComplete.
  Variable S : tsdoc.
  Variable vars : option vardefs.
  Hypothesis Hwf : schema_wf S = true.
  Hypothesis Hclosed : input_types_closed S = true.

  Lemma flat_map_all_nil {A B} (f : A -> list B) l : (forall x, In x l -> f x = []) -> flat_map f l = [].
  Proof. apply flat_map_all_nil'. Qed.

  Theorem check_arguments_complete ppos pname kind args defs :
    NoDup (def_names defs) -> (forall d, In d defs -> ty_wf (iv_type d) = true) ->
    (forall d, In d defs -> resolves S (iv_type d) = true) ->
    (forall a, args = Some a -> args_list a <> []) ->
    args_defined_ok (provided args, defs) = true ->
    required_args_ok (provided args, defs) = true ->
    literal_types_vis S (provided args, defs) = true ->
    Forall (use_ok vars) (args_var_uses false S (provided args) defs) ->
    check_arguments S vars ppos pname kind args defs = [].
  Proof.
    intros Hnd Hty Hres Hne Hdef Hreq Hlit Huses. unfold check_arguments.
    assert (Hdefined : forall kv, In kv (provided args) -> In (iname (fst kv)) (def_names defs)).
    { intros kv Hin. unfold args_defined_ok in Hdef. cbn [fst snd] in Hdef. rewrite forallb_forall in Hdef.
      apply mem_In. apply (Hdef kv Hin). }
    assert (Hmain : forall apos,
      (let st := fold_left (arg_step S vars apos (provided args)) defs ([], 0) in
       fst st ++ (if Nat.ltb (snd st) (length (provided args)) then
                    flat_map (fun kv => if forallb (fun ad => negb (str_eqb (iname (iv_name ad)) (iname (fst kv)))) defs
                                        then [err0 (UnknownArgument (iname (fst kv))) (ipos (fst kv))] else []) (provided args)
                  else [])) = []).
    { intros apos. cbn zeta. rewrite arg_fold. cbn [fst snd app Nat.add].
      assert (H1 : flat_map (ad_errs S vars apos (provided args)) defs = []).
      { apply flat_map_all_nil. intros ad Hin. unfold ad_errs, arg_step.
        pose proof (filter_args_length (iname (iv_name ad)) (provided args)) as Hlen.
        destruct (filter (fun kv => str_eqb (iname (iv_name ad)) (iname (fst kv))) (provided args)) as [|m ms] eqn:Ef.
        - unfold required_args_ok in Hreq. cbn [fst snd] in Hreq. rewrite forallb_forall in Hreq. specialize (Hreq ad Hin).
          cbn [length] in Hlen. symmetry in Hlen. apply count_key_zero in Hlen. unfold keys in Hlen.
          rewrite Hlen, orb_false_r in Hreq. rewrite required_input_eq in Hreq.
          destruct (ty_is_nonnull (iv_type ad)); cbn [negb andb] in *; [|reflexivity].
          destruct (iv_default ad); cbn in *; [reflexivity | discriminate].
        - cbn [fst app]. apply flat_map_all_nil. intros kv Hkv. rewrite <- Ef in Hkv. apply filter_In in Hkv as [Hkv Hn].
          apply str_eqb_eq in Hn.
          assert (Hf : find (fun d0 => str_eqb (iname (iv_name d0)) (iname (fst kv))) defs = Some ad).
          { assert (Hex : In (iname (fst kv)) (map (fun d0 => iname (iv_name d0)) defs)) by (apply (Hdefined kv Hkv)).
            destruct (find_by_name defs _ Hex) as [d' [Hf [Hd' Hn']]]. rewrite Hf. f_equal.
            apply (NoDup_map_inj (fun d0 => iname (iv_name d0)) defs); auto. cbn. congruence. }
          apply (value_at_location_complete S vars Hwf Hclosed ad (snd kv) (Hty ad Hin) (Hres ad Hin)).
          + unfold literal_types_vis, literal_types_ok in Hlit. cbn [fst snd] in Hlit. rewrite forallb_forall in Hlit.
            specialize (Hlit kv Hkv). rewrite Hf in Hlit. exact Hlit.
          + unfold args_var_uses in Huses. pose proof (Forall_flat_map_inv _ _ _ Huses kv Hkv) as Hu. cbn beta in Hu.
            rewrite Hf in Hu. exact Hu. }
      rewrite H1. cbn [app].
      destruct (Nat.ltb _ (length (provided args))); [|reflexivity].
      apply flat_map_all_nil. intros kv Hin.
      pose proof (Hdefined kv Hin) as Hd. apply in_map_iff in Hd as [ad [Hn Hadin]].
      assert (E : forallb (fun ad0 => negb (str_eqb (iname (iv_name ad0)) (iname (fst kv)))) defs = false).
      { clear -Hn Hadin. induction defs as [|x l IH]; [contradiction|]. cbn [forallb].
        destruct Hadin as [->|Hin]; [rewrite Hn, str_eqb_refl; reflexivity | rewrite (IH Hin); apply andb_false_r]. }
      rewrite E. reflexivity. }
    destruct args as [a|]; destruct defs as [|d0 defs0].
    - exfalso. apply (Hne a eq_refl). unfold args_defined_ok in Hdef. cbn [fst snd provided] in Hdef.
      destruct (args_list a) as [|kv r]; [reflexivity|]. cbn in Hdef. discriminate.
    - apply (Hmain (args_pos a)).
    - reflexivity.
    - apply (Hmain ppos).
  Qed.
End ArgsComplete.

(** * check_directives is complete for the directive rules *)
Section DirsComplete.
  Variable S : tsdoc.
  Variable vars : option vardefs.
  Hypothesis Hwf : schema_wf S = true.
  Hypothesis Hclosed : input_types_closed S = true.

  (** what the specification asks of one directive application at location [loc] *)
  Definition directive_fine (loc : str) (d : directive) : Prop :=
    exists dd, sp_directive S (iname (dir_name d)) = Some dd
      /\ mem loc (names_of (dd_locs dd)) = true
      /\ (forall x, In x (dir_argdefs dd) -> resolves S (iv_type x) = true)
      /\ (forall a, dir_args d = Some a -> args_list a <> [])
      /\ args_defined_ok (provided (dir_args d), dir_argdefs dd) = true
      /\ required_args_ok (provided (dir_args d), dir_argdefs dd) = true
      /\ literal_types_vis S (provided (dir_args d), dir_argdefs dd) = true
      /\ Forall (use_ok vars) (args_var_uses false S (provided (dir_args d)) (dir_argdefs dd)).

  Lemma check_directives_from_complete loc : forall ds seen,
    (forall d, In d ds -> directive_fine loc d) ->
    nodup_str (nonrep S ds) = true ->
    (forall n, In n (nonrep S ds) -> mem n seen = false) ->
    check_directives_from S vars seen loc ds = [].
  Proof.
    induction ds as [|d ds IH]; intros seen Hall Hnd Hseen; [reflexivity|].
    cbn [check_directives_from]. cbn zeta.
    destruct (Hall d (or_introl eq_refl)) as [dd [Esp [Hloc [Hres [Hne [A1 [A2 [A3 A4]]]]]]]].
    rewrite get_directive_sp, Esp.
    cbn [nonrep flat_map] in Hnd, Hseen. rewrite Esp in Hnd, Hseen. fold (nonrep S ds) in Hnd, Hseen.
    assert (E1 : forallb (fun l => negb (str_eqb (iname l) loc)) (dd_locs dd) = false).
    { clear -Hloc. unfold names_of in Hloc. induction (dd_locs dd) as [|l ls IHl]; [discriminate|].
      cbn [forallb map] in *. rewrite mem_cons, (str_eqb_sym loc) in Hloc.
      destruct (str_eqb (iname l) loc); cbn [negb andb orb] in *; [reflexivity | apply IHl, Hloc]. }
    rewrite E1. cbn [app].
    destruct (wf_directive_both S _ dd Hwf (eq_trans (get_directive_sp S _) Esp)) as [Hnd' Hty'].
    rewrite (check_arguments_complete S vars Hwf Hclosed (dir_pos d) (iname (dir_name d)) str_directive
               (dir_args d) (dd_argdefs dd) Hnd' Hty' Hres Hne A1 A2 A3 A4). cbn [app].
    destruct (dd_repeatable dd) as [r|] eqn:Er.
    - (* repeatable *)
      cbn [app] in Hnd, Hseen.
      assert (E2 : (if mem_str (iname (dir_name d)) seen then [] else []) = @nil err) by (destruct (mem_str _ seen); reflexivity).
      rewrite E2. cbn [app].
      apply IH; [intros x Hx; apply Hall; right; exact Hx | exact Hnd |].
      intros n Hn. specialize (Hseen n Hn).
      destruct (mem_str (iname (dir_name d)) seen); [exact Hseen|].
      rewrite mem_app. cbn [mem existsb]. rewrite Hseen. cbn [orb]. rewrite orb_false_r.
      destruct (str_eqb_spec n (iname (dir_name d))) as [E|E]; [|reflexivity].
      (* a repeatable directive is not in nonrep: n would be non-repeatable and equal to d's name *)
      exfalso. subst n. unfold nonrep in Hn. apply in_flat_map in Hn as [d' [Hd' Hn]].
      destruct (sp_directive S (iname (dir_name d'))) as [dd'|] eqn:E'; [|contradiction].
      destruct (dd_repeatable dd') eqn:Er'; [contradiction|]. destruct Hn as [Hn|[]].
      rewrite Hn in E'. rewrite Esp in E'. injection E' as <-. congruence.
    - (* not repeatable *)
      cbn [app nodup_str] in Hnd. apply andb_true_iff in Hnd as [Hnotin Hnd].
      assert (Hs : mem_str (iname (dir_name d)) seen = false) by (apply Hseen; left; reflexivity).
      rewrite Hs. cbn [app].
      apply IH; [intros x Hx; apply Hall; right; exact Hx | exact Hnd |].
      intros n Hn. rewrite mem_app. cbn [mem existsb]. rewrite (Hseen n (or_intror Hn)). cbn [orb]. rewrite orb_false_r.
      destruct (str_eqb_spec n (iname (dir_name d))) as [E|E]; [|reflexivity].
      subst n. apply mem_In in Hn. rewrite Hn in Hnotin. discriminate.
  Qed.

  Theorem check_directives_complete loc ds :
    (forall d, In d ds -> directive_fine loc d) ->
    nodup_str (nonrep S ds) = true ->
    check_directives S vars loc ds = [].
  Proof.
    intros Hall Hnd. unfold check_directives. apply check_directives_from_complete; auto.
  Qed.
End DirsComplete.
