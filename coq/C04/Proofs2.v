(** C04 — proofs, part 2: the selection walk in the "valid implies accepted" direction.
    If every site a spread-following validator reaches is fine (every site rule, variables usable, no cycle),
    the model's check_selection_set reports nothing — in particular it never runs out of fuel. *)
From V Require Import Base.Util Gql.Ast C03.Model C03.Spec C03.Proofs C03.Proofs2 C03.Proofs3 C03.Proofs4 C03.Proofs5 C04.Proofs.

(** * Schema facts from [schema_closed] *)

Lemma closed_parts S : schema_closed S = true ->
  nodup_str (schema_type_names S) = true /\ input_types_closed S = true
  /\ (forall d, In d S ->
        match d with
        | TSType (TDObject _ _ _ _ _ fs _) | TSType (TDInterface _ _ _ _ _ fs _) => field_list_closed S fs
        | TSType (TDUnion _ _ _ _ members _) =>
            match members with [] => false | _ => true end
            && forallb (fun m => match sp_type S (iname m) with Some t => is_object t | None => false end) members
        | TSDirective dd => forallb (fun a => resolves S (iv_type a)) (dir_argdefs dd)
        | _ => true
        end = true)
  /\ resolves S (TNamed (mkId (s "String") pos0)) = true.
Proof.
  unfold schema_closed. rewrite !andb_true_iff. intros [[[H1 H2] H3] H4]. repeat split; auto.
  intros d Hd. rewrite forallb_forall in H3. apply H3, Hd.
Qed.

Lemma name_in_names S t : In (TSType t) S -> In (iname (typedef_name t)) (schema_type_names S).
Proof. intros H. unfold schema_type_names. apply in_flat_map. exists (TSType t). split; [exact H | left; reflexivity]. Qed.

Lemma get_type_unique S : nodup_str (schema_type_names S) = true ->
  forall t, In (TSType t) S -> get_type S (iname (typedef_name t)) = Some t.
Proof.
  induction S as [|d S IH]; intros Hnd t Hin; [contradiction|].
  destruct d as [sd|t'|dd|se|te]; cbn [get_type];
    try (destruct Hin as [E|Hin]; [discriminate E|]; apply IH; [exact Hnd | exact Hin]).
  cbn [schema_type_names flat_map app] in Hnd. fold (schema_type_names S) in Hnd. cbn [nodup_str] in Hnd.
  apply andb_true_iff in Hnd as [Hnot Hnd].
  destruct Hin as [E|Hin].
  - injection E as ->. rewrite str_eqb_refl. reflexivity.
  - destruct (str_eqb_spec (iname (typedef_name t')) (iname (typedef_name t))) as [E|E].
    + exfalso. apply name_in_names in Hin. rewrite <- E in Hin. apply mem_In in Hin. rewrite Hin in Hnot. discriminate.
    + apply IH; assumption.
Qed.

Lemma iter_types_from_complete : forall S seen t,
  nodup_str (schema_type_names S) = true -> In (TSType t) S -> mem_str (iname (typedef_name t)) seen = false ->
  In t (iter_types_from seen S).
Proof.
  induction S as [|d S IH]; intros seen t Hnd Hin Hs; [contradiction|].
  destruct d as [sd|t'|dd|se|te]; cbn [iter_types_from];
    try (destruct Hin as [E|Hin]; [discriminate E|]; apply IH; assumption).
  cbn [schema_type_names flat_map app] in Hnd. fold (schema_type_names S) in Hnd. cbn [nodup_str] in Hnd.
  apply andb_true_iff in Hnd as [Hnot Hnd].
  destruct Hin as [E|Hin].
  - injection E as ->. cbn zeta. rewrite Hs. left. reflexivity.
  - cbn zeta. assert (Hne : str_eqb (iname (typedef_name t)) (iname (typedef_name t')) = false).
    { destruct (str_eqb_spec (iname (typedef_name t)) (iname (typedef_name t'))) as [E|E]; [|reflexivity].
      exfalso. apply name_in_names in Hin. rewrite E in Hin. apply mem_In in Hin. rewrite Hin in Hnot. discriminate. }
    destruct (mem_str (iname (typedef_name t')) seen).
    + apply IH; assumption.
    + right. apply IH; try assumption. unfold mem_str in *. cbn [existsb]. rewrite Hne. exact Hs.
Qed.

Lemma mem_names_of_implements l n : mem n (names_of l) = true -> implements l n = true.
Proof.
  unfold implements, names_of. induction l as [|x l IH]; [discriminate|]. cbn [existsb map].
  rewrite mem_cons, (str_eqb_sym n). destruct (str_eqb (iname x) n); cbn [orb]; [reflexivity | exact IH].
Qed.

(** an object named [x] among the possible types of an interface: the object definition of that name implements it *)
Lemma possible_interface_inv S d p n impls dirs fs kw x :
  mem x (possible_types S (TDInterface d p n impls dirs fs kw)) = true ->
  exists d' p' o impls' dirs' fs' kw',
    In (TSType (TDObject d' p' o impls' dirs' fs' kw')) S /\ iname o = x /\ implements impls' (iname n) = true.
Proof.
  intros H. apply mem_In in H. cbn [possible_types] in H. apply in_flat_map in H as [td [Hin Hx]].
  destruct td as [sd|t|dd|se|te]; try contradiction. destruct t; try contradiction.
  destruct (mem (iname n) (names_of impls0)) eqn:Em; [|contradiction]. destruct Hx as [<-|[]].
  do 7 eexists. split; [exact Hin|]. split; [reflexivity | apply mem_names_of_implements, Em].
Qed.

Lemma overlap_inv a b : overlap a b = true -> exists x, mem x a = true /\ mem x b = true.
Proof.
  unfold overlap. intros H. apply existsb_exists in H as [x [Hin Hb]]. exists x. split; [apply mem_In, Hin | exact Hb].
Qed.

Lemma some_member_implements_found S members i :
  nodup_str (schema_type_names S) = true ->
  (forall m, In m members -> exists t, get_type S (iname m) = Some t /\ is_object t = true) ->
  (exists m d p o impls dirs fs kw, In m members /\ get_type S (iname m) = Some (TDObject d p o impls dirs fs kw)
                                    /\ implements impls i = true) ->
  some_member_implements S members i = ([], true).
Proof.
  intros Hnd. induction members as [|m r IH]; intros Hobj Hex.
  - destruct Hex as [m [? [? [? [? [? [? [? [[] _]]]]]]]]].
  - cbn [some_member_implements].
    destruct (Hobj m (or_introl eq_refl)) as [t [Eg Ho]]. rewrite Eg.
    destruct t; try discriminate Ho. cbn [object_impls].
    destruct (implements impls i) eqn:Ei; [reflexivity|].
    apply IH; [intros m' Hm'; apply Hobj; right; exact Hm'|].
    destruct Hex as [m' [d' [p' [o' [im' [di' [fs' [kw' [[<-|Hin] [Hg Hi]]]]]]]]]].
    + rewrite Eg in Hg. injection Hg as <- <- <- <- <- <- <-. congruence.
    + do 8 eexists. split; [exact Hin|]. split; eassumption.
Qed.

(** the nine-way match reports nothing when the spread is possible *)
Lemma spread_match_complete S pos root cond :
  schema_closed S = true ->
  In (TSType root) S -> In (TSType cond) S -> is_composite root = true -> is_composite cond = true ->
  applies S root cond = true ->
  spread_match S pos root cond = ([], true).
Proof.
  intros Hcl Hr Hc Hcr Hcc Happ. destruct (closed_parts S Hcl) as [Hnd [_ [Hdefs _]]].
  pose proof (get_type_unique S Hnd) as Huniq.
  unfold applies, type_name in Happ. rewrite Hcr, Hcc in Happ. cbn [negb orb] in Happ.
  destruct root as [d p n dirs kw|d p n impls dirs fs kw|d p n impls dirs fs kw|d p n dirs members kw
                   |d p n dirs vals kw|d p n dirs fields kw]; try discriminate Hcr;
  destruct cond as [d' p' n' dirs' kw'|d' p' n' impls' dirs' fs' kw'|d' p' n' impls' dirs' fs' kw'|d' p' n' dirs' members' kw'
                   |d' p' n' dirs' vals' kw'|d' p' n' dirs' fields' kw']; try discriminate Hcc;
  cbn [spread_match typedef_name] in *.
  - (* object / object *)
    assert (E : str_eqb (iname n) (iname n') = true).
    { apply orb_true_iff in Happ as [E|Ho]; [exact E|]. apply overlap_inv in Ho as [x [H1 H2]].
      cbn [possible_types mem existsb] in H1, H2. rewrite orb_false_r in H1, H2.
      apply str_eqb_eq in H1, H2. apply str_eqb_eq. congruence. }
    rewrite E. reflexivity.
  - (* object / interface *)
    assert (E : implements impls (iname n') = true).
    { apply orb_true_iff in Happ as [E|Ho].
      - exfalso. apply str_eqb_eq in E. pose proof (Huniq _ Hr) as G1. pose proof (Huniq _ Hc) as G2.
        cbn [typedef_name] in G1, G2. rewrite E in G1. rewrite G1 in G2. discriminate.
      - apply overlap_inv in Ho as [x [H1 H2]]. cbn [possible_types mem existsb] in H1. rewrite orb_false_r in H1.
        apply str_eqb_eq in H1. subst x.
        apply possible_interface_inv in H2 as [d0 [p0 [o [im [di [ff [kk [Hin [Hn Hi]]]]]]]]].
        pose proof (Huniq _ Hin) as G1. pose proof (Huniq _ Hr) as G2. cbn [typedef_name] in G1, G2.
        rewrite Hn, G2 in G1. injection G1 as <- <- <- <- <- <- <-. exact Hi. }
    rewrite E. reflexivity.
  - (* object / union *)
    assert (E : implements members' (iname n) = true).
    { apply orb_true_iff in Happ as [E|Ho].
      - exfalso. apply str_eqb_eq in E. pose proof (Huniq _ Hr) as G1. pose proof (Huniq _ Hc) as G2.
        cbn [typedef_name] in G1, G2. rewrite E in G1. rewrite G1 in G2. discriminate.
      - apply overlap_inv in Ho as [x [H1 H2]]. cbn [possible_types mem existsb] in H1. rewrite orb_false_r in H1.
        apply str_eqb_eq in H1. subst x. cbn [possible_types] in H2. apply mem_names_of_implements, H2. }
    rewrite E. reflexivity.
  - (* interface / object *)
    assert (E : implements impls' (iname n) = true).
    { apply orb_true_iff in Happ as [E|Ho].
      - exfalso. apply str_eqb_eq in E. pose proof (Huniq _ Hr) as G1. pose proof (Huniq _ Hc) as G2.
        cbn [typedef_name] in G1, G2. rewrite E in G1. rewrite G1 in G2. discriminate.
      - apply overlap_inv in Ho as [x [H1 H2]]. cbn [possible_types mem existsb] in H2. rewrite orb_false_r in H2.
        apply str_eqb_eq in H2. subst x.
        apply possible_interface_inv in H1 as [d0 [p0 [o [im [di [ff [kk [Hin [Hn Hi]]]]]]]]].
        pose proof (Huniq _ Hin) as G1. pose proof (Huniq _ Hc) as G2. cbn [typedef_name] in G1, G2.
        rewrite Hn, G2 in G1. injection G1 as <- <- <- <- <- <- <-. exact Hi. }
    rewrite E. reflexivity.
  - (* interface / interface *)
    destruct (str_eqb (iname n) (iname n')) eqn:En; cbn [orb] in *; [reflexivity|].
    apply overlap_inv in Happ as [x [H1 H2]].
    apply possible_interface_inv in H1 as [d0 [p0 [o [im [di [ff [kk [Hin [Hn Hi]]]]]]]]].
    apply possible_interface_inv in H2 as [d1 [p1 [o1 [im1 [di1 [ff1 [kk1 [Hin1 [Hn1 Hi1]]]]]]]]].
    pose proof (Huniq _ Hin) as G1. pose proof (Huniq _ Hin1) as G2. cbn [typedef_name] in G1, G2.
    rewrite Hn in G1. rewrite Hn1, G1 in G2. injection G2 as <- <- <- <- <- <- <-.
    assert (Ex : existsb (fun t => match object_impls t with
                                   | Some impls0 => implements impls0 (iname n) && implements impls0 (iname n')
                                   | None => false end) (iter_types S) = true).
    { apply existsb_exists. eexists. split.
      - apply (iter_types_from_complete S [] _ Hnd Hin). reflexivity.
      - cbn [object_impls]. rewrite Hi, Hi1. reflexivity. }
    rewrite Ex. reflexivity.
  - (* interface / union *)
    assert (Hex : exists m d0 p0 o im di ff kk, In m members' /\ get_type S (iname m) = Some (TDObject d0 p0 o im di ff kk)
                                               /\ implements im (iname n) = true).
    { apply orb_true_iff in Happ as [E|Ho].
      - exfalso. apply str_eqb_eq in E. pose proof (Huniq _ Hr) as G1. pose proof (Huniq _ Hc) as G2.
        cbn [typedef_name] in G1, G2. rewrite E in G1. rewrite G1 in G2. discriminate.
      - apply overlap_inv in Ho as [x [H1 H2]].
        apply possible_interface_inv in H1 as [d0 [p0 [o [im [di [ff [kk [Hin [Hn Hi]]]]]]]]].
        cbn [possible_types] in H2. apply mem_In in H2. unfold names_of in H2. apply in_map_iff in H2 as [m [Hm Hmin]].
        pose proof (Huniq _ Hin) as G1. cbn [typedef_name] in G1. rewrite Hn, <- Hm in G1.
        do 8 eexists. split; [exact Hmin|]. split; [exact G1 | exact Hi]. }
    assert (Hobj : forall m, In m members' -> exists t, get_type S (iname m) = Some t /\ is_object t = true).
    { intros m Hm. specialize (Hdefs _ Hc). cbn beta iota in Hdefs. apply andb_true_iff in Hdefs as [_ Hdefs].
      rewrite forallb_forall in Hdefs. specialize (Hdefs m Hm).
      rewrite <- get_type_sp in Hdefs. destruct (get_type S (iname m)) as [t|]; [eauto | discriminate]. }
    rewrite (some_member_implements_found S members' (iname n) Hnd Hobj Hex). reflexivity.
  - (* union / object *)
    assert (E : implements members (iname n') = true).
    { apply orb_true_iff in Happ as [E|Ho].
      - exfalso. apply str_eqb_eq in E. pose proof (Huniq _ Hr) as G1. pose proof (Huniq _ Hc) as G2.
        cbn [typedef_name] in G1, G2. rewrite E in G1. rewrite G1 in G2. discriminate.
      - apply overlap_inv in Ho as [x [H1 H2]]. cbn [possible_types mem existsb] in H2. rewrite orb_false_r in H2.
        apply str_eqb_eq in H2. subst x. cbn [possible_types] in H1. apply mem_names_of_implements, H1. }
    rewrite E. reflexivity.
  - (* union / interface *)
    assert (Hex : exists m d0 p0 o im di ff kk, In m members /\ get_type S (iname m) = Some (TDObject d0 p0 o im di ff kk)
                                               /\ implements im (iname n') = true).
    { apply orb_true_iff in Happ as [E|Ho].
      - exfalso. apply str_eqb_eq in E. pose proof (Huniq _ Hr) as G1. pose proof (Huniq _ Hc) as G2.
        cbn [typedef_name] in G1, G2. rewrite E in G1. rewrite G1 in G2. discriminate.
      - apply overlap_inv in Ho as [x [H1 H2]].
        apply possible_interface_inv in H2 as [d0 [p0 [o [im [di [ff [kk [Hin [Hn Hi]]]]]]]]].
        cbn [possible_types] in H1. apply mem_In in H1. unfold names_of in H1. apply in_map_iff in H1 as [m [Hm Hmin]].
        pose proof (Huniq _ Hin) as G1. cbn [typedef_name] in G1. rewrite Hn, <- Hm in G1.
        do 8 eexists. split; [exact Hmin|]. split; [exact G1 | exact Hi]. }
    assert (Hobj : forall m, In m members -> exists t, get_type S (iname m) = Some t /\ is_object t = true).
    { intros m Hm. specialize (Hdefs _ Hr). cbn beta iota in Hdefs. apply andb_true_iff in Hdefs as [_ Hdefs].
      rewrite forallb_forall in Hdefs. specialize (Hdefs m Hm).
      rewrite <- get_type_sp in Hdefs. destruct (get_type S (iname m)) as [t|]; [eauto | discriminate]. }
    rewrite (some_member_implements_found S members (iname n') Hnd Hobj Hex). reflexivity.
  - (* union / union *)
    assert (E : existsb (fun x2 => existsb (fun x1 => str_eqb (iname x1) (iname x2)) members) members' = true).
    { assert (Ho : overlap (names_of members) (names_of members') = true).
      { apply orb_true_iff in Happ as [E|Ho]; [|exact Ho].
        (* the same union: it has a member, which overlaps with itself *)
        apply str_eqb_eq in E. pose proof (Huniq _ Hr) as G1. pose proof (Huniq _ Hc) as G2.
        cbn [typedef_name] in G1, G2. rewrite E in G1. rewrite G1 in G2. injection G2 as -> -> -> -> ->.
        specialize (Hdefs _ Hc). cbn beta iota in Hdefs. apply andb_true_iff in Hdefs as [Hne _].
        destruct members' as [|m ms]; [discriminate|].
        apply overlap_intro with (x := iname m); unfold names_of; cbn [map]; rewrite mem_cons, str_eqb_refl; reflexivity. }
      apply overlap_inv in Ho as [x [H1 H2]]. apply mem_In in H1, H2. unfold names_of in H1, H2.
      apply in_map_iff in H1 as [m1 [E1 Hm1]]. apply in_map_iff in H2 as [m2 [E2 Hm2]].
      apply existsb_exists. exists m2. split; [exact Hm2|]. apply existsb_exists. exists m1. split; [exact Hm1|].
      apply str_eqb_eq. congruence. }
    rewrite E. reflexivity.
Qed.

(** * Sites that are fine *)

Definition site_fine (S : tsdoc) (D : opdoc) (vars : option vardefs) (x : site) : Prop :=
  (forall r, site_ok true S D r x = true)
  /\ Forall (use_ok vars) (site_var_uses false S x)
  /\ site_syntax_ok x = true
  /\ (forall n, x <> StCycle n).

Lemma forallb_flat_map {A B} (p : B -> bool) (f : A -> list B) l :
  forallb p (flat_map f l) = true -> forall x, In x l -> forallb p (f x) = true.
Proof.
  induction l as [|a l IH]; cbn [flat_map]; intros H x Hx; [contradiction|].
  rewrite forallb_app in H. apply andb_true_iff in H as [Ha Hl]. destruct Hx as [<-|Hx]; auto.
Qed.

Lemma args_written_ne a : args_written_ok a = true -> forall x, a = Some x -> args_list x <> [].
Proof. intros H x ->. cbn in H. destruct (args_list x); [discriminate | discriminate]. Qed.

Section Fine.
  Variable S : tsdoc.
  Variable D : opdoc.
  Variable vars : option vardefs.
  Hypothesis Hwf : schema_wf S = true.
  Hypothesis Hcl : schema_closed S = true.

  Lemma closed_input : input_types_closed S = true.
  Proof. apply (closed_parts S Hcl). Qed.

  Lemma dirs_fine loc ds : site_fine S D vars (StDirs loc ds) -> check_directives S vars loc ds = [].
  Proof.
    intros [Hok [Hu [Hsyn _]]].
    apply (check_directives_complete S vars Hwf closed_input).
    - intros d Hd.
      pose proof (Hok R_directives_defined) as H1. cbn [site_ok] in H1. rewrite forallb_forall in H1. specialize (H1 d Hd).
      destruct (sp_directive S (iname (dir_name d))) as [dd|] eqn:Edd; [|discriminate].
      exists dd. split; [exact Edd|].
      pose proof (Hok R_directives_location) as H2. cbn [site_ok] in H2. rewrite forallb_forall in H2. specialize (H2 d Hd).
      rewrite Edd in H2. split; [exact H2|].
      split.
      { intros a Ha. rewrite <- get_directive_sp in Edd. apply get_directive_In in Edd.
        destruct (closed_parts S Hcl) as [_ [_ [Hdefs _]]]. specialize (Hdefs _ Edd). cbn beta iota in Hdefs.
        rewrite forallb_forall in Hdefs. apply Hdefs, Ha. }
      split.
      { cbn [site_syntax_ok] in Hsyn. rewrite forallb_forall in Hsyn. apply args_written_ne, Hsyn, Hd. }
      assert (Hsite : forall r, r = R_args_defined \/ r = R_required_args \/ r = R_literal_types ->
                forallb (match r with R_args_defined => args_defined_ok | R_required_args => required_args_ok
                                 | _ => literal_types_vis S end) [(provided (dir_args d), dir_argdefs dd)] = true).
      { intros r Hr. pose proof (Hok r) as H3.
        destruct Hr as [->|[->| ->]]; cbn [site_ok arg_sites] in H3;
          pose proof (forallb_flat_map _ _ _ H3 d Hd) as H4; cbn beta in H4; rewrite Edd in H4; exact H4. }
      pose proof (Hsite R_args_defined (or_introl eq_refl)) as A1.
      pose proof (Hsite R_required_args (or_intror (or_introl eq_refl))) as A2.
      pose proof (Hsite R_literal_types (or_intror (or_intror eq_refl))) as A3.
      cbn [forallb] in A1, A2, A3. rewrite andb_true_r in A1, A2, A3.
      split; [exact A1|]. split; [exact A2|]. split; [exact A3|].
      cbn [site_var_uses] in Hu. pose proof (Forall_flat_map_inv _ _ _ Hu d Hd) as H5. cbn beta in H5. rewrite Edd in H5. exact H5.
    - pose proof (Hok R_directives_unique) as H1. cbn [site_ok] in H1. exact H1.
  Qed.

  (** argument definitions of a field of a type of the schema resolve *)
  Lemma field_args_resolve root fields tf :
    In (TSType root) S -> direct_fields root = Some fields -> In tf fields ->
    (forall a, In a (fd_argdefs tf) -> resolves S (iv_type a) = true)
    /\ exists tft, get_type S (iname (ty_unwrapped (fd_type tf))) = Some tft.
  Proof.
    intros Hin Hd Htf. destruct (closed_parts S Hcl) as [_ [_ [Hdefs Hstr]]]. specialize (Hdefs _ Hin).
    assert (Ht : (forall a, In a (fd_argdefs typename_field) -> resolves S (iv_type a) = true)
                 /\ exists tft, get_type S (iname (ty_unwrapped (fd_type typename_field))) = Some tft).
    { split; [intros a []|]. unfold resolves in Hstr. cbn [ty_unwrapped] in Hstr. rewrite <- get_type_sp in Hstr.
      change (iname (ty_unwrapped (fd_type typename_field))) with (s "String").
      change (iname (mkId (s "String") pos0)) with (s "String") in Hstr.
      destruct (get_type S (s "String")) as [t|]; [eauto | discriminate]. }
    assert (Hf : forall fs, field_list_closed S fs = true -> In tf fs ->
                 (forall a, In a (fd_argdefs tf) -> resolves S (iv_type a) = true)
                 /\ exists tft, get_type S (iname (ty_unwrapped (fd_type tf))) = Some tft).
    { intros fs Hc Hi. unfold field_list_closed in Hc. rewrite forallb_forall in Hc. specialize (Hc _ Hi).
      apply andb_true_iff in Hc as [H1 H2]. split.
      - intros a Ha. rewrite forallb_forall in H2. apply H2, Ha.
      - rewrite <- get_type_sp in H1. destruct (get_type S (iname (ty_unwrapped (fd_type tf)))) as [t|]; [eauto | discriminate]. }
    destruct root; cbn in Hd; try discriminate; injection Hd as <-; cbn beta iota in Hdefs.
    - apply in_app_or in Htf as [Htf|[<-|[]]]; [apply (Hf _ Hdefs Htf) | exact Ht].
    - apply in_app_or in Htf as [Htf|[<-|[]]]; [apply (Hf _ Hdefs Htf) | exact Ht].
    - destruct Htf as [<-|[]]. exact Ht.
  Qed.
End Fine.

(** * Fuel *)

Lemma sel_depth_lt p l x : In x l -> Datatypes.S (sel_depth x) <= selset_depth (SelSet p l).
Proof.
  induction l as [|a l IH]; intros Hin; [contradiction|].
  change (selset_depth (SelSet p (a :: l))) with (Datatypes.S (Nat.max (sel_depth a) (Nat.pred (selset_depth (SelSet p l))))).
  destruct Hin as [<-|Hin]; [lia|]. specialize (IH Hin). lia.
Qed.

Lemma selset_depth_pos ss : 1 <= selset_depth ss.
Proof. destruct ss. cbn [selset_depth]. lia. Qed.

Definition max_depth (D : opdoc) : nat := fold_right (fun d a => Nat.max (def_depth d) a) 0 (od_defs D).

Lemma def_depth_le D d : In d (od_defs D) -> def_depth d <= max_depth D.
Proof.
  unfold max_depth. induction (od_defs D) as [|a l IH]; intros Hin; [contradiction|]. cbn [fold_right].
  destruct Hin as [<-|Hin]; [lia|]. specialize (IH Hin). lia.
Qed.

Lemma frag_depth_le D f : In f (doc_fragdefs D) -> selset_depth (fr_sel f) <= max_depth D.
Proof.
  intros Hin. unfold doc_fragdefs in Hin. apply in_flat_map in Hin as [d [Hd Hf]].
  destruct d as [o|f'|i]; cbn in Hf; try contradiction. destruct Hf as [<-|[]]. apply (def_depth_le D _ Hd).
Qed.

Lemma op_depth_le D o : In o (doc_ops D) -> selset_depth (op_sel o) <= max_depth D.
Proof.
  intros Hin. unfold doc_ops in Hin. apply in_flat_map in Hin as [d [Hd Hf]].
  destruct d as [o'|f'|i]; cbn in Hf; try contradiction. destruct Hf as [<-|[]]. apply (def_depth_le D _ Hd).
Qed.

Lemma NoDup_snoc {A} (l : list A) x : NoDup l -> ~ In x l -> NoDup (l ++ [x]).
Proof.
  induction l as [|a l IH]; intros Hnd Hx; cbn [app]; [constructor; [intros []|constructor]|].
  inversion Hnd as [|? ? Ha Hl]; subst. constructor.
  - intros Hin. apply in_app_or in Hin as [Hin|[<-|[]]]; [contradiction|]. apply Hx. left. reflexivity.
  - apply IH; [exact Hl|]. intros Hin. apply Hx. right. exact Hin.
Qed.

(** * The walk, completeness direction *)
Section WalkComplete.
  Variable S : tsdoc.
  Variable D : opdoc.
  Variable vars : option vardefs.
  Hypothesis Hwf : schema_wf S = true.
  Hypothesis Hcl : schema_closed S = true.
  Hypothesis Hfrag_unique : nodup_str (map (fun f => iname (fr_name f)) (doc_fragdefs D)) = true.
  Hypothesis Hfrag_targets :
    forall f, In f (doc_fragdefs D) -> exists t, get_type S (iname (fr_cond f)) = Some t /\ is_composite t = true.

  Notation fine := (site_fine S D vars).
  Notation fm := (doc_frags D).
  Notation N := (length (doc_fragdefs D)).
  Notation Mx := (max_depth D).
  Notation fnames := (map (fun f => iname (fr_name f)) (doc_fragdefs D)).

  Lemma seen_bound seen : NoDup seen -> incl seen fnames -> length seen <= N.
  Proof. intros H1 H2. rewrite <- (map_length (fun f => iname (fr_name f))). apply NoDup_incl_length; assumption. Qed.

  Lemma walk_complete : forall f seen root ss fv,
    In (TSType root) S -> is_composite root = true ->
    NoDup seen -> incl seen fnames ->
    (N - length seen) * Mx + selset_depth ss <= f ->
    N < fv + length seen ->
    Forall fine (flat_map (vsites_sel S (vis_enter fv S D seen) (Some root)) (selset_sels ss)) ->
    check_selection_set f S fm vars seen root ss = [].
  Proof.
    induction f as [|f IH]; intros seen root ss fv Hroot Hcomp Hnd Hincl Hfuel Hfv Hfine.
    { pose proof (selset_depth_pos ss). lia. }
    cbn [check_selection_set]. unfold check_selection_set_body.
    destruct (proj2 (direct_fields_composite root) Hcomp) as [fields Edf]. rewrite Edf.
    apply flat_map_all_nil. intros sel Hsel.
    pose proof (Forall_flat_map_inv _ _ _ Hfine sel Hsel) as Hs. clear Hfine.
    destruct ss as [pss l]. cbn [selset_sels] in Hsel.
    pose proof (sel_depth_lt pss l sel Hsel) as Hdepth.
    pose proof (seen_bound seen Hnd Hincl) as Hsb.
    destruct sel as [alias name args dirs sub|p name dirs|p tc dirs sub].
    - (* field *)
      cbn [vsites_sel] in Hs. inversion Hs as [|? ? Hfield Hs1]; subst. inversion Hs1 as [|? ? Hdirs Hkids]; subst.
      clear Hs Hs1. destruct Hfield as [Hok [Hu [Hsyn _]]].
      pose proof (Hok R_fields_exist) as H1. cbn [site_ok] in H1. rewrite Hcomp in H1. cbn [negb orb] in H1.
      destruct (sp_field root (iname name)) as [tf|] eqn:Esp; [|discriminate].
      cbn [check_selection]. unfold check_selection_field.
      rewrite (direct_fields_sp root fields (iname name) Edf), Esp.
      assert (Htf : In tf fields).
      { rewrite <- (direct_fields_sp root fields (iname name) Edf) in Esp. apply (find_some _ _ Esp). }
      destruct (field_args_resolve S Hcl root fields tf Hroot Edf Htf) as [Hres [tft Etft]].
      change str_FIELD with (s "FIELD"). rewrite (dirs_fine S D vars Hwf Hcl _ _ Hdirs). cbn [app].
      assert (Hargs : check_arguments S vars (ipos name) (iname name) str_field args (fd_argdefs tf) = []).
      { pose proof (Hok R_args_defined) as A1. pose proof (Hok R_required_args) as A2. pose proof (Hok R_literal_types) as A3.
        cbn [site_ok arg_sites] in A1, A2, A3. rewrite Esp in A1, A2, A3. cbn [forallb] in A1, A2, A3.
        rewrite andb_true_r in A1, A2, A3. cbn [site_var_uses] in Hu. rewrite Esp in Hu.
        destruct (wf_field_args_both S root fields tf Hwf Hroot Edf Htf) as [Hnd' Hty'].
        apply (check_arguments_complete S vars Hwf (closed_input S Hcl)); auto.
        cbn [site_syntax_ok] in Hsyn. apply args_written_ne, Hsyn. }
      rewrite Hargs, Etft. cbn [app].
      pose proof (Hok R_leaf_vs_composite) as H2. cbn [site_ok] in H2. rewrite Hcomp, Esp, <- get_type_sp, Etft in H2.
      destruct sub as [ss'|].
      + apply Bool.eqb_prop in H2.
        destruct ss' as [q l']. cbn [sel_depth] in Hdepth.
        rewrite <- get_type_sp, Etft in Hkids.
        apply (IH seen tft (SelSet q l') fv (get_type_In _ _ _ Etft) H2 Hnd Hincl); [lia | exact Hfv | exact Hkids].
      + apply Bool.eqb_prop in H2. apply direct_fields_none in H2. rewrite H2. reflexivity.
    - (* spread *)
      cbn [vsites_sel] in Hs. inversion Hs as [|? ? Hspread Hs1]; subst. inversion Hs1 as [|? ? Hdirs Henter]; subst.
      clear Hs Hs1. destruct Hspread as [Hok _].
      destruct fv as [|k]; [lia|]. cbn [vis_enter] in Henter.
      destruct (mem (iname name) seen) eqn:Emem.
      { inversion Henter as [|? ? [_ [_ [_ Hc]]] _]; subst. exfalso. apply (Hc (iname name)). reflexivity. }
      pose proof (Hok R_spreads_defined) as H1. cbn [site_ok] in H1.
      destruct (sp_frag D (iname name)) as [target|] eqn:Efr; [|discriminate].
      inversion Henter as [|? ? Htdirs Hkids]; subst. clear Henter.
      assert (Htin : In target (doc_fragdefs D)) by (apply (find_some _ _ Efr)).
      assert (Htname : iname (fr_name target) = iname name).
      { pose proof (find_some _ _ Efr) as [_ Hn]. apply str_eqb_eq in Hn. exact Hn. }
      destruct (Hfrag_targets target Htin) as [cond [Econd Hccomp]].
      cbn [check_selection]. unfold check_fragment_spread.
      change str_FRAGMENT_SPREAD with (s "FRAGMENT_SPREAD"). rewrite (dirs_fine S D vars Hwf Hcl _ _ Hdirs). cbn [app].
      rewrite mem_str_mem, Emem. rewrite (frag_get_sp D Hfrag_unique), Efr.
      change str_FRAGMENT_DEFINITION with (s "FRAGMENT_DEFINITION"). rewrite (dirs_fine S D vars Hwf Hcl _ _ Htdirs). cbn [app].
      rewrite Econd. unfold check_fragment_spread_core.
      pose proof (Hok R_spread_possible) as H2. cbn [site_ok] in H2. rewrite Efr, <- get_type_sp, Econd in H2.
      rewrite (spread_match_complete S p root cond Hcl Hroot (get_type_In _ _ _ Econd) Hcomp Hccomp H2). cbn [fst snd app].
      rewrite <- get_type_sp, Econd in Hkids.
      assert (Hnew : ~ In (iname name) seen).
      { intros Hin. apply mem_In in Hin. congruence. }
      assert (Hnd' : NoDup (seen ++ [iname name])).
      { apply NoDup_snoc; assumption. }
      assert (Hincl' : incl (seen ++ [iname name]) fnames).
      { intros x Hx. apply in_app_or in Hx as [Hx|[<-|[]]]; [apply Hincl, Hx|].
        rewrite <- Htname. apply (in_map (fun f0 => iname (fr_name f0))), Htin. }
      pose proof (seen_bound _ Hnd' Hincl') as Hsb'. rewrite app_length in Hsb'. cbn [length] in Hsb'.
      pose proof (frag_depth_le D target Htin) as Hfd.
      pose proof (selset_depth_pos (SelSet pss l)) as Hpos.
      apply (IH (seen ++ [iname name]) cond (fr_sel target) k (get_type_In _ _ _ Econd) Hccomp Hnd' Hincl').
      + rewrite app_length. cbn [length].
        assert (E : N - length seen = Datatypes.S (N - (length seen + 1))) by lia.
        rewrite E in Hfuel. cbn [Nat.mul] in Hfuel. lia.
      + rewrite app_length. cbn [length]. lia.
      + exact Hkids.
    - (* inline fragment *)
      destruct sub as [q l']. cbn [sel_depth] in Hdepth.
      cbn [check_selection]. unfold check_inline_fragment.
      destruct tc as [c|]; cbn [vsites_sel] in Hs.
      + inversion Hs as [|? ? Hinl Hs1]; subst. inversion Hs1 as [|? ? Hdirs Hkids]; subst. clear Hs Hs1.
        destruct Hinl as [Hok _].
        change str_INLINE_FRAGMENT with (s "INLINE_FRAGMENT"). rewrite (dirs_fine S D vars Hwf Hcl _ _ Hdirs). cbn [app].
        pose proof (Hok R_fragment_targets) as H1. cbn [site_ok] in H1. rewrite <- get_type_sp in H1.
        destruct (get_type S (iname c)) as [cond|] eqn:Econd; [|discriminate].
        unfold check_fragment_spread_core.
        pose proof (Hok R_spread_possible) as H2. cbn [site_ok] in H2. rewrite <- get_type_sp, Econd in H2.
        rewrite (spread_match_complete S p root cond Hcl Hroot (get_type_In _ _ _ Econd) Hcomp H1 H2). cbn [fst snd app].
        rewrite <- get_type_sp, Econd in Hkids.
        apply (IH seen cond (SelSet q l') fv (get_type_In _ _ _ Econd) H1 Hnd Hincl); [lia | exact Hfv | exact Hkids].
      + inversion Hs as [|? ? Hdirs Hkids]; subst. clear Hs.
        change str_INLINE_FRAGMENT with (s "INLINE_FRAGMENT"). rewrite (dirs_fine S D vars Hwf Hcl _ _ Hdirs). cbn [app].
        apply (IH seen root (SelSet q l') fv Hroot Hcomp Hnd Hincl); [lia | exact Hfv | exact Hkids].
  Qed.
End WalkComplete.

(** * From the rules on the visible sites to an empty error list *)

Lemma all_rules_complete r : In r all_rules.
Proof. destruct r; cbn; tauto. Qed.

Lemma find_op_none_conv prev name :
  mem name (names_of_ops (ops_of prev)) = false ->
  find (fun other => match other with
                     | DOp o => match op_name o with Some n => str_eqb (iname n) name | None => false end
                     | _ => false
                     end) prev = None.
Proof.
  induction prev as [|d prev IH]; intros H; [reflexivity|]. cbn [find].
  destruct d as [o|f|i]; try (apply IH, H).
  change (ops_of (DOp o :: prev)) with (o :: ops_of prev) in H.
  change (names_of_ops (o :: ops_of prev))
    with ((match op_name o with Some n => [iname n] | None => [] end) ++ names_of_ops (ops_of prev)) in H.
  rewrite mem_app in H. apply orb_false_iff in H as [H1 H2].
  destruct (op_name o) as [n|] eqn:En.
  - rewrite mem_cons in H1. apply orb_false_iff in H1 as [H1 _]. rewrite str_eqb_sym, H1. apply IH, H2.
  - apply IH, H2.
Qed.

Lemma find_frag_none_conv prev name :
  mem name (names_of_frags (frags_of prev)) = false ->
  find (fun other => match other with DFrag o => str_eqb (iname (fr_name o)) name | _ => false end) prev = None.
Proof.
  induction prev as [|d prev IH]; intros H; [reflexivity|]. cbn [find].
  destruct d as [o|f|i]; try (apply IH, H).
  change (names_of_frags (frags_of (DFrag f :: prev))) with (iname (fr_name f) :: names_of_frags (frags_of prev)) in H.
  rewrite mem_cons in H. apply orb_false_iff in H as [H1 H2]. rewrite str_eqb_sym, H1. apply IH, H2.
Qed.

Lemma nodup_str_app_l a b : nodup_str (a ++ b) = true -> nodup_str a = true.
Proof.
  induction a as [|x a IH]; cbn [app nodup_str]; [reflexivity|]. intros H. apply andb_true_iff in H as [H1 H2].
  rewrite (IH H2), andb_true_r. rewrite mem_app in H1. destruct (mem x a); [discriminate H1 | reflexivity].
Qed.

Lemma check_variables_from_complete S : forall vs seen,
  nodup_str (map vd_name vs) = true ->
  (forall v, In v vs -> mem (vd_name v) seen = false) ->
  (forall v, In v vs ->
     check_directives S None str_VARIABLE_DEFINITION (vd_dirs v) = []
     /\ match sp_type S (iname (ty_unwrapped (vd_type v))) with Some t => is_input_type t | None => false end = true) ->
  check_variables_from S seen vs = [].
Proof.
  induction vs as [|v vs IH]; intros seen Hnd Hseen Hall; [reflexivity|].
  cbn [check_variables_from]. cbn zeta.
  rewrite mem_str_mem, (Hseen v (or_introl eq_refl)). cbn [app].
  destruct (Hall v (or_introl eq_refl)) as [Hd Ht]. rewrite Hd. cbn [app].
  rewrite get_type_sp. destruct (sp_type S (iname (ty_unwrapped (vd_type v)))) as [t|]; [|discriminate].
  assert (Hi : inout_is_input t = true) by (destruct t; cbn in *; congruence). rewrite Hi. cbn [app].
  cbn [map nodup_str] in Hnd. apply andb_true_iff in Hnd as [Hv Hnd].
  apply IH; [exact Hnd | | intros w Hw; apply Hall; right; exact Hw].
  intros w Hw. rewrite mem_app. rewrite (Hseen w (or_intror Hw)). cbn [orb mem existsb]. rewrite orb_false_r.
  destruct (str_eqb_spec (vd_name w) (vd_name v)) as [E|E]; [|reflexivity].
  exfalso. apply negb_true_iff in Hv. assert (Hm : mem (vd_name v) (map vd_name vs) = true).
  { apply mem_In. rewrite <- E. apply in_map, Hw. } congruence.
Qed.

Lemma find_var_eq' o n : find_var o n = get_variable_definition (op_vars o) n.
Proof. unfold find_var, get_variable_definition, op_vardefs. destruct (op_vars o); reflexivity. Qed.

Section DocComplete.
  Variable S : tsdoc.
  Variable D : opdoc.
  Hypothesis Hwf : schema_wf S = true.
  Hypothesis Hcl : schema_closed S = true.
  Hypothesis Hfine : doc_fine_vis S D = true.
  (** the subscription rule: the implementation's own collection of response keys is assumed to find at most one
      (the specification-side rule gives exactly one key for CollectFields with a visited set; that the implementation's
      path-based collection finds no other key is not proved) *)
  Hypothesis Hsub : forall o, In o (doc_ops D) -> op_type o = Subscription ->
    length (collect_response_keys (doc_fuel D) (doc_frags D) [] (op_sel o) []) <= 1.
  (** every fragment definition is (transitively) spread by an operation (Fragments Must Be Used, 5.5.1.4, which valid
      documents satisfy), in the implementation's own terms: the pass over never-spread fragments is then empty *)
  Hypothesis Hspread : forallb (fun f => mem_str (iname (fr_name f))
                                  (spread_by_operations (doc_fuel D) (doc_frags D) (od_defs D))) (doc_frags D) = true.

  Lemma rules_vis r : rule_ok_vis S D r = true.
  Proof.
    unfold doc_fine_vis in Hfine. apply andb_true_iff in Hfine as [H _]. rewrite forallb_forall in H.
    apply H, all_rules_complete.
  Qed.

  Lemma op_fine o : In o (doc_ops D) ->
    forallb site_syntax_ok (vis_op_sites S D o ++ op_const_sites o) = true
    /\ exists t, sp_root S (op_type o) = Some t /\ is_object t = true.
  Proof.
    intros Hin. unfold doc_fine_vis, doc_guard in Hfine. apply andb_true_iff in Hfine as [_ H]. rewrite forallb_forall in H.
    specialize (H o Hin). rewrite !andb_true_iff in H. destruct H as [H2 H3]. split; [exact H2|].
    destruct (sp_root S (op_type o)) as [t|]; [eauto | discriminate].
  Qed.

  Lemma vis_in o : In o (doc_ops D) -> In (o, vis_op_sites S D o) (vis_doc_sites S D).
  Proof. intros H. unfold vis_doc_sites. apply in_map_iff. exists o. auto. Qed.

  Lemma frag_unique' : nodup_str (map (fun f => iname (fr_name f)) (doc_fragdefs D)) = true.
  Proof. exact (rules_vis R_unique_fragments). Qed.

  Lemma frag_targets' : forall f, In f (doc_fragdefs D) ->
    exists t, get_type S (iname (fr_cond f)) = Some t /\ is_composite t = true.
  Proof.
    intros f Hin. pose proof (rules_vis R_fragment_targets) as H. unfold rule_ok_vis in H. cbn [rule_ok_vis_on] in H.
    apply andb_true_iff in H as [H _]. rewrite forallb_forall in H. specialize (H f Hin).
    rewrite <- get_type_sp in H. destruct (get_type S (iname (fr_cond f))) as [t|]; [eauto | discriminate].
  Qed.

  Lemma site_rules_hold o x r : In o (doc_ops D) -> In x (vis_op_sites S D o ++ op_const_sites o) ->
    site_ok true S D r x = true.
  Proof.
    intros Ho Hx. pose proof (rules_vis r) as H. unfold rule_ok_vis in H.
    destruct r; try reflexivity; cbn [rule_ok_vis_on] in H;
      try (rewrite forallb_forall in H; specialize (H _ (vis_in o Ho)); cbn [fst snd] in H;
           rewrite forallb_forall in H; apply H, Hx).
    (* fragment targets: the rule is read on the operation's sites; constant sites are directive lists *)
    apply in_app_or in Hx as [Hx|Hx].
    - apply andb_true_iff in H as [_ H]. rewrite forallb_forall in H. specialize (H _ (vis_in o Ho)). cbn [fst snd] in H.
      rewrite forallb_forall in H. apply H, Hx.
    - unfold op_const_sites in Hx. apply in_map_iff in Hx as [v [<- _]]. reflexivity.
  Qed.

  Lemma vis_site_fine o x : In o (doc_ops D) -> In x (vis_op_sites S D o) -> site_fine S D (op_vars o) x.
  Proof.
    intros Ho Hx. destruct (op_fine o Ho) as [Hsyn _].
    pose proof (rules_vis R_var_usage_compatible) as Hstrict. unfold rule_ok_vis in Hstrict. cbn [rule_ok_vis_on] in Hstrict.
    rewrite forallb_forall in Hstrict. specialize (Hstrict _ (vis_in o Ho)). cbn [fst snd] in Hstrict.
    split; [|split; [|split]].
    - intros r. apply (site_rules_hold o x r Ho). apply in_or_app. left. exact Hx.
    - pose proof (rules_vis R_vars_defined) as Hd. unfold rule_ok_vis in Hd. cbn [rule_ok_vis_on] in Hd.
      rewrite forallb_forall in Hd. specialize (Hd _ (vis_in o Ho)). cbn [fst snd] in Hd.
      unfold vars_defined_on in Hd. apply andb_true_iff in Hd as [Hd _].
      rewrite forallb_forall in Hd. specialize (Hd x Hx).
      unfold var_usage_on in Hstrict. rewrite forallb_forall in Hstrict. specialize (Hstrict x Hx).
      apply Forall_forall. intros u Hu.
      rewrite forallb_forall in Hd, Hstrict. specialize (Hd u Hu). specialize (Hstrict u Hu).
      rewrite find_var_eq' in Hd, Hstrict.
      destruct (get_variable_definition (op_vars o) (u_name u)) as [vd|] eqn:Ev; [|discriminate].
      exists vd. split; [exact Ev|]. intros t Et. rewrite Et in Hstrict. exact Hstrict.
    - rewrite forallb_forall in Hsyn. apply Hsyn, in_or_app. left. exact Hx.
    - intros n ->. pose proof (rules_vis R_no_cycles) as Hc. unfold rule_ok_vis in Hc. cbn [rule_ok_vis_on] in Hc.
      rewrite forallb_forall in Hc. specialize (Hc _ (vis_in o Ho)). cbn [fst snd] in Hc.
      rewrite forallb_forall in Hc. specialize (Hc _ Hx). discriminate.
  Qed.

  Lemma const_site_fine o x : In o (doc_ops D) -> In x (op_const_sites o) -> site_fine S D None x.
  Proof.
    intros Ho Hx. destruct (op_fine o Ho) as [Hsyn _].
    split; [|split; [|split]].
    - intros r. apply (site_rules_hold o x r Ho). apply in_or_app. right. exact Hx.
    - pose proof (rules_vis R_vars_defined) as Hd. unfold rule_ok_vis in Hd. cbn [rule_ok_vis_on] in Hd.
      rewrite forallb_forall in Hd. specialize (Hd _ (vis_in o Ho)). cbn [fst snd] in Hd.
      unfold vars_defined_on in Hd. apply andb_true_iff in Hd as [_ Hd].
      rewrite forallb_forall in Hd. specialize (Hd x Hx). destruct (site_var_uses false S x); [constructor | discriminate].
    - rewrite forallb_forall in Hsyn. apply Hsyn, in_or_app. right. exact Hx.
    - intros n ->. unfold op_const_sites in Hx. apply in_map_iff in Hx as [v [E _]]. discriminate.
  Qed.

  Lemma optype_eqb_eq a b : optype_eqb a b = true -> a = b.
  Proof. destruct a, b; cbn; intros H; try discriminate; reflexivity. Qed.

  Lemma check_operation_complete o : In o (doc_ops D) -> check_operation (doc_fuel D) S (doc_frags D) o = [].
  Proof.
    intros Ho. destruct (op_fine o Ho) as [_ [root [Hroot Hobj]]].
    destruct (wf_parts S Hwf) as [Hone Hpos].
    unfold check_operation. unfold root_types. rewrite (root_types_from_one S Hone).
    pose proof Hroot as Hroot0. unfold sp_root in Hroot.
    assert (Hmain : forall rootname, get_type S rootname = Some root ->
      check_directives S (op_vars o) (op_location (op_type o)) (op_dirs o)
      ++ match op_vars o with Some vs => check_variables_definition S vs | None => [] end
      ++ (if optype_eqb (op_type o) Subscription && Nat.ltb 1 (length (collect_response_keys (doc_fuel D) (doc_frags D) [] (op_sel o) []))
          then [err0 SubscriptionMustHaveExactlyOneRootField (op_pos o)] else [])
      ++ check_selection_set (doc_fuel D) S (doc_frags D) (op_vars o) [] root (op_sel o) = []).
    { intros rootname Hg.
      assert (H1 : check_directives S (op_vars o) (op_location (op_type o)) (op_dirs o) = []).
      { rewrite op_location_eq. apply (dirs_fine S D (op_vars o) Hwf Hcl).
        apply (vis_site_fine o _ Ho). unfold vis_op_sites. left. reflexivity. }
      assert (H2 : match op_vars o with Some vs => check_variables_definition S vs | None => [] end = []).
      { destruct (op_vars o) as [vs|] eqn:Ev; [|reflexivity]. unfold check_variables_definition.
        pose proof (rules_vis R_unique_vars) as U. pose proof (rules_vis R_vars_input_types) as T.
        unfold rule_ok_vis in U, T. cbn [rule_ok_vis_on rule_ok] in U, T.
        rewrite forallb_forall in U, T. specialize (U o Ho). specialize (T o Ho).
        unfold op_vardefs in U, T. rewrite Ev in U, T.
        apply check_variables_from_complete; [exact U | intros; reflexivity |].
        intros v Hv. split; [|rewrite forallb_forall in T; apply T, Hv].
        apply (dirs_fine S D None Hwf Hcl). apply (const_site_fine o _ Ho).
        unfold op_const_sites, op_vardefs. rewrite Ev. apply in_map_iff. exists v. auto. }
      assert (H3 : optype_eqb (op_type o) Subscription && Nat.ltb 1 (length (collect_response_keys (doc_fuel D) (doc_frags D) [] (op_sel o) [])) = false).
      { destruct (optype_eqb (op_type o) Subscription) eqn:E; [|reflexivity]. cbn [andb].
        apply Nat.ltb_ge. apply (Hsub o Ho). apply optype_eqb_eq, E. }
      assert (H4 : check_selection_set (doc_fuel D) S (doc_frags D) (op_vars o) [] root (op_sel o) = []).
      { apply (walk_complete S D (op_vars o) Hwf Hcl frag_unique' frag_targets' _ [] root (op_sel o)
                 (Datatypes.S (length (doc_fragdefs D)))).
        - apply (get_type_In _ _ _ Hg).
        - destruct root; try discriminate Hobj; reflexivity.
        - constructor.
        - intros x [].
        - pose proof (op_depth_le D o Ho) as Hd. unfold doc_fuel. change (doc_frags D) with (doc_fragdefs D).
          fold (max_depth D). cbn [length]. rewrite Nat.sub_0_r. cbn [Nat.mul]. lia.
        - cbn [length]. lia.
        - apply Forall_forall. intros x Hx. apply (vis_site_fine o x Ho). unfold vis_op_sites. right.
          rewrite Hroot0. exact Hx. }
      rewrite H1, H2, H3, H4. reflexivity. }
    destruct (sp_schema_def S) as [sd|] eqn:Esd.
    - rewrite r_pos_fold. cbn [r_pos]. rewrite (Hpos sd (sp_schema_def_In _ _ Esd)). cbn [negb].
      rewrite root_of_fold.
      destruct (find (fun p => optype_eqb (fst p) (op_type o)) (rev (sd_ops sd))) as [p|]; [|discriminate].
      rewrite <- get_type_sp in Hroot. rewrite Hroot. apply (Hmain _ Hroot).
    - cbn [r_pos pos0 pbuiltin negb].
      assert (Hn : root_of (mkRoots pos0 None None None) (op_type o) = None) by (destruct (op_type o); reflexivity).
      rewrite Hn. rewrite <- get_type_sp, <- default_root_name_eq in Hroot. rewrite Hroot. apply (Hmain _ Hroot).
  Qed.

  Lemma check_definition_complete l1 d l2 :
    od_defs D = l1 ++ d :: l2 ->
    check_definition (doc_fuel D) S (doc_frags D) (length (filter is_op (od_defs D))) l1 d = [].
  Proof.
    intros E. destruct d as [o|f|i]; cbn [check_definition]; [| |reflexivity].
    - assert (Ho : In o (doc_ops D)).
      { unfold doc_ops. apply in_flat_map. exists (DOp o). split; [rewrite E; apply in_or_app; right; left; reflexivity | left; reflexivity]. }
      rewrite (check_operation_complete o Ho), app_nil_r.
      destruct (op_name o) as [name|] eqn:En.
      + pose proof (rules_vis R_unique_op_names) as U. unfold rule_ok_vis in U. cbn [rule_ok_vis_on rule_ok] in U.
        unfold op_names, doc_ops in U. change (nodup_str (names_of_ops (ops_of (od_defs D))) = true) in U.
        rewrite E, ops_of_app, names_of_ops_app in U.
        change (ops_of (DOp o :: l2)) with (o :: ops_of l2) in U.
        change (names_of_ops (o :: ops_of l2))
          with ((match op_name o with Some n => [iname n] | None => [] end) ++ names_of_ops (ops_of l2)) in U.
        rewrite En in U. rewrite app_assoc in U. apply nodup_str_app_l in U.
        rewrite nodup_str_snoc in U. apply andb_true_iff in U as [_ U]. apply negb_true_iff in U.
        rewrite (find_op_none_conv l1 (iname name) U). reflexivity.
      + pose proof (rules_vis R_lone_anonymous) as U. unfold rule_ok_vis in U. cbn [rule_ok_vis_on rule_ok] in U.
        rewrite length_filter_is_op. fold (doc_ops D).
        assert (Hex : existsb (fun o0 => match op_name o0 with None => true | Some _ => false end) (doc_ops D) = true).
        { apply existsb_exists. exists o. rewrite En. auto. }
        rewrite Hex in U. cbn [negb orb] in U. unfold doc_ops in U. unfold doc_ops. unfold ops_of. rewrite U. reflexivity.
    - assert (Hf : In f (doc_fragdefs D)).
      { unfold doc_fragdefs. apply in_flat_map. exists (DFrag f). split; [rewrite E; apply in_or_app; right; left; reflexivity | left; reflexivity]. }
      pose proof frag_unique' as U. unfold doc_fragdefs in U.
      change (nodup_str (names_of_frags (frags_of (od_defs D))) = true) in U.
      rewrite E, frags_of_app in U. unfold names_of_frags in U. rewrite map_app in U.
      change (frags_of (DFrag f :: l2)) with (f :: frags_of l2) in U. cbn [map] in U.
      change (map (fun f0 => iname (fr_name f0)) (frags_of l1) ++ iname (fr_name f) :: map (fun f0 => iname (fr_name f0)) (frags_of l2))
        with (map (fun f0 => iname (fr_name f0)) (frags_of l1) ++ [iname (fr_name f)] ++ map (fun f0 => iname (fr_name f0)) (frags_of l2)) in U.
      rewrite app_assoc in U. apply nodup_str_app_l in U.
      rewrite nodup_str_snoc in U. apply andb_true_iff in U as [_ U]. apply negb_true_iff in U.
      rewrite (find_frag_none_conv l1 (iname (fr_name f)) U). cbn [app].
      unfold check_fragment_definition. destruct (frag_targets' f Hf) as [t [Eg Hc]]. rewrite Eg.
      destruct t; try discriminate Hc; reflexivity.
  Qed.

  Lemma check_definitions_complete : forall defs prev,
    od_defs D = prev ++ defs ->
    check_definitions (doc_fuel D) S (doc_frags D) (length (filter is_op (od_defs D))) prev defs = [].
  Proof.
    induction defs as [|d defs IH]; intros prev E; [reflexivity|]. cbn [check_definitions].
    rewrite (check_definition_complete prev d defs E). cbn [app].
    apply IH. rewrite <- app_assoc. exact E.
  Qed.

  Lemma check_unspread_nil : forall defs spread,
    (forall f, In (DFrag f) defs -> mem_str (iname (fr_name f)) spread = true) ->
    check_unspread (doc_fuel D) S (doc_frags D) spread defs = [].
  Proof.
    induction defs as [|d defs IH]; intros spread H; [reflexivity|]. cbn [check_unspread].
    destruct d as [o|f|i]; try (apply IH; intros f' Hf'; apply H; right; exact Hf').
    rewrite (H f (or_introl eq_refl)). apply IH. intros f' Hf'. apply H. right. exact Hf'.
  Qed.

  Theorem complete_vis : check_operation_document S D = [].
  Proof.
    unfold check_operation_document, check_operation_document_fuel.
    rewrite (check_definitions_complete (od_defs D) [] eq_refl). cbn [app].
    apply check_unspread_nil. intros f Hf. rewrite forallb_forall in Hspread. apply Hspread.
    unfold doc_frags. apply in_flat_map. exists (DFrag f). split; [exact Hf | left; reflexivity].
  Qed.
End DocComplete.
