(** C04 — proofs, part 2: the selection walk in the "valid implies accepted" direction.
    If every site a spread-following validator reaches is fine (every site rule, variables usable, no cycle),
    the model's check_selection_set reports nothing — in particular it never runs out of fuel. *)
From V Require Import Base.Util Gql.Ast C03.Model C03.Spec C03.Proofs C03.Proofs2 C03.Proofs3 C03.Proofs4 C04.Proofs.

(** * Schema facts from [schema_closed] *)

Lemma closed_parts S : schema_closed S = true ->
  nodup_str (schema_type_names S) = true /\ input_types_closed S = true
  /\ (forall d, In d S ->
        match d with
        | TSType (TDObject _ _ _ _ _ fs _) | TSType (TDInterface _ _ _ _ _ fs _) => field_list_closed S fs
        | TSType (TDUnion _ _ _ _ members _) =>
            match members with [] => false | _ => true end
            && forallb (fun m => match sp_type S (iname m) with Some t => is_object t | None => false end) members
        | TSDirective dd => forallb (fun a => resolves S (iv_type a)) (dir_argdefs dd)
        | _ => true
        end = true)
  /\ resolves S (TNamed (mkId (s "String") pos0)) = true.
Proof.
  unfold schema_closed. rewrite !andb_true_iff. intros [[[H1 H2] H3] H4]. repeat split; auto.
  intros d Hd. rewrite forallb_forall in H3. apply H3, Hd.
Qed.

Lemma name_in_names S t : In (TSType t) S -> In (iname (typedef_name t)) (schema_type_names S).
Proof. intros H. unfold schema_type_names. apply in_flat_map. exists (TSType t). split; [exact H | left; reflexivity]. Qed.

Lemma get_type_unique S : nodup_str (schema_type_names S) = true ->
  forall t, In (TSType t) S -> get_type S (iname (typedef_name t)) = Some t.
Proof.
  induction S as [|d S IH]; intros Hnd t Hin; [contradiction|].
  destruct d as [sd|t'|dd|se|te]; cbn [get_type];
    try (destruct Hin as [E|Hin]; [discriminate E|]; apply IH; [exact Hnd | exact Hin]).
  cbn [schema_type_names flat_map app] in Hnd. fold (schema_type_names S) in Hnd. cbn [nodup_str] in Hnd.
  apply andb_true_iff in Hnd as [Hnot Hnd].
  destruct Hin as [E|Hin].
  - injection E as ->. rewrite str_eqb_refl. reflexivity.
  - destruct (str_eqb_spec (iname (typedef_name t')) (iname (typedef_name t))) as [E|E].
    + exfalso. apply name_in_names in Hin. rewrite <- E in Hin. apply mem_In in Hin. rewrite Hin in Hnot. discriminate.
    + apply IH; assumption.
Qed.

Lemma iter_types_from_complete : forall S seen t,
  nodup_str (schema_type_names S) = true -> In (TSType t) S -> mem_str (iname (typedef_name t)) seen = false ->
  In t (iter_types_from seen S).
Proof.
  induction S as [|d S IH]; intros seen t Hnd Hin Hs; [contradiction|].
  destruct d as [sd|t'|dd|se|te]; cbn [iter_types_from];
    try (destruct Hin as [E|Hin]; [discriminate E|]; apply IH; assumption).
  cbn [schema_type_names flat_map app] in Hnd. fold (schema_type_names S) in Hnd. cbn [nodup_str] in Hnd.
  apply andb_true_iff in Hnd as [Hnot Hnd].
  destruct Hin as [E|Hin].
  - injection E as ->. cbn zeta. rewrite Hs. left. reflexivity.
  - cbn zeta. assert (Hne : str_eqb (iname (typedef_name t)) (iname (typedef_name t')) = false).
    { destruct (str_eqb_spec (iname (typedef_name t)) (iname (typedef_name t'))) as [E|E]; [|reflexivity].
      exfalso. apply name_in_names in Hin. rewrite E in Hin. apply mem_In in Hin. rewrite Hin in Hnot. discriminate. }
    destruct (mem_str (iname (typedef_name t')) seen).
    + apply IH; assumption.
    + right. apply IH; try assumption. cbn [mem_str existsb]. rewrite Hne, Hs. reflexivity.
Qed.

Lemma mem_names_of_implements l n : mem n (names_of l) = true -> implements l n = true.
Proof.
  unfold implements, names_of. induction l as [|x l IH]; [discriminate|]. cbn [existsb map].
  rewrite mem_cons, (str_eqb_sym n). destruct (str_eqb (iname x) n); cbn [orb]; [reflexivity | exact IH].
Qed.

(** an object named [x] among the possible types of an interface: the object definition of that name implements it *)
Lemma possible_interface_inv S d p n impls dirs fs kw x :
  mem x (possible_types S (TDInterface d p n impls dirs fs kw)) = true ->
  exists d' p' o impls' dirs' fs' kw',
    In (TSType (TDObject d' p' o impls' dirs' fs' kw')) S /\ iname o = x /\ implements impls' (iname n) = true.
Proof.
  intros H. apply mem_In in H. cbn [possible_types] in H. apply in_flat_map in H as [td [Hin Hx]].
  destruct td as [sd|t|dd|se|te]; try contradiction. destruct t; try contradiction.
  destruct (mem (iname n) (names_of impls0)) eqn:Em; [|contradiction]. destruct Hx as [<-|[]].
  do 7 eexists. split; [exact Hin|]. split; [reflexivity | apply mem_names_of_implements, Em].
Qed.

Lemma overlap_inv a b : overlap a b = true -> exists x, mem x a = true /\ mem x b = true.
Proof.
  unfold overlap. intros H. apply existsb_exists in H as [x [Hin Hb]]. exists x. split; [apply mem_In, Hin | exact Hb].
Qed.

Lemma some_member_implements_found S members i :
  nodup_str (schema_type_names S) = true ->
  (forall m, In m members -> exists t, get_type S (iname m) = Some t /\ is_object t = true) ->
  (exists m d p o impls dirs fs kw, In m members /\ get_type S (iname m) = Some (TDObject d p o impls dirs fs kw)
                                    /\ implements impls i = true) ->
  some_member_implements S members i = ([], true).
Proof.
  intros Hnd. induction members as [|m r IH]; intros Hobj Hex.
  - destruct Hex as [m [? [? [? [? [? [? [? [[] _]]]]]]]]].
  - cbn [some_member_implements].
    destruct (Hobj m (or_introl eq_refl)) as [t [Eg Ho]]. rewrite Eg.
    destruct t; try discriminate Ho. cbn [object_impls].
    destruct (implements impls i) eqn:Ei; [reflexivity|].
    apply IH; [intros m' Hm'; apply Hobj; right; exact Hm'|].
    destruct Hex as [m' [d' [p' [o' [im' [di' [fs' [kw' [[<-|Hin] [Hg Hi]]]]]]]]]].
    + rewrite Eg in Hg. injection Hg as <- <- <- <- <- <- <-. congruence.
    + do 8 eexists. split; [exact Hin|]. split; eassumption.
Qed.

(** the nine-way match reports nothing when the spread is possible *)
Lemma spread_match_complete S pos root cond :
  schema_closed S = true ->
  In (TSType root) S -> In (TSType cond) S -> is_composite root = true -> is_composite cond = true ->
  applies S root cond = true ->
  spread_match S pos root cond = ([], true).
Proof.
  intros Hcl Hr Hc Hcr Hcc Happ. destruct (closed_parts S Hcl) as [Hnd [_ [Hdefs _]]].
  pose proof (get_type_unique S Hnd) as Huniq.
  unfold applies, type_name in Happ. rewrite Hcr, Hcc in Happ. cbn [negb orb] in Happ.
  destruct root as [d p n dirs kw|d p n impls dirs fs kw|d p n impls dirs fs kw|d p n dirs members kw
                   |d p n dirs vals kw|d p n dirs fields kw]; try discriminate Hcr;
  destruct cond as [d' p' n' dirs' kw'|d' p' n' impls' dirs' fs' kw'|d' p' n' impls' dirs' fs' kw'|d' p' n' dirs' members' kw'
                   |d' p' n' dirs' vals' kw'|d' p' n' dirs' fields' kw']; try discriminate Hcc;
  cbn [spread_match typedef_name] in *.
  - (* object / object *)
    assert (E : str_eqb (iname n) (iname n') = true).
    { apply orb_true_iff in Happ as [E|Ho]; [exact E|]. apply overlap_inv in Ho as [x [H1 H2]].
      cbn [possible_types mem existsb] in H1, H2. rewrite orb_false_r in H1, H2.
      apply str_eqb_eq in H1, H2. subst. apply str_eqb_refl. }
    rewrite E. reflexivity.
  - (* object / interface *)
    assert (E : implements impls (iname n') = true).
    { apply orb_true_iff in Happ as [E|Ho].
      - exfalso. apply str_eqb_eq in E. pose proof (Huniq _ Hr) as G1. pose proof (Huniq _ Hc) as G2.
        cbn [typedef_name] in G1, G2. rewrite E in G1. rewrite G1 in G2. discriminate.
      - apply overlap_inv in Ho as [x [H1 H2]]. cbn [possible_types mem existsb] in H1. rewrite orb_false_r in H1.
        apply str_eqb_eq in H1. subst x.
        apply possible_interface_inv in H2 as [d0 [p0 [o [im [di [ff [kk [Hin [Hn Hi]]]]]]]]].
        pose proof (Huniq _ Hin) as G1. pose proof (Huniq _ Hr) as G2. cbn [typedef_name] in G1, G2.
        rewrite Hn, G2 in G1. injection G1 as <- <- <- <- <- <- <-. exact Hi. }
    rewrite E. reflexivity.
  - (* object / union *)
    assert (E : implements members' (iname n) = true).
    { apply orb_true_iff in Happ as [E|Ho].
      - exfalso. apply str_eqb_eq in E. pose proof (Huniq _ Hr) as G1. pose proof (Huniq _ Hc) as G2.
        cbn [typedef_name] in G1, G2. rewrite E in G1. rewrite G1 in G2. discriminate.
      - apply overlap_inv in Ho as [x [H1 H2]]. cbn [possible_types mem existsb] in H1. rewrite orb_false_r in H1.
        apply str_eqb_eq in H1. subst x. cbn [possible_types] in H2. apply mem_names_of_implements, H2. }
    rewrite E. reflexivity.
  - (* interface / object *)
    assert (E : implements impls' (iname n) = true).
    { apply orb_true_iff in Happ as [E|Ho].
      - exfalso. apply str_eqb_eq in E. pose proof (Huniq _ Hr) as G1. pose proof (Huniq _ Hc) as G2.
        cbn [typedef_name] in G1, G2. rewrite E in G1. rewrite G1 in G2. discriminate.
      - apply overlap_inv in Ho as [x [H1 H2]]. cbn [possible_types mem existsb] in H2. rewrite orb_false_r in H2.
        apply str_eqb_eq in H2. subst x.
        apply possible_interface_inv in H1 as [d0 [p0 [o [im [di [ff [kk [Hin [Hn Hi]]]]]]]]].
        pose proof (Huniq _ Hin) as G1. pose proof (Huniq _ Hc) as G2. cbn [typedef_name] in G1, G2.
        rewrite Hn, G2 in G1. injection G1 as <- <- <- <- <- <- <-. exact Hi. }
    rewrite E. reflexivity.
  - (* interface / interface *)
    destruct (str_eqb (iname n) (iname n')) eqn:En; cbn [orb] in *; [reflexivity|].
    apply overlap_inv in Happ as [x [H1 H2]].
    apply possible_interface_inv in H1 as [d0 [p0 [o [im [di [ff [kk [Hin [Hn Hi]]]]]]]]].
    apply possible_interface_inv in H2 as [d1 [p1 [o1 [im1 [di1 [ff1 [kk1 [Hin1 [Hn1 Hi1]]]]]]]]].
    pose proof (Huniq _ Hin) as G1. pose proof (Huniq _ Hin1) as G2. cbn [typedef_name] in G1, G2.
    rewrite Hn in G1. rewrite Hn1, G1 in G2. injection G2 as <- <- <- <- <- <- <-.
    assert (Ex : existsb (fun t => match object_impls t with
                                   | Some impls0 => implements impls0 (iname n) && implements impls0 (iname n')
                                   | None => false end) (iter_types S) = true).
    { apply existsb_exists. eexists. split.
      - apply (iter_types_from_complete S [] _ Hnd Hin). reflexivity.
      - cbn [object_impls]. rewrite Hi, Hi1. reflexivity. }
    rewrite Ex. reflexivity.
  - (* interface / union *)
    assert (Hex : exists m d0 p0 o im di ff kk, In m members' /\ get_type S (iname m) = Some (TDObject d0 p0 o im di ff kk)
                                               /\ implements im (iname n) = true).
    { apply orb_true_iff in Happ as [E|Ho].
      - exfalso. apply str_eqb_eq in E. pose proof (Huniq _ Hr) as G1. pose proof (Huniq _ Hc) as G2.
        cbn [typedef_name] in G1, G2. rewrite E in G1. rewrite G1 in G2. discriminate.
      - apply overlap_inv in Ho as [x [H1 H2]].
        apply possible_interface_inv in H1 as [d0 [p0 [o [im [di [ff [kk [Hin [Hn Hi]]]]]]]]].
        cbn [possible_types] in H2. apply mem_In in H2. unfold names_of in H2. apply in_map_iff in H2 as [m [Hm Hmin]].
        pose proof (Huniq _ Hin) as G1. cbn [typedef_name] in G1. rewrite Hn, <- Hm in G1.
        do 8 eexists. split; [exact Hmin|]. split; [exact G1 | exact Hi]. }
    assert (Hobj : forall m, In m members' -> exists t, get_type S (iname m) = Some t /\ is_object t = true).
    { intros m Hm. specialize (Hdefs _ Hc). cbn beta iota in Hdefs. apply andb_true_iff in Hdefs as [_ Hdefs].
      rewrite forallb_forall in Hdefs. specialize (Hdefs m Hm).
      rewrite <- get_type_sp in Hdefs. destruct (get_type S (iname m)) as [t|]; [eauto | discriminate]. }
    rewrite (some_member_implements_found S members' (iname n) Hnd Hobj Hex). reflexivity.
  - (* union / object *)
    assert (E : implements members (iname n') = true).
    { apply orb_true_iff in Happ as [E|Ho].
      - exfalso. apply str_eqb_eq in E. pose proof (Huniq _ Hr) as G1. pose proof (Huniq _ Hc) as G2.
        cbn [typedef_name] in G1, G2. rewrite E in G1. rewrite G1 in G2. discriminate.
      - apply overlap_inv in Ho as [x [H1 H2]]. cbn [possible_types mem existsb] in H2. rewrite orb_false_r in H2.
        apply str_eqb_eq in H2. subst x. cbn [possible_types] in H1. apply mem_names_of_implements, H1. }
    rewrite E. reflexivity.
  - (* union / interface *)
    assert (Hex : exists m d0 p0 o im di ff kk, In m members /\ get_type S (iname m) = Some (TDObject d0 p0 o im di ff kk)
                                               /\ implements im (iname n') = true).
    { apply orb_true_iff in Happ as [E|Ho].
      - exfalso. apply str_eqb_eq in E. pose proof (Huniq _ Hr) as G1. pose proof (Huniq _ Hc) as G2.
        cbn [typedef_name] in G1, G2. rewrite E in G1. rewrite G1 in G2. discriminate.
      - apply overlap_inv in Ho as [x [H1 H2]].
        apply possible_interface_inv in H2 as [d0 [p0 [o [im [di [ff [kk [Hin [Hn Hi]]]]]]]]].
        cbn [possible_types] in H1. apply mem_In in H1. unfold names_of in H1. apply in_map_iff in H1 as [m [Hm Hmin]].
        pose proof (Huniq _ Hin) as G1. cbn [typedef_name] in G1. rewrite Hn, <- Hm in G1.
        do 8 eexists. split; [exact Hmin|]. split; [exact G1 | exact Hi]. }
    assert (Hobj : forall m, In m members -> exists t, get_type S (iname m) = Some t /\ is_object t = true).
    { intros m Hm. specialize (Hdefs _ Hr). cbn beta iota in Hdefs. apply andb_true_iff in Hdefs as [_ Hdefs].
      rewrite forallb_forall in Hdefs. specialize (Hdefs m Hm).
      rewrite <- get_type_sp in Hdefs. destruct (get_type S (iname m)) as [t|]; [eauto | discriminate]. }
    rewrite (some_member_implements_found S members (iname n') Hnd Hobj Hex). reflexivity.
  - (* union / union *)
    assert (E : existsb (fun x2 => existsb (fun x1 => str_eqb (iname x1) (iname x2)) members) members' = true).
    { assert (Ho : overlap (names_of members) (names_of members') = true).
      { apply orb_true_iff in Happ as [E|Ho]; [|exact Ho].
        (* the same union: it has a member, which overlaps with itself *)
        apply str_eqb_eq in E. pose proof (Huniq _ Hr) as G1. pose proof (Huniq _ Hc) as G2.
        cbn [typedef_name] in G1, G2. rewrite E in G1. rewrite G1 in G2. injection G2 as -> -> -> -> ->.
        specialize (Hdefs _ Hc). cbn beta iota in Hdefs. apply andb_true_iff in Hdefs as [Hne _].
        destruct members' as [|m ms]; [discriminate|].
        apply overlap_intro with (x := iname m); unfold names_of; cbn [map]; rewrite mem_cons, str_eqb_refl; reflexivity. }
      apply overlap_inv in Ho as [x [H1 H2]]. apply mem_In in H1, H2. unfold names_of in H1, H2.
      apply in_map_iff in H1 as [m1 [E1 Hm1]]. apply in_map_iff in H2 as [m2 [E2 Hm2]].
      apply existsb_exists. exists m2. split; [exact Hm2|]. apply existsb_exists. exists m1. split; [exact Hm1|].
      apply str_eqb_eq. congruence. }
    rewrite E. reflexivity.
Qed.
