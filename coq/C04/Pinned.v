(** Pinned statements of the C04 property theorems: compiled on every check, so a theorem cannot be
    weakened silently. *)
From V Require Import Base.Util Gql.Ast C03.Model C03.Spec C03.Witness C03.Proofs C03.Proofs2 C03.Proofs3 C04.Proofs C04.Proofs2 C04.Proofs3 C04.Properties.

Check (C04_type_compat_complete : forall vt lt, types_compatible vt lt = true -> type_compat vt lt = true).
Check (C04_check_value_complete : forall S vars,
  schema_wf S = true -> input_types_closed S = true ->
  forall v t ld,
    resolves S t = true -> lit_ok S v t = true ->
    Forall (use_strict vars) (var_uses false S v (Some t) ld) ->
    check_value S vars v t = []).
Check (C04_check_arguments_complete : forall S vars,
  schema_wf S = true -> input_types_closed S = true ->
  forall ppos pname kind args defs,
    (forall d, In d defs -> resolves S (iv_type d) = true) ->
    (forall a, args = Some a -> args_list a <> []) ->
    args_defined_ok (provided args, defs) = true ->
    required_args_ok (provided args, defs) = true ->
    literal_types_vis S (provided args, defs) = true ->
    Forall (use_strict vars) (args_var_uses false S (provided args) defs) ->
    check_arguments S vars ppos pname kind args defs = []).
Check (C04_check_directives_complete : forall S vars,
  schema_wf S = true -> input_types_closed S = true ->
  forall loc ds,
    (forall d, In d ds -> directive_fine S vars loc d) ->
    nodup_str (nonrep S ds) = true ->
    check_directives S vars loc ds = []).
Check (C04_guard_satisfiable : schema_wf w_schema_0 = true /\ input_types_closed w_schema_0 = true).
Check (C04_complete_vis : forall S D,
  schema_wf S = true -> schema_closed S = true -> doc_fine_vis S D = true ->
  (forall o, In o (doc_ops D) -> op_type o = Subscription ->
     count_fields (doc_fuel D) (doc_frags D) [] (op_sel o) <= 1) ->
  check_operation_document S D = []).
Check (C04_complete_vis_guard_satisfiable :
  schema_wf w_schema_0 = true /\ schema_closed w_schema_0 = true /\ doc_fine_vis w_schema_0 w_doc_14 = true).
Check (C04_full_to_vis : forall S D,
  schema_wf S = true -> (forall r, rule_ok S D r = true) -> forall r, rule_ok_vis S D r = true).
Check (C04_complete : forall S D,
  schema_wf S = true -> schema_closed S = true ->
  spec_valid S D = true -> doc_guard S D = true ->
  (forall o, In o (doc_ops D) -> op_type o = Subscription ->
     count_fields (doc_fuel D) (doc_frags D) [] (op_sel o) <= 1) ->
  check_operation_document S D = []).
Check (C04_complete_guard_satisfiable :
  schema_wf w_schema_0 = true /\ schema_closed w_schema_0 = true
  /\ spec_valid w_schema_0 w_doc_14 = true /\ doc_guard w_schema_0 w_doc_14 = true).
Check (C04_variable_default_position_refuted :
  exists S D, spec_valid S D = true /\ check_operation_document S D <> []).
Check (C04_subscription_same_field_refuted :
  exists S D, spec_valid S D = true /\ rule_ok S D R_single_subscription_root = true
              /\ check_operation_document S D <> []).
Check (C04_valid_documents_accepted :
  forallb (fun D => spec_valid w_schema_0 D && match check_operation_document w_schema_0 D with [] => true | _ => false end)
          [w_doc_6; w_doc_7; w_doc_14] = true).
Print Assumptions C04_type_compat_complete.
Print Assumptions C04_check_value_complete.
Print Assumptions C04_check_arguments_complete.
Print Assumptions C04_check_directives_complete.
Print Assumptions C04_guard_satisfiable.
Print Assumptions C04_complete_vis.
Print Assumptions C04_complete_vis_guard_satisfiable.
Print Assumptions C04_full_to_vis.
Print Assumptions C04_complete.
Print Assumptions C04_complete_guard_satisfiable.
Print Assumptions C04_variable_default_position_refuted.
Print Assumptions C04_subscription_same_field_refuted.
Print Assumptions C04_valid_documents_accepted.
