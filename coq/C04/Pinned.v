(** Pinned statements of the C04 property theorems: compiled on every check, so a theorem cannot be
    weakened silently. *)
From V Require Import Base.Util Gql.Ast C03.Model C03.Spec C03.Witness C03.Proofs C03.Proofs2 C03.Proofs3 C04.Proofs C04.Proofs2 C04.Proofs3 C04.Properties.

Check (C04_type_compat_complete : forall vt lt, types_compatible vt lt = true -> type_compat vt lt = true).
Check (C04_check_value_complete : forall S vars,
  schema_wf S = true -> input_types_closed S = true ->
  forall v t,
    resolves S t = true -> lit_ok S v t = true ->
    Forall (use_ok vars) (var_uses false S v (Some t) false) ->
    check_value S vars v t = []).
Check (C04_value_at_location_complete : forall S vars,
  schema_wf S = true -> input_types_closed S = true ->
  forall d v,
    ty_wf (iv_type d) = true -> resolves S (iv_type d) = true ->
    lit_ok S v (iv_type d) = true ->
    Forall (use_ok vars) (var_uses false S v (Some (iv_type d)) (has_default d)) ->
    check_value S vars v (loc_type d v) = []).
Check (C04_check_arguments_complete : forall S vars,
  schema_wf S = true -> input_types_closed S = true ->
  forall ppos pname kind args defs,
    NoDup (def_names defs) -> (forall d, In d defs -> ty_wf (iv_type d) = true) ->
    (forall d, In d defs -> resolves S (iv_type d) = true) ->
    (forall a, args = Some a -> args_list a <> []) ->
    args_defined_ok (provided args, defs) = true ->
    required_args_ok (provided args, defs) = true ->
    literal_types_vis S (provided args, defs) = true ->
    Forall (use_ok vars) (args_var_uses false S (provided args) defs) ->
    check_arguments S vars ppos pname kind args defs = []).
Check (C04_check_directives_complete : forall S vars,
  schema_wf S = true -> input_types_closed S = true ->
  forall loc ds,
    (forall d, In d ds -> directive_fine S vars loc d) ->
    nodup_str (nonrep S ds) = true ->
    check_directives S vars loc ds = []).
Check (C04_complete_vis : forall S D,
  schema_wf S = true -> schema_closed S = true -> doc_fine_vis S D = true ->
  (forall o, In o (doc_ops D) -> op_type o = Subscription ->
     length (collect_response_keys (doc_fuel D) (doc_frags D) [] (op_sel o) []) <= 1) ->
  forallb (fun f => mem_str (iname (fr_name f)) (spread_by_operations (doc_fuel D) (doc_frags D) (od_defs D))) (doc_frags D) = true ->
  check_operation_document S D = []).
Check (C04_full_to_vis : forall S D,
  (forall r, rule_ok S D r = true) -> forall r, rule_ok_vis S D r = true).
Check (C04_complete : forall S D,
  schema_wf S = true -> schema_closed S = true ->
  spec_valid S D = true -> doc_guard S D = true ->
  (forall o, In o (doc_ops D) -> op_type o = Subscription ->
     length (collect_response_keys (doc_fuel D) (doc_frags D) [] (op_sel o) []) <= 1) ->
  forallb (fun f => mem_str (iname (fr_name f)) (spread_by_operations (doc_fuel D) (doc_frags D) (od_defs D))) (doc_frags D) = true ->
  check_operation_document S D = []).
Check (C04_complete_guard_satisfiable :
  schema_wf w_schema_0 = true /\ schema_closed w_schema_0 = true
  /\ spec_valid w_schema_0 w_doc_14 = true /\ doc_guard w_schema_0 w_doc_14 = true /\ doc_fine_vis w_schema_0 w_doc_14 = true
  /\ forallb (fun f => mem_str (iname (fr_name f))
                         (spread_by_operations (doc_fuel w_doc_14) (doc_frags w_doc_14) (od_defs w_doc_14))) (doc_frags w_doc_14) = true).
Check (C04_variable_default_position_now_accepted :
  spec_valid w_schema_0 w_doc_15 = true /\ check_operation_document w_schema_0 w_doc_15 = []).
Check (C04_subscription_same_field_now_accepted :
  spec_valid w_schema_0 w_doc_16 = true /\ check_operation_document w_schema_0 w_doc_16 = []
  /\ spec_valid w_schema_0 w_doc_23 = true /\ check_operation_document w_schema_0 w_doc_23 = []
  /\ rule_ok w_schema_0 w_doc_24 R_single_subscription_root = false
  /\ (exists p i, check_operation_document w_schema_0 w_doc_24 = [mkErr SubscriptionMustHaveExactlyOneRootField p i])).
Check (C04_valid_documents_accepted :
  forallb (fun D => spec_valid w_schema_0 D && match check_operation_document w_schema_0 D with [] => true | _ => false end)
          [w_doc_6; w_doc_7; w_doc_14; w_doc_15; w_doc_16; w_doc_23] = true).
Print Assumptions C04_type_compat_complete.
Print Assumptions C04_check_value_complete.
Print Assumptions C04_value_at_location_complete.
Print Assumptions C04_check_arguments_complete.
Print Assumptions C04_check_directives_complete.
Print Assumptions C04_complete_vis.
Print Assumptions C04_full_to_vis.
Print Assumptions C04_complete.
Print Assumptions C04_complete_guard_satisfiable.
Print Assumptions C04_variable_default_position_now_accepted.
Print Assumptions C04_subscription_same_field_now_accepted.
Print Assumptions C04_valid_documents_accepted.
