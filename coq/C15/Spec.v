(** C15 — specification side, written from the property text and the GraphQL specification
    (October 2021, §3 type system, §4 introspection), independently of nitrogql's code:

    - [smodel]       a schema model M (what both descriptions describe),
    - [introspect]   the result of the standard introspection query on M, as a JSON tree
                     (two key styles: every key present as graphql-js answers, or optional keys absent),
    - [sdl_doc]      the type-system document that the SDL text of M denotes (positions erased),
    - [builtin_doc]  the definitions nitrogql adds to an SDL schema (crates/builtins: table T2),
    - [schema_equiv_on] observational equivalence of two [schema] values: what the checker and the
                     printers can see, modulo positions, default-value text and declaration order.

    Definitions only. *)
From V Require Import Base.Util Gql.Ast C15.Model.

(* ------------------------------------------------------------------------------------------ *)
(** * Schema models *)

Inductive gty := GNamed (n : str) | GList (t : gty) | GNonNull (t : gty).

(** deprecation: None = not deprecated, Some None = `@deprecated`, Some (Some r) = `@deprecated(reason: r)` *)
Definition depr := option (option str).

Record marg := mkMArg {
  ma_name : str; ma_desc : option str; ma_type : gty;
  ma_default : option str   (* the default value as the introspection result prints it *);
  ma_depr : depr }.
Record mfield := mkMField { mf_name : str; mf_desc : option str; mf_args : list marg; mf_type : gty; mf_depr : depr }.
Record mval := mkMVal { mv_name : str; mv_desc : option str; mv_depr : depr }.
Inductive mkind :=
| MScalar
| MObject (impls : list str) (fields : list mfield)
| MInterface (impls : list str) (fields : list mfield)
| MUnion (members : list str)
| MEnum (vals : list mval)
| MInput (fields : list marg).
Record mtype := mkMType { mt_name : str; mt_desc : option str; mt_kind : mkind }.
Record mdir := mkMDir { md_name : str; md_desc : option str; md_args : list marg; md_repeatable : bool; md_locs : list str }.
Record smodel := mkModel {
  m_desc : option str; m_types : list mtype; m_dirs : list mdir;
  m_query : str; m_mutation : option str; m_subscription : option str;
  m_explicit : bool   (* the SDL text has a `schema { … }` definition *) }.

Definition builtin_scalar_names : list str := [s "Int"; s "Float"; s "String"; s "Boolean"; s "ID"].
Definition mem_str (x : str) (l : list str) : bool := existsb (str_eqb x) l.
Definition is_builtin_scalar (n : str) : bool := mem_str n builtin_scalar_names.
Definition is_meta_name (n : str) : bool := match n with 95%N :: 95%N :: _ => true | _ => false end.

Fixpoint gty_named (t : gty) : str := match t with GNamed n => n | GList t' | GNonNull t' => gty_named t' end.

Fixpoint find_mtype (n : str) (l : list mtype) : option mtype :=
  match l with [] => None | t :: r => if str_eqb n (mt_name t) then Some t else find_mtype n r end.

(* ------------------------------------------------------------------------------------------ *)
(** * The directives and scalars every schema has (spec §3.5, §3.13) *)

Definition nn (n : String.string) : gty := GNonNull (GNamed (s n)).
Arguments nn n%string_scope.
Definition loc_list (l : list str) : list str := l.

(** as graphql-js lists them in `__schema.directives` *)
Definition spec_directives : list mdir :=
  [ mkMDir (s "include") None [mkMArg (s "if") None (nn "Boolean") None None] false
           (loc_list [s "FIELD"; s "FRAGMENT_SPREAD"; s "INLINE_FRAGMENT"]);
    mkMDir (s "skip") None [mkMArg (s "if") None (nn "Boolean") None None] false
           (loc_list [s "FIELD"; s "FRAGMENT_SPREAD"; s "INLINE_FRAGMENT"]);
    mkMDir (s "deprecated") None [mkMArg (s "reason") None (GNamed (s "String")) (Some (s """No longer supported""")) None] false
           (loc_list [s "FIELD_DEFINITION"; s "ARGUMENT_DEFINITION"; s "INPUT_FIELD_DEFINITION"; s "ENUM_VALUE"]);
    mkMDir (s "specifiedBy") None [mkMArg (s "url") None (nn "String") None None] false
           (loc_list [s "SCALAR"]) ].

(** the introspection types of §4.2 (descriptions omitted) *)
Definition fld (n : String.string) (t : gty) : mfield := mkMField (s n) None [] t None.
Definition fld_dep (n : String.string) (t : gty) : mfield :=
  mkMField (s n) None [mkMArg (s "includeDeprecated") None (GNamed (s "Boolean")) (Some (s "false")) None] t None.
Arguments fld n%string_scope t. Arguments fld_dep n%string_scope t.
Definition gn (n : String.string) : gty := GNamed (s n).
Arguments gn n%string_scope.
Definition lnn (n : String.string) : gty := GList (GNonNull (GNamed (s n))).
Arguments lnn n%string_scope.
Definition vals_of (l : list str) : list mval := map (fun x => mkMVal x None None) l.

Definition meta_types : list mtype :=
  [ mkMType (s "__Schema") None (MObject []
      [fld "description" (gn "String"); fld "types" (GNonNull (lnn "__Type")); fld "queryType" (nn "__Type");
       fld "mutationType" (gn "__Type"); fld "subscriptionType" (gn "__Type"); fld "directives" (GNonNull (lnn "__Directive"))]);
    mkMType (s "__Type") None (MObject []
      [fld "kind" (nn "__TypeKind"); fld "name" (gn "String"); fld "description" (gn "String");
       fld "specifiedByURL" (gn "String"); fld_dep "fields" (lnn "__Field"); fld "interfaces" (lnn "__Type");
       fld "possibleTypes" (lnn "__Type"); fld_dep "enumValues" (lnn "__EnumValue");
       fld_dep "inputFields" (lnn "__InputValue"); fld "ofType" (gn "__Type")]);
    mkMType (s "__TypeKind") None (MEnum (vals_of
      [s "SCALAR"; s "OBJECT"; s "INTERFACE"; s "UNION"; s "ENUM"; s "INPUT_OBJECT"; s "LIST"; s "NON_NULL"]));
    mkMType (s "__Field") None (MObject []
      [fld "name" (nn "String"); fld "description" (gn "String"); fld_dep "args" (GNonNull (lnn "__InputValue"));
       fld "type" (nn "__Type"); fld "isDeprecated" (nn "Boolean"); fld "deprecationReason" (gn "String")]);
    mkMType (s "__InputValue") None (MObject []
      [fld "name" (nn "String"); fld "description" (gn "String"); fld "type" (nn "__Type");
       fld "defaultValue" (gn "String"); fld "isDeprecated" (nn "Boolean"); fld "deprecationReason" (gn "String")]);
    mkMType (s "__EnumValue") None (MObject []
      [fld "name" (nn "String"); fld "description" (gn "String"); fld "isDeprecated" (nn "Boolean");
       fld "deprecationReason" (gn "String")]);
    mkMType (s "__Directive") None (MObject []
      [fld "name" (nn "String"); fld "description" (gn "String"); fld "isRepeatable" (nn "Boolean");
       fld "locations" (GNonNull (lnn "__DirectiveLocation")); fld_dep "args" (GNonNull (lnn "__InputValue"))]);
    mkMType (s "__DirectiveLocation") None (MEnum (vals_of
      [s "QUERY"; s "MUTATION"; s "SUBSCRIPTION"; s "FIELD"; s "FRAGMENT_DEFINITION"; s "FRAGMENT_SPREAD"; s "INLINE_FRAGMENT";
       s "VARIABLE_DEFINITION"; s "SCHEMA"; s "SCALAR"; s "OBJECT"; s "FIELD_DEFINITION"; s "ARGUMENT_DEFINITION"; s "INTERFACE";
       s "UNION"; s "ENUM"; s "ENUM_VALUE"; s "INPUT_OBJECT"; s "INPUT_FIELD_DEFINITION"])) ].

(** named types referenced by fields, arguments, input fields and directive arguments *)
Definition arg_refs (l : list marg) : list str := map (fun a => gty_named (ma_type a)) l.
Definition field_refs (l : list mfield) : list str := flat_map (fun f => gty_named (mf_type f) :: arg_refs (mf_args f)) l.
Definition type_refs (t : mtype) : list str :=
  match mt_kind t with
  | MObject _ fs | MInterface _ fs => field_refs fs
  | MInput fs => arg_refs fs
  | _ => []
  end.
Definition all_refs (types : list mtype) (dirs : list mdir) : list str :=
  flat_map type_refs types ++ flat_map (fun d => arg_refs (md_args d)) dirs.

(** §3.5: a built-in scalar is listed iff it is referenced *)
Definition used_builtin_scalars (types : list mtype) (dirs : list mdir) : list mtype :=
  map (fun n => mkMType n None MScalar) (filter (fun n => mem_str n (all_refs types dirs)) builtin_scalar_names).

(** everything `__schema.types` lists for M: M's own types, the referenced built-in scalars, and (as
    graphql-js and most servers do) the introspection types when [meta] *)
Definition listed_types (meta : bool) (M : smodel) : list mtype :=
  let extra := if meta then meta_types else [] in
  let dirs := spec_directives ++ m_dirs M in
  m_types M ++ used_builtin_scalars (m_types M ++ extra) dirs ++ extra.
Definition listed_dirs (M : smodel) : list mdir := spec_directives ++ m_dirs M.

(* ------------------------------------------------------------------------------------------ *)
(** * introspect M : the JSON answer to the standard introspection query *)

Inductive jstyle :=
| Full      (* every key the standard query asks for, null where not applicable (graphql-js) *)
| Minimal.  (* keys whose value would be null / false are absent *)

Definition jopt (o : option str) : json := match o with Some x => JStr x | None => JNull end.
(** [okv] : an optional key *)
Definition okv (st : jstyle) (key : String.string) (v : json) : list (str * json) :=
  match st, v with
  | Minimal, JNull => []
  | _, _ => [(s key, v)]
  end.
Arguments okv st key%string_scope v.
Definition kv (key : String.string) (v : json) : list (str * json) := [(s key, v)].
Arguments kv key%string_scope v.

Definition kind_name (kd : mkind) : str :=
  match kd with
  | MScalar => s "SCALAR" | MObject _ _ => s "OBJECT" | MInterface _ _ => s "INTERFACE"
  | MUnion _ => s "UNION" | MEnum _ => s "ENUM" | MInput _ => s "INPUT_OBJECT"
  end.
(** kind of a referenced name among the listed types (a valid schema defines every name it uses) *)
Definition kind_of (all : list mtype) (n : str) : str :=
  match find_mtype n all with Some t => kind_name (mt_kind t) | None => s "SCALAR" end.

Section Introspect.
  Variable st : jstyle.
  Variable all : list mtype.

  Fixpoint type_ref (t : gty) : json :=
    match t with
    | GNamed n => JObj (kv "kind" (JStr (kind_of all n)) ++ kv "name" (JStr n) ++ okv st "ofType" JNull)
    | GList t' => JObj (kv "kind" (JStr (s "LIST")) ++ okv st "name" JNull ++ kv "ofType" (type_ref t'))
    | GNonNull t' => JObj (kv "kind" (JStr (s "NON_NULL")) ++ okv st "name" JNull ++ kv "ofType" (type_ref t'))
    end.
  Definition named_ref (n : str) : json := type_ref (GNamed n).

  Definition reason_of (d : depr) : option str :=
    match d with None => None | Some None => Some (s "No longer supported") | Some (Some r) => Some r end.
  Definition depr_kvs (d : depr) : list (str * json) :=
    match st, d with
    | Minimal, None => []
    | _, _ => kv "isDeprecated" (JBool (match d with Some _ => true | None => false end))
              ++ okv st "deprecationReason" (jopt (reason_of d))
    end.

  Definition input_value_json (a : marg) : json :=
    JObj (kv "name" (JStr (ma_name a)) ++ okv st "description" (jopt (ma_desc a)) ++ kv "type" (type_ref (ma_type a))
          ++ okv st "defaultValue" (jopt (ma_default a)) ++ depr_kvs (ma_depr a)).
  Definition field_json (f : mfield) : json :=
    JObj (kv "name" (JStr (mf_name f)) ++ okv st "description" (jopt (mf_desc f))
          ++ kv "args" (JArr (map input_value_json (mf_args f))) ++ kv "type" (type_ref (mf_type f)) ++ depr_kvs (mf_depr f)).
  Definition enum_value_json (v : mval) : json :=
    JObj (kv "name" (JStr (mv_name v)) ++ okv st "description" (jopt (mv_desc v)) ++ depr_kvs (mv_depr v)).

  Definition implements (i : str) (t : mtype) : bool :=
    match mt_kind t with MObject impls _ => mem_str i impls | _ => false end.
  Definition possible_of_interface (i : str) : list str := map mt_name (filter (implements i) all).

  Definition type_json (t : mtype) : json :=
    let head := kv "kind" (JStr (kind_name (mt_kind t))) ++ kv "name" (JStr (mt_name t))
                ++ okv st "description" (jopt (mt_desc t)) ++ okv st "specifiedByURL" JNull in
    match mt_kind t with
    | MScalar =>
        JObj (head ++ okv st "fields" JNull ++ okv st "inputFields" JNull ++ okv st "interfaces" JNull
              ++ okv st "enumValues" JNull ++ okv st "possibleTypes" JNull)
    | MObject impls fs =>
        JObj (head ++ kv "fields" (JArr (map field_json fs)) ++ okv st "inputFields" JNull
              ++ kv "interfaces" (JArr (map named_ref impls)) ++ okv st "enumValues" JNull ++ okv st "possibleTypes" JNull)
    | MInterface impls fs =>
        JObj (head ++ kv "fields" (JArr (map field_json fs)) ++ okv st "inputFields" JNull
              ++ kv "interfaces" (JArr (map named_ref impls)) ++ okv st "enumValues" JNull
              ++ kv "possibleTypes" (JArr (map named_ref (possible_of_interface (mt_name t)))))
    | MUnion ms =>
        JObj (head ++ okv st "fields" JNull ++ okv st "inputFields" JNull ++ okv st "interfaces" JNull
              ++ okv st "enumValues" JNull ++ kv "possibleTypes" (JArr (map named_ref ms)))
    | MEnum vs =>
        JObj (head ++ okv st "fields" JNull ++ okv st "inputFields" JNull ++ okv st "interfaces" JNull
              ++ kv "enumValues" (JArr (map enum_value_json vs)) ++ okv st "possibleTypes" JNull)
    | MInput fs =>
        JObj (head ++ okv st "fields" JNull ++ kv "inputFields" (JArr (map input_value_json fs))
              ++ okv st "interfaces" JNull ++ okv st "enumValues" JNull ++ okv st "possibleTypes" JNull)
    end.

  Definition directive_json (d : mdir) : json :=
    JObj (kv "name" (JStr (md_name d)) ++ okv st "description" (jopt (md_desc d))
          ++ (match st, md_repeatable d with Minimal, false => [] | _, b => kv "isRepeatable" (JBool b) end)
          ++ kv "locations" (JArr (map JStr (md_locs d))) ++ kv "args" (JArr (map input_value_json (md_args d)))).
End Introspect.

Definition name_obj (n : str) : json := JObj (kv "name" (JStr n)).
Definition opt_name_obj (o : option str) : json := match o with Some n => name_obj n | None => JNull end.

(** root operation types of M (spec §3.3: without a schema definition the types named Query, Mutation and
    Subscription are the roots; the model records them in [m_query] etc. either way) *)
Definition introspect_of (st : jstyle) (types : list mtype) (M : smodel) : json :=
  JObj (kv "__schema" (JObj (
    okv st "description" (jopt (m_desc M)) ++ kv "queryType" (name_obj (m_query M))
    ++ okv st "mutationType" (opt_name_obj (m_mutation M)) ++ okv st "subscriptionType" (opt_name_obj (m_subscription M))
    ++ kv "types" (JArr (map (type_json st types) types))
    ++ kv "directives" (JArr (map (directive_json st types) (listed_dirs M)))))).
Definition introspect (st : jstyle) (meta : bool) (M : smodel) : json := introspect_of st (listed_types meta M) M.

(* ------------------------------------------------------------------------------------------ *)
(** * sdl_doc M : the document the SDL text of M denotes (all positions erased to [pos0]) *)

Definition id0 (n : str) : ident := mkId n pos0.
Definition desc0 (o : option str) : option desc := option_map (fun x => mkDesc pos0 x) o.
Fixpoint ty_of (t : gty) : ty :=
  match t with GNamed n => TNamed (id0 n) | GList t' => TList pos0 (ty_of t') | GNonNull t' => TNonNull (ty_of t') end.
Definition depr_dirs (d : depr) : list directive :=
  match d with
  | None => []
  | Some None => [mkDir pos0 (id0 (s "deprecated")) None]
  | Some (Some r) => [mkDir pos0 (id0 (s "deprecated")) (Some (mkArgs pos0 [(id0 (s "reason"), VString pos0 r)]))]
  end.
(** the literal of a default value is erased to [null] (see [erase_tsdef]) *)
Definition inputval_of (a : marg) : inputvaldef :=
  mkInputVal (desc0 (ma_desc a)) pos0 (id0 (ma_name a)) (ty_of (ma_type a))
             (option_map (fun _ => VNull pos0) (ma_default a)) (depr_dirs (ma_depr a)).
Definition argsdef_of (l : list marg) : option (list inputvaldef) :=
  match l with [] => None | _ => Some (map inputval_of l) end.
Definition fielddef_of (f : mfield) : fielddef :=
  mkFieldDef (desc0 (mf_desc f)) (id0 (mf_name f)) (argsdef_of (mf_args f)) (ty_of (mf_type f)) (depr_dirs (mf_depr f)).
Definition enumval_of (v : mval) : enumvaldef := mkEnumVal (desc0 (mv_desc v)) (id0 (mv_name v)) (depr_dirs (mv_depr v)).
Definition kw0 (x : String.string) : keyword := mkKw (s x) pos0.
Arguments kw0 x%string_scope.
Definition typedef_of (t : mtype) : typedef :=
  let d := desc0 (mt_desc t) in let n := id0 (mt_name t) in
  match mt_kind t with
  | MScalar => TDScalar d pos0 n [] (kw0 "scalar")
  | MObject impls fs => TDObject d pos0 n (map id0 impls) [] (map fielddef_of fs) (kw0 "type")
  | MInterface impls fs => TDInterface d pos0 n (map id0 impls) [] (map fielddef_of fs) (kw0 "interface")
  | MUnion ms => TDUnion d pos0 n [] (map id0 ms) (kw0 "union")
  | MEnum vs => TDEnum d pos0 n [] (map enumval_of vs) (kw0 "enum")
  | MInput fs => TDInput d pos0 n [] (map inputval_of fs) (kw0 "input")
  end.
Definition dirdef_of (d : mdir) : directivedef :=
  mkDirDef (desc0 (md_desc d)) pos0 (id0 (md_name d)) (argsdef_of (md_args d))
           (if md_repeatable d then Some (id0 (s "repeatable")) else None) (map id0 (md_locs d)) (kw0 "directive").
Definition schemadef_of (M : smodel) : list tsdef :=
  if m_explicit M then
    [TSSchema (mkSchemaDef (desc0 (m_desc M)) pos0 []
       ((Query, id0 (m_query M)) :: match m_mutation M with Some x => [(Mutation, id0 x)] | None => [] end
        ++ match m_subscription M with Some x => [(Subscription, id0 x)] | None => [] end))]
  else [].

(** crates/builtins/src/lib.rs generate_builtins(), positions erased (T2 table; tied by the correspondence) *)
Definition builtin_dirs : list mdir :=
  [ mkMDir (s "skip") None [mkMArg (s "if") None (nn "Boolean") None None] false
           (loc_list [s "FIELD"; s "FRAGMENT_SPREAD"; s "INLINE_FRAGMENT"]);
    mkMDir (s "include") None [mkMArg (s "if") None (nn "Boolean") None None] false
           (loc_list [s "FIELD"; s "FRAGMENT_SPREAD"; s "INLINE_FRAGMENT"]);
    mkMDir (s "deprecated") None [mkMArg (s "reason") None (GNamed (s "String")) (Some (s """No longer supported""")) None] false
           (loc_list [s "FIELD_DEFINITION"; s "ARGUMENT_DEFINITION"; s "INPUT_FIELD_DEFINITION"; s "ENUM_VALUE"]);
    mkMDir (s "specifiedBy") None [mkMArg (s "url") None (nn "String") None None] false
           (loc_list [s "SCALAR"]) ].
Definition builtin_doc : tsdoc :=
  map (fun n => TSType (typedef_of (mkMType n None MScalar))) builtin_scalar_names
  ++ map (fun d => TSDirective (dirdef_of d)) builtin_dirs.

Definition sdl_doc (M : smodel) : tsdoc :=
  schemadef_of M ++ map (fun d => TSDirective (dirdef_of d)) (m_dirs M) ++ map (fun t => TSType (typedef_of t)) (m_types M)
  ++ builtin_doc.

(* ------------------------------------------------------------------------------------------ *)
(** * Erasure of positions and default-value literals on documents *)

Definition erase_ident (i : ident) : ident := mkId (iname i) pos0.
Fixpoint erase_ty (t : ty) : ty :=
  match t with TNamed n => TNamed (erase_ident n) | TNonNull t' => TNonNull (erase_ty t') | TList _ t' => TList pos0 (erase_ty t') end.
Fixpoint erase_value (v : value) : value :=
  match v with
  | VVar n _ => VVar n pos0 | VInt _ l => VInt pos0 l | VFloat _ l => VFloat pos0 l | VString _ x => VString pos0 x
  | VBool _ b => VBool pos0 b | VNull _ => VNull pos0 | VEnum _ x => VEnum pos0 x
  | VList _ vs => VList pos0 (map erase_value vs)
  | VObject _ fs => VObject pos0 ((fix go (l : list (ident * value)) := match l with [] => [] | (i, x) :: r => (erase_ident i, erase_value x) :: go r end) fs)
  end.
Definition erase_args (a : arguments) : arguments :=
  mkArgs pos0 (map (fun kv => (erase_ident (fst kv), erase_value (snd kv))) (args_list a)).
Definition erase_dir (d : directive) : directive := mkDir pos0 (erase_ident (dir_name d)) (option_map erase_args (dir_args d)).
Definition erase_desc (d : option desc) : option desc := option_map (fun x => mkDesc pos0 (desc_value x)) d.
Definition erase_kw (kw : keyword) : keyword := mkKw (kw_name kw) pos0.
Definition erase_inputval (i : inputvaldef) : inputvaldef :=
  mkInputVal (erase_desc (iv_desc i)) pos0 (erase_ident (iv_name i)) (erase_ty (iv_type i))
             (option_map (fun _ => VNull pos0) (iv_default i)) (map erase_dir (iv_dirs i)).
Definition erase_fielddef (f : fielddef) : fielddef :=
  mkFieldDef (erase_desc (fd_desc f)) (erase_ident (fd_name f)) (option_map (map erase_inputval) (fd_args f))
             (erase_ty (fd_type f)) (map erase_dir (fd_dirs f)).
Definition erase_enumval (e : enumvaldef) : enumvaldef :=
  mkEnumVal (erase_desc (ev_desc e)) (erase_ident (ev_name e)) (map erase_dir (ev_dirs e)).
Definition erase_typedef (t : typedef) : typedef :=
  match t with
  | TDScalar d _ n ds kw => TDScalar (erase_desc d) pos0 (erase_ident n) (map erase_dir ds) (erase_kw kw)
  | TDObject d _ n is_ ds fs kw =>
      TDObject (erase_desc d) pos0 (erase_ident n) (map erase_ident is_) (map erase_dir ds) (map erase_fielddef fs) (erase_kw kw)
  | TDInterface d _ n is_ ds fs kw =>
      TDInterface (erase_desc d) pos0 (erase_ident n) (map erase_ident is_) (map erase_dir ds) (map erase_fielddef fs) (erase_kw kw)
  | TDUnion d _ n ds ms kw => TDUnion (erase_desc d) pos0 (erase_ident n) (map erase_dir ds) (map erase_ident ms) (erase_kw kw)
  | TDEnum d _ n ds vs kw => TDEnum (erase_desc d) pos0 (erase_ident n) (map erase_dir ds) (map erase_enumval vs) (erase_kw kw)
  | TDInput d _ n ds fs kw => TDInput (erase_desc d) pos0 (erase_ident n) (map erase_dir ds) (map erase_inputval fs) (erase_kw kw)
  end.
Definition erase_schemadef (d : schemadef) : schemadef :=
  mkSchemaDef (erase_desc (sd_desc d)) pos0 (map erase_dir (sd_dirs d))
              (map (fun kv => (fst kv, erase_ident (snd kv))) (sd_ops d)).
Definition erase_dirdef (d : directivedef) : directivedef :=
  mkDirDef (erase_desc (dd_desc d)) pos0 (erase_ident (dd_name d)) (option_map (map erase_inputval) (dd_args d))
           (option_map erase_ident (dd_repeatable d)) (map erase_ident (dd_locs d)) (erase_kw (dd_kw d)).

(** what a document says, irrespective of the order of its definitions: the schema definitions in order,
    the first type definition and the first directive definition of every name *)
Fixpoint find_typedef (n : str) (doc : tsdoc) : option typedef :=
  match doc with
  | [] => None
  | TSType t :: r => if str_eqb n (iname (typedef_name t)) then Some t else find_typedef n r
  | _ :: r => find_typedef n r
  end.
Fixpoint find_dirdef (n : str) (doc : tsdoc) : option directivedef :=
  match doc with
  | [] => None
  | TSDirective d :: r => if str_eqb n (iname (dd_name d)) then Some d else find_dirdef n r
  | _ :: r => find_dirdef n r
  end.
Fixpoint schema_defs (doc : tsdoc) : list schemadef :=
  match doc with [] => [] | TSSchema sd :: r => sd :: schema_defs r | _ :: r => schema_defs r end.

(** D says the same as D0 up to positions, default-value literals and the order of definitions *)
Definition doc_equiv (D D0 : tsdoc) : Prop :=
  map erase_schemadef (schema_defs D) = map erase_schemadef (schema_defs D0)
  /\ (forall n, option_map erase_typedef (find_typedef n D) = option_map erase_typedef (find_typedef n D0))
  /\ (forall n, option_map erase_dirdef (find_dirdef n D) = option_map erase_dirdef (find_dirdef n D0)).

(* ------------------------------------------------------------------------------------------ *)
(** * Observational equivalence of schemas *)

(** positions erased; the text of a default value reduced to its presence *)
Definition nnode {A} (n : node A) : node A := mkNode (nval n) pos0.
Definition nopt {A} (o : option (node A)) : option (node A) := option_map nnode o.
Fixpoint norm_sty (t : sty) : sty :=
  match t with SNamed n => SNamed (nnode n) | SList t' => SList (norm_sty t') | SNonNull t' => SNonNull (norm_sty t') end.
Definition norm_input (i : sinput) : sinput :=
  mkSInput (nnode (si_name i)) (nopt (si_desc i)) (norm_sty (si_type i)) (option_map (fun _ => dnode []) (si_default i)) (si_depr i).
Definition norm_field (f : sfield) : sfield :=
  mkSField (nnode (sf_name f)) (nopt (sf_desc f)) (norm_sty (sf_type f)) (map norm_input (sf_args f)) (sf_depr f).
Definition norm_member (e : smember) : smember := mkSMember (nnode (sm_name e)) (nopt (sm_desc e)) (sm_depr e).
Definition norm_typedef (d : stypedef) : stypedef :=
  match d with
  | SDScalar n ds => SDScalar (nnode n) (nopt ds)
  | SDObject n ds fs is_ => SDObject (nnode n) (nopt ds) (map norm_field fs) (map nnode is_)
  | SDInterface n ds fs is_ => SDInterface (nnode n) (nopt ds) (map norm_field fs) (map nnode is_)
  | SDUnion n ds ps => SDUnion (nnode n) (nopt ds) (map nnode ps)
  | SDEnum n ds ms => SDEnum (nnode n) (nopt ds) (map norm_member ms)
  | SDInput n ds fs => SDInput (nnode n) (nopt ds) (map norm_input fs)
  end.
Definition norm_directive (d : sdirective) : sdirective :=
  mkSDirective (nnode (sdr_name d)) (nopt (sdr_desc d)) (map norm_input (sdr_args d)) (map nnode (sdr_locations d))
               (option_map (fun _ => pos0) (sdr_repeatable d)).

Fixpoint lookup {A} (n : str) (l : list (str * A)) : option A :=
  match l with [] => None | (k', v) :: r => if str_eqb n k' then Some v else lookup n r end.
Definition get_type (sc : schema) (n : str) : option stypedef := option_map nval (lookup n (sc_types sc)).
Definition get_directive (sc : schema) (n : str) : option sdirective := option_map nval (lookup n (sc_dirs sc)).

(** the root operation type an operation of kind [op] is checked against (checker/operation_checker
    check_operation): the roots are *explicit* when the root node's position is not built-in (schema definition) or a
    query root is stated (introspection result); then only a declared root counts; otherwise the declared one or the
    default name; [None] when the operation kind is not available *)
Definition default_root_name (op : optype) : str :=
  match op with Query => s "Query" | Mutation => s "Mutation" | Subscription => s "Subscription" end.
Definition declared_root (r : sroots) (op : optype) : option (node str) :=
  match op with Query => r_query r | Mutation => r_mutation r | Subscription => r_subscription r end.
Definition roots_explicit (sc : schema) : bool :=
  negb (pbuiltin (npos (sc_roots sc))) || match r_query (nval (sc_roots sc)) with Some _ => true | None => false end.
Definition root_name (sc : schema) (op : optype) : option str :=
  match declared_root (nval (sc_roots sc)) op with
  | Some n => Some (nval n)
  | None => if roots_explicit sc then None else Some (default_root_name op)
  end.
Definition root_type (sc : schema) (op : optype) : option str :=
  match root_name sc op with
  | Some n => match get_type sc n with Some _ => Some n | None => None end
  | None => None
  end.

(** equivalence on the type names selected by [vis] *)
Definition schema_equiv_on (vis : str -> bool) (a b : schema) : Prop :=
  option_map nval (sc_desc a) = option_map nval (sc_desc b)
  /\ (forall op, root_type a op = root_type b op)
  /\ (forall n, vis n = true -> option_map norm_typedef (get_type a n) = option_map norm_typedef (get_type b n))
  /\ (forall n, option_map norm_directive (get_directive a n) = option_map norm_directive (get_directive b n)).

(** boolean form, over the names that occur *)
Definition otd_eqb (a b : option stypedef) : bool :=
  option_eqb stypedef_eqb (option_map norm_typedef a) (option_map norm_typedef b).
Definition odir_eqb (a b : option sdirective) : bool :=
  option_eqb sdirective_eqb (option_map norm_directive a) (option_map norm_directive b).
Definition all_ops : list optype := [Query; Mutation; Subscription].
Definition schema_equiv_b (vis : str -> bool) (a b : schema) : bool :=
  option_eqb str_eqb (option_map nval (sc_desc a)) (option_map nval (sc_desc b))
  && forallb (fun op => option_eqb str_eqb (root_type a op) (root_type b op)) all_ops
  && forallb (fun n => negb (vis n) || otd_eqb (get_type a n) (get_type b n)) (map fst (sc_types a) ++ map fst (sc_types b))
  && forallb (fun n => odir_eqb (get_directive a n) (get_directive b n)) (map fst (sc_dirs a) ++ map fst (sc_dirs b)).

(** the names on which the two routes are compared: not an introspection type, and not a built-in scalar that
    the introspection result does not list (§3.5: unreferenced built-in scalars are not listed, whereas
    nitrogql adds all five to every SDL schema) *)
Definition vis_of (M : smodel) (n : str) : bool :=
  negb (is_meta_name n)
  && negb (is_builtin_scalar n && negb (mem_str n (map mt_name (listed_types false M)))).
Definition vis_all (n : str) : bool := true.

(** validity conditions on M used by the theorems *)
Fixpoint nodup_str (l : list str) : bool :=
  match l with [] => true | x :: r => negb (mem_str x r) && nodup_str r end.
Definition names_ok (M : smodel) : bool :=
  nodup_str (map mt_name (m_types M))
  && forallb (fun t => negb (is_builtin_scalar (mt_name t)) && negb (is_meta_name (mt_name t))) (m_types M)
  && nodup_str (map md_name (m_dirs M) ++ map md_name builtin_dirs).
(** without a schema definition the roots are the types with the default names (spec §3.3.1) *)
Definition implicit_roots_ok (M : smodel) : bool :=
  let has n := mem_str n (map mt_name (m_types M)) in
  m_explicit M ||
  (str_eqb (m_query M) (s "Query")
   && option_eqb str_eqb (m_mutation M) (if has (s "Mutation") then Some (s "Mutation") else None)
   && option_eqb str_eqb (m_subscription M) (if has (s "Subscription") then Some (s "Subscription") else None)).

(** root type names are ordinary type names *)
Definition plain_name (n : str) : bool := negb (is_meta_name n) && negb (is_builtin_scalar n).
Definition roots_ok (M : smodel) : bool :=
  plain_name (m_query M)
  && (match m_mutation M with Some x => plain_name x | None => true end)
  && (match m_subscription M with Some x => plain_name x | None => true end).
(** a schema description needs a schema definition to be written down in SDL *)
Definition desc_ok (M : smodel) : bool :=
  m_explicit M || (match m_desc M with None => true | Some _ => false end).
(** user directives do not redefine one another or a built-in directive *)
Definition dirs_ok (M : smodel) : bool := nodup_str (map md_name (m_dirs M) ++ map md_name builtin_dirs).
Definition model_ok (M : smodel) : bool :=
  dirs_ok M && implicit_roots_ok M && roots_ok M && desc_ok M.
(** schema definitions of a parsed document carry a real (non built-in) position *)
Definition parsed_positions (D : tsdoc) : Prop := Forall (fun sd => pbuiltin (sd_pos sd) = false) (schema_defs D).
Definition parsed_positions_b (D : tsdoc) : bool := forallb (fun sd => negb (pbuiltin (sd_pos sd))) (schema_defs D).

(** deprecations removed (type_system_to_ast produces an AST without directives) *)
Definition strip_input (i : sinput) : sinput := mkSInput (si_name i) (si_desc i) (si_type i) (si_default i) None.
Definition strip_field (f : sfield) : sfield := mkSField (sf_name f) (sf_desc f) (sf_type f) (map strip_input (sf_args f)) None.
Definition strip_typedef (d : stypedef) : stypedef :=
  match d with
  | SDObject n ds fs is_ => SDObject n ds (map strip_field fs) is_
  | SDInterface n ds fs is_ => SDInterface n ds (map strip_field fs) is_
  | SDEnum n ds ms => SDEnum n ds (map (fun e => mkSMember (sm_name e) (sm_desc e) None) ms)
  | SDInput n ds fs => SDInput n ds (map strip_input fs)
  | d => d
  end.

(** every entry of the type table is filed under the name of its definition (an invariant of both front ends) *)
Definition keys_match (sc : schema) : Prop :=
  Forall (fun kv => fst kv = nval (stypedef_name (nval (snd kv)))) (sc_types sc).
Definition keys_match_b (sc : schema) : bool :=
  forallb (fun kv => str_eqb (fst kv) (nval (stypedef_name (nval (snd kv))))) (sc_types sc).
