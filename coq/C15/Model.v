(** C15 — executable model of the two schema front ends of nitrogql.

    JSON route (crates/introspection/src/{lib,introspection}.rs):
      text --serde_json--> [json] tree --derive(Deserialize)--> [iresult]  ([de_result])
           --introspection()--> Schema                                      ([introspection])
      and, for printing, crates/semantics/src/type_system_to_ast.rs        ([type_system_to_ast]).
    SDL route (crates/semantics/src/ast_to_type_system.rs + crates/type-system/src/builder.rs):
      resolved TypeSystemDocument --> Schema                                ([ast_to_type_system]).

    [schema] mirrors graphql_type_system::Schema<Cow<str>, Pos>: every [Node] keeps its original
    node (a [pos]); the HashMap + insertion-ordered name vector of SchemaBuilder is an association
    list in first-insertion order with first-insertion-wins.

    Definitions only. *)
From V Require Import Base.Util Gql.Ast.

(* ------------------------------------------------------------------------------------------ *)
(** * JSON trees (what serde_json hands to the derived visitors; object keys in text order,
      duplicates kept) *)

Inductive json :=
| JNull
| JBool (b : bool)
| JNum (lexeme : str)
| JStr (v : str)
| JArr (l : list json)
| JObj (kvs : list (str * json)).

(* ------------------------------------------------------------------------------------------ *)
(** * The structs of introspection.rs *)

Record ienumval := mkIEnumVal {
  iev_name : str; iev_desc : option str; iev_is_deprecated : option bool; iev_reason : option str }.

Inductive itype :=
| mkIType (kind : str) (name : option str) (desc : option str)
          (fields : option (list ifield)) (interfaces : option (list itype))
          (possible_types : option (list itype)) (enum_values : option (list ienumval))
          (input_fields : option (list iinputval)) (of_type : option itype)
with ifield :=
| mkIField (name : str) (desc : option str) (args : list iinputval) (ty : itype)
           (is_deprecated : option bool) (reason : option str)
with iinputval :=
| mkIInput (name : str) (desc : option str) (ty : itype) (default_value : option str)
           (is_deprecated : option bool) (reason : option str).

Record idirective := mkIDirective {
  idr_name : str; idr_desc : option str; idr_locations : list str; idr_args : list iinputval;
  idr_is_repeatable : option bool }.

Record ischema := mkISchema {
  is_desc : option str; is_query : str; is_mutation : option str; is_subscription : option str;
  is_types : list itype; is_directives : list idirective }.

(* ------------------------------------------------------------------------------------------ *)
(** * serde: derive(Deserialize) on a JSON map / sequence

    For a struct, serde_json accepts a map (fields by key: an unknown key is skipped, a known key
    seen twice is the error `duplicate field`, a missing key is an error unless the field is an
    [Option], which becomes [None]) or a sequence (fields by position, all of them required, no
    element may be left over).  [null] for an [Option] field is [None].  All serde errors are one
    class ([None] below): the caller only distinguishes "serde error" from later errors. *)

Inductive got (A : Type) := GMissing | GErr | GOk (a : A).
Arguments GMissing {A}. Arguments GErr {A}. Arguments GOk {A} a.

Section Get.
  Context {A : Type} (f : json -> option A).
  (** results of [f] on the values of every occurrence of key [k] *)
  Fixpoint occurrences (k : str) (kvs : list (str * json)) : list (option A) :=
    match kvs with
    | [] => []
    | (k', v) :: r => if str_eqb k k' then f v :: occurrences k r else occurrences k r
    end.
  Definition get (k : str) (kvs : list (str * json)) : got A :=
    match occurrences k kvs with
    | [] => GMissing
    | [Some a] => GOk a
    | _ => GErr
    end.
  (** a positional element *)
  Definition elem (j : json) : got A := match f j with Some a => GOk a | None => GErr end.
  Fixpoint map_opt (l : list json) : option (list A) :=
    match l with
    | [] => Some []
    | x :: r => match f x, map_opt r with Some a, Some r' => Some (a :: r') | _, _ => None end
    end.
  Definition de_vec (j : json) : option (list A) := match j with JArr l => map_opt l | _ => None end.
  Definition de_opt (j : json) : option (option A) :=
    match j with JNull => Some None | _ => match f j with Some a => Some (Some a) | None => None end end.
End Get.

(** a required field (no serde default) *)
Definition req {A} (g : got A) : option A := match g with GOk a => Some a | _ => None end.
(** an [Option<_>] field: absent key = None *)
Definition opt {A} (g : got (option A)) : option (option A) :=
  match g with GMissing => Some None | GOk a => Some a | GErr => None end.

Definition de_str (j : json) : option str := match j with JStr v => Some v | _ => None end.
Definition de_bool (j : json) : option bool := match j with JBool b => Some b | _ => None end.

Definition build_name_obj (name : got str) : option str := req name.
Definition de_name_obj (j : json) : option str :=
  match j with
  | JObj kvs => build_name_obj (get de_str (s "name") kvs)
  | JArr [a] => build_name_obj (elem de_str a)
  | _ => None
  end.

Definition build_enumval (name : got str) (desc reason : got (option str)) (isd : got (option bool)) : option ienumval :=
  match req name, opt desc, opt isd, opt reason with
  | Some n, Some d, Some i, Some r => Some (mkIEnumVal n d i r)
  | _, _, _, _ => None
  end.
Definition de_enumval (j : json) : option ienumval :=
  match j with
  | JObj kvs => build_enumval (get de_str (s "name") kvs) (get (de_opt de_str) (s "description") kvs)
                              (get (de_opt de_str) (s "deprecationReason") kvs) (get (de_opt de_bool) (s "isDeprecated") kvs)
  | JArr [a; b; c; d] => build_enumval (elem de_str a) (elem (de_opt de_str) b) (elem (de_opt de_str) d) (elem (de_opt de_bool) c)
  | _ => None
  end.

Definition build_type (kind : got str) (name desc : got (option str))
    (fields : got (option (list ifield))) (interfaces possible : got (option (list itype)))
    (enum_values : got (option (list ienumval))) (input_fields : got (option (list iinputval)))
    (of_type : got (option itype)) : option itype :=
  match req kind, opt name, opt desc, opt fields, opt interfaces, opt possible, opt enum_values, opt input_fields, opt of_type with
  | Some a, Some b, Some c, Some d, Some e, Some f, Some g, Some h, Some i => Some (mkIType a b c d e f g h i)
  | _, _, _, _, _, _, _, _, _ => None
  end.
Definition build_field (name : got str) (desc : got (option str)) (args : got (list iinputval)) (ty : got itype)
    (isd : got (option bool)) (reason : got (option str)) : option ifield :=
  match req name, opt desc, req args, req ty, opt isd, opt reason with
  | Some a, Some b, Some c, Some d, Some e, Some f => Some (mkIField a b c d e f)
  | _, _, _, _, _, _ => None
  end.
Definition build_input (name : got str) (desc : got (option str)) (ty : got itype) (dv : got (option str))
    (isd : got (option bool)) (reason : got (option str)) : option iinputval :=
  match req name, opt desc, req ty, opt dv, opt isd, opt reason with
  | Some a, Some b, Some c, Some d, Some e, Some f => Some (mkIInput a b c d e f)
  | _, _, _, _, _, _ => None
  end.

(** struct field order (sequence form) as declared in introspection.rs *)
Fixpoint de_type (j : json) : option itype :=
  match j with
  | JObj kvs =>
      build_type (get de_str (s "kind") kvs) (get (de_opt de_str) (s "name") kvs)
        (get (de_opt de_str) (s "description") kvs)
        (get (de_opt (de_vec de_field)) (s "fields") kvs)
        (get (de_opt (de_vec de_type)) (s "interfaces") kvs)
        (get (de_opt (de_vec de_type)) (s "possibleTypes") kvs)
        (get (de_opt (de_vec de_enumval)) (s "enumValues") kvs)
        (get (de_opt (de_vec de_input)) (s "inputFields") kvs)
        (get (de_opt de_type) (s "ofType") kvs)
  | JArr [a; b; c; d; e; f; g; h; i] =>
      build_type (elem de_str a) (elem (de_opt de_str) b) (elem (de_opt de_str) c)
        (elem (de_opt (de_vec de_field)) d) (elem (de_opt (de_vec de_type)) e)
        (elem (de_opt (de_vec de_type)) f) (elem (de_opt (de_vec de_enumval)) g)
        (elem (de_opt (de_vec de_input)) h) (elem (de_opt de_type) i)
  | _ => None
  end
with de_field (j : json) : option ifield :=
  match j with
  | JObj kvs =>
      build_field (get de_str (s "name") kvs) (get (de_opt de_str) (s "description") kvs)
        (get (de_vec de_input) (s "args") kvs) (get de_type (s "type") kvs)
        (get (de_opt de_bool) (s "isDeprecated") kvs) (get (de_opt de_str) (s "deprecationReason") kvs)
  | JArr [a; b; c; d; e; f] =>
      build_field (elem de_str a) (elem (de_opt de_str) b) (elem (de_vec de_input) c) (elem de_type d)
        (elem (de_opt de_bool) e) (elem (de_opt de_str) f)
  | _ => None
  end
with de_input (j : json) : option iinputval :=
  match j with
  | JObj kvs =>
      build_input (get de_str (s "name") kvs) (get (de_opt de_str) (s "description") kvs)
        (get de_type (s "type") kvs) (get (de_opt de_str) (s "defaultValue") kvs)
        (get (de_opt de_bool) (s "isDeprecated") kvs) (get (de_opt de_str) (s "deprecationReason") kvs)
  | JArr [a; b; c; d; e; f] =>
      build_input (elem de_str a) (elem (de_opt de_str) b) (elem de_type c) (elem (de_opt de_str) d)
        (elem (de_opt de_bool) e) (elem (de_opt de_str) f)
  | _ => None
  end.

Definition build_directive (name : got str) (desc : got (option str)) (locs : got (list str))
    (args : got (list iinputval)) (rep : got (option bool)) : option idirective :=
  match req name, opt desc, req locs, req args, opt rep with
  | Some a, Some b, Some c, Some d, Some e => Some (mkIDirective a b c d e)
  | _, _, _, _, _ => None
  end.
Definition de_directive (j : json) : option idirective :=
  match j with
  | JObj kvs =>
      build_directive (get de_str (s "name") kvs) (get (de_opt de_str) (s "description") kvs)
        (get (de_vec de_str) (s "locations") kvs) (get (de_vec de_input) (s "args") kvs)
        (get (de_opt de_bool) (s "isRepeatable") kvs)
  | JArr [a; b; c; d; e] =>
      build_directive (elem de_str a) (elem (de_opt de_str) b) (elem (de_vec de_str) c) (elem (de_vec de_input) d)
        (elem (de_opt de_bool) e)
  | _ => None
  end.

Definition build_schema (desc : got (option str)) (q : got str) (m sub : got (option str))
    (types : got (list itype)) (dirs : got (list idirective)) : option ischema :=
  match opt desc, req q, opt m, opt sub, req types, req dirs with
  | Some a, Some b, Some c, Some d, Some e, Some f => Some (mkISchema a b c d e f)
  | _, _, _, _, _, _ => None
  end.
Definition de_schema (j : json) : option ischema :=
  match j with
  | JObj kvs =>
      build_schema (get (de_opt de_str) (s "description") kvs) (get de_name_obj (s "queryType") kvs)
        (get (de_opt de_name_obj) (s "mutationType") kvs) (get (de_opt de_name_obj) (s "subscriptionType") kvs)
        (get (de_vec de_type) (s "types") kvs) (get (de_vec de_directive) (s "directives") kvs)
  | JArr [a; b; c; d; e; f] =>
      build_schema (elem (de_opt de_str) a) (elem de_name_obj b) (elem (de_opt de_name_obj) c)
        (elem (de_opt de_name_obj) d) (elem (de_vec de_type) e) (elem (de_vec de_directive) f)
  | _ => None
  end.
(** IntrospectionResult { #[serde(rename = "__schema")] schema } *)
Definition de_result (j : json) : option ischema :=
  match j with
  | JObj kvs => req (get de_schema (s "__schema") kvs)
  | JArr [a] => de_schema a
  | _ => None
  end.

(* ------------------------------------------------------------------------------------------ *)
(** * graphql_type_system::Schema<Cow<str>, Pos> *)

Record node (A : Type) := mkNode { nval : A; npos : pos }.
Arguments mkNode {A} nval npos. Arguments nval {A} n. Arguments npos {A} n.

(** Node::from(x, Pos::default()) — Pos::default() is Pos::builtin() *)
Definition dnode {A} (x : A) : node A := mkNode x pos0.

Inductive sty :=
| SNamed (n : node str)
| SList (t : sty)
| SNonNull (t : sty).

Fixpoint sty_unwrapped (t : sty) : node str :=
  match t with SNamed n => n | SList t' | SNonNull t' => sty_unwrapped t' end.

Record sinput := mkSInput {
  si_name : node str; si_desc : option (node str); si_type : sty;
  si_default : option (node str); si_depr : option str }.
Record sfield := mkSField {
  sf_name : node str; sf_desc : option (node str); sf_type : sty;
  sf_args : list sinput; sf_depr : option str }.
Record smember := mkSMember { sm_name : node str; sm_desc : option (node str); sm_depr : option str }.

Inductive stypedef :=
| SDScalar (name : node str) (desc : option (node str))
| SDObject (name : node str) (desc : option (node str)) (fields : list sfield) (interfaces : list (node str))
| SDInterface (name : node str) (desc : option (node str)) (fields : list sfield) (interfaces : list (node str))
| SDUnion (name : node str) (desc : option (node str)) (possible : list (node str))
| SDEnum (name : node str) (desc : option (node str)) (members : list smember)
| SDInput (name : node str) (desc : option (node str)) (fields : list sinput).

Definition stypedef_name (d : stypedef) : node str :=
  match d with
  | SDScalar n _ | SDObject n _ _ _ | SDInterface n _ _ _ | SDUnion n _ _ | SDEnum n _ _ | SDInput n _ _ => n
  end.

Record sdirective := mkSDirective {
  sdr_name : node str; sdr_desc : option (node str); sdr_args : list sinput;
  sdr_locations : list (node str); sdr_repeatable : option pos (* Node<(), Pos> *) }.

Record sroots := mkSRoots {
  r_query : option (node str); r_mutation : option (node str); r_subscription : option (node str) }.
Definition roots0 : sroots := mkSRoots None None None.

(** key/value pairs in [type_names] / [directive_names] order *)
Record schema := mkSchema {
  sc_desc : option (node str);
  sc_types : list (str * node stypedef);
  sc_dirs : list (str * node sdirective);
  sc_roots : node sroots }.

(** SchemaBuilder: [Extend] = insert unless the key is present; names pushed on first insertion *)
Fixpoint has_key {A} (key : str) (l : list (str * A)) : bool :=
  match l with [] => false | (k', _) :: r => str_eqb key k' || has_key key r end.
Definition insert_new {A} (l : list (str * A)) (key : str) (v : A) : list (str * A) :=
  if has_key key l then l else l ++ [(key, v)].
Definition extend_all {A} (l : list (str * A)) (items : list (str * A)) : list (str * A) :=
  fold_left (fun acc kv => insert_new acc (fst kv) (snd kv)) items l.

Record builder := mkBuilder {
  b_desc : option (node str);
  b_types : list (str * node stypedef);
  b_dirs : list (str * node sdirective);
  b_roots : option (node sroots) }.
Definition builder0 : builder := mkBuilder None [] [] None.
(** impl From<SchemaBuilder> for Schema *)
Definition build (b : builder) : schema :=
  mkSchema (b_desc b) (b_types b) (b_dirs b)
           (match b_roots b with Some r => r | None => dnode roots0 end).

(* ------------------------------------------------------------------------------------------ *)
(** * introspection.rs: IntrospectionResult -> Schema *)

Inductive ierr :=
| ESerde                 (* IntrospectionError::JSONError *)
| EIntro (msg : str).    (* IntrospectionError::Introspection *)

Inductive res (A : Type) := Ok (a : A) | Err (e : ierr).
Arguments Ok {A} a. Arguments Err {A} e.

Definition bind {A B} (r : res A) (f : A -> res B) : res B :=
  match r with Ok a => f a | Err e => Err e end.

(** iter.map(f).collect::<Result<Vec<_>,_>>() : first error in list order *)
Fixpoint map_res {A B} (f : A -> res B) (l : list A) : res (list B) :=
  match l with
  | [] => Ok []
  | x :: r => bind (f x) (fun y => bind (map_res f r) (fun r' => Ok (y :: r')))
  end.

Definition is_named_kind (kd : str) : bool :=
  str_eqb kd (s "SCALAR") || str_eqb kd (s "OBJECT") || str_eqb kd (s "INTERFACE")
  || str_eqb kd (s "UNION") || str_eqb kd (s "ENUM") || str_eqb kd (s "INPUT_OBJECT").

Definition msg_name : str := s "field 'name' of __Type must be a String".
Definition msg_oftype : str := s "'ofType' of __Type must exist".
Definition msg_invalid_kind (kd : str) : str := s "Invalid kind '" ++ kd ++ s "' of __Type".
Definition msg_unknown_kind (kd : str) : str := s "Unknown kind '" ++ kd ++ s "' of __Type".
Definition msg_union : str := s "__Type of kind UNION must have a list 'possibleTypes' field".
Definition msg_enum : str := s "__Type of kind ENUM must have a list 'enumValues' field".
Definition msg_input : str := s "__Type of kind INPUT_OBJECT must have a list 'inputFields' field".

Fixpoint as_type (t : itype) : res sty :=
  match t with
  | mkIType kd name _ _ _ _ _ _ of_type =>
      if is_named_kind kd then
        match name with Some n => Ok (SNamed (dnode n)) | None => Err (EIntro msg_name) end
      else if str_eqb kd (s "LIST") then
        match of_type with
        | Some t' => bind (as_type t') (fun x => Ok (SList x))
        | None => Err (EIntro msg_oftype)
        end
      else if str_eqb kd (s "NON_NULL") then
        match of_type with
        | Some t' => bind (as_type t') (fun x => Ok (SNonNull x))
        | None => Err (EIntro msg_oftype)
        end
      else Err (EIntro (msg_invalid_kind kd))
  end.

(** is_deprecated.unwrap_or(false).then(|| reason.cloned().unwrap_or_default()) *)
Definition deprecation_of (isd : option bool) (reason : option str) : option str :=
  match isd with
  | Some true => Some (match reason with Some r => r | None => [] end)
  | _ => None
  end.

Definition as_input_value (v : iinputval) : res sinput :=
  match v with
  | mkIInput name desc ty dv isd reason =>
      bind (as_type ty) (fun t =>
        Ok (mkSInput (dnode name) (option_map dnode desc) t (option_map dnode dv) (deprecation_of isd reason)))
  end.

(** args.iter().map(as_input_value).collect::<Result<_,_>>().unwrap_or(vec![]) : an error in any
    argument silently drops all of them *)
Definition args_or_empty (args : list iinputval) : list sinput :=
  match map_res as_input_value args with Ok l => l | Err _ => [] end.

Definition as_field (f : ifield) : res sfield :=
  match f with
  | mkIField name desc args ty isd reason =>
      bind (as_type ty) (fun t =>
        Ok (mkSField (dnode name) (option_map dnode desc) t (args_or_empty args) (deprecation_of isd reason)))
  end.

Definition flatten_opt {A} (o : option (list A)) : list A := match o with Some l => l | None => [] end.

(** .map(as_type).map(|ty| ty.map(|ty| ty.unwrapped().clone()).map(node)) : the innermost name, under a
    fresh default node *)
Definition as_named (t : itype) : res (node str) :=
  bind (as_type t) (fun x => Ok (dnode (nval (sty_unwrapped x)))).

Definition as_member (e : ienumval) : smember :=
  mkSMember (dnode (iev_name e)) (option_map dnode (iev_desc e)) (deprecation_of (iev_is_deprecated e) (iev_reason e)).

Definition as_type_definition (t : itype) : res stypedef :=
  match t with
  | mkIType kd name desc fields interfaces possible enum_values input_fields _ =>
      match name with
      | None => Err (EIntro msg_name)
      | Some n =>
          let name := dnode n in
          let desc := option_map dnode desc in
          if str_eqb kd (s "SCALAR") then Ok (SDScalar name desc)
          else if str_eqb kd (s "OBJECT") then
            bind (map_res as_field (flatten_opt fields)) (fun fs =>
            bind (map_res as_named (flatten_opt interfaces)) (fun is_ => Ok (SDObject name desc fs is_)))
          else if str_eqb kd (s "INTERFACE") then
            bind (map_res as_field (flatten_opt fields)) (fun fs =>
            bind (map_res as_named (flatten_opt interfaces)) (fun is_ => Ok (SDInterface name desc fs is_)))
          else if str_eqb kd (s "UNION") then
            match possible with
            | None => Err (EIntro msg_union)
            | Some ps => bind (map_res as_named ps) (fun ps' => Ok (SDUnion name desc ps'))
            end
          else if str_eqb kd (s "ENUM") then
            match enum_values with
            | None => Err (EIntro msg_enum)
            | Some evs => Ok (SDEnum name desc (map as_member evs))
            end
          else if str_eqb kd (s "INPUT_OBJECT") then
            match input_fields with
            | None => Err (EIntro msg_input)
            | Some fs => bind (map_res as_input_value fs) (fun fs' => Ok (SDInput name desc fs'))
            end
          else Err (EIntro (msg_unknown_kind kd))
      end
  end.

(** repeatable: value.is_repeatable.and_then(|b| b.then(|| node(()))) *)
Definition as_directive_definition (d : idirective) : sdirective :=
  mkSDirective (dnode (idr_name d)) (option_map dnode (idr_desc d)) (args_or_empty (idr_args d))
               (map dnode (idr_locations d))
               (match idr_is_repeatable d with Some true => Some pos0 | _ => None end).

Definition introspection (v : ischema) : res schema :=
  let roots := mkSRoots (Some (dnode (is_query v))) (option_map dnode (is_mutation v))
                        (option_map dnode (is_subscription v)) in
  bind (map_res as_type_definition (is_types v)) (fun tys =>
    let types := extend_all [] (map (fun t => (nval (stypedef_name t), dnode t)) tys) in
    let ds := map as_directive_definition (is_directives v) in
    let dirs := extend_all [] (map (fun d => (nval (sdr_name d), dnode d)) ds) in
    Ok (build (mkBuilder (option_map dnode (is_desc v)) types dirs (Some (dnode roots))))).

(** schema_from_introspection_json on the JSON tree of the text *)
Definition json_route (j : json) : res schema :=
  match de_result j with
  | None => Err ESerde
  | Some v => introspection v
  end.

(* ------------------------------------------------------------------------------------------ *)
(** * ast_to_type_system.rs *)

(** impl Display for Value (crates/ast/src/value.rs): strings are not escaped *)
Fixpoint value_display (v : value) : str :=
  match v with
  | VVar name _ => s "$" ++ name
  | VInt _ l | VFloat _ l => l
  | VString _ x => s """" ++ x ++ s """"
  | VBool _ b => if b then s "true" else s "false"
  | VNull _ => s "null"
  | VEnum _ x => x
  | VList _ vs =>
      s "[" ++ (fix go (first : bool) (l : list value) : str :=
                  match l with
                  | [] => []
                  | x :: r => (if first then [] else s ",") ++ value_display x ++ go false r
                  end) true vs ++ s "]"
  | VObject _ fs =>
      s "{" ++ (fix go (first : bool) (l : list (ident * value)) : str :=
                  match l with
                  | [] => []
                  | (key, x) :: r => (if first then [] else s ",") ++ iname key ++ s ": " ++ value_display x ++ go false r
                  end) true fs ++ s "}"
  end.

Definition value_pos (v : value) : pos :=
  match v with
  | VVar _ p | VInt p _ | VFloat p _ | VString p _ | VBool p _ | VNull p | VEnum p _ | VList p _ | VObject p _ => p
  end.

Definition ident_to_node (i : ident) : node str := mkNode (iname i) (ipos i).
Fixpoint convert_type (t : ty) : sty :=
  match t with
  | TNamed n => SNamed (ident_to_node n)
  | TList _ t' => SList (convert_type t')
  | TNonNull t' => SNonNull (convert_type t')
  end.
Definition convert_description (d : option desc) : option (node str) :=
  option_map (fun d => mkNode (desc_value d) (desc_pos d)) d.

Definition no_longer_supported : str := s "No longer supported".

(** the first @deprecated directive; its first `reason` argument if that is a string literal *)
Definition convert_deprecation (ds : list directive) : option str :=
  match find (fun d => str_eqb (iname (dir_name d)) (s "deprecated")) ds with
  | None => None
  | Some d =>
      let args := match dir_args d with Some a => args_list a | None => [] end in
      Some (match find (fun kv => str_eqb (iname (fst kv)) (s "reason")) args with
            | Some (_, VString _ x) => x
            | _ => no_longer_supported
            end)
  end.

Definition convert_input (i : inputvaldef) : sinput :=
  mkSInput (ident_to_node (iv_name i)) (convert_description (iv_desc i)) (convert_type (iv_type i))
           (option_map (fun v => mkNode (value_display v) (value_pos v)) (iv_default i))
           (convert_deprecation (iv_dirs i)).
Definition convert_arguments (a : option (list inputvaldef)) : list sinput :=
  match a with None => [] | Some l => map convert_input l end.
Definition convert_field (f : fielddef) : sfield :=
  mkSField (ident_to_node (fd_name f)) (convert_description (fd_desc f)) (convert_type (fd_type f))
           (convert_arguments (fd_args f)) (convert_deprecation (fd_dirs f)).
Definition convert_member (e : enumvaldef) : smember :=
  mkSMember (ident_to_node (ev_name e)) (convert_description (ev_desc e)) (convert_deprecation (ev_dirs e)).

Definition convert_type_definition (t : typedef) : str * node stypedef :=
  match t with
  | TDScalar d p n _ _ => (iname n, mkNode (SDScalar (ident_to_node n) (convert_description d)) p)
  | TDObject d p n impls _ fields _ =>
      (iname n, mkNode (SDObject (ident_to_node n) (convert_description d) (map convert_field fields) (map ident_to_node impls)) p)
  | TDInterface d p n impls _ fields _ =>
      (iname n, mkNode (SDInterface (ident_to_node n) (convert_description d) (map convert_field fields) (map ident_to_node impls)) p)
  | TDUnion d p n _ members _ =>
      (iname n, mkNode (SDUnion (ident_to_node n) (convert_description d) (map ident_to_node members)) p)
  | TDEnum d p n _ vals _ =>
      (iname n, mkNode (SDEnum (ident_to_node n) (convert_description d) (map convert_member vals)) p)
  | TDInput d p n _ fields _ =>
      (iname n, mkNode (SDInput (ident_to_node n) (convert_description d) (map convert_input fields)) p)
  end.

Definition convert_directive_definition (d : directivedef) : str * node sdirective :=
  (iname (dd_name d),
   mkNode (mkSDirective (ident_to_node (dd_name d)) (convert_description (dd_desc d)) (convert_arguments (dd_args d))
                        (map ident_to_node (dd_locs d)) (option_map ipos (dd_repeatable d)))
          (dd_pos d)).

Definition set_root (r : sroots) (op : optype) (n : node str) : sroots :=
  match op with
  | Query => mkSRoots (Some n) (r_mutation r) (r_subscription r)
  | Mutation => mkSRoots (r_query r) (Some n) (r_subscription r)
  | Subscription => mkSRoots (r_query r) (r_mutation r) (Some n)
  end.

(** convert_schema_definition: the description is overwritten only when present; set_root_types keeps the
    node (position) of the first schema definition; later assignments of the same operation win *)
Definition convert_schema_definition (b : builder) (d : schemadef) : builder :=
  let desc := match sd_desc d with Some x => Some (mkNode (desc_value x) (desc_pos x)) | None => b_desc b end in
  let cur := match b_roots b with Some r => r | None => mkNode roots0 (sd_pos d) end in
  let r := fold_left (fun r kv => set_root r (fst kv) (ident_to_node (snd kv))) (sd_ops d) (nval cur) in
  mkBuilder desc (b_types b) (b_dirs b) (Some (mkNode r (npos cur))).

(** a resolved TypeSystemDocument has only the first three kinds of definitions (the Rust type has no
    other variant); extension items are not representable there and are skipped here *)
Definition ast_step (b : builder) (d : tsdef) : builder :=
  match d with
  | TSSchema sd => convert_schema_definition b sd
  | TSType t =>
      let kv := convert_type_definition t in
      mkBuilder (b_desc b) (insert_new (b_types b) (fst kv) (snd kv)) (b_dirs b) (b_roots b)
  | TSDirective dd =>
      let kv := convert_directive_definition dd in
      mkBuilder (b_desc b) (b_types b) (insert_new (b_dirs b) (fst kv) (snd kv)) (b_roots b)
  | TSSchemaExt _ | TSTypeExt _ => b
  end.

Definition ast_to_type_system (doc : tsdoc) : schema := build (fold_left ast_step doc builder0).

(* ------------------------------------------------------------------------------------------ *)
(** * type_system_to_ast.rs (every position is Pos::default() = Pos::builtin()) *)

Definition to_ident (n : node str) : ident := mkId (nval n) pos0.
Definition to_desc (d : option (node str)) : option desc := option_map (fun d => mkDesc pos0 (nval d)) d.
Definition kw (x : String.string) : keyword := mkKw (s x) pos0.
Arguments kw x%string_scope.

Fixpoint back_type (t : sty) : ty :=
  match t with
  | SNamed n => TNamed (to_ident n)
  | SList t' => TList pos0 (back_type t')
  | SNonNull t' => TNonNull (back_type t')
  end.
(** "TODO: cannot convert default value": any default becomes the literal null; directives are dropped *)
Definition back_input (i : sinput) : inputvaldef :=
  mkInputVal (to_desc (si_desc i)) pos0 (to_ident (si_name i)) (back_type (si_type i))
             (option_map (fun _ => VNull pos0) (si_default i)) [].
Definition back_arguments (l : list sinput) : option (list inputvaldef) :=
  match l with [] => None | _ => Some (map back_input l) end.
Definition back_field (f : sfield) : fielddef :=
  mkFieldDef (to_desc (sf_desc f)) (to_ident (sf_name f)) (back_arguments (sf_args f)) (back_type (sf_type f)) [].
Definition back_member (e : smember) : enumvaldef := mkEnumVal (to_desc (sm_desc e)) (to_ident (sm_name e)) [].

Definition back_type_definition (d : stypedef) : typedef :=
  match d with
  | SDScalar n ds => TDScalar (to_desc ds) pos0 (to_ident n) [] (kw "scalar")
  | SDObject n ds fs is_ => TDObject (to_desc ds) pos0 (to_ident n) (map to_ident is_) [] (map back_field fs) (kw "type")
  | SDInterface n ds fs is_ => TDInterface (to_desc ds) pos0 (to_ident n) (map to_ident is_) [] (map back_field fs) (kw "interface")
  | SDUnion n ds ps => TDUnion (to_desc ds) pos0 (to_ident n) [] (map to_ident ps) (kw "union")
  | SDEnum n ds ms => TDEnum (to_desc ds) pos0 (to_ident n) [] (map back_member ms) (kw "enum")
  | SDInput n ds fs => TDInput (to_desc ds) pos0 (to_ident n) [] (map back_input fs) (kw "input")
  end.

Definition opt_root (op : optype) (r : option (node str)) : list (optype * ident) :=
  match r with Some n => [(op, to_ident n)] | None => [] end.

(** a schema definition is always emitted, first; directive definitions are not emitted *)
Definition type_system_to_ast (sc : schema) : tsdoc :=
  let r := nval (sc_roots sc) in
  TSSchema (mkSchemaDef (to_desc (sc_desc sc)) pos0 []
              (opt_root Query (r_query r) ++ opt_root Mutation (r_mutation r) ++ opt_root Subscription (r_subscription r)))
  :: map (fun kv => TSType (back_type_definition (nval (snd kv)))) (sc_types sc).

(* ------------------------------------------------------------------------------------------ *)
(** * structural equality on [schema] (used by the correspondence) *)

Definition node_eqb {A} (eqb : A -> A -> bool) (a b : node A) : bool := eqb (nval a) (nval b) && pos_eqb (npos a) (npos b).
Definition nstr_eqb := node_eqb str_eqb.
Fixpoint sty_eqb (a b : sty) : bool :=
  match a, b with
  | SNamed x, SNamed y => nstr_eqb x y
  | SList x, SList y | SNonNull x, SNonNull y => sty_eqb x y
  | _, _ => false
  end.
Definition sinput_eqb (a b : sinput) : bool :=
  nstr_eqb (si_name a) (si_name b) && option_eqb nstr_eqb (si_desc a) (si_desc b) && sty_eqb (si_type a) (si_type b)
  && option_eqb nstr_eqb (si_default a) (si_default b) && option_eqb str_eqb (si_depr a) (si_depr b).
Definition sfield_eqb (a b : sfield) : bool :=
  nstr_eqb (sf_name a) (sf_name b) && option_eqb nstr_eqb (sf_desc a) (sf_desc b) && sty_eqb (sf_type a) (sf_type b)
  && list_eqb sinput_eqb (sf_args a) (sf_args b) && option_eqb str_eqb (sf_depr a) (sf_depr b).
Definition smember_eqb (a b : smember) : bool :=
  nstr_eqb (sm_name a) (sm_name b) && option_eqb nstr_eqb (sm_desc a) (sm_desc b) && option_eqb str_eqb (sm_depr a) (sm_depr b).
Definition stypedef_eqb (a b : stypedef) : bool :=
  match a, b with
  | SDScalar n d, SDScalar n' d' => nstr_eqb n n' && option_eqb nstr_eqb d d'
  | SDObject n d f i, SDObject n' d' f' i' | SDInterface n d f i, SDInterface n' d' f' i' =>
      nstr_eqb n n' && option_eqb nstr_eqb d d' && list_eqb sfield_eqb f f' && list_eqb nstr_eqb i i'
  | SDUnion n d p, SDUnion n' d' p' => nstr_eqb n n' && option_eqb nstr_eqb d d' && list_eqb nstr_eqb p p'
  | SDEnum n d ms, SDEnum n' d' ms' => nstr_eqb n n' && option_eqb nstr_eqb d d' && list_eqb smember_eqb ms ms'
  | SDInput n d f, SDInput n' d' f' => nstr_eqb n n' && option_eqb nstr_eqb d d' && list_eqb sinput_eqb f f'
  | _, _ => false
  end.
Definition sdirective_eqb (a b : sdirective) : bool :=
  nstr_eqb (sdr_name a) (sdr_name b) && option_eqb nstr_eqb (sdr_desc a) (sdr_desc b)
  && list_eqb sinput_eqb (sdr_args a) (sdr_args b) && list_eqb nstr_eqb (sdr_locations a) (sdr_locations b)
  && option_eqb pos_eqb (sdr_repeatable a) (sdr_repeatable b).
Definition sroots_eqb (a b : sroots) : bool :=
  option_eqb nstr_eqb (r_query a) (r_query b) && option_eqb nstr_eqb (r_mutation a) (r_mutation b)
  && option_eqb nstr_eqb (r_subscription a) (r_subscription b).
Definition keyed_eqb {A} (eqb : A -> A -> bool) (a b : str * A) : bool := str_eqb (fst a) (fst b) && eqb (snd a) (snd b).
Definition schema_eqb (a b : schema) : bool :=
  option_eqb nstr_eqb (sc_desc a) (sc_desc b)
  && list_eqb (keyed_eqb (node_eqb stypedef_eqb)) (sc_types a) (sc_types b)
  && list_eqb (keyed_eqb (node_eqb sdirective_eqb)) (sc_dirs a) (sc_dirs b)
  && node_eqb sroots_eqb (sc_roots a) (sc_roots b).

Definition ierr_eqb (a b : ierr) : bool :=
  match a, b with ESerde, ESerde => true | EIntro x, EIntro y => str_eqb x y | _, _ => false end.
Definition res_eqb {A} (eqb : A -> A -> bool) (a b : res A) : bool :=
  match a, b with Ok x, Ok y => eqb x y | Err x, Err y => ierr_eqb x y | _, _ => false end.
