(** C15 — the simulation continued through the selection layer of C03's checker model (spread_match,
    check_selection_set, check_variables_definition, check_operation, check_fragment_definition, check_definitions):
    two schema documents whose Schemas are equivalent on the compared names P give, for every operation document that
    mentions compared names only, the same list of diagnostic messages — hence the same verdict. *)
From V Require Import Base.Util Gql.Ast C15.Model C15.Spec C15.Proofs1 C15.Proofs2 C15.Proofs3 C15.CheckBridge C15.CheckSim.

Module K := V.C03.Model.
Notation msgs := (map K.e_msg).

(* ------------------------------------------------------------------------------------------ *)
(** * relations on output definitions *)

Definition fd_rel (a b : fielddef) : Prop := norm_field (convert_field a) = norm_field (convert_field b).

Lemma fd_rel_facts a b : fd_rel a b ->
  iname (fd_name a) = iname (fd_name b) /\ ty_rel (fd_type a) (fd_type b) /\ Forall2 iv_rel (K.fd_argdefs a) (K.fd_argdefs b).
Proof.
  destruct a as [d1 n1 a1 t1 ds1], b as [d2 n2 a2 t2 ds2]. unfold fd_rel, convert_field, norm_field, K.fd_argdefs.
  cbn [fd_name fd_desc fd_type fd_args fd_dirs sf_name sf_desc sf_type sf_args sf_depr]. intros H.
  injection H as Hn _ Ht Ha _. repeat split; [exact Hn|now apply norm_sty_erase|now apply arguments_rel].
Qed.
Lemma fd_rel_refl a : fd_rel a a. Proof. reflexivity. Qed.

Lemma fields_rel l1 l2 : map norm_field (map convert_field l1) = map norm_field (map convert_field l2) -> Forall2 fd_rel l1 l2.
Proof. rewrite !map_map. apply map_eq_Forall2. Qed.
Lemma idents_rel l1 l2 : map nnode (map ident_to_node l1) = map nnode (map ident_to_node l2) -> map iname l1 = map iname l2.
Proof.
  rewrite !map_map. intros H. apply map_eq_Forall2 in H. induction H as [|x y r r' Hx _ IH]; cbn [map]; [reflexivity|].
  f_equal; [exact (f_equal nval Hx)|exact IH].
Qed.

(** everything the selection layer reads of a related pair of type definitions *)
Inductive td_view : typedef -> typedef -> Prop :=
| TVScalar d1 p1 n1 ds1 k1 d2 p2 n2 ds2 k2 : iname n1 = iname n2 -> td_view (TDScalar d1 p1 n1 ds1 k1) (TDScalar d2 p2 n2 ds2 k2)
| TVObject d1 p1 n1 i1 ds1 f1 k1 d2 p2 n2 i2 ds2 f2 k2 :
    iname n1 = iname n2 -> map iname i1 = map iname i2 -> Forall2 fd_rel f1 f2 ->
    td_view (TDObject d1 p1 n1 i1 ds1 f1 k1) (TDObject d2 p2 n2 i2 ds2 f2 k2)
| TVInterface d1 p1 n1 i1 ds1 f1 k1 d2 p2 n2 i2 ds2 f2 k2 :
    iname n1 = iname n2 -> map iname i1 = map iname i2 -> Forall2 fd_rel f1 f2 ->
    td_view (TDInterface d1 p1 n1 i1 ds1 f1 k1) (TDInterface d2 p2 n2 i2 ds2 f2 k2)
| TVUnion d1 p1 n1 ds1 m1 k1 d2 p2 n2 ds2 m2 k2 :
    iname n1 = iname n2 -> map iname m1 = map iname m2 -> td_view (TDUnion d1 p1 n1 ds1 m1 k1) (TDUnion d2 p2 n2 ds2 m2 k2)
| TVEnum d1 p1 n1 ds1 v1 k1 d2 p2 n2 ds2 v2 k2 : iname n1 = iname n2 -> td_view (TDEnum d1 p1 n1 ds1 v1 k1) (TDEnum d2 p2 n2 ds2 v2 k2)
| TVInput d1 p1 n1 ds1 f1 k1 d2 p2 n2 ds2 f2 k2 : iname n1 = iname n2 -> td_view (TDInput d1 p1 n1 ds1 f1 k1) (TDInput d2 p2 n2 ds2 f2 k2).

Lemma td_rel_view a b : td_rel a b -> td_view a b.
Proof.
  unfold td_rel, conv_td. destruct a, b; cbn [convert_type_definition snd nval norm_typedef]; intros H; try discriminate.
  - injection H as Hn _. now constructor.
  - injection H as Hn _ Hf Hi. constructor; [exact Hn|now apply idents_rel|now apply fields_rel].
  - injection H as Hn _ Hf Hi. constructor; [exact Hn|now apply idents_rel|now apply fields_rel].
  - injection H as Hn _ Hm. constructor; [exact Hn|now apply idents_rel].
  - injection H as Hn _ _. now constructor.
  - injection H as Hn _ _. now constructor.
Qed.

Lemma view_tname a b : td_view a b -> K.tname a = K.tname b.
Proof. intros H; destruct H; assumption. Qed.
Lemma view_kind a b : td_view a b -> K.kind_of a = K.kind_of b.
Proof. intros H; destruct H; reflexivity. Qed.
Lemma view_inout a b : td_view a b -> K.inout_is_input a = K.inout_is_input b.
Proof. intros H; destruct H; reflexivity. Qed.

Lemma view_direct_fields a b : td_view a b ->
  match K.direct_fields a, K.direct_fields b with
  | Some l1, Some l2 => Forall2 fd_rel l1 l2
  | None, None => True
  | _, _ => False
  end.
Proof.
  intros H; destruct H; cbn [K.direct_fields]; try exact I.
  - apply Forall2_app; [assumption|]. constructor; [apply fd_rel_refl|constructor].
  - apply Forall2_app; [assumption|]. constructor; [apply fd_rel_refl|constructor].
  - constructor; [apply fd_rel_refl|constructor].
Qed.

Lemma implements_names l1 l2 n : map iname l1 = map iname l2 -> K.implements l1 n = K.implements l2 n.
Proof.
  unfold K.implements. revert l2. induction l1 as [|x r IH]; intros [|y r2] H; cbn [map] in H; try discriminate; [reflexivity|].
  injection H as Hx Hr. cbn [existsb]. now rewrite Hx, (IH _ Hr).
Qed.

Lemma find_field_rel l1 l2 name : Forall2 fd_rel l1 l2 ->
  orel fd_rel (find (fun f => str_eqb (iname (fd_name f)) name) l1) (find (fun f => str_eqb (iname (fd_name f)) name) l2).
Proof.
  intros H. induction H as [|a b r1 r2 Hab _ IH]; cbn [find orel]; [exact I|].
  destruct (fd_rel_facts a b Hab) as [Hn _]. rewrite <- Hn. destruct (str_eqb (iname (fd_name a)) name); [exact Hab|exact IH].
Qed.

(* ------------------------------------------------------------------------------------------ *)
(** * operation documents that mention compared names only *)
Section Guard.
  Variable P : str -> bool.
  Fixpoint sel_ok (x : selection) : bool :=
    match x with
    | SField _ _ _ _ (Some ss) => selset_ok ss
    | SField _ _ _ _ None => true
    | SSpread _ _ _ => true
    | SInline _ tc _ ss => (match tc with Some c => P (iname c) | None => true end) && selset_ok ss
    end
  with selset_ok (ss : selset) : bool :=
    match ss with
    | SelSet _ l => (fix go (l : list selection) : bool := match l with [] => true | x :: r => sel_ok x && go r end) l
    end.
  Lemma selset_ok_forall p l : selset_ok (SelSet p l) = forallb sel_ok l.
  Proof. cbn [selset_ok]. induction l as [|x r IH]; cbn [forallb]; [reflexivity|]. now rewrite IH. Qed.

  Definition vardefs_ok (vs : option vardefs) : bool :=
    match vs with None => true | Some v => forallb (fun d => P (iname (ty_unwrapped (vd_type d)))) (vds_list v) end.
  Definition def_ok (d : execdef) : bool :=
    match d with
    | DOp o => vardefs_ok (op_vars o) && selset_ok (op_sel o)
    | DFrag f => P (iname (fr_cond f)) && selset_ok (fr_sel f)
    | DImport _ => true
    end.
  Definition opdoc_ok (D : opdoc) : bool := forallb def_ok (od_defs D).
End Guard.

(* ------------------------------------------------------------------------------------------ *)
(** * the simulation *)
Lemma in_iter_types S t : In t (K.iter_types S) <-> K.get_type S (K.tname t) = Some t.
Proof.
  unfold K.iter_types.
  assert (G : forall seen, In t (K.iter_types_from seen S) <-> (K.mem_str (K.tname t) seen = false /\ K.get_type S (K.tname t) = Some t)).
  { assert (Hnt : K.tname t = iname (typedef_name t)) by reflexivity. revert Hnt. generalize (K.tname t) as nt. intros nt Hnt.
    induction S as [|d S' IH]; intros seen; cbn [K.iter_types_from K.get_type].
    - split; [intros []|intros [_ H]; discriminate].
    - destruct d as [sd|t'|dd|se|te]; try apply IH.
      destruct (K.mem_str (iname (typedef_name t')) seen) eqn:Em.
      + rewrite IH. destruct (str_eqb (iname (typedef_name t')) nt) eqn:E; [|reflexivity].
        apply str_eqb_eq in E. split; intros [Hm _]; congruence.
      + cbn [In]. rewrite IH. cbn [K.mem_str existsb].
        destruct (str_eqb (iname (typedef_name t')) nt) eqn:E.
        * pose proof (str_eqb_eq _ _ E) as E'. split.
          -- intros [->|[Hm _]]; [split; [congruence|reflexivity]|].
             apply Bool.orb_false_iff in Hm as [Hm _]. rewrite str_eqb_sym in Hm. congruence.
          -- intros [_ Hg]. left. congruence.
        * split.
          -- intros [->|[Hm Hg]]; [rewrite <- Hnt, str_eqb_refl in E; discriminate|].
             apply Bool.orb_false_iff in Hm as [_ Hm]. split; assumption.
          -- intros [Hm Hg]. right. split; [|assumption]. apply Bool.orb_false_iff. split; [now rewrite str_eqb_sym|exact Hm]. }
  rewrite G. cbn. tauto.
Qed.


Section SelSim.
  Variables S1 S2 : tsdoc.
  Variable P : str -> bool.

  Hypothesis Hty : forall n, P n = true -> orel td_rel (K.get_type S1 n) (K.get_type S2 n).
  Hypothesis Hdir : forall n, orel dd_rel (K.get_directive S1 n) (K.get_directive S2 n).
  Hypothesis Hclosed_input : forall n d p nm ds fs kw, P n = true -> K.get_type S1 n = Some (TDInput d p nm ds fs kw) -> inputs_ok P fs = true.
  Hypothesis Hclosed_dir : forall n dd, K.get_directive S1 n = Some dd -> inputs_ok P (K.dd_argdefs dd) = true.

  (** closure for output definitions: field types, argument types, union members are compared names *)
  Definition fields_ok (fs : list fielddef) : bool := forallb (fun f => ty_ok P (fd_type f) && inputs_ok P (K.fd_argdefs f)) fs.
  Definition out_ok (td : typedef) : bool :=
    match td with
    | TDObject _ _ _ _ _ fs _ | TDInterface _ _ _ _ _ fs _ => fields_ok fs
    | TDUnion _ _ _ _ ms _ => forallb (fun m => P (iname m)) ms
    | _ => true
    end.
  Hypothesis Hclosed_out : forall n td, P n = true -> K.get_type S1 n = Some td -> out_ok td = true.
  Hypothesis Hstring : P K.str_String = true.
  (** a type outside the compared names implements no interface (introspection types, unlisted built-in scalars) *)
  Definition implements_nothing (S : tsdoc) : Prop :=
    forall t, In t (K.iter_types S) -> P (K.tname t) = false -> match K.object_impls t with Some (_ :: _) => False | _ => True end.
  Hypothesis Hinvis1 : implements_nothing S1.
  Hypothesis Hinvis2 : implements_nothing S2.

  (** the definitions the checker walks are always the result of a lookup *)
  Definition looked_up (S : tsdoc) (t : typedef) : Prop := K.get_type S (K.tname t) = Some t.

  Lemma lookup_rel n : P n = true -> forall t1, K.get_type S1 n = Some t1 ->
    exists t2, K.get_type S2 n = Some t2 /\ td_rel t1 t2.
  Proof.
    intros Hp t1 E. pose proof (Hty n Hp) as H. rewrite E in H. destruct (K.get_type S2 n) as [t2|]; cbn [orel] in H; [eauto|contradiction].
  Qed.

  Lemma get_type_tname S n t : K.get_type S n = Some t -> K.tname t = n.
  Proof.
    induction S as [|d S IH]; cbn [K.get_type]; [discriminate|]. destruct d as [sd|t'|dd|se|te]; auto.
    destruct (str_eqb (iname (typedef_name t')) n) eqn:E; [|auto]. intros H. injection H as <-. now apply str_eqb_eq.
  Qed.
  Lemma get_type_looked_up S n t : K.get_type S n = Some t -> looked_up S t.
  Proof. intros H. unfold looked_up. now rewrite (get_type_tname S n t H). Qed.

  (* ---- some_member_implements ---- *)
  Lemma some_member_rel m1 m2 intf : map iname m1 = map iname m2 -> forallb (fun m => P (iname m)) m1 = true ->
    msgs (fst (K.some_member_implements S1 m1 intf)) = msgs (fst (K.some_member_implements S2 m2 intf))
    /\ snd (K.some_member_implements S1 m1 intf) = snd (K.some_member_implements S2 m2 intf).
  Proof.
    revert m2. induction m1 as [|x r IH]; intros [|y r2] H Hok; cbn [map] in H; try discriminate; [split; reflexivity|].
    injection H as Hx Hr. cbn [forallb] in Hok. apply Bool.andb_true_iff in Hok as [Hpx Hok].
    cbn [K.some_member_implements]. rewrite <- Hx. pose proof (Hty _ Hpx) as Hl.
    destruct (K.get_type S1 (iname x)) as [t1|], (K.get_type S2 (iname x)) as [t2|]; cbn [orel] in Hl; try contradiction.
    - pose proof (td_rel_view _ _ Hl) as Hv. destruct Hv; cbn [K.object_impls]; try (split; reflexivity).
      rewrite (implements_names i1 i2 intf H0). destruct (K.implements i2 intf); [split; reflexivity|now apply IH].
    - split; reflexivity.
  Qed.

  (* ---- the interface/interface arm: some object type implements both ---- *)
  Definition both (n1 n2 : str) (t : typedef) : bool :=
    match K.object_impls t with Some impls => K.implements impls n1 && K.implements impls n2 | None => false end.

  Lemma both_transfer Sa Sb n1 n2 :
    (forall n, P n = true -> forall ta, K.get_type Sa n = Some ta -> exists tb, K.get_type Sb n = Some tb /\ td_view ta tb) ->
    implements_nothing Sa ->
    existsb (both n1 n2) (K.iter_types Sa) = true -> existsb (both n1 n2) (K.iter_types Sb) = true.
  Proof.
    intros Hl Hinv H. apply existsb_exists in H as [t [Hin Hb]]. apply existsb_exists.
    pose proof (proj1 (in_iter_types Sa t) Hin) as Hg.
    destruct (P (K.tname t)) eqn:Hp.
    - destruct (Hl _ Hp _ Hg) as [tb [Hgb Hv]]. exists tb. split.
      + apply in_iter_types. rewrite <- (view_tname _ _ Hv). exact Hgb.
      + unfold both in *. destruct Hv; cbn [K.object_impls] in *; try discriminate.
        now rewrite <- (implements_names i1 i2 n1 H0), <- (implements_names i1 i2 n2 H0).
    - exfalso. pose proof (Hinv t Hin Hp) as Hn. unfold both in Hb. destruct (K.object_impls t) as [[|i l]|]; try discriminate; try contradiction.
      all: cbn in Hb; discriminate.
  Qed.

  Lemma view_sym a b : td_view a b -> td_view b a.
  Proof.
    assert (Hs : forall l1 l2, Forall2 fd_rel l1 l2 -> Forall2 fd_rel l2 l1).
    { intros l1 l2 H. induction H; constructor; [unfold fd_rel in *; congruence|assumption]. }
    intros H; destruct H; constructor; auto.
  Qed.

  Lemma lookup_rel_back n : P n = true -> forall t2, K.get_type S2 n = Some t2 -> exists t1, K.get_type S1 n = Some t1 /\ td_view t2 t1.
  Proof.
    intros Hp t2 E. pose proof (Hty n Hp) as H. rewrite E in H. destruct (K.get_type S1 n) as [t1|]; cbn [orel] in H; [|contradiction].
    exists t1. split; [reflexivity|]. apply view_sym. now apply td_rel_view.
  Qed.

  Lemma both_rel n1 n2 : existsb (both n1 n2) (K.iter_types S1) = existsb (both n1 n2) (K.iter_types S2).
  Proof.
    destruct (existsb (both n1 n2) (K.iter_types S1)) eqn:E1, (existsb (both n1 n2) (K.iter_types S2)) eqn:E2; try reflexivity.
    - rewrite (both_transfer S1 S2 n1 n2) in E2; [discriminate| |exact Hinvis1|exact E1].
      intros n Hp ta Ha. destruct (lookup_rel n Hp ta Ha) as [tb [Hb Hr]]. exists tb. split; [assumption|now apply td_rel_view].
    - rewrite (both_transfer S2 S1 n1 n2) in E1; [discriminate| |exact Hinvis2|exact E2].
      intros n Hp ta Ha. exact (lookup_rel_back n Hp ta Ha).
  Qed.

  (* ---- spread_match ---- *)
  Lemma spread_match_rel p r1 r2 c1 c2 :
    td_view r1 r2 -> td_view c1 c2 -> out_ok r1 = true -> out_ok c1 = true ->
    msgs (fst (K.spread_match S1 p r1 c1)) = msgs (fst (K.spread_match S2 p r2 c2))
    /\ snd (K.spread_match S1 p r1 c1) = snd (K.spread_match S2 p r2 c2).
  Proof.
    intros Hr Hc Ho1 Ho2.
    destruct Hr as [a1 a2 rn1 a4 a5 b1 b2 rn2 b4 b5 Hrn
                   |a1 a2 rn1 ri1 a5 rf1 a7 b1 b2 rn2 ri2 b5 rf2 b7 Hrn Hri Hrf
                   |a1 a2 rn1 ri1 a5 rf1 a7 b1 b2 rn2 ri2 b5 rf2 b7 Hrn Hri Hrf
                   |a1 a2 rn1 a4 rm1 a6 b1 b2 rn2 b4 rm2 b6 Hrn Hrm
                   |a1 a2 rn1 a4 a5 a6 b1 b2 rn2 b4 b5 b6 Hrn
                   |a1 a2 rn1 a4 a5 a6 b1 b2 rn2 b4 b5 b6 Hrn];
    destruct Hc as [c1' c2' cn1 c4 c5 e1 e2 cn2 e4 e5 Hcn
                   |c1' c2' cn1 ci1 c5 cf1 c7 e1 e2 cn2 ci2 e5 cf2 e7 Hcn Hci Hcf
                   |c1' c2' cn1 ci1 c5 cf1 c7 e1 e2 cn2 ci2 e5 cf2 e7 Hcn Hci Hcf
                   |c1' c2' cn1 c4 cm1 c6 e1 e2 cn2 e4 cm2 e6 Hcn Hcm
                   |c1' c2' cn1 c4 c5 c6 e1 e2 cn2 e4 e5 e6 Hcn
                   |c1' c2' cn1 c4 c5 c6 e1 e2 cn2 e4 e5 e6 Hcn];
    cbn [K.spread_match fst snd out_ok] in *; try (split; reflexivity).
    - (* object / object *) rewrite Hrn, Hcn. destruct (str_eqb (iname rn2) (iname cn2)); split; reflexivity.
    - (* object / interface *) rewrite (implements_names ri1 ri2 _ Hri), Hrn, Hcn. destruct (K.implements ri2 (iname cn2)); split; reflexivity.
    - (* object / union *) rewrite (implements_names cm1 cm2 _ Hcm), Hrn, Hcn. destruct (K.implements cm2 (iname rn2)); split; reflexivity.
    - (* interface / object *) rewrite (implements_names ci1 ci2 _ Hci), Hrn, Hcn. destruct (K.implements ci2 (iname rn2)); split; reflexivity.
    - (* interface / interface *)
      change (existsb _ (K.iter_types S1)) with (existsb (both (iname rn1) (iname cn1)) (K.iter_types S1)).
      change (existsb _ (K.iter_types S2)) with (existsb (both (iname rn2) (iname cn2)) (K.iter_types S2)).
      rewrite Hrn, Hcn, both_rel. destruct (str_eqb (iname rn2) (iname cn2) || existsb (both (iname rn2) (iname cn2)) (K.iter_types S2)); split; reflexivity.
    - (* interface / union *)
      destruct (some_member_rel cm1 cm2 (iname rn1) Hcm Ho2) as [He Hs]. rewrite Hrn in He, Hs |- *. rewrite Hcn.
      rewrite !map_app, He, Hs. destruct (snd (K.some_member_implements S2 cm2 (iname rn2))); split; reflexivity.
    - (* union / object *) rewrite (implements_names rm1 rm2 _ Hrm), Hrn, Hcn. destruct (K.implements rm2 (iname cn2)); split; reflexivity.
    - (* union / interface *)
      destruct (some_member_rel rm1 rm2 (iname cn1) Hrm Ho1) as [He Hs]. rewrite Hcn in He, Hs |- *. rewrite Hrn.
      rewrite !map_app, He, Hs. destruct (snd (K.some_member_implements S2 rm2 (iname cn2))); split; reflexivity.
    - (* union / union *)
      rewrite Hrn, Hcn.
      replace (existsb (fun x2 => existsb (fun x1 => str_eqb (iname x1) (iname x2)) rm1) cm1)
        with (existsb (fun x2 => existsb (fun x1 => str_eqb (iname x1) (iname x2)) rm2) cm2); [destruct (existsb _ cm2); split; reflexivity|].
      clear -Hrm Hcm. revert cm1 Hcm. induction cm2 as [|y r IH]; intros [|x r'] Hcm; cbn [map] in Hcm; try discriminate; [reflexivity|].
      injection Hcm as Hx Hr. cbn [existsb]. rewrite (IH _ Hr), Hx. f_equal.
      clear -Hrm. revert rm1 Hrm. induction rm2 as [|a r2 IH2]; intros [|b r1] Hrm; cbn [map] in Hrm; try discriminate; [reflexivity|].
      injection Hrm as Ha Hr1. cbn [existsb]. now rewrite (IH2 _ Hr1), Ha.
  Qed.
  (* ---- selection sets ---- *)
  Variable fm : list fragdef.
  Hypothesis Hfm : forall n f, K.frag_get fm n = Some f -> P (iname (fr_cond f)) = true /\ selset_ok P (fr_sel f) = true.

  Definition rec_rel (rec1 rec2 : list str -> typedef -> selset -> list K.err) : Prop :=
    forall seen r1 r2 ss, td_view r1 r2 -> P (K.tname r1) = true -> looked_up S1 r1 -> selset_ok P ss = true ->
      msgs (rec1 seen r1 ss) = msgs (rec2 seen r2 ss).

  Lemma out_ok_of r1 : P (K.tname r1) = true -> looked_up S1 r1 -> out_ok r1 = true.
  Proof. intros Hp Hl. exact (Hclosed_out _ _ Hp Hl). Qed.

  Lemma direct_fields_ok r1 l : out_ok r1 = true -> K.direct_fields r1 = Some l -> fields_ok l = true.
  Proof.
    assert (Ht : fields_ok [K.typename_field] = true).
    { unfold fields_ok. cbn [forallb K.typename_field fd_type K.fd_argdefs fd_args inputs_ok]. unfold ty_ok. cbn [ty_unwrapped iname].
      now rewrite Hstring. }
    destruct r1; cbn [out_ok K.direct_fields]; intros Ho H; try discriminate; injection H as <-.
    - unfold fields_ok in *. now rewrite forallb_app, Ho.
    - unfold fields_ok in *. now rewrite forallb_app, Ho.
    - exact Ht.
  Qed.

  Lemma find_forallb {A} (p q : A -> bool) l x : forallb q l = true -> find p l = Some x -> q x = true.
  Proof.
    induction l as [|a r IH]; cbn [find forallb]; [discriminate|]. intros Hq. apply Bool.andb_true_iff in Hq as [Ha Hr].
    destruct (p a); [intros E; injection E as <-; exact Ha|auto].
  Qed.

  Section Body.
    Variable vars : option vardefs.
    Variables rec1 rec2 : list str -> typedef -> selset -> list K.err.
    Hypothesis Hrec : rec_rel rec1 rec2.

    Lemma dirs_rel loc ds : msgs (K.check_directives S1 vars loc ds) = msgs (K.check_directives S2 vars loc ds).
    Proof. exact (check_directives_rel S1 S2 P vars Hty Hdir Hclosed_input Hclosed_dir loc ds). Qed.

    Lemma core_rel seen r1 r2 p c1 c2 ss :
      td_view r1 r2 -> P (K.tname r1) = true -> looked_up S1 r1 ->
      td_view c1 c2 -> P (K.tname c1) = true -> looked_up S1 c1 -> selset_ok P ss = true ->
      msgs (K.check_fragment_spread_core S1 rec1 seen r1 p c1 ss) = msgs (K.check_fragment_spread_core S2 rec2 seen r2 p c2 ss).
    Proof.
      intros Hr Hpr Hlr Hc Hpc Hlc Hss. unfold K.check_fragment_spread_core.
      destruct (spread_match_rel p r1 r2 c1 c2 Hr Hc (out_ok_of _ Hpr Hlr) (out_ok_of _ Hpc Hlc)) as [He Hs].
      rewrite !map_app, He, Hs. destruct (snd (K.spread_match S2 p r2 c2)); [|reflexivity]. f_equal. now apply Hrec.
    Qed.

    Lemma lookup_view n : P n = true ->
      match K.get_type S1 n, K.get_type S2 n with
      | Some t1, Some t2 => td_view t1 t2 /\ P (K.tname t1) = true /\ looked_up S1 t1
      | None, None => True
      | _, _ => False
      end.
    Proof.
      intros Hp. pose proof (Hty n Hp) as H. destruct (K.get_type S1 n) as [t1|] eqn:E1, (K.get_type S2 n) as [t2|]; cbn [orel] in H; try contradiction; [|exact I].
      split; [now apply td_rel_view|]. split; [now rewrite (get_type_tname _ _ _ E1)|exact (get_type_looked_up _ _ _ E1)].
    Qed.

    Lemma selection_rel seen r1 r2 rf1 rf2 x :
      td_view r1 r2 -> P (K.tname r1) = true -> looked_up S1 r1 ->
      Forall2 fd_rel rf1 rf2 -> fields_ok rf1 = true -> sel_ok P x = true ->
      msgs (K.check_selection S1 fm vars rec1 seen r1 rf1 x) = msgs (K.check_selection S2 fm vars rec2 seen r2 rf2 x).
    Proof.
      intros Hr Hpr Hlr Hf Hfok Hx. destruct x as [al name args dirs sub|p name dirs|p tc dirs ss]; cbn [K.check_selection].
      - (* field *)
        unfold K.check_selection_field. pose proof (find_field_rel rf1 rf2 (iname name) Hf) as Hfind.
        destruct (find (fun f => str_eqb (iname (fd_name f)) (iname name)) rf1) as [tf1|] eqn:E1,
                 (find (fun f => str_eqb (iname (fd_name f)) (iname name)) rf2) as [tf2|]; cbn [orel] in Hfind; try contradiction.
        + destruct (fd_rel_facts tf1 tf2 Hfind) as [_ [Ht Ha]].
          pose proof (find_forallb _ _ _ _ Hfok E1) as Hok. cbn beta in Hok. apply Bool.andb_true_iff in Hok as [Hty1 Hargs1].
          rewrite !map_app, dirs_rel.
          rewrite (check_arguments_rel S1 S2 P vars Hty Hclosed_input (ipos name) (iname name) K.str_field args _ _ Ha Hargs1).
          f_equal. f_equal. rewrite <- (ty_rel_unwrapped _ _ Ht).
          pose proof (lookup_view _ Hty1) as Hl.
          destruct (K.get_type S1 (iname (ty_unwrapped (fd_type tf1)))) as [t1|], (K.get_type S2 (iname (ty_unwrapped (fd_type tf1)))) as [t2|];
            try contradiction; [|reflexivity].
          destruct Hl as [Hv [Hp1 Hl1]]. destruct sub as [ss|].
          * apply Hrec; assumption.
          * pose proof (view_direct_fields _ _ Hv) as Hd. destruct (K.direct_fields t1), (K.direct_fields t2); try contradiction; reflexivity.
        + cbn [map K.e_msg]. now rewrite (view_tname _ _ Hr).
      - (* fragment spread *)
        unfold K.check_fragment_spread. rewrite !map_app, dirs_rel. f_equal.
        destruct (K.mem_str (iname name) seen); [reflexivity|].
        destruct (K.frag_get fm (iname name)) as [target|] eqn:Ef; [|reflexivity].
        destruct (Hfm _ _ Ef) as [Hpc Hss]. rewrite !map_app, dirs_rel. f_equal.
        pose proof (lookup_view _ Hpc) as Hl.
        destruct (K.get_type S1 (iname (fr_cond target))) as [c1|], (K.get_type S2 (iname (fr_cond target))) as [c2|]; try contradiction; [|reflexivity].
        destruct Hl as [Hv [Hp1 Hl1]]. now apply core_rel.
      - (* inline fragment *)
        unfold K.check_inline_fragment. rewrite !map_app, dirs_rel. f_equal.
        cbn [sel_ok] in Hx. apply Bool.andb_true_iff in Hx as [Htc Hss].
        destruct tc as [c|]; [|now apply Hrec].
        pose proof (lookup_view _ Htc) as Hl.
        destruct (K.get_type S1 (iname c)) as [c1|], (K.get_type S2 (iname c)) as [c2|]; try contradiction; [|reflexivity].
        destruct Hl as [Hv [Hp1 Hl1]]. now apply core_rel.
    Qed.

    Lemma body_rel seen r1 r2 ss :
      td_view r1 r2 -> P (K.tname r1) = true -> looked_up S1 r1 -> selset_ok P ss = true ->
      msgs (K.check_selection_set_body S1 fm vars rec1 seen r1 ss) = msgs (K.check_selection_set_body S2 fm vars rec2 seen r2 ss).
    Proof.
      intros Hr Hpr Hlr Hss. unfold K.check_selection_set_body.
      pose proof (view_direct_fields _ _ Hr) as Hd.
      destruct (K.direct_fields r1) as [rf1|] eqn:E1, (K.direct_fields r2) as [rf2|]; try contradiction.
      - pose proof (direct_fields_ok _ _ (out_ok_of _ Hpr Hlr) E1) as Hok.
        destruct ss as [p l]. rewrite selset_ok_forall in Hss. cbn [selset_sels].
        induction l as [|x r IH]; cbn [flat_map]; [reflexivity|].
        cbn [forallb] in Hss. apply Bool.andb_true_iff in Hss as [Hx Hrest].
        rewrite !map_app, (IH Hrest). f_equal. now apply selection_rel.
      - cbn [map K.e_msg]. now rewrite (view_kind _ _ Hr), (view_tname _ _ Hr).
    Qed.
  End Body.

  Theorem selection_set_rel vars : forall fuel, rec_rel (K.check_selection_set fuel S1 fm vars) (K.check_selection_set fuel S2 fm vars).
  Proof.
    induction fuel as [|f IH]; intros seen r1 r2 ss Hr Hp Hl Hss; cbn [K.check_selection_set]; [reflexivity|].
    now apply body_rel.
  Qed.

  (* ---- variables, operations, fragment definitions ---- *)
  Lemma variables_rel vs : forall seen, forallb (fun d => P (iname (ty_unwrapped (vd_type d)))) vs = true ->
    msgs (K.check_variables_from S1 seen vs) = msgs (K.check_variables_from S2 seen vs).
  Proof.
    induction vs as [|v r IH]; intros seen Hok; cbn [K.check_variables_from]; [reflexivity|].
    cbn [forallb] in Hok. apply Bool.andb_true_iff in Hok as [Hv Hr].
    rewrite !map_app, (IH _ Hr), (check_directives_rel S1 S2 P None Hty Hdir Hclosed_input Hclosed_dir). f_equal. f_equal. f_equal.
    pose proof (Hty _ Hv) as Hl.
    destruct (K.get_type S1 (iname (ty_unwrapped (vd_type v)))) as [t1|], (K.get_type S2 (iname (ty_unwrapped (vd_type v)))) as [t2|];
      cbn [orel] in Hl; try contradiction; [|reflexivity].
    rewrite (view_inout _ _ (td_rel_view _ _ Hl)). destruct (K.inout_is_input t2); reflexivity.
  Qed.
  (* ---- operations, fragment definitions, the document ---- *)
  (** Root types.  The two documents need not agree on how the roots are stated (an SDL document without schema definition
      uses default names, the reified JSON Schema declares its roots): what is compared is the resolved root type per
      operation kind ([root_type], which is the root decision of the checker model: CheckBridge).  An operation of an
      unavailable kind gets one diagnostic on both sides but not the same one (UnknownType vs NoRootType), so from here on
      the statement is about the verdict. *)
  Hypothesis Hroot : forall o, root_type (ast_to_type_system S1) o = root_type (ast_to_type_system S2) o.
  Hypothesis Hroot_P : forall o n, root_type (ast_to_type_system S1) o = Some n -> P n = true.

  Definition vrel (a b : list K.err) : Prop := a = [] <-> b = [].
  Lemma msgs_vrel a b : msgs a = msgs b -> vrel a b.
  Proof. unfold vrel. destruct a, b; cbn [map]; intros H; try discriminate; split; intros; try reflexivity; discriminate. Qed.
  Lemma vrel_app a a' b b' : vrel a a' -> vrel b b' -> vrel (a ++ b) (a' ++ b').
  Proof.
    unfold vrel. intros [H1 H2] [H3 H4]. split; intros H; apply app_eq_nil in H as [Ha Hb].
    - now rewrite (H1 Ha), (H3 Hb).
    - now rewrite (H2 Ha), (H4 Hb).
  Qed.

  Lemma operation_vrel fuel op :
    vardefs_ok P (op_vars op) = true -> selset_ok P (op_sel op) = true ->
    vrel (K.check_operation fuel S1 fm op) (K.check_operation fuel S2 fm op).
  Proof.
    intros Hvars Hsel. destruct (root_type (ast_to_type_system S1) (op_type op)) as [n|] eqn:E1.
    - pose proof E1 as E2. rewrite Hroot in E2.
      destruct (root_type_is_checked_against fuel S1 fm op n E1) as [r1 [G1 C1]].
      destruct (root_type_is_checked_against fuel S2 fm op n E2) as [r2 [G2 C2]].
      change V.C03.Model.check_operation with K.check_operation in *. rewrite C1, C2. apply msgs_vrel.
      pose proof (Hroot_P _ _ E1) as Hp. pose proof (Hty _ Hp) as Hl.
      change V.C03.Model.get_type with K.get_type in *. rewrite G1, G2 in Hl. cbn [orel] in Hl.
      rewrite !map_app, (check_directives_rel S1 S2 P (op_vars op) Hty Hdir Hclosed_input Hclosed_dir). f_equal. f_equal.
      + destruct (op_vars op) as [vs|]; [|reflexivity]. unfold K.check_variables_definition. apply variables_rel. exact Hvars.
      + f_equal. apply selection_set_rel; [now apply td_rel_view|now rewrite (get_type_tname _ _ _ G1)|exact (get_type_looked_up _ _ _ G1)|exact Hsel].
    - pose proof E1 as E2. rewrite Hroot in E2.
      destruct (no_root_type_is_rejected fuel S1 fm op E1) as [e1 C1]. destruct (no_root_type_is_rejected fuel S2 fm op E2) as [e2 C2].
      change V.C03.Model.check_operation with K.check_operation in *. rewrite C1, C2. split; discriminate.
  Qed.

  Lemma fragment_definition_rel f : P (iname (fr_cond f)) = true ->
    msgs (K.check_fragment_definition S1 f) = msgs (K.check_fragment_definition S2 f).
  Proof.
    intros Hp. unfold K.check_fragment_definition. pose proof (Hty _ Hp) as Hl.
    destruct (K.get_type S1 (iname (fr_cond f))) as [t1|], (K.get_type S2 (iname (fr_cond f))) as [t2|]; cbn [orel] in Hl; try contradiction; [|reflexivity].
    pose proof (td_rel_view _ _ Hl) as Hv. destruct Hv; reflexivity.
  Qed.

  Lemma definitions_vrel fuel n defs : forall prev, forallb (def_ok P) defs = true ->
    vrel (K.check_definitions fuel S1 fm n prev defs) (K.check_definitions fuel S2 fm n prev defs).
  Proof.
    induction defs as [|d r IH]; intros prev Hok; cbn [K.check_definitions]; [split; reflexivity|].
    cbn [forallb] in Hok. apply Bool.andb_true_iff in Hok as [Hd Hr]. apply vrel_app; [|now apply IH].
    destruct d as [op|f|im]; cbn [K.check_definition def_ok] in *; [| |split; reflexivity].
    - apply Bool.andb_true_iff in Hd as [Hv Hs]. apply vrel_app; [apply msgs_vrel; reflexivity|now apply operation_vrel].
    - apply Bool.andb_true_iff in Hd as [Hc Hs]. apply vrel_app; [apply msgs_vrel; reflexivity|]. apply msgs_vrel. now apply fragment_definition_rel.
  Qed.
  (* ---- fragments no operation spreads (second summand of check_operation_document) ---- *)
  Lemma msgs_filter (p : K.msg -> bool) a b : msgs a = msgs b ->
    msgs (filter (fun e => p (K.e_msg e)) a) = msgs (filter (fun e => p (K.e_msg e)) b).
  Proof.
    revert b. induction a as [|x r IH]; intros [|y r2] H; cbn [map] in H; try discriminate; [reflexivity|].
    injection H as Hx Hr. cbn [filter]. rewrite Hx. destruct (p (K.e_msg y)); cbn [map]; now rewrite ?Hx, (IH _ Hr).
  Qed.

  Lemma unspread_fragment_rel fuel f : P (iname (fr_cond f)) = true -> selset_ok P (fr_sel f) = true ->
    msgs (K.check_unspread_fragment fuel S1 fm f) = msgs (K.check_unspread_fragment fuel S2 fm f).
  Proof.
    intros Hp Hs. unfold K.check_unspread_fragment.
    apply (msgs_filter (fun m => negb (match m with K.UnknownVariable _ => true | _ => false end))).
    rewrite !map_app, (check_directives_rel S1 S2 P None Hty Hdir Hclosed_input Hclosed_dir). f_equal.
    pose proof (Hty _ Hp) as Hl.
    destruct (K.get_type S1 (iname (fr_cond f))) as [t1|] eqn:E1, (K.get_type S2 (iname (fr_cond f))) as [t2|]; cbn [orel] in Hl; try contradiction; [|reflexivity].
    pose proof (td_rel_view _ _ Hl) as Hv.
    assert (G : msgs (K.check_selection_set fuel S1 fm None [iname (fr_name f)] t1 (fr_sel f))
              = msgs (K.check_selection_set fuel S2 fm None [iname (fr_name f)] t2 (fr_sel f))).
    { apply selection_set_rel; [exact Hv|now rewrite (get_type_tname _ _ _ E1)|exact (get_type_looked_up _ _ _ E1)|exact Hs]. }
    destruct Hv; try reflexivity; exact G.
  Qed.

  Lemma unspread_rel fuel defs : forall spread, forallb (def_ok P) defs = true ->
    msgs (K.check_unspread fuel S1 fm spread defs) = msgs (K.check_unspread fuel S2 fm spread defs).
  Proof.
    induction defs as [|d r IH]; intros spread Hok; cbn [K.check_unspread]; [reflexivity|].
    cbn [forallb] in Hok. apply Bool.andb_true_iff in Hok as [Hd Hr].
    destruct d as [op|f|im]; try (now apply IH).
    destruct (K.mem_str (iname (fr_name f)) spread); [now apply IH|].
    cbn [def_ok] in Hd. apply Bool.andb_true_iff in Hd as [Hc Hs].
    rewrite !map_app, (IH _ Hr). f_equal. now apply unspread_fragment_rel.
  Qed.
End SelSim.
