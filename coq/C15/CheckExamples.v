(** C15 — non-vacuity of C15_check_respects_equiv: the guards hold for the example model and for an operation document
    that uses fragments, an inline fragment on an interface, variables, directives and input-object literals. *)
From V Require Import Base.Util Gql.Ast C15.Model C15.Spec C15.Proofs1 C15.Proofs C15.Reify C15.CheckSim2 C15.CheckRespects.

Example ex_sim_guard :
  sim_guard_b (vis_of ex_model) (reposition (sdl_doc ex_model))
              (doc_of_schema (json_schema (listed_types true ex_model) ex_model)) = true.
Proof. vm_compute. reflexivity. Qed.

Definition p0 := mkPos 0 0 0 false.
Definition idp (x : String.string) : ident := mkId (s x) p0.
Arguments idp x%string_scope.
(** query Q($id: ID!, $f: Filter) @tag(name: "t") { node(id: $id) { id ... on Item { color @skip(if: true) } ...F } all(f: {colors: [RED]}) { id } }
    fragment F on Node { id } *)
Definition ex_doc : opdoc :=
  mkOpDoc p0
    [ DOp (mkOp p0 Query (Some (idp "Q"))
        (Some (mkVarDefs p0 [mkVarDef p0 (s "id") p0 (TNonNull (TNamed (idp "ID"))) None [];
                             mkVarDef p0 (s "f") p0 (TNamed (idp "Filter")) None []]))
        [mkDir p0 (idp "tag") (Some (mkArgs p0 [(idp "name", VString p0 (s "t"))]))]
        (SelSet p0
          [ SField None (idp "node") (Some (mkArgs p0 [(idp "id", VVar (s "id") p0)])) []
              (Some (SelSet p0 [ SField None (idp "id") None [] None;
                                 SInline p0 (Some (idp "Item")) []
                                   (SelSet p0 [SField None (idp "color") None
                                                 [mkDir p0 (idp "skip") (Some (mkArgs p0 [(idp "if", VBool p0 true)]))] None]);
                                 SSpread p0 (idp "F") [] ]));
            SField None (idp "all") (Some (mkArgs p0 [(idp "f", VObject p0 [(idp "colors", VList p0 [VEnum p0 (s "RED")])])])) []
              (Some (SelSet p0 [SField None (idp "id") None [] None])) ]));
      DFrag (mkFrag p0 (idp "F") (idp "Node") [] (SelSet p0 [SField None (idp "id") None [] None])) ].

Example ex_doc_ok : opdoc_ok (vis_of ex_model) ex_doc = true.
Proof. vm_compute. reflexivity. Qed.

(** the document is accepted by the checker model on both schema documents (so the equivalence is not between two rejections) *)
Example ex_doc_accepted :
  V.C03.Model.check_operation_document (reposition (sdl_doc ex_model)) ex_doc = []
  /\ V.C03.Model.check_operation_document (doc_of_schema (json_schema (listed_types true ex_model) ex_model)) ex_doc = [].
Proof. split; vm_compute; reflexivity. Qed.
