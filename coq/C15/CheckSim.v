(** C15 — "lookup-only" simulation through the literal / argument / directive layer of C03's checker model
    (V.C03.Model.check_value, check_arguments, check_directives).

    Two schema documents S1, S2 whose Schemas are [schema_equiv_on P] (the equivalence of C15_routes_agree) give the same
    diagnostics, message for message ([map e_msg]; positions and the additional-info lists may point into different schema
    sources), for every value checked against a type over the compared names P, every argument list, every directive
    list — provided the definitions reachable from compared names mention compared names only ([closed]).  The checker
    model reads the documents only through get_type / get_directive; nothing else about S1, S2 is used. *)
From V Require Import Base.Util Gql.Ast C15.Model C15.Spec C15.Proofs1 C15.Proofs2 C15.Proofs3 C15.CheckBridge.

Module K := V.C03.Model.

(* ------------------------------------------------------------------------------------------ *)
(** * induction over values (nested lists) *)
Section ValueInd.
  Variable Q : value -> Prop.
  Hypothesis Hvar : forall n p, Q (VVar n p).
  Hypothesis Hint : forall p l, Q (VInt p l).
  Hypothesis Hfloat : forall p l, Q (VFloat p l).
  Hypothesis Hstring : forall p l, Q (VString p l).
  Hypothesis Hbool : forall p b, Q (VBool p b).
  Hypothesis Hnull : forall p, Q (VNull p).
  Hypothesis Henum : forall p l, Q (VEnum p l).
  Hypothesis Hlist : forall p vs, Forall Q vs -> Q (VList p vs).
  Hypothesis Hobj : forall p fs, Forall (fun kv => Q (snd kv)) fs -> Q (VObject p fs).
  Fixpoint value_induction (v : value) : Q v :=
    match v with
    | VVar n p => Hvar n p
    | VInt p l => Hint p l
    | VFloat p l => Hfloat p l
    | VString p l => Hstring p l
    | VBool p b => Hbool p b
    | VNull p => Hnull p
    | VEnum p l => Henum p l
    | VList p vs =>
        Hlist p vs ((fix go (l : list value) : Forall Q l :=
                       match l with [] => Forall_nil _ | x :: r => Forall_cons x (value_induction x) (go r) end) vs)
    | VObject p fs =>
        Hobj p fs ((fix go (l : list (ident * value)) : Forall (fun kv => Q (snd kv)) l :=
                      match l with
                      | [] => Forall_nil _
                      | kv :: r => Forall_cons kv (match kv as kv0 return Q (snd kv0) with (_, x) => value_induction x end) (go r)
                      end) fs)
    end.
End ValueInd.

(* ------------------------------------------------------------------------------------------ *)
(** * relations between definitions of two documents: equal after the front end and normalisation *)

Definition ty_rel (a b : ty) : Prop := erase_ty a = erase_ty b.
Definition iv_rel (a b : inputvaldef) : Prop := norm_input (convert_input a) = norm_input (convert_input b).
Definition td_rel (a b : typedef) : Prop := norm_typedef (nval (conv_td a)) = norm_typedef (nval (conv_td b)).
Definition dd_rel (a b : directivedef) : Prop := norm_directive (nval (conv_dd a)) = norm_directive (nval (conv_dd b)).
Definition orel {A} (R : A -> A -> Prop) (a b : option A) : Prop :=
  match a, b with None, None => True | Some x, Some y => R x y | _, _ => False end.

Lemma norm_sty_erase a b : norm_sty (convert_type a) = norm_sty (convert_type b) -> ty_rel a b.
Proof.
  unfold ty_rel. revert b. induction a as [n|a IH|p a IH]; intros [m|b|q b]; cbn [convert_type norm_sty erase_ty]; intros H; try discriminate.
  - injection H as H. unfold erase_ident. now rewrite H.
  - injection H as H. f_equal. now apply IH.
  - injection H as H. f_equal. now apply IH.
Qed.

Lemma map_eq_Forall2 {A B} (f : A -> B) l1 l2 : map f l1 = map f l2 -> Forall2 (fun a b => f a = f b) l1 l2.
Proof.
  revert l2. induction l1 as [|x r IH]; intros [|y r2] H; cbn [map] in H; try discriminate; [constructor|].
  injection H as Hx Hr. constructor; auto.
Qed.

Lemma iv_rel_facts a b : iv_rel a b ->
  iname (iv_name a) = iname (iv_name b) /\ ty_rel (iv_type a) (iv_type b)
  /\ (match iv_default a with Some _ => true | None => false end) = (match iv_default b with Some _ => true | None => false end).
Proof.
  destruct a as [d1 p1 n1 t1 dv1 ds1], b as [d2 p2 n2 t2 dv2 ds2]. unfold iv_rel, convert_input, norm_input.
  cbn [iv_name iv_desc iv_type iv_default iv_dirs si_name si_desc si_type si_default si_depr]. intros H.
  injection H as Hn _ Ht Hdv _. repeat split.
  - exact Hn.
  - now apply norm_sty_erase.
  - destruct dv1, dv2; cbn in Hdv; try discriminate; reflexivity.
Qed.

Lemma inputs_rel l1 l2 : map norm_input (map convert_input l1) = map norm_input (map convert_input l2) -> Forall2 iv_rel l1 l2.
Proof. rewrite !map_map. apply map_eq_Forall2. Qed.
Lemma arguments_rel a1 a2 :
  map norm_input (convert_arguments a1) = map norm_input (convert_arguments a2) ->
  Forall2 iv_rel (match a1 with Some l => l | None => [] end) (match a2 with Some l => l | None => [] end).
Proof.
  destruct a1 as [l1|], a2 as [l2|]; cbn [convert_arguments]; intros H.
  - now apply inputs_rel.
  - apply (inputs_rel l1 []). exact H.
  - apply (inputs_rel [] l2). exact H.
  - constructor.
Qed.

(** what the checker reads of a type, as functions of its erasure *)
Lemma ty_show_erase t : K.ty_show (erase_ty t) = K.ty_show t.
Proof. induction t as [n|t IH|p t IH]; cbn [erase_ty K.ty_show erase_ident iname]; now rewrite ?IH. Qed.
Lemma type_compat_erase vt t : K.type_compat vt (erase_ty t) = K.type_compat vt t.
Proof.
  revert t. induction vt as [v|vt IH|q vt IH]; intros [n|t|p t]; cbn [erase_ty K.type_compat erase_ident iname]; auto.
  - exact (IH (TNamed n)).
  - exact (IH (TList p t)).
Qed.
Lemma ty_rel_show a b : ty_rel a b -> K.ty_show a = K.ty_show b.
Proof. intros H. rewrite <- (ty_show_erase a), <- (ty_show_erase b). now rewrite H. Qed.
Lemma ty_rel_compat vt a b : ty_rel a b -> K.type_compat vt a = K.type_compat vt b.
Proof. intros H. rewrite <- (type_compat_erase vt a), <- (type_compat_erase vt b). now rewrite H. Qed.
Lemma ty_rel_nonnull a b : ty_rel a b -> K.ty_is_nonnull a = K.ty_is_nonnull b.
Proof. unfold ty_rel. destruct a, b; cbn [erase_ty]; intros H; try discriminate; reflexivity. Qed.

Lemma ty_unwrapped_erase t : iname (ty_unwrapped (erase_ty t)) = iname (ty_unwrapped t).
Proof. induction t as [n|t IH|p t IH]; cbn [erase_ty ty_unwrapped]; auto. Qed.
Lemma ty_rel_unwrapped a b : ty_rel a b -> iname (ty_unwrapped a) = iname (ty_unwrapped b).
Proof. intros H. rewrite <- (ty_unwrapped_erase a), <- (ty_unwrapped_erase b). now rewrite H. Qed.

(* ------------------------------------------------------------------------------------------ *)
(** * unfolding equations of the nested fixpoint check_value *)
Section Unfold.
  Variable S : tsdoc.
  Variable vars : option vardefs.
  Definition is_var (v : value) : bool := match v with VVar _ _ => true | _ => false end.

  Lemma cv_var n p t : K.check_value S vars (VVar n p) t = K.check_variable_value vars n p t.
  Proof. destruct t; reflexivity. Qed.
  Lemma cv_nonnull v i : is_var v = false ->
    K.check_value S vars v (TNonNull i) =
    match v with VNull _ => [K.err0 (K.TypeMismatch (K.ty_show (TNonNull i))) (K.value_pos v)] | _ => K.check_value S vars v i end.
  Proof. destruct v; intros H; try discriminate; reflexivity. Qed.
  Lemma cv_list v p i : is_var v = false ->
    K.check_value S vars v (TList p i) =
    match v with
    | VList _ vs => flat_map (fun e => K.check_value S vars e i) vs
    | VNull _ => []
    | _ => K.check_value S vars v i
    end.
  Proof. destruct v; intros H; try discriminate; reflexivity. Qed.
  Lemma cv_named v n : is_var v = false ->
    K.check_value S vars v (TNamed n) = K.check_named S vars (K.check_value S vars) v (TNamed n) n.
  Proof. destruct v; intros H; try discriminate; reflexivity. Qed.
End Unfold.

Lemma check_variable_value_rel vars n p a b : ty_rel a b ->
  K.check_variable_value vars n p a = K.check_variable_value vars n p b.
Proof.
  intros H. unfold K.check_variable_value. destruct (K.get_variable_definition vars n) as [vd|]; [|reflexivity].
  rewrite (ty_rel_show a b H), (ty_rel_compat (vd_type vd) a b H).
  unfold ty_rel in H. destruct a as [x|a|q a], b as [y|b|r b]; cbn [erase_ty] in H; try discriminate; try reflexivity.
  injection H as H. now rewrite (ty_rel_compat (vd_type vd) a b H).
Qed.

(** expected_type_of_location *)
Lemma loc_type_rel a b v : iv_rel a b -> ty_rel (K.loc_type a v) (K.loc_type b v).
Proof.
  intros H. destruct (iv_rel_facts a b H) as [_ [Ht Hd]]. unfold K.loc_type. unfold ty_rel in *.
  destruct (iv_type a) as [x|ta|q ta], (iv_type b) as [y|tb|r tb]; cbn [erase_ty] in Ht; try discriminate; try exact Ht.
  destruct v; try exact Ht. destruct (iv_default a), (iv_default b); cbn in Hd; try discriminate; [|exact Ht]. now injection Ht.
Qed.
Lemma loc_type_unwrapped a v : iname (ty_unwrapped (K.loc_type a v)) = iname (ty_unwrapped (iv_type a)).
Proof. unfold K.loc_type. destruct (iv_type a); try reflexivity. destruct v; try reflexivity. destruct (iv_default a); reflexivity. Qed.

(* ------------------------------------------------------------------------------------------ *)
(** * the simulation *)
Section Sim.
  Variables S1 S2 : tsdoc.
  Variable P : str -> bool.
  Variable vars : option vardefs.

  Definition ty_ok (t : ty) : bool := P (iname (ty_unwrapped t)).
  Definition inputs_ok (l : list inputvaldef) : bool := forallb (fun i => ty_ok (iv_type i)) l.

  (** compared names look up related definitions; every directive name does *)
  Hypothesis Hty : forall n, P n = true -> orel td_rel (K.get_type S1 n) (K.get_type S2 n).
  Hypothesis Hdir : forall n, orel dd_rel (K.get_directive S1 n) (K.get_directive S2 n).
  (** closure of the compared names under "is mentioned by" (stated on S1; it transfers to S2 through the relations) *)
  Hypothesis Hclosed_input : forall n d p nm ds fs kw, P n = true -> K.get_type S1 n = Some (TDInput d p nm ds fs kw) -> inputs_ok fs = true.
  Hypothesis Hclosed_dir : forall n dd, K.get_directive S1 n = Some dd -> inputs_ok (K.dd_argdefs dd) = true.

  Notation msgs := (map K.e_msg).

  Lemma ty_ok_inner_nn t : ty_ok (TNonNull t) = ty_ok t. Proof. reflexivity. Qed.
  Lemma ty_ok_inner_list p t : ty_ok (TList p t) = ty_ok t. Proof. reflexivity. Qed.

  (** the nested values of a literal satisfy the simulation (what the induction over values provides) *)
  Definition cv_rel (cv1 cv2 : value -> ty -> list K.err) (v : value) : Prop :=
    forall t1 t2, ty_rel t1 t2 -> ty_ok t1 = true -> msgs (cv1 v t1) = msgs (cv2 v t2).

  Lemma ty_ok_loc a v : ty_ok (iv_type a) = true -> ty_ok (K.loc_type a v) = true.
  Proof. unfold ty_ok. now rewrite loc_type_unwrapped. Qed.

  (** filter_vals with related continuations *)
  Lemma filter_vals_rel (cv1 cv2 : value -> ty -> list K.err) a b name fs :
    iv_rel a b -> ty_ok (iv_type a) = true -> Forall (fun kv => cv_rel cv1 cv2 (snd kv)) fs ->
    map msgs (K.filter_vals (fun fv => cv1 fv (K.loc_type a fv)) name fs) = map msgs (K.filter_vals (fun fv => cv2 fv (K.loc_type b fv)) name fs).
  Proof.
    intros Hab Hok H. induction H as [|[key v] r Hv Hr IH]; cbn [K.filter_vals map]; [reflexivity|].
    destruct (str_eqb name (iname key)); [|exact IH]. cbn [map snd] in *. f_equal; [|exact IH].
    apply Hv; [now apply loc_type_rel|now apply ty_ok_loc].
  Qed.
  Lemma msgs_concat l1 l2 : map msgs l1 = map msgs l2 -> msgs (concat l1) = msgs (concat l2) /\ length l1 = length l2.
  Proof.
    revert l2. induction l1 as [|x r IH]; intros [|y r2] H; cbn [map] in H; try discriminate; [split; reflexivity|].
    injection H as Hx Hr. destruct (IH _ Hr) as [Hc Hl]. split; [cbn [concat]; now rewrite !map_app, Hx, Hc|cbn [length]; now rewrite Hl].
  Qed.

  Definition io_rel (a b : K.iostate) : Prop :=
    msgs (K.io_errs a) = msgs (K.io_errs b) /\ K.io_res a = K.io_res b /\ K.io_seen a = K.io_seen b.

  Lemma io_fold_rel (cv1 cv2 : value -> ty -> list K.err) fs fields1 fields2 :
    Forall2 iv_rel fields1 fields2 ->
    inputs_ok fields1 = true ->
    Forall (fun kv => cv_rel cv1 cv2 (snd kv)) fs ->
    forall st1 st2, io_rel st1 st2 ->
    io_rel (fold_left (K.io_step cv1 fs) fields1 st1) (fold_left (K.io_step cv2 fs) fields2 st2).
  Proof.
    intros HF. induction HF as [|a b l1 l2 Hab Hl IH]; intros Hok Hcv st1 st2 Hst; cbn [fold_left]; [assumption|].
    cbn [inputs_ok forallb] in Hok. apply Bool.andb_true_iff in Hok as [Ha Hok].
    apply IH; [assumption|assumption|].
    destruct (iv_rel_facts a b Hab) as [Hn [Ht Hd]]. destruct Hst as [He [Hr Hs]].
    unfold K.io_step. rewrite <- Hn.
    pose proof (filter_vals_rel cv1 cv2 a b (iname (iv_name a)) fs Hab Ha Hcv) as Hf.
    destruct (K.filter_vals (fun fv => cv1 fv (K.loc_type a fv)) (iname (iv_name a)) fs) as [|x1 r1],
             (K.filter_vals (fun fv => cv2 fv (K.loc_type b fv)) (iname (iv_name a)) fs) as [|x2 r2]; cbn [map] in Hf; try discriminate.
    - rewrite (ty_rel_nonnull _ _ Ht).
      replace (match iv_default a with None => true | Some _ => false end) with (match iv_default b with None => true | Some _ => false end)
        by (destruct (iv_default a), (iv_default b); cbn in Hd; congruence).
      destruct (K.ty_is_nonnull (iv_type b) && match iv_default b with None => true | Some _ => false end);
        repeat split; cbn [K.io_errs K.io_res K.io_seen]; assumption.
    - destruct (msgs_concat (x1 :: r1) (x2 :: r2) Hf) as [Hc Hl'].
      repeat split; cbn [K.io_errs K.io_res K.io_seen]; [now rewrite !map_app, He, Hc|assumption|now rewrite Hs, Hl'].
  Qed.

  Lemma input_object_check_rel cv1 cv2 mism1 mism2 fields1 fields2 fs :
    Forall2 iv_rel fields1 fields2 -> inputs_ok fields1 = true ->
    Forall (fun kv => cv_rel cv1 cv2 (snd kv)) fs ->
    (forall i1 i2, msgs (mism1 i1) = msgs (mism2 i2)) ->
    msgs (K.input_object_check cv1 mism1 fields1 fs) = msgs (K.input_object_check cv2 mism2 fields2 fs).
  Proof.
    intros HF Hok Hcv Hm. unfold K.input_object_check.
    destruct (io_fold_rel cv1 cv2 fs fields1 fields2 HF Hok Hcv (K.mkIo [] true [] 0) (K.mkIo [] true [] 0)) as [He [Hr Hs]];
      [repeat split|].
    rewrite !map_app, He, Hr, Hs.
    destruct (K.io_res (fold_left (K.io_step cv2 fs) fields2 (K.mkIo [] true [] 0)) &&
              negb (K.io_seen (fold_left (K.io_step cv2 fs) fields2 (K.mkIo [] true [] 0)) <? length fs)); [reflexivity|].
    f_equal. apply Hm.
  Qed.

  Lemma td_rel_kind a b : td_rel a b ->
    match a, b with
    | TDScalar _ _ n1 _ _, TDScalar _ _ n2 _ _ => iname n1 = iname n2
    | TDObject _ _ _ _ _ _ _, TDObject _ _ _ _ _ _ _ | TDInterface _ _ _ _ _ _ _, TDInterface _ _ _ _ _ _ _
    | TDUnion _ _ _ _ _ _, TDUnion _ _ _ _ _ _ => True
    | TDEnum _ _ n1 _ v1 _, TDEnum _ _ n2 _ v2 _ => iname n1 = iname n2 /\ map (fun e => iname (ev_name e)) v1 = map (fun e => iname (ev_name e)) v2
    | TDInput _ _ _ _ f1 _, TDInput _ _ _ _ f2 _ => Forall2 iv_rel f1 f2
    | _, _ => False
    end.
  Proof.
    unfold td_rel, conv_td. destruct a, b; cbn [convert_type_definition snd nval norm_typedef]; intros H; try discriminate; try exact I.
    - injection H as H _. exact H.
    - injection H as Hn _ Hv. split; [exact Hn|].
      rewrite !map_map in Hv. apply map_eq_Forall2 in Hv.
      induction Hv as [|e e' r r' He _ IH]; cbn [map]; [reflexivity|]. f_equal; [|exact IH].
      exact (f_equal (fun m => nval (sm_name m)) He).
    - injection H as _ _ Hf. now apply inputs_rel.
  Qed.

  Lemma forallb_names {A} (f : str -> bool) (g : A -> str) l1 l2 :
    map g l1 = map g l2 -> forallb (fun x => f (g x)) l1 = forallb (fun x => f (g x)) l2.
  Proof.
    revert l2. induction l1 as [|x r IH]; intros [|y r2] H; cbn [map] in H; try discriminate; [reflexivity|].
    injection H as Hx Hr. cbn [forallb]. now rewrite Hx, (IH _ Hr).
  Qed.

  (** check_named, given the simulation for the values nested in [v] *)
  Lemma check_named_rel (cv1 cv2 : value -> ty -> list K.err) v n1 n2 :
    iname n1 = iname n2 -> P (iname n1) = true ->
    (forall fs p, v = VObject p fs -> Forall (fun kv => cv_rel cv1 cv2 (snd kv)) fs) ->
    msgs (K.check_named S1 vars cv1 v (TNamed n1) n1) = msgs (K.check_named S2 vars cv2 v (TNamed n2) n2).
  Proof.
    intros Hn Hp Hcv. unfold K.check_named. pose proof (Hty _ Hp) as Hr. rewrite <- Hn.
    destruct (K.get_type S1 (iname n1)) as [td1|] eqn:E1, (K.get_type S2 (iname n1)) as [td2|]; cbn [orel] in Hr; try contradiction; [|reflexivity].
    cbn [K.ty_show]. rewrite <- Hn.
    pose proof (td_rel_kind td1 td2 Hr) as Hk.
    destruct td1 as [d1 p1 nm1 ds1 kw1|d1 p1 nm1 i1 ds1 f1 kw1|d1 p1 nm1 i1 ds1 f1 kw1|d1 p1 nm1 ds1 m1 kw1|d1 p1 nm1 ds1 v1 kw1|d1 p1 nm1 ds1 f1 kw1],
             td2 as [d2 p2 nm2 ds2 kw2|d2 p2 nm2 i2 ds2 f2 kw2|d2 p2 nm2 i2 ds2 f2 kw2|d2 p2 nm2 ds2 m2 kw2|d2 p2 nm2 ds2 v2 kw2|d2 p2 nm2 ds2 f2 kw2];
      try contradiction; try reflexivity.
    - rewrite Hk. destruct (K.is_builtin_scalar (iname nm2)); [|reflexivity]. destruct (K.scalar_accepts (iname nm2) v); reflexivity.
    - destruct Hk as [Hen Hvals]. destruct v; try reflexivity.
      rewrite (forallb_names (fun x => negb (str_eqb x v)) (fun e => iname (ev_name e)) v1 v2 Hvals), Hen.
      destruct (forallb _ v2); reflexivity.
    - destruct v; try reflexivity.
      apply input_object_check_rel; [assumption|exact (Hclosed_input _ _ _ _ _ _ _ Hp E1)|exact (Hcv _ _ eq_refl)|reflexivity].
  Qed.

  (** the simulation for check_value *)
  Theorem check_value_rel : forall v t1 t2, ty_rel t1 t2 -> ty_ok t1 = true ->
    msgs (K.check_value S1 vars v t1) = msgs (K.check_value S2 vars v t2).
  Proof.
    assert (Hnonvar : forall v, is_var v = false ->
              (forall n1 n2, iname n1 = iname n2 -> P (iname n1) = true ->
                 msgs (K.check_named S1 vars (K.check_value S1 vars) v (TNamed n1) n1) = msgs (K.check_named S2 vars (K.check_value S2 vars) v (TNamed n2) n2)) ->
              (forall p vs, v = VList p vs -> forall t1 t2, ty_rel t1 t2 -> ty_ok t1 = true ->
                 Forall (fun e => msgs (K.check_value S1 vars e t1) = msgs (K.check_value S2 vars e t2)) vs) ->
              forall t1 t2, ty_rel t1 t2 -> ty_ok t1 = true ->
                msgs (K.check_value S1 vars v t1) = msgs (K.check_value S2 vars v t2)).
    { intros v Hv Hnamed Hlist t1. induction t1 as [n1|t1 IH|p1 t1 IH]; intros t2 Hrel Hok;
        pose proof Hrel as Hrel'; unfold ty_rel in Hrel'; destruct t2 as [n2|t2|p2 t2]; cbn [erase_ty] in Hrel'; try discriminate.
      - rewrite !cv_named by assumption. apply Hnamed; [|exact Hok]. injection Hrel' as E. unfold erase_ident in E. congruence.
      - injection Hrel' as E. rewrite !cv_nonnull by assumption. rewrite (ty_rel_show _ _ Hrel).
        destruct v; try (apply IH; assumption). reflexivity.
      - injection Hrel' as E. rewrite !cv_list by assumption.
        destruct v as [x p|p x|p x|p x|p x|p|p x|p vs|p fs]; try (apply IH; assumption); [reflexivity|].
        specialize (Hlist p vs eq_refl t1 t2 E Hok). clear -Hlist.
        induction Hlist as [|e r He Hr IHr]; cbn [flat_map]; [reflexivity|]. now rewrite !map_app, He, IHr. }
    intros v. induction v as [n p|p l|p l|p l|p b|p|p l|p vs IHvs|p fs IHfs] using value_induction.
    - intros t1 t2 Hrel _. rewrite !cv_var. now rewrite (check_variable_value_rel vars n p t1 t2 Hrel).
    - apply Hnonvar; [reflexivity| |discriminate]. intros n1 n2 Hn Hp. apply check_named_rel; try assumption. discriminate.
    - apply Hnonvar; [reflexivity| |discriminate]. intros n1 n2 Hn Hp. apply check_named_rel; try assumption. discriminate.
    - apply Hnonvar; [reflexivity| |discriminate]. intros n1 n2 Hn Hp. apply check_named_rel; try assumption. discriminate.
    - apply Hnonvar; [reflexivity| |discriminate]. intros n1 n2 Hn Hp. apply check_named_rel; try assumption. discriminate.
    - apply Hnonvar; [reflexivity| |discriminate]. intros n1 n2 Hn Hp. apply check_named_rel; try assumption. discriminate.
    - apply Hnonvar; [reflexivity| |discriminate]. intros n1 n2 Hn Hp. apply check_named_rel; try assumption. discriminate.
    - apply Hnonvar; [reflexivity| |].
      + intros n1 n2 Hn Hp. apply check_named_rel; try assumption. discriminate.
      + intros p' vs' E t1 t2 Hrel Hok. injection E as _ <-. apply Forall_forall. intros e He.
        rewrite Forall_forall in IHvs. now apply IHvs.
    - apply Hnonvar; [reflexivity| |discriminate].
      intros n1 n2 Hn Hp. apply check_named_rel; try assumption.
      intros fs' p' E. injection E as _ <-. exact IHfs.
  Qed.

  (** check_arguments *)
  Definition arg_rel (a b : list K.err * nat) : Prop := msgs (fst a) = msgs (fst b) /\ snd a = snd b.

  Lemma arg_fold_rel ap args defs1 defs2 :
    Forall2 iv_rel defs1 defs2 -> inputs_ok defs1 = true ->
    forall st1 st2, arg_rel st1 st2 ->
    arg_rel (fold_left (K.arg_step S1 vars ap args) defs1 st1) (fold_left (K.arg_step S2 vars ap args) defs2 st2).
  Proof.
    intros HF. induction HF as [|a b l1 l2 Hab Hl IH]; intros Hok st1 st2 Hst; cbn [fold_left]; [assumption|].
    cbn [inputs_ok forallb] in Hok. apply Bool.andb_true_iff in Hok as [Ha Hok]. apply IH; [assumption|].
    destruct (iv_rel_facts a b Hab) as [Hn [Ht Hd]]. destruct Hst as [He Hs]. unfold K.arg_step. rewrite <- Hn.
    destruct (filter (fun kv => str_eqb (iname (iv_name a)) (iname (fst kv))) args) as [|kv ms].
    - rewrite (ty_rel_nonnull _ _ Ht).
      replace (match iv_default a with Some _ => true | None => false end) with (match iv_default b with Some _ => true | None => false end) by (symmetry; exact Hd).
      destruct (if negb (K.ty_is_nonnull (iv_type b)) then true else match iv_default b with Some _ => true | None => false end); [split; assumption|].
      split; cbn [fst snd]; [|assumption]. now rewrite !map_app, He.
    - split; cbn [fst snd]; [|now rewrite Hs]. rewrite !map_app, He. f_equal.
      generalize (kv :: ms). intros l. induction l as [|x r IHl]; cbn [flat_map]; [reflexivity|].
      rewrite !map_app, IHl. f_equal. apply check_value_rel; [now apply loc_type_rel|now apply ty_ok_loc].
  Qed.

  Lemma names_of_rel l1 l2 : Forall2 iv_rel l1 l2 -> map (fun i => iname (iv_name i)) l1 = map (fun i => iname (iv_name i)) l2.
  Proof. intros H. induction H as [|a b r1 r2 Hab _ IH]; cbn [map]; [reflexivity|]. destruct (iv_rel_facts a b Hab) as [Hn _]. now rewrite Hn, IH. Qed.

  Theorem check_arguments_rel pp pn pk args defs1 defs2 :
    Forall2 iv_rel defs1 defs2 -> inputs_ok defs1 = true ->
    msgs (K.check_arguments S1 vars pp pn pk args defs1) = msgs (K.check_arguments S2 vars pp pn pk args defs2).
  Proof.
    intros HF Hok. unfold K.check_arguments.
    destruct HF as [|a b l1 l2 Hab Hl]; [destruct args; reflexivity|].
    assert (HF : Forall2 iv_rel (a :: l1) (b :: l2)) by (constructor; assumption).
    set (ap := match args with None => pp | Some x => args_pos x end).
    set (al := match args with None => [] | Some x => args_list x end).
    destruct (arg_fold_rel ap al _ _ HF Hok ([], 0) ([], 0)) as [He Hs]; [split; reflexivity|].
    assert (E : forall (X : Type) (x y : X), match args with None => x | Some _ => y end = match args with None => x | Some _ => y end) by reflexivity.
    destruct args as [x|]; rewrite !map_app, He, Hs;
      rewrite (map_ext_in _ _ al (fun kv _ => f_equal (fun z => if z then _ else _)
                 (forallb_names (fun nm => negb (str_eqb nm (iname (fst kv)))) (fun i => iname (iv_name i)) _ _ (names_of_rel _ _ HF))))
      || idtac; f_equal.
    all: destruct (snd (fold_left (K.arg_step S2 vars ap al) (b :: l2) ([], 0)) <? length al); [|reflexivity].
    all: f_equal; apply flat_map_ext; intros kv;
      now rewrite (forallb_names (fun nm => negb (str_eqb nm (iname (fst kv)))) (fun i => iname (iv_name i)) _ _ (names_of_rel _ _ HF)).
  Qed.
  (** check_directives *)
  Lemma dd_rel_facts a b : dd_rel a b ->
    map iname (dd_locs a) = map iname (dd_locs b)
    /\ (match dd_repeatable a with Some _ => true | None => false end) = (match dd_repeatable b with Some _ => true | None => false end)
    /\ Forall2 iv_rel (K.dd_argdefs a) (K.dd_argdefs b).
  Proof.
    destruct a as [d1 p1 n1 a1 r1 l1 k1], b as [d2 p2 n2 a2 r2 l2 k2]. unfold dd_rel, conv_dd, norm_directive, K.dd_argdefs.
    cbn [convert_directive_definition snd nval dd_name dd_desc dd_args dd_locs dd_repeatable dd_pos
         sdr_name sdr_desc sdr_args sdr_locations sdr_repeatable]. intros H.
    injection H as _ _ Ha Hl Hr. repeat split.
    - rewrite !map_map in Hl. apply map_eq_Forall2 in Hl. induction Hl as [|x y r r' Hx _ IH]; cbn [map]; [reflexivity|].
      f_equal; [exact (f_equal nval Hx)|exact IH].
    - destruct r1, r2; cbn in Hr; try discriminate; reflexivity.
    - now apply arguments_rel.
  Qed.

  Theorem check_directives_from_rel loc ds : forall seen,
    msgs (K.check_directives_from S1 vars seen loc ds) = msgs (K.check_directives_from S2 vars seen loc ds).
  Proof.
    induction ds as [|d r IH]; intros seen; cbn [K.check_directives_from]; [reflexivity|].
    pose proof (Hdir (iname (dir_name d))) as Hr.
    destruct (K.get_directive S1 (iname (dir_name d))) as [d1|] eqn:E1, (K.get_directive S2 (iname (dir_name d))) as [d2|];
      cbn [orel] in Hr; try contradiction.
    - destruct (dd_rel_facts d1 d2 Hr) as [Hl [Hrep Ha]].
      rewrite !map_app, IH.
      rewrite (check_arguments_rel (dir_pos d) (iname (dir_name d)) K.str_directive (dir_args d) _ _ Ha (Hclosed_dir _ _ E1)).
      rewrite (forallb_names (fun x => negb (str_eqb x loc)) iname (dd_locs d1) (dd_locs d2) Hl).
      f_equal. f_equal.
      destruct (K.mem_str (iname (dir_name d)) seen); [|reflexivity].
      destruct (dd_repeatable d1), (dd_repeatable d2); cbn in Hrep; try discriminate; reflexivity.
    - cbn [map]. now rewrite IH.
  Qed.
  Theorem check_directives_rel loc ds :
    msgs (K.check_directives S1 vars loc ds) = msgs (K.check_directives S2 vars loc ds).
  Proof. apply check_directives_from_rel. Qed.
End Sim.
