(** C15 — emit_respects_equiv for interfaces (type level, against V.C10.Model.type_member).

    An interface is printed as the union of its implementers, taken in the iteration order of the document's type table
    ([iter_types]); that order, and the table's entries outside the compared names, differ between the routes.  What is
    invariant is the SET of members: proved here from the characterisation of C10's [iter_types]
    (In t (iter_types D) <-> get_type D (tname t) = Some t) and the guard "an object type outside the compared names
    implements no interface". *)
From V Require Import Base.Util Gql.Ast Ts.TsType C15.Model C15.Spec C15.Proofs1 C15.Proofs2 C15.CheckSim C15.EmitSim.

Module X := V.C10.Model.

(** * iteration order of C10's model *)
Lemma x_in_first_defs t : forall l seen,
  In t (X.first_defs_aux seen l) <-> (X.mem (X.tname t) seen = false /\ find (fun u => str_eqb (X.tname u) (X.tname t)) l = Some t).
Proof.
  induction l as [|u l IH]; intros seen; cbn [X.first_defs_aux find].
  - split; [intros []|intros [_ H]; discriminate].
  - destruct (X.mem (X.tname u) seen) eqn:Em.
    + rewrite IH. destruct (str_eqb (X.tname u) (X.tname t)) eqn:E; [|reflexivity].
      apply str_eqb_eq in E. split; intros [Hm _]; congruence.
    + cbn [In]. rewrite IH. unfold X.mem at 2. cbn [existsb]. fold (X.mem (X.tname t) seen).
      destruct (str_eqb (X.tname u) (X.tname t)) eqn:E.
      * pose proof (str_eqb_eq _ _ E) as E'. split.
        -- intros [->|[Hm _]]; [split; [congruence|reflexivity]|].
           apply Bool.orb_false_iff in Hm as [Hm _]. rewrite str_eqb_sym in Hm. congruence.
        -- intros [_ Hg]. left. congruence.
      * split.
        -- intros [->|[Hm Hg]]; [rewrite str_eqb_refl in E; discriminate|].
           apply Bool.orb_false_iff in Hm as [_ Hm]. split; assumption.
        -- intros [Hm Hg]. right. split; [|assumption]. apply Bool.orb_false_iff. split; [now rewrite str_eqb_sym|exact Hm].
Qed.
Theorem x_in_iter_types D t : In t (X.iter_types D) <-> X.get_type D (X.tname t) = Some t.
Proof. unfold X.iter_types, X.get_type. rewrite x_in_first_defs. cbn. tauto. Qed.

(** the implementers of an interface: the object types of the table that list it *)
Lemma in_implementers D iface nm :
  In nm (X.interface_implementers D iface) <->
  exists d p i ds fs k, X.get_type D (iname nm) = Some (TDObject d p nm i ds fs k) /\ existsb (fun x => str_eqb (iname x) iface) i = true.
Proof.
  unfold X.interface_implementers. rewrite in_flat_map. split.
  - intros [t [Hin Hx]]. destruct t as [| d p n i ds fs k | | | |]; try contradiction.
    destruct (existsb (fun x => str_eqb (iname x) iface) i) eqn:E; [|contradiction]. destruct Hx as [<-|[]].
    exists d, p, i, ds, fs, k. split; [|exact E]. exact (proj1 (x_in_iter_types D _) Hin).
  - intros [d [p [i [ds [fs [k [Hg E]]]]]]]. exists (TDObject d p nm i ds fs k). split.
    + apply x_in_iter_types. exact Hg.
    + rewrite E. now left.
Qed.

Section Iface.
  Variables DA DD : tsdoc.
  Variable P : str -> bool.
  Variable o : X.sopts.
  Variable tg : X.target.
  Let c1 := X.make_ctx o DA tg.
  Let c2 := X.make_ctx o DD tg.

  Hypothesis Hty : forall n, P n = true -> orel td_rel_s (X.get_type DA n) (X.get_type DD n).
  Hypothesis Hbag : bag_equiv_b (X.c_bag c1) (X.c_bag c2) = true.
  (** an object type outside the compared names implements no interface *)
  Definition objects_outside_implement_nothing (D : tsdoc) : Prop :=
    forall n d p nm i ds fs k, P n = false -> X.get_type D n = Some (TDObject d p nm i ds fs k) -> i = [].
  Hypothesis HinvA : objects_outside_implement_nothing DA.
  Hypothesis HinvD : objects_outside_implement_nothing DD.

  Definition member_var (c : X.ctx) (nm : ident) : tstype :=
    TVar (match X.local_type_name c (iname nm) with Some l => l | None => iname nm end) pos0.
  Definition members (c : X.ctx) (D : tsdoc) (iface : str) : list tstype := map (member_var c) (X.interface_implementers D iface).

  Lemma existsb_names (f : str -> bool) l1 l2 : map iname l1 = map iname l2 ->
    existsb (fun x => f (iname x)) l1 = existsb (fun x => f (iname x)) l2.
  Proof.
    revert l2. induction l1 as [|x r IH]; intros [|y r2] H; cbn [map] in H; try discriminate; [reflexivity|].
    injection H as Hx Hr. cbn [existsb]. now rewrite Hx, (IH _ Hr).
  Qed.

  Lemma members_subset iface x : In x (members c1 DA iface) -> In x (members c2 DD iface).
  Proof.
    unfold members. rewrite !in_map_iff. intros [nm [<- Hin]].
    apply in_implementers in Hin as [d [p [i [ds [fs [k [Hg E]]]]]]].
    destruct (P (iname nm)) eqn:Hp.
    - pose proof (Hty _ Hp) as H. rewrite Hg in H. destruct (X.get_type DD (iname nm)) as [tD|] eqn:Ed; cbn [orel] in H; [|contradiction].
      pose proof (td_rel_s_view _ _ H) as Hv. inversion Hv as [| ? ? ? ? ? ? ? d2 p2 n2 i2 ds2 f2 k2 Hn Hi Hf | | | |]; subst.
      exists n2. split.
      + unfold member_var, c1, c2. rewrite <- Hn, (local_rel DA DD P o tg Hty Hbag _ Hp). reflexivity.
      + apply in_implementers. exists d2, p2, i2, ds2, f2, k2. split; [now rewrite <- Hn|].
        rewrite <- (existsb_names (fun s => str_eqb s iface) i i2 Hi). exact E.
    - rewrite (HinvA _ _ _ _ _ _ _ _ Hp Hg) in E. discriminate.
  Qed.
  Lemma members_superset iface x : In x (members c2 DD iface) -> In x (members c1 DA iface).
  Proof.
    unfold members. rewrite !in_map_iff. intros [nm [<- Hin]].
    apply in_implementers in Hin as [d [p [i [ds [fs [k [Hg E]]]]]]].
    destruct (P (iname nm)) eqn:Hp.
    - pose proof (Hty _ Hp) as H. rewrite Hg in H. destruct (X.get_type DA (iname nm)) as [tA|] eqn:Ea; cbn [orel] in H; [|contradiction].
      pose proof (td_rel_s_view _ _ H) as Hv. inversion Hv as [| d1 p1 n1 i1 ds1 f1 k1 ? ? ? ? ? ? ? Hn Hi Hf | | | |]; subst.
      exists n1. split.
      + unfold member_var, c1, c2. rewrite Hn, (local_rel DA DD P o tg Hty Hbag _ Hp). reflexivity.
      + apply in_implementers. exists d1, p1, i1, ds1, f1, k1. split; [now rewrite Hn|].
        rewrite (existsb_names (fun s => str_eqb s iface) i1 i Hi). exact E.
    - rewrite (HinvD _ _ _ _ _ _ _ _ Hp Hg) in E. discriminate.
  Qed.

  (** the declaration computed for an interface: same outcome, same local alias, a union over the same set of members *)
  Definition iface_rel (r1 r2 : X.res (option X.member)) : Prop :=
    match r1, r2 with
    | X.Ok None, X.Ok None => True
    | X.Ok (Some m1), X.Ok (Some m2) =>
        X.m_local m1 = X.m_local m2 /\
        exists cs1 cs2, X.m_body m1 = X.BType (ts_union cs1) /\ X.m_body m2 = X.BType (ts_union cs2)
                        /\ (forall x, In x cs1 <-> In x cs2)
    | X.ErrScalar n _, X.ErrScalar m _ => n = m
    | X.Panic a, X.Panic b => a = b
    | _, _ => False
    end.

  Theorem interface_member_rel d1 p1 n1 i1 ds1 f1 k1 d2 p2 n2 i2 ds2 f2 k2 :
    iname n1 = iname n2 -> P (iname n1) = true ->
    iface_rel (X.type_member c1 (TDInterface d1 p1 n1 i1 ds1 f1 k1)) (X.type_member c2 (TDInterface d2 p2 n2 i2 ds2 f2 k2)).
  Proof.
    intros Hn Hp. cbn [X.type_member]. unfold c1, c2. cbn [X.make_ctx X.c_target X.c_doc]. destruct (X.is_input tg); [exact I|]. fold c1 c2.
    unfold c1, c2. rewrite <- Hn, (local_panic_rel DA DD P o tg Hty Hbag _ Hp). fold c1 c2.
    destruct (X.local_type_name_or_panic c2 (iname n1)); cbn [X.bind iface_rel]; try reflexivity.
    split; [reflexivity|]. cbn [X.m_body].
    exists (members c1 DA (iname n1)), (members c2 DD (iname n1)). repeat split; try reflexivity.
    - apply members_subset.
    - apply members_superset.
  Qed.
End Iface.

(** computable form of the guard *)
Definition objects_outside_b (P : str -> bool) (D : tsdoc) : bool :=
  forallb (fun t => match t with
                    | TDObject _ _ n i _ _ _ => P (iname n) || match i with [] => true | _ => false end
                    | _ => true
                    end) (X.typedefs D).
Lemma objects_outside_sound P D : objects_outside_b P D = true -> objects_outside_implement_nothing P D.
Proof.
  intros H n d p nm i ds fs k Hp Hg. unfold objects_outside_b in H. rewrite forallb_forall in H.
  pose proof (x_get_type_tname _ _ _ Hg) as Hn. unfold X.tname in Hn. cbn [typedef_name] in Hn.
  unfold X.get_type in Hg. apply find_some in Hg as [Hin _]. specialize (H _ Hin). cbn beta iota in H.
  rewrite Hn, Hp in H. destruct i; [reflexivity|discriminate].
Qed.

(** the two routes *)
Theorem emit_respects_equiv_interface st meta M Dsdl :
  model_ok M = true -> doc_equiv Dsdl (sdl_doc M) -> parsed_positions Dsdl ->
  exists Sj, json_route (introspect st meta M) = Ok Sj /\
    let DA := type_system_to_ast Sj in
    forall o tg,
      bag_equiv_b (X.c_bag (X.make_ctx o DA tg)) (X.c_bag (X.make_ctx o Dsdl tg)) = true ->
      objects_outside_b (vis_of M) DA = true -> objects_outside_b (vis_of M) Dsdl = true ->
      forall n d1 p1 n1 i1 ds1 f1 k1 d2 p2 n2 i2 ds2 f2 k2, vis_of M n = true ->
        X.get_type DA n = Some (TDInterface d1 p1 n1 i1 ds1 f1 k1) -> X.get_type Dsdl n = Some (TDInterface d2 p2 n2 i2 ds2 f2 k2) ->
        iface_rel (X.type_member (X.make_ctx o DA tg) (TDInterface d1 p1 n1 i1 ds1 f1 k1))
                  (X.type_member (X.make_ctx o Dsdl tg) (TDInterface d2 p2 n2 i2 ds2 f2 k2)).
Proof.
  intros Hok He Hp. destruct (Proofs4.printers_see_same_types st meta M Dsdl Hok He Hp) as [Sj [Hj Hty]].
  exists Sj. split; [assumption|]. cbn zeta. intros o tg Hbag HiA HiD n d1 p1 n1 i1 ds1 f1 k1 d2 p2 n2 i2 ds2 f2 k2 Hv HA HD.
  assert (Hrel : forall m, vis_of M m = true -> orel td_rel_s (X.get_type (type_system_to_ast Sj) m) (X.get_type Dsdl m)).
  { intros m Hm. specialize (Hty m Hm). rewrite !get_type_ast, <- !x_get_type in Hty.
    destruct (X.get_type (type_system_to_ast Sj) m), (X.get_type Dsdl m); cbn in Hty |- *; try discriminate; [|exact I].
    injection Hty as Hty. exact Hty. }
  pose proof (x_get_type_tname _ _ _ HA) as Hn1. pose proof (x_get_type_tname _ _ _ HD) as Hn2.
  unfold X.tname in Hn1, Hn2. cbn [typedef_name] in Hn1, Hn2.
  apply (interface_member_rel (type_system_to_ast Sj) Dsdl (vis_of M) o tg Hrel Hbag
           (objects_outside_sound _ _ HiA) (objects_outside_sound _ _ HiD)); [congruence|now rewrite Hn1].
Qed.
