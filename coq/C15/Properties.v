(** C15 — property theorems only. *)
From V Require Import Base.Util Gql.Ast C15.Model C15.Spec C15.Proofs.
