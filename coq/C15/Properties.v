(** C15 — property theorems only.  Each is closed by [exact] of a lemma in Proofs*.v and followed by
    [Print Assumptions]. *)
From V Require Import Base.Util Gql.Ast C15.Model C15.Spec C15.Proofs1 C15.Proofs2 C15.Proofs3 C15.Proofs.

(** For every schema model M satisfying the guard, every key style and with or without the introspection types in
    the result: the JSON route accepts the standard introspection result of M, and the Schema it builds is
    observationally equal (description, root operation types as the checker resolves them, every compared type
    definition, every directive definition; modulo positions, default-value text and declaration order) to the Schema
    the SDL route builds from ANY document D that says what the SDL text of M says (up to positions, default-value
    literals and the order of definitions) and whose schema definitions carry parser positions. *)
Theorem C15_routes_agree : forall st meta M D,
  model_ok M = true ->
  doc_equiv D (sdl_doc M) ->
  parsed_positions D ->
  exists Sj, json_route (introspect st meta M) = Ok Sj /\ schema_equiv_on (vis_of M) Sj (ast_to_type_system D).
Proof. exact routes_agree. Qed.
Print Assumptions C15_routes_agree.

(** No guard: the JSON route never rejects a standard introspection result, and the optional keys of the
    result (absent or null) make no difference. *)
Theorem C15_json_route_total : forall st meta M, exists Sj, json_route (introspect st meta M) = Ok Sj.
Proof. exact json_route_total. Qed.
Print Assumptions C15_json_route_total.

Theorem C15_json_key_style_irrelevant : forall meta M,
  json_route (introspect Full meta M) = json_route (introspect Minimal meta M).
Proof. exact json_route_style_irrelevant. Qed.
Print Assumptions C15_json_key_style_irrelevant.

(** What [ast_to_type_system] lets one observe of a document does not depend on positions, default-value literals
    or the order of definitions. *)
Theorem C15_sdl_route_respects_doc_equiv : forall D D0 n,
  doc_equiv D D0 ->
  option_map norm_typedef (get_type (ast_to_type_system D) n) = option_map norm_typedef (get_type (ast_to_type_system D0) n)
  /\ option_map norm_directive (get_directive (ast_to_type_system D) n) = option_map norm_directive (get_directive (ast_to_type_system D0) n).
Proof.
  intros D D0 n [_ [Ht Hd]]. split; [exact (get_type_doc_equiv D D0 n (Ht n))|exact (get_directive_doc_equiv D D0 n (Hd n))].
Qed.
Print Assumptions C15_sdl_route_respects_doc_equiv.

(** The guard and the restriction to [vis_of M] are needed by the code as it is: *)
Theorem C15_shadow_root_refuted :
  exists M D Sj,
    dirs_ok M = true /\ implicit_roots_ok M = true /\ roots_ok M = true /\ desc_ok M = true
    /\ doc_equiv D (sdl_doc M) /\ parsed_positions D
    /\ json_route (introspect Full false M) = Ok Sj
    /\ root_type Sj Mutation = Some (s "Mutation")
    /\ root_type (ast_to_type_system D) Mutation = None.
Proof. exact shadow_root_refuted. Qed.
Print Assumptions C15_shadow_root_refuted.

Theorem C15_unreferenced_builtin_refuted :
  exists M D Sj,
    model_ok M = true /\ doc_equiv D (sdl_doc M) /\ parsed_positions D
    /\ json_route (introspect Full true M) = Ok Sj
    /\ get_type Sj (s "Float") = None
    /\ get_type (ast_to_type_system D) (s "Float") <> None.
Proof. exact unreferenced_builtin_refuted. Qed.
Print Assumptions C15_unreferenced_builtin_refuted.

Theorem C15_meta_types_refuted :
  exists M D Sj,
    model_ok M = true /\ doc_equiv D (sdl_doc M) /\ parsed_positions D
    /\ json_route (introspect Full true M) = Ok Sj
    /\ get_type Sj (s "__Schema") <> None
    /\ get_type (ast_to_type_system D) (s "__Schema") = None.
Proof. exact meta_types_refuted. Qed.
Print Assumptions C15_meta_types_refuted.
