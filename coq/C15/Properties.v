(** C15 — property theorems only.  Each is closed by [exact] of a lemma in Proofs*.v and followed by
    [Print Assumptions]. *)
From Coq Require Import Sorting.Permutation.
From V Require Import Base.Util Gql.Ast C15.Model C15.Spec C15.Proofs1 C15.Proofs2 C15.Proofs3 C15.Proofs4 C15.Proofs5 C15.Proofs C15.Reify C15.CheckBridge C15.CheckSim C15.CheckSim2 C15.CheckRespects C15.CheckExamples C15.EmitSim C15.EmitIface C15.EmitDen C15.EmitExamples C15.Corr C15.CorrProofs.

(** For every schema model M satisfying the guard, every key style and with or without the introspection types in
    the result: the JSON route accepts the standard introspection result of M, and the Schema it builds is
    observationally equal (description, root operation types as the checker resolves them, every compared type
    definition, every directive definition; modulo positions, default-value text and declaration order) to the Schema
    the SDL route builds from ANY document D that says what the SDL text of M says (up to positions, default-value
    literals and the order of definitions) and whose schema definitions carry parser positions. *)
Theorem C15_routes_agree : forall st meta M D,
  model_ok M = true ->
  doc_equiv D (sdl_doc M) ->
  parsed_positions D ->
  exists Sj, json_route (introspect st meta M) = Ok Sj /\ schema_equiv_on (vis_of M) Sj (ast_to_type_system D).
Proof. exact routes_agree. Qed.
Print Assumptions C15_routes_agree.

(** The order in which the introspection result lists its types is immaterial (any permutation of the standard
    listing, names distinct). *)
Theorem C15_routes_agree_any_order : forall st meta M D types,
  model_ok M = true ->
  Permutation types (listed_types meta M) ->
  nodup_str (map mt_name types) = true ->
  doc_equiv D (sdl_doc M) ->
  parsed_positions D ->
  exists Sj, json_route (introspect_of st types M) = Ok Sj /\ schema_equiv_on (vis_of M) Sj (ast_to_type_system D).
Proof. exact routes_agree_any_order. Qed.
Print Assumptions C15_routes_agree_any_order.

(** No guard: the JSON route never rejects a standard introspection result, and the optional keys of the
    result (absent or null) make no difference. *)
Theorem C15_json_route_total : forall st meta M, exists Sj, json_route (introspect st meta M) = Ok Sj.
Proof. exact json_route_total. Qed.
Print Assumptions C15_json_route_total.

Theorem C15_json_key_style_irrelevant : forall meta M,
  json_route (introspect Full meta M) = json_route (introspect Minimal meta M).
Proof. exact json_route_style_irrelevant. Qed.
Print Assumptions C15_json_key_style_irrelevant.

(** What [ast_to_type_system] lets one observe of a document does not depend on positions, default-value literals
    or the order of definitions. *)
Theorem C15_sdl_route_respects_doc_equiv : forall D D0 n,
  doc_equiv D D0 ->
  option_map norm_typedef (get_type (ast_to_type_system D) n) = option_map norm_typedef (get_type (ast_to_type_system D0) n)
  /\ option_map norm_directive (get_directive (ast_to_type_system D) n) = option_map norm_directive (get_directive (ast_to_type_system D0) n).
Proof.
  intros D D0 n [_ [Ht Hd]]. split; [exact (get_type_doc_equiv D D0 n (Ht n))|exact (get_directive_doc_equiv D D0 n (Hd n))].
Qed.
Print Assumptions C15_sdl_route_respects_doc_equiv.

(** On the JSON route the declaration printers work from ast_to_type_system (type_system_to_ast S).  For every Schema S
    whose table is keyed by definition name (both front ends guarantee it) that Schema has the same description, the
    same declared root operation types and, per name, the same type definition as S up to positions, default-value text
    and deprecations; it has no directive definitions. *)
Theorem C15_printer_schema_on_json_route : forall sc,
  keys_match sc ->
  let sc' := ast_to_type_system (type_system_to_ast sc) in
  option_map nval (sc_desc sc') = option_map nval (sc_desc sc)
  /\ (forall op, option_map nval (declared_root (nval (sc_roots sc')) op) = option_map nval (declared_root (nval (sc_roots sc)) op))
  /\ (forall n, option_map norm_typedef (get_type sc' n) = option_map (fun d => norm_typedef (strip_typedef d)) (get_type sc n))
  /\ (forall n, get_directive sc' n = None).
Proof. exact back_conversion. Qed.
Print Assumptions C15_printer_schema_on_json_route.

Theorem C15_front_ends_keys_match :
  (forall j sc, json_route j = Ok sc -> keys_match sc) /\ (forall D, keys_match (ast_to_type_system D)).
Proof. exact (conj json_route_keys_match ast_route_keys_match). Qed.
Print Assumptions C15_front_ends_keys_match.

(** Hence, under the hypotheses of C15_routes_agree, the type table the printers use on the JSON route is the SDL
    route's table with the deprecations removed (compared names, modulo positions and default-value text). *)
Theorem C15_printers_see_same_types : forall st meta M D,
  model_ok M = true -> doc_equiv D (sdl_doc M) -> parsed_positions D ->
  exists Sj, json_route (introspect st meta M) = Ok Sj /\
    forall n, vis_of M n = true ->
      option_map norm_typedef (get_type (ast_to_type_system (type_system_to_ast Sj)) n)
      = option_map (fun d => strip_typedef (norm_typedef d)) (get_type (ast_to_type_system D) n).
Proof. exact printers_see_same_types. Qed.
Print Assumptions C15_printers_see_same_types.

(** Bridge to C03's model of the operation checker (V.C03.Model, tied to crates/checker by C03's correspondence): the
    accessors through which that model reads a schema document S are the observations of [ast_to_type_system S] that
    [schema_equiv_on] compares — lookups, iteration order, root types — and the root decision at the head of its
    check_operation is [root_type]. *)
Theorem C15_checker_model_reads_schema : forall S,
  (forall n, option_map conv_td (V.C03.Model.get_type S n) = lookup n (sc_types (ast_to_type_system S)))
  /\ (forall n, option_map conv_dd (V.C03.Model.get_directive S n) = lookup n (sc_dirs (ast_to_type_system S)))
  /\ map convert_type_definition (V.C03.Model.iter_types S) = sc_types (ast_to_type_system S)
  /\ roots_rel (V.C03.Model.root_types S) (sc_roots (ast_to_type_system S)).
Proof.
  intros S. exact (conj (k_get_type_is_schema_lookup S) (conj (k_get_directive_is_schema_lookup S)
                  (conj (k_iter_types_is_schema_table S) (k_root_types_is_schema_roots S)))).
Qed.
Print Assumptions C15_checker_model_reads_schema.

(** First slice of check_respects_equiv: under the hypotheses of C15_routes_agree, C03's checker model run on the SDL
    document D rejects an operation at the root (exactly one diagnostic) when the JSON route's Schema has no root type for
    its kind, and otherwise proceeds with a root type definition that is, up to positions and default-value text, the one
    the JSON route's Schema holds under that name. *)
Theorem C15_root_decision_agrees : forall st meta M D,
  model_ok M = true -> doc_equiv D (sdl_doc M) -> parsed_positions D ->
  exists Sj, json_route (introspect st meta M) = Ok Sj /\
    forall fuel fm op,
      (root_type Sj (op_type op) = None -> exists e, V.C03.Model.check_operation fuel D fm op = [e])
      /\ (forall n, root_type Sj (op_type op) = Some n ->
            exists root, V.C03.Model.get_type D n = Some root
              /\ option_map norm_typedef (get_type Sj n) = Some (norm_typedef (nval (conv_td root)))
              /\ V.C03.Model.check_operation fuel D fm op =
                   V.C03.Model.check_directives D (op_vars op) (V.C03.Model.op_location (op_type op)) (op_dirs op)
                   ++ match op_vars op with Some vs => V.C03.Model.check_variables_definition D vs | None => [] end
                   ++ (if optype_eqb (op_type op) Subscription && Nat.ltb 1 (length (V.C03.Model.collect_response_keys fuel fm [] (op_sel op) []))
                       then [V.C03.Model.err0 V.C03.Model.SubscriptionMustHaveExactlyOneRootField (op_pos op)] else [])
                   ++ V.C03.Model.check_selection_set fuel D fm (op_vars op) [] root (op_sel op)).
Proof. exact root_decision_agrees. Qed.
Print Assumptions C15_root_decision_agrees.

(** Reification: every Schema whose tables are keyed by definition name (both front ends guarantee it) is, on every
    observation of [schema_equiv_on] and on every name, the Schema of the document [doc_of_schema sc] — which therefore
    stands for [sc] wherever a component takes a schema document (C03's checker model does). *)
Theorem C15_reify_equiv : forall sc,
  keys_match sc -> dir_keys_match sc ->
  schema_equiv_on (fun _ => true) (ast_to_type_system (doc_of_schema sc)) sc.
Proof. exact reify_equiv. Qed.
Print Assumptions C15_reify_equiv.

(** "Lookup-only" simulation, literal / argument / directive layer: C03's check_value reads the schema documents only
    through get_type on compared names; related lookups give the same diagnostics, message for message. *)
Theorem C15_check_value_respects_lookups : forall S1 S2 P vars,
  (forall n, P n = true -> orel td_rel (V.C03.Model.get_type S1 n) (V.C03.Model.get_type S2 n)) ->
  (forall n d p nm ds fs kw, P n = true -> V.C03.Model.get_type S1 n = Some (TDInput d p nm ds fs kw) -> inputs_ok P fs = true) ->
  forall v t1 t2, ty_rel t1 t2 -> ty_ok P t1 = true ->
    map V.C03.Model.e_msg (V.C03.Model.check_value S1 vars v t1) = map V.C03.Model.e_msg (V.C03.Model.check_value S2 vars v t2).
Proof. exact check_value_rel. Qed.
Print Assumptions C15_check_value_respects_lookups.

(** check_respects_equiv, general form: two schema documents whose Schemas are [schema_equiv_on P], the first closed
    under "mentions" on P, types outside P implementing nothing, give the same verdict of C03's checker model on every
    operation document that mentions compared names only.  (Below the root decision the lists of messages are equal;
    at the root an unavailable operation kind gets one diagnostic on each side, not necessarily the same one.) *)
Theorem C15_check_respects_equiv_docs : forall S1 S2 P D,
  schema_equiv_on P (ast_to_type_system S1) (ast_to_type_system S2) ->
  doc_closed_b P S1 = true -> implements_nothing_b P S1 = true -> implements_nothing_b P S2 = true ->
  P V.C03.Model.str_String = true ->
  (forall o n, root_type (ast_to_type_system S1) o = Some n -> P n = true) ->
  opdoc_ok P D = true ->
  (V.C03.Model.check_operation_document S1 D = [] <-> V.C03.Model.check_operation_document S2 D = []).
Proof. exact check_respects_equiv_docs. Qed.
Print Assumptions C15_check_respects_equiv_docs.

(** check_respects_equiv for the two routes: under the hypotheses of C15_routes_agree and the computable guard
    [sim_guard_b], the checker model accepts exactly the same operation documents (over the compared names: no unlisted
    built-in scalar, no introspection type) on the SDL document and on the Schema the JSON route built. *)
Theorem C15_check_respects_equiv : forall st meta M Dsdl,
  model_ok M = true -> doc_equiv Dsdl (sdl_doc M) -> parsed_positions Dsdl ->
  exists Sj, json_route (introspect st meta M) = Ok Sj /\
    (sim_guard_b (vis_of M) Dsdl (doc_of_schema Sj) = true ->
     forall D, opdoc_ok (vis_of M) D = true ->
       (V.C03.Model.check_operation_document Dsdl D = [] <-> V.C03.Model.check_operation_document (doc_of_schema Sj) D = [])).
Proof. exact check_respects_equiv. Qed.
Print Assumptions C15_check_respects_equiv.

(** ... established for every generated case on which the model reproduces the implementation ([agree] evaluates the guard). *)
Theorem C15_certified_check : forall st meta M D J out_sdl out_json docs,
  agree (CRoutes false true st meta [] M D J out_sdl out_json docs) = true ->
  exists Sj, out_json = Ok Sj /\
    forall doc, opdoc_ok (vis_of M) doc = true ->
      (V.C03.Model.check_operation_document D doc = [] <-> V.C03.Model.check_operation_document (doc_of_schema Sj) doc = []).
Proof. exact certified_check. Qed.
Print Assumptions C15_certified_check.

(** emit_respects_equiv, type level, against builder-C10's model of the schema declaration printer
    (V.C10.Model.type_member = what TypeDefinition::print_type computes before text is written).  Under the hypotheses of
    C15_routes_agree, for every compared name whose definition is not an interface, in every namespace and for every
    scalar configuration on which the two printing contexts agree (same identifier bag, same mapping of that name): the
    declaration computed from type_system_to_ast of the JSON route's Schema — what `generate` prints on that route — and
    from the SDL document have the same outcome, the same local alias and the same TSType up to key positions and JSDoc
    text (descriptions, @deprecated). *)
Theorem C15_emit_respects_equiv : forall st meta M Dsdl,
  model_ok M = true -> doc_equiv Dsdl (sdl_doc M) -> parsed_positions Dsdl ->
  exists Sj, json_route (introspect st meta M) = Ok Sj /\
    let DA := type_system_to_ast Sj in
    forall o tg,
      bag_equiv_b (V.C10.Model.c_bag (V.C10.Model.make_ctx o DA tg)) (V.C10.Model.c_bag (V.C10.Model.make_ctx o Dsdl tg)) = true ->
      forall n tA tD, vis_of M n = true ->
        Ts.TsDen.assoc n (V.C10.Model.c_scalars (V.C10.Model.make_ctx o DA tg)) = Ts.TsDen.assoc n (V.C10.Model.c_scalars (V.C10.Model.make_ctx o Dsdl tg)) ->
        V.C10.Model.get_type DA n = Some tA -> V.C10.Model.get_type Dsdl n = Some tD ->
        emit_closed (vis_of M) tA = true ->
        (forall d p nm i ds fs k, tA <> TDInterface d p nm i ds fs k) ->
        res_shape (V.C10.Model.type_member (V.C10.Model.make_ctx o DA tg) tA) = res_shape (V.C10.Model.type_member (V.C10.Model.make_ctx o Dsdl tg) tD).
Proof. exact emit_respects_equiv. Qed.
Print Assumptions C15_emit_respects_equiv.

(** ... and for interfaces.  An interface is printed as the union of its implementers in the iteration order of the
    document's type table, which differs between the routes; the declarations have the same outcome, the same local alias
    and are unions over the SAME SET of members ([iface_rel]).  Uses the characterisation of C10's iter_types
    (x_in_iter_types) and the computable guard that object types outside the compared names implement nothing. *)
Theorem C15_emit_respects_equiv_interface : forall st meta M Dsdl,
  model_ok M = true -> doc_equiv Dsdl (sdl_doc M) -> parsed_positions Dsdl ->
  exists Sj, json_route (introspect st meta M) = Ok Sj /\
    let DA := type_system_to_ast Sj in
    forall o tg,
      bag_equiv_b (V.C10.Model.c_bag (V.C10.Model.make_ctx o DA tg)) (V.C10.Model.c_bag (V.C10.Model.make_ctx o Dsdl tg)) = true ->
      objects_outside_b (vis_of M) DA = true -> objects_outside_b (vis_of M) Dsdl = true ->
      forall n d1 p1 n1 i1 ds1 f1 k1 d2 p2 n2 i2 ds2 f2 k2, vis_of M n = true ->
        V.C10.Model.get_type DA n = Some (TDInterface d1 p1 n1 i1 ds1 f1 k1) ->
        V.C10.Model.get_type Dsdl n = Some (TDInterface d2 p2 n2 i2 ds2 f2 k2) ->
        iface_rel (V.C10.Model.type_member (V.C10.Model.make_ctx o DA tg) (TDInterface d1 p1 n1 i1 ds1 f1 k1))
                  (V.C10.Model.type_member (V.C10.Model.make_ctx o Dsdl tg) (TDInterface d2 p2 n2 i2 ds2 f2 k2)).
Proof. exact emit_respects_equiv_interface. Qed.
Print Assumptions C15_emit_respects_equiv_interface.

(** emit_respects_equiv at the level of denotations, by builder-C10's theorem C10_alias_exact_iff (used twice, once per
    document; its guards are [wf_schema o doc] and [schema_decls o doc = Ok nss], [applicable doc t T], and the alias being
    exported) and the lookup-only lemma for C10's reference denotation (ref_respects_lookups in EmitDen.v): under the
    hypotheses of C15_routes_agree, the alias the schema declaration exports for a compared type T in the namespace of
    target t admits exactly the same values on the JSON route (printing type_system_to_ast of its Schema) and on the SDL
    route — all six kinds, interfaces included, all four namespaces.  [wf_schema o DA] excludes type names starting with
    `__`, i.e. an introspection result that lists the introspection types (known finding). *)
Theorem C15_alias_denotations_agree : forall st meta M Dsdl,
  model_ok M = true -> doc_equiv Dsdl (sdl_doc M) -> parsed_positions Dsdl ->
  exists Sj, json_route (introspect st meta M) = Ok Sj /\
    let DA := type_system_to_ast Sj in
    forall o t nssA nssD T bodyA bodyD,
      V.C10.Spec.wf_schema o DA = true -> V.C10.Spec.wf_schema o Dsdl = true ->
      V.C10.Model.schema_decls o DA = V.C10.Model.Ok nssA -> V.C10.Model.schema_decls o Dsdl = V.C10.Model.Ok nssD ->
      doc_emit_closed_b (vis_of M) DA = true ->
      objects_outside_b (vis_of M) DA = true -> objects_outside_b (vis_of M) Dsdl = true ->
      vis_of M T = true -> V.C10.Spec.applicable DA t T = true ->
      V.C10.Spec.alias_of (V.C10.Spec.namespace_of nssA t) T = Some bodyA ->
      V.C10.Spec.alias_of (V.C10.Spec.namespace_of nssD t) T = Some bodyD ->
      forall v,
        (Ts.TsDen.In_type (V.C10.Spec.ns_env (V.C10.Spec.namespace_of nssA t)) bodyA v <->
         Ts.TsDen.In_type (V.C10.Spec.ns_env (V.C10.Spec.namespace_of nssD t)) bodyD v)
        /\ (Ts.TsDen.NotIn_type (V.C10.Spec.ns_env (V.C10.Spec.namespace_of nssA t)) bodyA v <->
            Ts.TsDen.NotIn_type (V.C10.Spec.ns_env (V.C10.Spec.namespace_of nssD t)) bodyD v).
Proof. exact alias_denotations_agree. Qed.
Print Assumptions C15_alias_denotations_agree.

(** ... established for every generated case whose introspection result does not list the introspection types and on which
    the model reproduces the implementation ([agree] evaluates the guards of C15_alias_denotations_agree with [guard_opts]). *)
Theorem C15_certified_alias_denotations : forall st M D J out_sdl out_json docs,
  agree (CRoutes false true st false [] M D J out_sdl out_json docs) = true ->
  exists Sj, out_json = Ok Sj /\
    forall t nssA nssD T bodyA bodyD,
      V.C10.Model.schema_decls guard_opts (type_system_to_ast Sj) = V.C10.Model.Ok nssA ->
      V.C10.Model.schema_decls guard_opts D = V.C10.Model.Ok nssD ->
      vis_of M T = true -> V.C10.Spec.applicable (type_system_to_ast Sj) t T = true ->
      V.C10.Spec.alias_of (V.C10.Spec.namespace_of nssA t) T = Some bodyA ->
      V.C10.Spec.alias_of (V.C10.Spec.namespace_of nssD t) T = Some bodyD ->
      forall v,
        (Ts.TsDen.In_type (V.C10.Spec.ns_env (V.C10.Spec.namespace_of nssA t)) bodyA v <->
         Ts.TsDen.In_type (V.C10.Spec.ns_env (V.C10.Spec.namespace_of nssD t)) bodyD v)
        /\ (Ts.TsDen.NotIn_type (V.C10.Spec.ns_env (V.C10.Spec.namespace_of nssA t)) bodyA v <->
            Ts.TsDen.NotIn_type (V.C10.Spec.ns_env (V.C10.Spec.namespace_of nssD t)) bodyD v).
Proof. exact certified_alias_denotations. Qed.
Print Assumptions C15_certified_alias_denotations.

(** The boolean comparison the correspondence run evaluates on the implementation's two Schema values
    (Corr.holds on a CRoutes case) implies the equivalence stated above. *)
Theorem C15_schema_equiv_b_sound : forall vis a b, schema_equiv_b vis a b = true -> schema_equiv_on vis a b.
Proof. exact schema_equiv_b_sound. Qed.
Print Assumptions C15_schema_equiv_b_sound.

(** The boolean form of [doc_equiv] evaluated per case is sound. *)
Theorem C15_doc_equiv_b_sound : forall D D0, doc_equiv_b D D0 = true -> doc_equiv D D0.
Proof. exact doc_equiv_b_sound. Qed.
Print Assumptions C15_doc_equiv_b_sound.

(** A certified case: when [agree] evaluates to true on a both-routes case (the model reproduces the two Schema values
    the implementation produced for SDL document D and JSON tree J, J is the introspection result of M, D says what the
    SDL of M says, M satisfies the guard), then the implementation's own two outputs are equivalent — by
    C15_routes_agree, not by comparing them. *)
Theorem C15_certified_case : forall st meta M D J out_sdl out_json docs,
  agree (CRoutes false true st meta [] M D J out_sdl out_json docs) = true ->
  exists Sj, out_json = Ok Sj /\ schema_equiv_on (vis_of M) Sj out_sdl.
Proof. exact certified_case. Qed.
Print Assumptions C15_certified_case.

(** The restriction to [vis_of M] is needed by the code as it is: *)
(** regression witness of the repaired root-type defect: a type named Mutation that is not a root exists on both
    routes, and neither route resolves a mutation operation to it *)
Theorem C15_shadow_root_agrees :
  exists D Sj,
    doc_equiv D (sdl_doc shadow_model) /\ parsed_positions D
    /\ json_route (introspect Full false shadow_model) = Ok Sj
    /\ get_type Sj (s "Mutation") <> None
    /\ root_type Sj Mutation = None
    /\ root_type (ast_to_type_system D) Mutation = None.
Proof. exact shadow_root_agrees. Qed.
Print Assumptions C15_shadow_root_agrees.

Theorem C15_unreferenced_builtin_refuted :
  exists M D Sj,
    model_ok M = true /\ doc_equiv D (sdl_doc M) /\ parsed_positions D
    /\ json_route (introspect Full true M) = Ok Sj
    /\ get_type Sj (s "Float") = None
    /\ get_type (ast_to_type_system D) (s "Float") <> None.
Proof. exact unreferenced_builtin_refuted. Qed.
Print Assumptions C15_unreferenced_builtin_refuted.

Theorem C15_meta_types_refuted :
  exists M D Sj,
    model_ok M = true /\ doc_equiv D (sdl_doc M) /\ parsed_positions D
    /\ json_route (introspect Full true M) = Ok Sj
    /\ get_type Sj (s "__Schema") <> None
    /\ get_type (ast_to_type_system D) (s "__Schema") = None.
Proof. exact meta_types_refuted. Qed.
Print Assumptions C15_meta_types_refuted.
