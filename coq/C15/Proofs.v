(** C15 proofs, part 4: consequences, refutations of the unguarded statement, non-vacuity. *)
From V Require Import Base.Util Gql.Ast C15.Model C15.Spec C15.Proofs1 C15.Proofs2 C15.Proofs3.

(* ------------------------------------------------------------------------------------------ *)
(** * the JSON route accepts every standard introspection result, whatever the key style *)

Theorem json_route_total st meta M : exists Sj, json_route (introspect st meta M) = Ok Sj.
Proof. eexists. apply json_route_introspect_of. Qed.

Theorem json_route_style_irrelevant meta M : json_route (introspect Full meta M) = json_route (introspect Minimal meta M).
Proof. unfold introspect. now rewrite !json_route_introspect_of. Qed.

(* ------------------------------------------------------------------------------------------ *)
(** * documents with parser-like positions *)

(** give every schema definition a non built-in position (what the parser does); nothing else changes *)
Definition reposition_sd (sd : schemadef) : schemadef :=
  mkSchemaDef (sd_desc sd) (mkPos 0 0 0 false) (sd_dirs sd) (sd_ops sd).
Definition reposition (D : tsdoc) : tsdoc :=
  map (fun d => match d with TSSchema sd => TSSchema (reposition_sd sd) | _ => d end) D.

Lemma reposition_types n D : find_typedef n (reposition D) = find_typedef n D.
Proof.
  induction D as [|d D IH]; cbn [reposition map find_typedef]; [reflexivity|]. fold (reposition D).
  destruct d as [sd|t|dd|se|te]; auto. destruct (str_eqb n (iname (typedef_name t))); auto.
Qed.
Lemma reposition_dirs n D : find_dirdef n (reposition D) = find_dirdef n D.
Proof.
  induction D as [|d D IH]; cbn [reposition map find_dirdef]; [reflexivity|]. fold (reposition D).
  destruct d as [sd|t|dd|se|te]; auto. destruct (str_eqb n (iname (dd_name dd))); auto.
Qed.
Lemma reposition_schema_defs D : schema_defs (reposition D) = map reposition_sd (schema_defs D).
Proof.
  induction D as [|d D IH]; cbn [reposition map schema_defs]; [reflexivity|]. fold (reposition D).
  destruct d as [sd|t|dd|se|te]; cbn [map]; now rewrite ?IH.
Qed.
Lemma doc_equiv_reposition D : doc_equiv (reposition D) D /\ parsed_positions (reposition D).
Proof.
  unfold doc_equiv, parsed_positions. rewrite reposition_schema_defs. repeat split.
  - rewrite map_map. apply map_ext. reflexivity.
  - intros n. now rewrite reposition_types.
  - intros n. now rewrite reposition_dirs.
  - apply Forall_forall. intros sd Hin. apply in_map_iff in Hin as [x [<- _]]. reflexivity.
Qed.

(* ------------------------------------------------------------------------------------------ *)
(** * non-vacuity: a model with every kind of type satisfies the guard *)

Definition ex_model : smodel :=
  mkModel (Some (s "the schema"))
    [ mkMType (s "Q") (Some (s "root")) (MObject []
        [ mkMField (s "node") None [mkMArg (s "id") (Some (s "which")) (GNonNull (GNamed (s "ID"))) None None;
                                    mkMArg (s "n") None (GNamed (s "Int")) (Some (s "3")) (Some None)]
                   (GNamed (s "Node")) (Some (Some (s "old")));
          mkMField (s "all") None [mkMArg (s "f") None (GNamed (s "Filter")) None None]
                   (GNonNull (GList (GNonNull (GNamed (s "Item"))))) None;
          mkMField (s "u") None [] (GNamed (s "U")) None ]);
      mkMType (s "Node") None (MInterface [] [mkMField (s "id") None [] (GNonNull (GNamed (s "ID"))) None]);
      mkMType (s "Item") None (MObject [s "Node"]
        [ mkMField (s "id") None [] (GNonNull (GNamed (s "ID"))) None;
          mkMField (s "color") (Some (s "c")) [] (GNamed (s "Color")) (Some None);
          mkMField (s "at") None [] (GNamed (s "Date")) None ]);
      mkMType (s "U") None (MUnion [s "Item"]);
      mkMType (s "Color") None (MEnum [mkMVal (s "RED") None None; mkMVal (s "GREEN") (Some (s "g")) (Some (Some (s "use RED")))]);
      mkMType (s "Filter") None (MInput [mkMArg (s "colors") None (GList (GNamed (s "Color"))) (Some (s "[RED]")) None;
                                          mkMArg (s "sub") None (GNamed (s "Filter")) None (Some (Some (s "flat")))]);
      mkMType (s "Date") (Some (s "a date")) MScalar;
      mkMType (s "M") None (MObject [] [mkMField (s "touch") None [] (GNamed (s "Boolean")) None]) ]
    [ mkMDir (s "tag") (Some (s "d")) [mkMArg (s "name") None (GNonNull (GNamed (s "String"))) None None] true [s "FIELD"; s "QUERY"] ]
    (s "Q") (Some (s "M")) None true.

Example ex_model_ok : model_ok ex_model = true.
Proof. reflexivity. Qed.

Example routes_agree_instance :
  exists Sj, json_route (introspect Minimal true ex_model) = Ok Sj
             /\ schema_equiv_on (vis_of ex_model) Sj (ast_to_type_system (reposition (sdl_doc ex_model))).
Proof.
  destruct (doc_equiv_reposition (sdl_doc ex_model)) as [He Hp].
  exact (routes_agree Minimal true ex_model _ ex_model_ok He Hp).
Qed.

(** ... and the compared names are not trivial: every type of the model and the referenced built-in scalars *)
Example ex_model_vis :
  forallb (vis_of ex_model) (map mt_name (m_types ex_model) ++ [s "ID"; s "Int"; s "String"; s "Boolean"]) = true
  /\ vis_of ex_model (s "Float") = false /\ vis_of ex_model (s "__Type") = false.
Proof. repeat split; reflexivity. Qed.

(* ------------------------------------------------------------------------------------------ *)
(** * the unguarded statement is false for the current code *)

(** (regression, formerly a refutation) a schema definition that leaves `mutation` out while a type is called
    Mutation: before the fix "a schema loaded from introspection JSON has explicit root types" the JSON route resolved
    mutation operations to that type (its root node is built-in) while the SDL route did not.  The model satisfies the
    guard now and both routes agree that the operation kind is unavailable. *)
Definition shadow_model : smodel :=
  mkModel None
    [ mkMType (s "Query") None (MObject [] [mkMField (s "a") None [] (GNamed (s "Int")) None]);
      mkMType (s "Mutation") None (MObject [] [mkMField (s "a") None [] (GNamed (s "Int")) None]) ]
    [] (s "Query") None None true.

Example shadow_model_ok : model_ok shadow_model = true.
Proof. reflexivity. Qed.

Lemma shadow_root_agrees :
  exists D Sj,
    doc_equiv D (sdl_doc shadow_model) /\ parsed_positions D
    /\ json_route (introspect Full false shadow_model) = Ok Sj
    /\ get_type Sj (s "Mutation") <> None
    /\ root_type Sj Mutation = None
    /\ root_type (ast_to_type_system D) Mutation = None.
Proof.
  exists (reposition (sdl_doc shadow_model)), (json_schema (listed_types false shadow_model) shadow_model).
  destruct (doc_equiv_reposition (sdl_doc shadow_model)) as [He Hp].
  repeat match goal with |- _ /\ _ => split end; try assumption; try apply json_route_introspect_of; try reflexivity; discriminate.
Qed.

(** (2) a built-in scalar the schema does not reference exists on the SDL route only *)
Definition tiny_model : smodel :=
  mkModel None [ mkMType (s "Query") None (MObject [] [mkMField (s "a") None [] (GNamed (s "String")) None]) ]
    [] (s "Query") None None false.

Lemma unreferenced_builtin_refuted :
  exists M D Sj,
    model_ok M = true /\ doc_equiv D (sdl_doc M) /\ parsed_positions D
    /\ json_route (introspect Full true M) = Ok Sj
    /\ get_type Sj (s "Float") = None
    /\ get_type (ast_to_type_system D) (s "Float") <> None.
Proof.
  exists tiny_model, (reposition (sdl_doc tiny_model)), (json_schema (listed_types true tiny_model) tiny_model).
  destruct (doc_equiv_reposition (sdl_doc tiny_model)) as [He Hp].
  repeat match goal with |- _ /\ _ => split end; try assumption; try apply json_route_introspect_of; try reflexivity; discriminate.
Qed.

(** (3) the introspection types listed by the result are ordinary schema types on the JSON route *)
Lemma meta_types_refuted :
  exists M D Sj,
    model_ok M = true /\ doc_equiv D (sdl_doc M) /\ parsed_positions D
    /\ json_route (introspect Full true M) = Ok Sj
    /\ get_type Sj (s "__Schema") <> None
    /\ get_type (ast_to_type_system D) (s "__Schema") = None.
Proof.
  exists tiny_model, (reposition (sdl_doc tiny_model)), (json_schema (listed_types true tiny_model) tiny_model).
  destruct (doc_equiv_reposition (sdl_doc tiny_model)) as [He Hp].
  repeat match goal with |- _ /\ _ => split end; try assumption; try apply json_route_introspect_of; try reflexivity; discriminate.
Qed.
