(** C15 — proofs (in progress). *)
From V Require Import Base.Util Gql.Ast C15.Model C15.Spec.
