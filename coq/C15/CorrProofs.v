(** C15 — the boolean hypotheses the correspondence run evaluates per case ([doc_equiv_b], [parsed_positions_b] in
    [Corr.agree]) imply the hypotheses of C15_routes_agree. *)
From V Require Import Base.Util Gql.Ast Writer.Wop C15.Model C15.Spec C15.Proofs1 C15.Proofs2 C15.Proofs3 C15.Proofs5 C15.Reify C15.CheckRespects C15.EmitSim C15.EmitIface C15.EmitDen C15.Corr.

Definition routes_agree_for_corr := routes_agree.

Lemma ident_eqb_eq a b : ident_eqb a b = true -> a = b.
Proof.
  destruct a as [x p], b as [y q]. unfold ident_eqb. cbn [iname ipos]. intros H.
  apply Bool.andb_true_iff in H as [H1 H2]. apply str_eqb_eq in H1. apply pos_eqb_eq in H2. congruence.
Qed.
Lemma ty_eqb_eq a b : ty_eqb a b = true -> a = b.
Proof.
  revert b. induction a as [n|t IH|p t IH]; intros [m|u|q u]; cbn [ty_eqb]; intros H; try discriminate.
  - f_equal. now apply ident_eqb_eq.
  - f_equal. now apply IH.
  - apply Bool.andb_true_iff in H as [H1 H2]. apply pos_eqb_eq in H1. f_equal; [assumption|now apply IH].
Qed.

Lemma value_eqb_eq : forall a b, value_eqb a b = true -> a = b.
Proof.
  fix IH 1. intros a b. destruct a as [x p|p x|p x|p x|p x|p|p x|p vs|p fs], b as [y q|q y|q y|q y|q y|q|q y|q ws|q gs];
    cbn [value_eqb]; intros H; try discriminate.
  - apply Bool.andb_true_iff in H as [H1 H2]. apply str_eqb_eq in H1. apply pos_eqb_eq in H2. congruence.
  - apply Bool.andb_true_iff in H as [H1 H2]. apply str_eqb_eq in H2. apply pos_eqb_eq in H1. congruence.
  - apply Bool.andb_true_iff in H as [H1 H2]. apply str_eqb_eq in H2. apply pos_eqb_eq in H1. congruence.
  - apply Bool.andb_true_iff in H as [H1 H2]. apply str_eqb_eq in H2. apply pos_eqb_eq in H1. congruence.
  - apply Bool.andb_true_iff in H as [H1 H2]. apply Bool.eqb_prop in H2. apply pos_eqb_eq in H1. congruence.
  - apply pos_eqb_eq in H. congruence.
  - apply Bool.andb_true_iff in H as [H1 H2]. apply str_eqb_eq in H2. apply pos_eqb_eq in H1. congruence.
  - apply Bool.andb_true_iff in H as [H1 H2]. apply pos_eqb_eq in H1. subst q. f_equal.
    revert ws H2. induction vs as [|u r IHr]; intros [|w r2] H2; try discriminate; [reflexivity|].
    apply Bool.andb_true_iff in H2 as [Hu Hr]. f_equal; [now apply IH|now apply IHr].
  - apply Bool.andb_true_iff in H as [H1 H2]. apply pos_eqb_eq in H1. subst q. f_equal.
    revert gs H2. induction fs as [|[i u] r IHr]; intros [|[j w] r2] H2; try discriminate; [reflexivity|].
    apply Bool.andb_true_iff in H2 as [Hu Hr]. apply Bool.andb_true_iff in Hu as [Hi Hu].
    apply ident_eqb_eq in Hi. subst j. f_equal; [f_equal; now apply IH|now apply IHr].
Qed.

Lemma pair_list_eqb_eq {A B} (ea : A -> A -> bool) (eb : B -> B -> bool) :
  (forall x y, ea x y = true -> x = y) -> (forall x y, eb x y = true -> x = y) ->
  forall l m : list (A * B), list_eqb (fun x y => ea (fst x) (fst y) && eb (snd x) (snd y)) l m = true -> l = m.
Proof.
  intros Ha Hb l m. apply list_eqb_eq. intros [x1 x2] [y1 y2] _ E. cbn [fst snd] in E.
  apply Bool.andb_true_iff in E as [E1 E2]. apply Ha in E1. apply Hb in E2. congruence.
Qed.
Lemma args_eqb_eq a b : args_eqb a b = true -> a = b.
Proof.
  destruct a as [p l], b as [q m]. unfold args_eqb. cbn [args_pos args_list]. intros H.
  apply Bool.andb_true_iff in H as [H1 H2]. apply pos_eqb_eq in H1. subst q. f_equal.
  now apply (pair_list_eqb_eq ident_eqb value_eqb ident_eqb_eq value_eqb_eq).
Qed.
Lemma dir_eqb_eq a b : dir_eqb a b = true -> a = b.
Proof.
  destruct a as [p n a], b as [q m b]. unfold dir_eqb. cbn [dir_pos dir_name dir_args]. intros H.
  apply Bool.andb_true_iff in H as [H H3]. apply Bool.andb_true_iff in H as [H1 H2].
  apply pos_eqb_eq in H1. apply ident_eqb_eq in H2. apply (option_eqb_eq _ _ _ args_eqb_eq) in H3. congruence.
Qed.
Lemma dirs_eqb_eq a b : list_eqb dir_eqb a b = true -> a = b.
Proof. apply list_eqb_eq. intros x y _. apply dir_eqb_eq. Qed.
Lemma desc_eqb_eq a b : desc_eqb a b = true -> a = b.
Proof.
  destruct a as [p x], b as [q y]. unfold desc_eqb. cbn [desc_pos desc_value]. intros H.
  apply Bool.andb_true_iff in H as [H1 H2]. apply pos_eqb_eq in H1. apply str_eqb_eq in H2. congruence.
Qed.
Lemma kw_eqb_eq a b : kw_eqb a b = true -> a = b.
Proof.
  destruct a as [x p], b as [y q]. unfold kw_eqb. cbn [kw_name kw_pos]. intros H.
  apply Bool.andb_true_iff in H as [H1 H2]. apply pos_eqb_eq in H2. apply str_eqb_eq in H1. congruence.
Qed.
Lemma idents_eqb_eq a b : list_eqb ident_eqb a b = true -> a = b.
Proof. apply list_eqb_eq. intros x y _. apply ident_eqb_eq. Qed.

Lemma inputval_eqb_eq a b : inputval_eqb a b = true -> a = b.
Proof.
  destruct a as [a1 a2 a3 a4 a5 a6], b as [b1 b2 b3 b4 b5 b6]. unfold inputval_eqb.
  cbn [iv_desc iv_pos iv_name iv_type iv_default iv_dirs]. intros H.
  apply Bool.andb_true_iff in H as [H H6]. apply Bool.andb_true_iff in H as [H H5]. apply Bool.andb_true_iff in H as [H H4].
  apply Bool.andb_true_iff in H as [H H3]. apply Bool.andb_true_iff in H as [H1 H2].
  apply (option_eqb_eq _ _ _ desc_eqb_eq) in H1. apply pos_eqb_eq in H2. apply ident_eqb_eq in H3. apply ty_eqb_eq in H4.
  apply (option_eqb_eq _ _ _ value_eqb_eq) in H5. apply dirs_eqb_eq in H6. congruence.
Qed.
Lemma inputvals_eqb_eq a b : list_eqb inputval_eqb a b = true -> a = b.
Proof. apply list_eqb_eq. intros x y _. apply inputval_eqb_eq. Qed.
Lemma fielddef_eqb_eq a b : fielddef_eqb a b = true -> a = b.
Proof.
  destruct a as [a1 a2 a3 a4 a5], b as [b1 b2 b3 b4 b5]. unfold fielddef_eqb. cbn [fd_desc fd_name fd_args fd_type fd_dirs]. intros H.
  apply Bool.andb_true_iff in H as [H H5]. apply Bool.andb_true_iff in H as [H H4]. apply Bool.andb_true_iff in H as [H H3].
  apply Bool.andb_true_iff in H as [H1 H2].
  apply (option_eqb_eq _ _ _ desc_eqb_eq) in H1. apply ident_eqb_eq in H2. apply (option_eqb_eq _ _ _ inputvals_eqb_eq) in H3.
  apply ty_eqb_eq in H4. apply dirs_eqb_eq in H5. congruence.
Qed.
Lemma enumval_eqb_eq a b : enumval_eqb a b = true -> a = b.
Proof.
  destruct a as [a1 a2 a3], b as [b1 b2 b3]. unfold enumval_eqb. cbn [ev_desc ev_name ev_dirs]. intros H.
  apply Bool.andb_true_iff in H as [H H3]. apply Bool.andb_true_iff in H as [H1 H2].
  apply (option_eqb_eq _ _ _ desc_eqb_eq) in H1. apply ident_eqb_eq in H2. apply dirs_eqb_eq in H3. congruence.
Qed.

Ltac split_andb := repeat match goal with E : _ && _ = true |- _ => apply Bool.andb_true_iff in E as [? ?] end.
Ltac eqb_to_eq :=
  repeat match goal with
         | E : option_eqb desc_eqb _ _ = true |- _ => apply (option_eqb_eq _ _ _ desc_eqb_eq) in E
         | E : pos_eqb _ _ = true |- _ => apply pos_eqb_eq in E
         | E : ident_eqb _ _ = true |- _ => apply ident_eqb_eq in E
         | E : kw_eqb _ _ = true |- _ => apply kw_eqb_eq in E
         | E : list_eqb dir_eqb _ _ = true |- _ => apply dirs_eqb_eq in E
         | E : list_eqb ident_eqb _ _ = true |- _ => apply idents_eqb_eq in E
         | E : list_eqb inputval_eqb _ _ = true |- _ => apply inputvals_eqb_eq in E
         | E : list_eqb fielddef_eqb _ _ = true |- _ => apply (list_eqb_eq _ _ _ (fun x y _ => fielddef_eqb_eq x y)) in E
         | E : list_eqb enumval_eqb _ _ = true |- _ => apply (list_eqb_eq _ _ _ (fun x y _ => enumval_eqb_eq x y)) in E
         | E : option_eqb (list_eqb inputval_eqb) _ _ = true |- _ => apply (option_eqb_eq _ _ _ inputvals_eqb_eq) in E
         | E : option_eqb ident_eqb _ _ = true |- _ => apply (option_eqb_eq _ _ _ ident_eqb_eq) in E
         end.

Lemma typedef_eqb_eq a b : typedef_eqb a b = true -> a = b.
Proof. destruct a, b; cbn [typedef_eqb]; intros H; try discriminate; split_andb; eqb_to_eq; congruence. Qed.
Lemma dirdef_eqb_eq a b : dirdef_eqb a b = true -> a = b.
Proof.
  destruct a as [a1 a2 a3 a4 a5 a6 a7], b as [b1 b2 b3 b4 b5 b6 b7]. unfold dirdef_eqb.
  cbn [dd_desc dd_pos dd_name dd_args dd_repeatable dd_locs dd_kw]. intros H. split_andb. eqb_to_eq. congruence.
Qed.
Lemma schemadef_eqb_eq a b : schemadef_eqb a b = true -> a = b.
Proof.
  destruct a as [a1 a2 a3 a4], b as [b1 b2 b3 b4]. unfold schemadef_eqb. cbn [sd_desc sd_pos sd_dirs sd_ops]. intros H.
  split_andb. eqb_to_eq.
  match goal with E : list_eqb _ a4 b4 = true |- _ =>
    apply (pair_list_eqb_eq optype_eqb ident_eqb) in E end; [congruence| |apply ident_eqb_eq].
  intros o o' E. destruct o, o'; try discriminate; reflexivity.
Qed.

Lemma find_typedef_not_named n D : ~ In n (doc_type_names D) -> find_typedef n D = None.
Proof.
  induction D as [|d D IH]; cbn [doc_type_names find_typedef]; [reflexivity|].
  destruct d as [sd|t|dd|se|te]; auto. cbn [In]. intros H.
  destruct (str_eqb n (iname (typedef_name t))) eqn:E; [apply str_eqb_eq in E; subst; tauto|]. apply IH. tauto.
Qed.
Lemma find_dirdef_not_named n D : ~ In n (doc_dir_names D) -> find_dirdef n D = None.
Proof.
  induction D as [|d D IH]; cbn [doc_dir_names find_dirdef]; [reflexivity|].
  destruct d as [sd|t|dd|se|te]; auto. cbn [In]. intros H.
  destruct (str_eqb n (iname (dd_name dd))) eqn:E; [apply str_eqb_eq in E; subst; tauto|]. apply IH. tauto.
Qed.

Theorem doc_equiv_b_sound D D0 : doc_equiv_b D D0 = true -> doc_equiv D D0.
Proof.
  unfold doc_equiv_b, doc_equiv. intros H.
  apply Bool.andb_true_iff in H as [H Hd]. apply Bool.andb_true_iff in H as [Hs Ht].
  rewrite forallb_forall in Ht, Hd. split; [|split].
  - apply (list_eqb_eq _ _ _ (fun x y _ => schemadef_eqb_eq x y)). assumption.
  - intros n. destruct (in_dec_str n (doc_type_names D ++ doc_type_names D0)) as [Hin|Hn].
    + apply (option_eqb_eq _ _ _ typedef_eqb_eq). now apply Ht.
    + rewrite !find_typedef_not_named; [reflexivity| |]; intros Hin; apply Hn, in_or_app; tauto.
  - intros n. destruct (in_dec_str n (doc_dir_names D ++ doc_dir_names D0)) as [Hin|Hn].
    + apply (option_eqb_eq _ _ _ dirdef_eqb_eq). now apply Hd.
    + rewrite !find_dirdef_not_named; [reflexivity| |]; intros Hin; apply Hn, in_or_app; tauto.
Qed.

Theorem parsed_positions_b_sound D : parsed_positions_b D = true -> parsed_positions D.
Proof.
  unfold parsed_positions_b, parsed_positions. rewrite forallb_forall, Forall_forall. intros H sd Hin.
  apply Bool.negb_true_iff. now apply H.
Qed.

(** what a [CRoutes] case on which [agree] evaluates to true establishes: the implementation's two outputs are the
    model's, and the model's are equivalent by C15_routes_agree whenever the harness claims the guard *)
Theorem agree_routes_gives_hypotheses st meta M D J out_sdl out_json docs :
  agree (CRoutes false true st meta [] M D J out_sdl out_json docs) = true ->
  model_ok M = true /\ doc_equiv D (sdl_doc M) /\ parsed_positions D.
Proof.
  cbn [agree orb]. intros H. split_andb.
  repeat split.
  - match goal with E : Bool.eqb (model_ok M) true = true |- _ => apply Bool.eqb_prop in E; exact E end.
  - match goal with E : doc_equiv_b D (sdl_doc M) = true |- _ => apply doc_equiv_b_sound in E; destruct E as [E1 [E2 E3]]; exact E1 end.
  - match goal with E : doc_equiv_b D (sdl_doc M) = true |- _ => apply doc_equiv_b_sound in E; destruct E as [E1 [E2 E3]]; exact E2 end.
  - match goal with E : doc_equiv_b D (sdl_doc M) = true |- _ => apply doc_equiv_b_sound in E; destruct E as [E1 [E2 E3]]; exact E3 end.
  - match goal with E : parsed_positions_b D = true |- _ => apply parsed_positions_b_sound in E; exact E end.
Qed.

(* ------------------------------------------------------------------------------------------ *)
(** * a certified case: [agree] + C15_routes_agree give the equivalence of the implementation's own outputs *)

Lemma json_eqb_eq : forall a b, json_eqb a b = true -> a = b.
Proof.
  fix IH 1. intros a b. destruct a as [|x|x|x|l|kvs], b as [|y|y|y|m|kws]; cbn [json_eqb]; intros H; try discriminate.
  - reflexivity.
  - apply Bool.eqb_prop in H. congruence.
  - apply str_eqb_eq in H. congruence.
  - apply str_eqb_eq in H. congruence.
  - f_equal. revert m H. induction l as [|u r IHr]; intros [|w r2] H; try discriminate; [reflexivity|].
    apply Bool.andb_true_iff in H as [Hu Hr]. f_equal; [now apply IH|now apply IHr].
  - f_equal. revert kws H. induction kvs as [|[i u] r IHr]; intros [|[j w] r2] H; try discriminate; [reflexivity|].
    apply Bool.andb_true_iff in H as [Hu Hr]. apply Bool.andb_true_iff in Hu as [Hi Hu].
    apply str_eqb_eq in Hi. subst j. f_equal; [f_equal; now apply IH|now apply IHr].
Qed.

Lemma node_eqb_eq {A} (eqb : A -> A -> bool) (a b : node A) :
  (forall x y, eqb x y = true -> x = y) -> node_eqb eqb a b = true -> a = b.
Proof.
  intros Hs. destruct a as [x p], b as [y q]. unfold node_eqb. cbn [nval npos]. intros H.
  apply Bool.andb_true_iff in H as [H1 H2]. apply Hs in H1. apply pos_eqb_eq in H2. congruence.
Qed.
Lemma sroots_eqb_eq a b : sroots_eqb a b = true -> a = b.
Proof.
  destruct a as [a1 a2 a3], b as [b1 b2 b3]. unfold sroots_eqb. cbn [r_query r_mutation r_subscription]. intros H.
  apply Bool.andb_true_iff in H as [H H3]. apply Bool.andb_true_iff in H as [H1 H2].
  apply (option_eqb_eq _ _ _ nstr_eqb_eq) in H1, H2, H3. congruence.
Qed.
Lemma keyed_list_eqb_eq {A} (eqb : A -> A -> bool) (l m : list (str * A)) :
  (forall x y, eqb x y = true -> x = y) -> list_eqb (keyed_eqb eqb) l m = true -> l = m.
Proof.
  intros Hs. apply list_eqb_eq. intros [k1 v1] [k2 v2] _ E. unfold keyed_eqb in E. cbn [fst snd] in E.
  apply Bool.andb_true_iff in E as [E1 E2]. apply str_eqb_eq in E1. apply Hs in E2. congruence.
Qed.
Lemma schema_eqb_eq a b : schema_eqb a b = true -> a = b.
Proof.
  destruct a as [a1 a2 a3 a4], b as [b1 b2 b3 b4]. unfold schema_eqb. cbn [sc_desc sc_types sc_dirs sc_roots]. intros H.
  apply Bool.andb_true_iff in H as [H H4]. apply Bool.andb_true_iff in H as [H H3]. apply Bool.andb_true_iff in H as [H1 H2].
  apply (option_eqb_eq _ _ _ nstr_eqb_eq) in H1.
  apply (keyed_list_eqb_eq _ _ _ (fun x y => node_eqb_eq stypedef_eqb x y stypedef_eqb_eq)) in H2.
  apply (keyed_list_eqb_eq _ _ _ (fun x y => node_eqb_eq sdirective_eqb x y sdirective_eqb_eq)) in H3.
  apply (node_eqb_eq _ _ _ sroots_eqb_eq) in H4. congruence.
Qed.

Theorem certified_case st meta M D J out_sdl out_json docs :
  agree (CRoutes false true st meta [] M D J out_sdl out_json docs) = true ->
  exists Sj, out_json = Ok Sj /\ schema_equiv_on (vis_of M) Sj out_sdl.
Proof.
  intros H. destruct (agree_routes_gives_hypotheses _ _ _ _ _ _ _ _ H) as [Hok [He Hp]].
  cbn [agree orb listed_in] in H. split_andb.
  match goal with E : json_eqb _ J = true |- _ => apply json_eqb_eq in E; subst J end.
  match goal with E : schema_eqb _ out_sdl = true |- _ => apply schema_eqb_eq in E; subst out_sdl end.
  destruct (routes_agree_for_corr st meta M D Hok He Hp) as [Sj [Hj Heq]]. unfold introspect in Hj.
  match goal with E : res_eqb schema_eqb _ out_json = true |- _ => rewrite Hj in E; destruct out_json as [so|e]; cbn [res_eqb] in E; [|discriminate];
    apply schema_eqb_eq in E; subst so end.
  exists Sj. split; [reflexivity|assumption].
Qed.

(** ... and the checker model gives the same verdict on the two schema documents of the case (the SDL document the
    implementation was given, and the reification of the Schema the implementation built from the JSON), for every
    operation document over the compared names — by C15_check_respects_equiv, whose computable guard [agree] evaluated. *)
Theorem certified_check st meta M D J out_sdl out_json docs :
  agree (CRoutes false true st meta [] M D J out_sdl out_json docs) = true ->
  exists Sj, out_json = Ok Sj /\
    forall doc, CheckSim2.opdoc_ok (vis_of M) doc = true ->
      (V.C03.Model.check_operation_document D doc = [] <-> V.C03.Model.check_operation_document (doc_of_schema Sj) doc = []).
Proof.
  intros H. destruct (agree_routes_gives_hypotheses _ _ _ _ _ _ _ _ H) as [Hok [He Hp]].
  cbn [agree orb listed_in] in H. split_andb.
  match goal with E : json_eqb _ J = true |- _ => apply json_eqb_eq in E; subst J end.
  destruct (check_respects_equiv st meta M D Hok He Hp) as [Sj [Hj Hc]]. unfold introspect in Hj.
  match goal with E : res_eqb schema_eqb _ out_json = true |- _ => rewrite Hj in E; destruct out_json as [so|e]; cbn [res_eqb] in E; [|discriminate];
    apply schema_eqb_eq in E; subst so end.
  exists Sj. split; [reflexivity|]. apply Hc.
  repeat match goal with E : (match Ok Sj with Ok _ => _ | Err _ => _ end) = true |- _ => cbn beta iota in E end. split_andb. assumption.
Qed.

(** ... and the aliases exported on the two routes admit the same values (C15_alias_denotations_agree; its computable guards
    are evaluated by [agree] with the scalar configuration [guard_opts]), for the case's own SDL document and the
    implementation's own JSON-route Schema, when the introspection result does not list the introspection types. *)
Theorem certified_alias_denotations st M D J out_sdl out_json docs :
  agree (CRoutes false true st false [] M D J out_sdl out_json docs) = true ->
  exists Sj, out_json = Ok Sj /\
    forall t nssA nssD T bodyA bodyD,
      V.C10.Model.schema_decls guard_opts (type_system_to_ast Sj) = V.C10.Model.Ok nssA ->
      V.C10.Model.schema_decls guard_opts D = V.C10.Model.Ok nssD ->
      vis_of M T = true -> V.C10.Spec.applicable (type_system_to_ast Sj) t T = true ->
      V.C10.Spec.alias_of (V.C10.Spec.namespace_of nssA t) T = Some bodyA ->
      V.C10.Spec.alias_of (V.C10.Spec.namespace_of nssD t) T = Some bodyD ->
      forall v,
        (Ts.TsDen.In_type (V.C10.Spec.ns_env (V.C10.Spec.namespace_of nssA t)) bodyA v <->
         Ts.TsDen.In_type (V.C10.Spec.ns_env (V.C10.Spec.namespace_of nssD t)) bodyD v)
        /\ (Ts.TsDen.NotIn_type (V.C10.Spec.ns_env (V.C10.Spec.namespace_of nssA t)) bodyA v <->
            Ts.TsDen.NotIn_type (V.C10.Spec.ns_env (V.C10.Spec.namespace_of nssD t)) bodyD v).
Proof.
  intros H. destruct (agree_routes_gives_hypotheses _ _ _ _ _ _ _ _ H) as [Hok [He Hp]].
  cbn [agree orb listed_in] in H. split_andb.
  match goal with E : json_eqb _ J = true |- _ => apply json_eqb_eq in E; subst J end.
  destruct (alias_denotations_agree st false M D Hok He Hp) as [Sj [Hj Hc]]. unfold introspect in Hj.
  match goal with E : res_eqb schema_eqb _ out_json = true |- _ => rewrite Hj in E; destruct out_json as [so|e]; cbn [res_eqb] in E; [|discriminate];
    apply schema_eqb_eq in E; subst so end.
  exists Sj. split; [reflexivity|].
  repeat match goal with E : (match Ok Sj with Ok _ => _ | Err _ => _ end) = true |- _ => cbn beta iota in E end. split_andb.
  match goal with E : emit_guard_b false M D Sj = true |- _ => unfold emit_guard_b in E; cbn [orb] in E end. split_andb.
  intros t nssA nssD T bodyA bodyD HdA HdD Hv Happ HaA HaD v.
  exact (Hc guard_opts t nssA nssD T bodyA bodyD ltac:(assumption) ltac:(assumption) HdA HdD ltac:(assumption) ltac:(assumption) ltac:(assumption) Hv Happ HaA HaD v).
Qed.
