(** C15 proofs, part 1: the derived deserialisers read the introspection result of a schema model back as
    the expected typed structure (for both key styles), and introspection() turns that structure into the
    expected Schema.  No hypothesis on M is needed for this part. *)
From V Require Import Base.Util Gql.Ast C15.Model C15.Spec.

(* ------------------------------------------------------------------------------------------ *)
(** * generic facts *)

Lemma str_eqb_eq a b : str_eqb a b = true -> a = b.
Proof. intros H. destruct (str_eqb_spec a b); congruence. Qed.
Lemma str_eqb_neq a b : str_eqb a b = false -> a <> b.
Proof. intros H. destruct (str_eqb_spec a b); congruence. Qed.
Lemma str_eqb_sym a b : str_eqb a b = str_eqb b a.
Proof. destruct (str_eqb_spec a b), (str_eqb_spec b a); congruence. Qed.

Lemma de_opt_some {A} (f : json -> option A) j a : j <> JNull -> f j = Some a -> de_opt f j = Some (Some a).
Proof. intros Hn Hf. unfold de_opt. rewrite Hf. destruct j; congruence. Qed.

Lemma map_opt_map {A B} (f : json -> option A) (g : B -> json) (h : B -> A) l :
  (forall x, In x l -> f (g x) = Some (h x)) -> map_opt f (map g l) = Some (map h l).
Proof.
  induction l as [|x r IH]; intros H; cbn [map map_opt]; [reflexivity|].
  rewrite (H x (or_introl eq_refl)), IH; [reflexivity|]. intros y Hy. apply H. now right.
Qed.
Lemma de_vec_map {A B} (f : json -> option A) (g : B -> json) (h : B -> A) l :
  (forall x, In x l -> f (g x) = Some (h x)) -> de_vec f (JArr (map g l)) = Some (map h l).
Proof. intros H. cbn [de_vec]. now apply map_opt_map. Qed.

Lemma map_res_map {A B C} (f : A -> res B) (g : C -> A) (h : C -> B) l :
  (forall x, In x l -> f (g x) = Ok (h x)) -> map_res f (map g l) = Ok (map h l).
Proof.
  induction l as [|x r IH]; intros H; cbn [map map_res]; [reflexivity|].
  rewrite (H x (or_introl eq_refl)). cbn [bind]. rewrite IH; [reflexivity|]. intros y Hy. apply H. now right.
Qed.

Arguments de_opt : simpl never.
Arguments de_vec : simpl never.

(* ------------------------------------------------------------------------------------------ *)
(** * typed images of the JSON pieces *)

Fixpoint iref (all : list mtype) (t : gty) : itype :=
  match t with
  | GNamed n => mkIType (kind_of all n) (Some n) None None None None None None None
  | GList t' => mkIType (s "LIST") None None None None None None None (Some (iref all t'))
  | GNonNull t' => mkIType (s "NON_NULL") None None None None None None None (Some (iref all t'))
  end.
Definition is_some {A} (o : option A) : bool := match o with Some _ => true | None => false end.
Definition iisd (st : jstyle) (d : depr) : option bool :=
  match st, d with Minimal, None => None | _, _ => Some (is_some d) end.
Definition iinput st all (a : marg) : iinputval :=
  mkIInput (ma_name a) (ma_desc a) (iref all (ma_type a)) (ma_default a) (iisd st (ma_depr a)) (reason_of (ma_depr a)).
Definition ifield_of st all (f : mfield) : ifield :=
  mkIField (mf_name f) (mf_desc f) (map (iinput st all) (mf_args f)) (iref all (mf_type f)) (iisd st (mf_depr f)) (reason_of (mf_depr f)).
Definition ienum_of st (v : mval) : ienumval := mkIEnumVal (mv_name v) (mv_desc v) (iisd st (mv_depr v)) (reason_of (mv_depr v)).
Definition inamed all (n : str) : itype := iref all (GNamed n).
Definition itype_of st all (t : mtype) : itype :=
  let mk := mkIType (kind_name (mt_kind t)) (Some (mt_name t)) (mt_desc t) in
  match mt_kind t with
  | MScalar => mk None None None None None None
  | MObject impls fs => mk (Some (map (ifield_of st all) fs)) (Some (map (inamed all) impls)) None None None None
  | MInterface impls fs =>
      mk (Some (map (ifield_of st all) fs)) (Some (map (inamed all) impls))
         (Some (map (inamed all) (possible_of_interface all (mt_name t)))) None None None
  | MUnion ms => mk None None (Some (map (inamed all) ms)) None None None
  | MEnum vs => mk None None None (Some (map (ienum_of st) vs)) None None
  | MInput fs => mk None None None None (Some (map (iinput st all) fs)) None
  end.
Definition idir_of st all (d : mdir) : idirective :=
  mkIDirective (md_name d) (md_desc d) (md_locs d) (map (iinput st all) (md_args d))
               (match st, md_repeatable d with Minimal, false => None | _, b => Some b end).
Definition ischema_of st (types : list mtype) (M : smodel) : ischema :=
  mkISchema (m_desc M) (m_query M) (m_mutation M) (m_subscription M)
            (map (itype_of st types) types) (map (idir_of st types) (listed_dirs M)).

(* ------------------------------------------------------------------------------------------ *)
(** * serde reads [introspect] back *)

Lemma type_ref_not_null st all t : type_ref st all t <> JNull.
Proof. destruct t; cbn [type_ref]; discriminate. Qed.

Lemma de_type_ref st all t : de_type (type_ref st all t) = Some (iref all t).
Proof.
  induction t as [n|t IH|t IH].
  - destruct st; reflexivity.
  - cbn [type_ref iref]. pose proof (type_ref_not_null st all t) as Hn.
    set (j := type_ref st all t) in *. clearbody j.
    destruct st; cbn; rewrite (de_opt_some _ _ _ Hn IH); reflexivity.
  - cbn [type_ref iref]. pose proof (type_ref_not_null st all t) as Hn.
    set (j := type_ref st all t) in *. clearbody j.
    destruct st; cbn; rewrite (de_opt_some _ _ _ Hn IH); reflexivity.
Qed.

Lemma de_input_json st all a : de_input (input_value_json st all a) = Some (iinput st all a).
Proof.
  unfold input_value_json, iinput. pose proof (de_type_ref st all (ma_type a)) as Ht.
  set (j := type_ref st all (ma_type a)) in *. clearbody j.
  destruct a as [n d t dv dp]; cbn [ma_name ma_desc ma_type ma_default ma_depr] in *.
  destruct st, d, dv, dp as [[r|]|]; cbn; rewrite Ht; reflexivity.
Qed.

Lemma de_field_json st all f : de_field (field_json st all f) = Some (ifield_of st all f).
Proof.
  unfold field_json, ifield_of. pose proof (de_type_ref st all (mf_type f)) as Ht.
  pose proof (de_vec_map de_input (input_value_json st all) (iinput st all) (mf_args f)
                (fun x _ => de_input_json st all x)) as Ha.
  set (j := type_ref st all (mf_type f)) in *. clearbody j.
  set (ja := JArr (map (input_value_json st all) (mf_args f))) in *. clearbody ja.
  destruct f as [n d args t dp]; cbn [mf_name mf_desc mf_args mf_type mf_depr] in *.
  destruct st, d, dp as [[r|]|]; cbn; rewrite Ht, Ha; reflexivity.
Qed.

Lemma de_enumval_json st v : de_enumval (enum_value_json st v) = Some (ienum_of st v).
Proof.
  unfold enum_value_json, ienum_of. destruct v as [n d dp]; cbn [mv_name mv_desc mv_depr].
  destruct st, d, dp as [[r|]|]; reflexivity.
Qed.

Lemma de_named_ref st all n : de_type (named_ref st all n) = Some (inamed all n).
Proof. apply de_type_ref. Qed.

Lemma arr_not_null l : JArr l <> JNull.
Proof. discriminate. Qed.

Lemma de_type_json st all t : de_type (type_json st all t) = Some (itype_of st all t).
Proof.
  unfold type_json, itype_of. destruct t as [n d kd]; cbn [mt_name mt_desc mt_kind].
  destruct kd as [|impls fs|impls fs|ms|vs|fs]; cbn [kind_name].
  - destruct st, d; reflexivity.
  - pose proof (de_opt_some _ _ _ (arr_not_null _) (de_vec_map de_field (field_json st all) (ifield_of st all) fs (fun x _ => de_field_json st all x))) as Hf.
    pose proof (de_opt_some _ _ _ (arr_not_null _) (de_vec_map de_type (named_ref st all) (inamed all) impls (fun x _ => de_named_ref st all x))) as Hi.
    set (jf := JArr (map (field_json st all) fs)) in *. clearbody jf.
    set (ji := JArr (map (named_ref st all) impls)) in *. clearbody ji.
    destruct st, d; cbn; rewrite Hf, Hi; reflexivity.
  - pose proof (de_opt_some _ _ _ (arr_not_null _) (de_vec_map de_field (field_json st all) (ifield_of st all) fs (fun x _ => de_field_json st all x))) as Hf.
    pose proof (de_opt_some _ _ _ (arr_not_null _) (de_vec_map de_type (named_ref st all) (inamed all) impls (fun x _ => de_named_ref st all x))) as Hi.
    pose proof (de_opt_some _ _ _ (arr_not_null _) (de_vec_map de_type (named_ref st all) (inamed all) (possible_of_interface all n) (fun x _ => de_named_ref st all x))) as Hp.
    set (jf := JArr (map (field_json st all) fs)) in *. clearbody jf.
    set (ji := JArr (map (named_ref st all) impls)) in *. clearbody ji.
    set (jp := JArr (map (named_ref st all) (possible_of_interface all n))) in *. clearbody jp.
    destruct st, d; cbn; rewrite Hf, Hi, Hp; reflexivity.
  - pose proof (de_opt_some _ _ _ (arr_not_null _) (de_vec_map de_type (named_ref st all) (inamed all) ms (fun x _ => de_named_ref st all x))) as Hp.
    set (jp := JArr (map (named_ref st all) ms)) in *. clearbody jp.
    destruct st, d; cbn; rewrite Hp; reflexivity.
  - pose proof (de_opt_some _ _ _ (arr_not_null _) (de_vec_map de_enumval (enum_value_json st) (ienum_of st) vs (fun x _ => de_enumval_json st x))) as Hv.
    set (jv := JArr (map (enum_value_json st) vs)) in *. clearbody jv.
    destruct st, d; cbn; rewrite Hv; reflexivity.
  - pose proof (de_opt_some _ _ _ (arr_not_null _) (de_vec_map de_input (input_value_json st all) (iinput st all) fs (fun x _ => de_input_json st all x))) as Hv.
    set (jv := JArr (map (input_value_json st all) fs)) in *. clearbody jv.
    destruct st, d; cbn; rewrite Hv; reflexivity.
Qed.

Lemma de_directive_json st all d : de_directive (directive_json st all d) = Some (idir_of st all d).
Proof.
  unfold directive_json, idir_of.
  pose proof (de_vec_map de_input (input_value_json st all) (iinput st all) (md_args d) (fun x _ => de_input_json st all x)) as Ha.
  pose proof (de_vec_map de_str JStr (fun x => x) (md_locs d) (fun x _ => eq_refl)) as Hl. rewrite map_id in Hl.
  set (ja := JArr (map (input_value_json st all) (md_args d))) in *. clearbody ja.
  set (jl := JArr (map JStr (md_locs d))) in *. clearbody jl.
  destruct d as [n ds args rep locs]; cbn [md_name md_desc md_args md_repeatable md_locs] in *.
  destruct st, ds, rep; cbn; rewrite Ha, Hl; reflexivity.
Qed.

Lemma de_result_introspect_of st types M :
  de_result (introspect_of st types M) = Some (ischema_of st types M).
Proof.
  unfold introspect_of, ischema_of.
  pose proof (de_vec_map de_type (type_json st types) (itype_of st types) types (fun x _ => de_type_json st types x)) as Ht.
  pose proof (de_vec_map de_directive (directive_json st types) (idir_of st types) (listed_dirs M) (fun x _ => de_directive_json st types x)) as Hd.
  set (jt := JArr (map (type_json st types) types)) in *. clearbody jt.
  set (jd := JArr (map (directive_json st types) (listed_dirs M))) in *. clearbody jd.
  destruct M as [ds tys dirs q mu su ex]; cbn [m_desc m_query m_mutation m_subscription] in *.
  destruct st, ds, mu, su; cbn; rewrite Ht, Hd; reflexivity.
Qed.

(* ------------------------------------------------------------------------------------------ *)
(** * introspection() on the typed image *)

Fixpoint sty_of (t : gty) : sty :=
  match t with GNamed n => SNamed (dnode n) | GList t' => SList (sty_of t') | GNonNull t' => SNonNull (sty_of t') end.

(** the deprecation both routes arrive at *)
Definition depr_reason (d : depr) : option str :=
  match d with None => None | Some None => Some no_longer_supported | Some (Some r) => Some r end.

Definition sinput_json (a : marg) : sinput :=
  mkSInput (dnode (ma_name a)) (option_map dnode (ma_desc a)) (sty_of (ma_type a)) (option_map dnode (ma_default a)) (depr_reason (ma_depr a)).
Definition sfield_json (f : mfield) : sfield :=
  mkSField (dnode (mf_name f)) (option_map dnode (mf_desc f)) (sty_of (mf_type f)) (map sinput_json (mf_args f)) (depr_reason (mf_depr f)).
Definition smember_json (v : mval) : smember :=
  mkSMember (dnode (mv_name v)) (option_map dnode (mv_desc v)) (depr_reason (mv_depr v)).
Definition std_json (t : mtype) : stypedef :=
  let n := dnode (mt_name t) in let d := option_map dnode (mt_desc t) in
  match mt_kind t with
  | MScalar => SDScalar n d
  | MObject impls fs => SDObject n d (map sfield_json fs) (map dnode impls)
  | MInterface impls fs => SDInterface n d (map sfield_json fs) (map dnode impls)
  | MUnion ms => SDUnion n d (map dnode ms)
  | MEnum vs => SDEnum n d (map smember_json vs)
  | MInput fs => SDInput n d (map sinput_json fs)
  end.
Definition sdir_json (d : mdir) : sdirective :=
  mkSDirective (dnode (md_name d)) (option_map dnode (md_desc d)) (map sinput_json (md_args d)) (map dnode (md_locs d))
               (if md_repeatable d then Some pos0 else None).

Lemma kind_of_named all n : is_named_kind (kind_of all n) = true.
Proof. unfold kind_of. destruct (find_mtype n all) as [t|]; [destruct (mt_kind t)|]; reflexivity. Qed.

Lemma as_type_iref all t : as_type (iref all t) = Ok (sty_of t).
Proof.
  induction t as [n|t IH|t IH]; cbn [iref as_type sty_of].
  - rewrite kind_of_named. reflexivity.
  - change (is_named_kind (s "LIST")) with false. change (str_eqb (s "LIST") (s "LIST")) with true.
    cbn iota. rewrite IH. reflexivity.
  - change (is_named_kind (s "NON_NULL")) with false. change (str_eqb (s "NON_NULL") (s "LIST")) with false.
    change (str_eqb (s "NON_NULL") (s "NON_NULL")) with true.
    cbn iota. rewrite IH. reflexivity.
Qed.

Lemma deprecation_iisd st d : deprecation_of (iisd st d) (reason_of d) = depr_reason d.
Proof. destruct st, d as [[r|]|]; reflexivity. Qed.

Lemma as_input_value_json st all a : as_input_value (iinput st all a) = Ok (sinput_json a).
Proof.
  unfold iinput, as_input_value, sinput_json. rewrite as_type_iref. cbn [bind]. now rewrite deprecation_iisd.
Qed.
Lemma args_or_empty_json st all args : args_or_empty (map (iinput st all) args) = map sinput_json args.
Proof.
  unfold args_or_empty. now rewrite (map_res_map as_input_value (iinput st all) sinput_json args (fun x _ => as_input_value_json st all x)).
Qed.
Lemma as_field_json st all f : as_field (ifield_of st all f) = Ok (sfield_json f).
Proof.
  unfold ifield_of, as_field, sfield_json. rewrite as_type_iref. cbn [bind].
  now rewrite args_or_empty_json, deprecation_iisd.
Qed.
Lemma as_named_json all n : as_named (inamed all n) = Ok (dnode n).
Proof. unfold as_named, inamed. rewrite as_type_iref. reflexivity. Qed.
Lemma as_member_json st v : as_member (ienum_of st v) = smember_json v.
Proof. unfold as_member, ienum_of, smember_json. cbn [iev_name iev_desc iev_is_deprecated iev_reason]. now rewrite deprecation_iisd. Qed.

Lemma as_type_definition_json st all t : as_type_definition (itype_of st all t) = Ok (std_json t).
Proof.
  unfold itype_of, std_json. destruct t as [n d kd]; cbn [mt_name mt_desc mt_kind].
  destruct kd as [|impls fs|impls fs|ms|vs|fs]; cbn [kind_name as_type_definition flatten_opt].
  - reflexivity.
  - change (str_eqb (s "OBJECT") (s "SCALAR")) with false. change (str_eqb (s "OBJECT") (s "OBJECT")) with true. cbn iota.
    rewrite (map_res_map as_field _ _ fs (fun x _ => as_field_json st all x)). cbn [bind].
    rewrite (map_res_map as_named _ _ impls (fun x _ => as_named_json all x)). reflexivity.
  - change (str_eqb (s "INTERFACE") (s "SCALAR")) with false. change (str_eqb (s "INTERFACE") (s "OBJECT")) with false.
    change (str_eqb (s "INTERFACE") (s "INTERFACE")) with true. cbn iota.
    rewrite (map_res_map as_field _ _ fs (fun x _ => as_field_json st all x)). cbn [bind].
    rewrite (map_res_map as_named _ _ impls (fun x _ => as_named_json all x)). reflexivity.
  - change (str_eqb (s "UNION") (s "SCALAR")) with false. change (str_eqb (s "UNION") (s "OBJECT")) with false.
    change (str_eqb (s "UNION") (s "INTERFACE")) with false. change (str_eqb (s "UNION") (s "UNION")) with true. cbn iota.
    rewrite (map_res_map as_named _ _ ms (fun x _ => as_named_json all x)). reflexivity.
  - change (str_eqb (s "ENUM") (s "SCALAR")) with false. change (str_eqb (s "ENUM") (s "OBJECT")) with false.
    change (str_eqb (s "ENUM") (s "INTERFACE")) with false. change (str_eqb (s "ENUM") (s "UNION")) with false.
    change (str_eqb (s "ENUM") (s "ENUM")) with true. cbn iota.
    rewrite map_map. f_equal. f_equal. apply map_ext. intros v. apply as_member_json.
  - change (str_eqb (s "INPUT_OBJECT") (s "SCALAR")) with false. change (str_eqb (s "INPUT_OBJECT") (s "OBJECT")) with false.
    change (str_eqb (s "INPUT_OBJECT") (s "INTERFACE")) with false. change (str_eqb (s "INPUT_OBJECT") (s "UNION")) with false.
    change (str_eqb (s "INPUT_OBJECT") (s "ENUM")) with false. change (str_eqb (s "INPUT_OBJECT") (s "INPUT_OBJECT")) with true. cbn iota.
    rewrite (map_res_map as_input_value _ _ fs (fun x _ => as_input_value_json st all x)). reflexivity.
Qed.

Lemma as_directive_definition_json st all d : as_directive_definition (idir_of st all d) = sdir_json d.
Proof.
  unfold as_directive_definition, idir_of, sdir_json. cbn [idr_name idr_desc idr_args idr_locations idr_is_repeatable].
  rewrite args_or_empty_json. destruct st, (md_repeatable d); reflexivity.
Qed.

(** the Schema the JSON route builds for M *)
Definition json_schema (types : list mtype) (M : smodel) : schema :=
  mkSchema (option_map dnode (m_desc M))
           (extend_all [] (map (fun t => (mt_name t, dnode (std_json t))) types))
           (extend_all [] (map (fun d => (md_name d, dnode (sdir_json d))) (listed_dirs M)))
           (dnode (mkSRoots (Some (dnode (m_query M))) (option_map dnode (m_mutation M)) (option_map dnode (m_subscription M)))).

Lemma stypedef_name_json t : nval (stypedef_name (std_json t)) = mt_name t.
Proof. unfold std_json. destruct (mt_kind t); reflexivity. Qed.

Theorem json_route_introspect_of st types M :
  json_route (introspect_of st types M) = Ok (json_schema types M).
Proof.
  unfold json_route. rewrite de_result_introspect_of.
  unfold introspection, ischema_of, json_schema. cbn [is_types is_directives is_desc is_query is_mutation is_subscription].
  rewrite (map_res_map as_type_definition _ _ types (fun x _ => as_type_definition_json st types x)).
  unfold build. cbn [bind b_desc b_types b_dirs b_roots].
  rewrite !map_map.
  rewrite (map_ext (fun x => (nval (stypedef_name (std_json x)), dnode (std_json x))) (fun t => (mt_name t, dnode (std_json t))))
    by (intros t; now rewrite stypedef_name_json).
  rewrite (map_ext (fun x => (nval (sdr_name (as_directive_definition (idir_of st types x))), dnode (as_directive_definition (idir_of st types x))))
                   (fun d => (md_name d, dnode (sdir_json d))))
    by (intros d; now rewrite as_directive_definition_json).
  reflexivity.
Qed.
