(** C15 proofs, part 5: the Schema the declaration printers work from on the JSON route
    (ast_to_type_system (type_system_to_ast S)) is S up to positions, default-value text, deprecations and
    directive definitions. *)
From V Require Import Base.Util Gql.Ast C15.Model C15.Spec C15.Proofs1 C15.Proofs2 C15.Proofs3.

Lemma norm_back_type t : norm_sty (convert_type (back_type t)) = norm_sty t.
Proof. induction t as [n|t IH|t IH]; cbn [back_type convert_type norm_sty]; [reflexivity| |]; now rewrite IH. Qed.
Lemma nopt_to_desc d : nopt (convert_description (to_desc d)) = nopt d.
Proof. destruct d; reflexivity. Qed.

Lemma norm_back_input i : norm_input (convert_input (back_input i)) = norm_input (strip_input i).
Proof.
  destruct i as [n d t dv dp]. unfold convert_input, back_input, strip_input, norm_input.
  cbn [iv_name iv_desc iv_type iv_default iv_dirs si_name si_desc si_type si_default si_depr].
  rewrite norm_back_type, nopt_to_desc. destruct dv; reflexivity.
Qed.
Lemma norm_back_arguments l : map norm_input (convert_arguments (back_arguments l)) = map norm_input (map strip_input l).
Proof.
  destruct l as [|a r]; [reflexivity|]. unfold back_arguments. cbn [convert_arguments].
  rewrite !map_map. apply map_ext. intros x. apply norm_back_input.
Qed.
Lemma norm_back_field f : norm_field (convert_field (back_field f)) = norm_field (strip_field f).
Proof.
  destruct f as [n d t args dp]. unfold convert_field, back_field, strip_field, norm_field.
  cbn [fd_name fd_desc fd_type fd_args fd_dirs sf_name sf_desc sf_type sf_args sf_depr].
  now rewrite norm_back_type, nopt_to_desc, norm_back_arguments.
Qed.
Lemma nnode_back_idents l : map nnode (map ident_to_node (map to_ident l)) = map nnode l.
Proof. rewrite !map_map. apply map_ext. intros i. reflexivity. Qed.

Lemma norm_back_typedef d : norm_typedef (nval (conv_td (back_type_definition d))) = norm_typedef (strip_typedef d).
Proof.
  destruct d as [n ds|n ds fs is_|n ds fs is_|n ds ps|n ds ms|n ds fs]; unfold conv_td;
    cbn [back_type_definition convert_type_definition snd nval norm_typedef strip_typedef];
    rewrite ?nopt_to_desc, ?nnode_back_idents; try reflexivity.
  - f_equal. rewrite !map_map. apply map_ext. intros f. apply norm_back_field.
  - f_equal. rewrite !map_map. apply map_ext. intros f. apply norm_back_field.
  - f_equal. rewrite !map_map. apply map_ext. intros e. destruct e as [en ed edp]. unfold convert_member, back_member, norm_member.
    cbn [ev_name ev_desc ev_dirs sm_name sm_desc sm_depr]. now rewrite nopt_to_desc.
  - f_equal. rewrite !map_map. apply map_ext. intros f. apply norm_back_input.
Qed.

Lemma back_typedef_name d : iname (typedef_name (back_type_definition d)) = nval (stypedef_name d).
Proof. destruct d; reflexivity. Qed.

Lemma find_back_types n (l : list (str * node stypedef)) :
  Forall (fun kv => fst kv = nval (stypedef_name (nval (snd kv)))) l ->
  find_typedef n (map (fun kv => TSType (back_type_definition (nval (snd kv)))) l)
  = option_map (fun d => back_type_definition (nval d)) (lookup n l).
Proof.
  induction l as [|[key d] r IH]; intros H; cbn [map find_typedef lookup option_map fst snd]; [reflexivity|].
  inversion H as [|? ? Hk Hr]; subst. cbn [fst snd] in Hk. rewrite back_typedef_name, <- Hk.
  destruct (str_eqb n key); [reflexivity|]. now apply IH.
Qed.
Lemma find_back_dirs n (l : list (str * node stypedef)) :
  find_dirdef n (map (fun kv => TSType (back_type_definition (nval (snd kv)))) l) = None.
Proof. induction l; cbn [map find_dirdef]; auto. Qed.
Lemma schema_defs_back (l : list (str * node stypedef)) :
  schema_defs (map (fun kv => TSType (back_type_definition (nval (snd kv)))) l) = [].
Proof. induction l; cbn [map schema_defs]; auto. Qed.

Theorem back_conversion sc :
  keys_match sc ->
  let sc' := ast_to_type_system (type_system_to_ast sc) in
  option_map nval (sc_desc sc') = option_map nval (sc_desc sc)
  /\ (forall op, root_names (nval (sc_roots sc')) op = root_names (nval (sc_roots sc)) op)
  /\ (forall n, option_map norm_typedef (get_type sc' n) = option_map (fun d => norm_typedef (strip_typedef d)) (get_type sc n))
  /\ (forall n, get_directive sc' n = None).
Proof.
  intros Hk. cbn zeta. unfold type_system_to_ast.
  set (sd := mkSchemaDef _ _ _ _). set (tys := map _ (sc_types sc)).
  destruct (desc_roots_ast (TSSchema sd :: tys)) as [Hd Hr]. cbn [schema_defs] in Hd, Hr.
  unfold tys in Hd, Hr. rewrite schema_defs_back in Hd, Hr. cbn [fold_left] in Hd, Hr. fold tys in Hd, Hr.
  repeat split.
  - rewrite Hd. unfold sd_step, sd. cbn [fst convert_schema_definition b_desc sd_desc]. destruct (sc_desc sc); reflexivity.
  - intros op. rewrite Hr. unfold sd_step, sd.
    cbn [snd fst convert_schema_definition b_roots sd_ops sd_pos nval]. unfold root_names.
    destruct (nval (sc_roots sc)) as [q mu su]. cbn [r_query r_mutation r_subscription].
    destruct q, mu, su, op; reflexivity.
  - intros n. rewrite get_type_ast. cbn [find_typedef]. unfold tys. rewrite (find_back_types n _ Hk).
    unfold get_type. destruct (lookup n (sc_types sc)) as [d|]; cbn [option_map]; [|reflexivity].
    now rewrite norm_back_typedef.
  - intros n. rewrite get_directive_ast. cbn [find_dirdef]. unfold tys. now rewrite find_back_dirs.
Qed.

(** both front ends establish [keys_match] *)
Lemma Forall_insert_new {A} (P : str * A -> Prop) l key v : Forall P l -> P (key, v) -> Forall P (insert_new l key v).
Proof.
  intros Hl Hp. unfold insert_new. destruct (has_key key l); [assumption|]. apply Forall_app. split; [assumption|]. now constructor.
Qed.
Lemma Forall_extend_all {A} (P : str * A -> Prop) items acc : Forall P acc -> Forall P items -> Forall P (extend_all acc items).
Proof.
  unfold extend_all. revert acc. induction items as [|[key v] r IH]; intros acc Ha Hi; cbn [fold_left]; [assumption|].
  inversion Hi; subst. apply IH; [|assumption]. now apply Forall_insert_new.
Qed.

Theorem json_route_keys_match j sc : json_route j = Ok sc -> keys_match sc.
Proof.
  unfold json_route. destruct (de_result j) as [v|]; [|discriminate]. unfold introspection.
  destruct (map_res as_type_definition (is_types v)) as [tys|e]; cbn [bind]; [|discriminate].
  intros H. injection H as <-. unfold keys_match, build. cbn [sc_types b_types].
  apply Forall_extend_all; [constructor|]. apply Forall_forall. intros kv Hin.
  apply in_map_iff in Hin as [t [<- _]]. reflexivity.
Qed.

Lemma convert_type_definition_name t : fst (convert_type_definition t) = nval (stypedef_name (nval (snd (convert_type_definition t)))).
Proof. destruct t; reflexivity. Qed.

Theorem ast_route_keys_match D : keys_match (ast_to_type_system D).
Proof.
  unfold keys_match, ast_to_type_system, build. cbn [sc_types].
  assert (H : forall b, Forall (fun kv => fst kv = nval (stypedef_name (nval (snd kv)))) (b_types b) ->
                        Forall (fun kv => fst kv = nval (stypedef_name (nval (snd kv)))) (b_types (fold_left ast_step D b))).
  { induction D as [|d D IH]; intros b Hb; cbn [fold_left]; [assumption|]. apply IH.
    destruct d as [sd|t|dd|se|te]; cbn [ast_step b_types convert_schema_definition]; try assumption.
    apply Forall_insert_new; [assumption|]. cbn [fst snd]. apply convert_type_definition_name. }
  apply H. constructor.
Qed.

(** stripping deprecations commutes with normalisation *)
Lemma norm_strip_input i : norm_input (strip_input i) = strip_input (norm_input i).
Proof. destruct i; reflexivity. Qed.
Lemma norm_strip_field f : norm_field (strip_field f) = strip_field (norm_field f).
Proof.
  destruct f as [n d t args dp]. unfold strip_field, norm_field. cbn [sf_name sf_desc sf_type sf_args sf_depr].
  f_equal. rewrite !map_map. apply map_ext. intros i. apply norm_strip_input.
Qed.
Lemma norm_strip_typedef d : norm_typedef (strip_typedef d) = strip_typedef (norm_typedef d).
Proof.
  destruct d as [n ds|n ds fs is_|n ds fs is_|n ds ps|n ds ms|n ds fs]; cbn [strip_typedef norm_typedef]; try reflexivity.
  - f_equal. rewrite !map_map. apply map_ext. intros f. apply norm_strip_field.
  - f_equal. rewrite !map_map. apply map_ext. intros f. apply norm_strip_field.
  - f_equal. rewrite !map_map. apply map_ext. intros e. destruct e; reflexivity.
  - f_equal. rewrite !map_map. apply map_ext. intros f. apply norm_strip_input.
Qed.

(** the type table the declaration printers work from on the JSON route is, on the compared names, the SDL
    route's table with the deprecations removed *)
Theorem printers_see_same_types st meta M D :
  model_ok M = true -> doc_equiv D (sdl_doc M) -> parsed_positions D ->
  exists Sj, json_route (introspect st meta M) = Ok Sj /\
    forall n, vis_of M n = true ->
      option_map norm_typedef (get_type (ast_to_type_system (type_system_to_ast Sj)) n)
      = option_map (fun d => strip_typedef (norm_typedef d)) (get_type (ast_to_type_system D) n).
Proof.
  intros Hok He Hp. destruct (routes_agree st meta M D Hok He Hp) as [Sj [Hj [_ [_ [Hty _]]]]].
  exists Sj. split; [assumption|]. intros n Hv.
  destruct (back_conversion Sj (json_route_keys_match _ _ Hj)) as [_ [_ [Hb _]]]. rewrite Hb.
  specialize (Hty n Hv). destruct (get_type Sj n) as [a|], (get_type (ast_to_type_system D) n) as [b|]; cbn [option_map] in *; try discriminate; [|reflexivity].
  injection Hty as Hty. now rewrite norm_strip_typedef, Hty.
Qed.
