(** C15 — emit_respects_equiv at the level of DENOTATIONS, reusing builder-C10's theorems.

    C10 proves, for ONE schema document [doc] (C10_alias_exact_iff): if [wf_schema o doc] and [schema_decls o doc = Ok nss],
    then the TypeScript reading of the alias exported for [T] in the namespace of target [t] decides exactly the reference
    denotation [Ref o doc t T] (C10/Spec.v: written over the schema, not via TypeScript).
    Here: (1) [Ref] reads a document only through get_type lookups (and, for interfaces, the set of object types that list
    the interface), so two documents whose lookups of compared names are related (up to positions, descriptions, default-value
    text and deprecations) have the SAME reference denotation for every compared type — [ref_respects_lookups]; (2) hence, for
    the SDL document and type_system_to_ast of the JSON route's Schema, the aliases the schema declaration file exports on
    the two routes admit exactly the same values — [alias_denotations_agree], all six kinds (interfaces included), all four
    namespaces. *)
From V Require Import Base.Util Gql.Ast Ts.TsType C15.Model C15.Spec C15.Proofs1 C15.Proofs2 C15.Proofs4 C15.CheckSim C15.EmitSim C15.EmitIface.
From V Require Import Ts.TsDen.
From V Require C10.Model C10.Spec C10.Properties.

Module X := V.C10.Model.
Module XS := V.C10.Spec.

(* ------------------------------------------------------------------------------------------ *)
(** * induction over abstract values *)
Section ValInd.
  Variable Q : val -> Prop.
  Hypothesis Hnull : Q VNull. Hypothesis Hundef : Q VUndef. Hypothesis Hbool : forall b, Q (VBool b).
  Hypothesis Hnum : Q VNum. Hypothesis Hstr : forall x, Q (VStr x). Hypothesis Hatom : forall x, Q (VAtom x).
  Hypothesis Hlist : forall l, Forall Q l -> Q (VList l).
  Hypothesis Hobj : forall fs, Forall (fun kv => Q (snd kv)) fs -> Q (VObj fs).
  Fixpoint val_induction (v : val) : Q v :=
    match v with
    | VNull => Hnull | VUndef => Hundef | VBool b => Hbool b | VNum => Hnum | VStr x => Hstr x | VAtom x => Hatom x
    | VList l => Hlist l ((fix go (l : list val) : Forall Q l :=
                             match l with [] => Forall_nil _ | x :: r => Forall_cons x (val_induction x) (go r) end) l)
    | VObj fs => Hobj fs ((fix go (l : list (str * val)) : Forall (fun kv => Q (snd kv)) l :=
                             match l with
                             | [] => Forall_nil _
                             | kv :: r => Forall_cons kv (match kv as kv0 return Q (snd kv0) with (_, x) => val_induction x end) (go r)
                             end) fs)
    end.
End ValInd.

(* ------------------------------------------------------------------------------------------ *)
(** * what [Ref] reads of a GraphQL type *)
Lemma ty_norm_erase t : XS.ty_norm (erase_ty t) = XS.ty_norm t.
Proof.
  induction t as [n|t IH|p t IH]; cbn [erase_ty XS.ty_norm]; [reflexivity|exact IH|]. rewrite IH. f_equal.
  destruct t; reflexivity.
Qed.
Lemma ty_rel_norm a b : ty_rel a b -> XS.ty_norm a = XS.ty_norm b.
Proof. intros H. rewrite <- (ty_norm_erase a), <- (ty_norm_erase b). now rewrite H. Qed.
Lemma ty_rel_is_nonnull a b : ty_rel a b -> X.is_nonnull a = X.is_nonnull b.
Proof. unfold ty_rel. destruct a, b; cbn [erase_ty]; intros H; try discriminate; reflexivity. Qed.

Fixpoint nty_ok (P : str -> bool) (t : XS.nty) : bool :=
  match t with XS.NNamed n => P n | XS.NList _ e => nty_ok P e end.
Lemma nty_ok_norm P t : nty_ok P (XS.ty_norm t) = P (iname (ty_unwrapped t)).
Proof. induction t as [n|t IH|p t IH]; cbn [XS.ty_norm nty_ok ty_unwrapped]; auto. Qed.

(* ------------------------------------------------------------------------------------------ *)
(** * the reference denotation respects related lookups *)
Section RefSim.
  Variable o : X.sopts.
  Variables D1 D2 : tsdoc.
  Variable t : X.target.
  Variable P : str -> bool.

  Hypothesis Hty : forall n, P n = true -> orel td_rel_s (X.get_type D1 n) (X.get_type D2 n).
  (** a compared scalar has the same configured TypeScript type in both documents *)
  Hypothesis Hscalar : forall n d1 p1 m1 ds1 k1 d2 p2 m2 ds2 k2, P n = true ->
    X.get_type D1 n = Some (TDScalar d1 p1 m1 ds1 k1) -> X.get_type D2 n = Some (TDScalar d2 p2 m2 ds2 k2) ->
    XS.scalar_config o n ds1 = XS.scalar_config o n ds2.
  (** the definitions of compared names mention compared names only *)
  Hypothesis Hclosed : forall n td, P n = true -> X.get_type D1 n = Some td -> emit_closed P td = true.
  (** the possible types of a compared interface: the same set of (compared) object types in both documents *)
  Hypothesis Hposs : forall n, P n = true -> forall p, In p (XS.possible_of_interface D1 n) <-> In p (XS.possible_of_interface D2 n).
  Hypothesis HpossP : forall n p, P n = true -> In p (XS.possible_of_interface D1 n) -> P p = true.

  (** checkers of the immediate sub-values, related on the types over compared names *)
  Definition chk_rel (a b : str * XS.checker) : Prop :=
    fst a = fst b /\ forall nn ty, nty_ok P ty = true -> snd a nn ty = snd b nn ty.
  Definition cks_rel (c1 c2 : list (str * XS.checker)) : Prop := Forall2 chk_rel c1 c2.

  Lemma assoc_cks c1 c2 key : cks_rel c1 c2 ->
    match assoc key c1, assoc key c2 with
    | Some f, Some g => forall nn ty, nty_ok P ty = true -> f nn ty = g nn ty
    | None, None => True
    | _, _ => False
    end.
  Proof.
    intros H. induction H as [|[k1 f] [k2 g] r1 r2 [Hk Hf] _ IH]; cbn [assoc]; [exact I|].
    cbn [fst snd] in *. subst k2. destruct (str_eqb key k1); [exact Hf|exact IH].
  Qed.

  Lemma field_names_rel f1 f2 : Forall2 fd_rel_s f1 f2 -> map (fun fd => iname (fd_name fd)) f1 = map (fun fd => iname (fd_name fd)) f2.
  Proof. intros H. induction H as [|a b r1 r2 Hab _ IH]; cbn [map]; [reflexivity|]. destruct (fd_rel_s_facts a b Hab) as [Hn _]. now rewrite Hn, IH. Qed.
  Lemma input_names_rel f1 f2 : Forall2 iv_rel_s f1 f2 -> map (fun iv => iname (iv_name iv)) f1 = map (fun iv => iname (iv_name iv)) f2.
  Proof. intros H. induction H as [|a b r1 r2 Hab _ IH]; cbn [map]; [reflexivity|]. destruct (iv_rel_s_facts a b Hab) as [Hn _]. now rewrite Hn, IH. Qed.

  Lemma object_den_rel n f1 f2 v c1 c2 :
    Forall2 fd_rel_s f1 f2 -> forallb (fun f => ty_okP P (fd_type f)) f1 = true -> cks_rel c1 c2 ->
    XS.object_den n f1 v c1 = XS.object_den n f2 v c2.
  Proof.
    intros Hf Hok Hc. unfold XS.object_den. destruct v; try reflexivity.
    rewrite (field_names_rel _ _ Hf). f_equal.
    induction Hf as [|a b r1 r2 Hab _ IH]; cbn [forallb]; [reflexivity|].
    cbn [forallb] in Hok. apply Bool.andb_true_iff in Hok as [Ha Hok]. rewrite (IH Hok). f_equal.
    destruct (fd_rel_s_facts a b Hab) as [Hn Ht]. rewrite <- Hn.
    pose proof (assoc_cks c1 c2 (iname (fd_name a)) Hc) as H.
    destruct (assoc (iname (fd_name a)) c1) as [f|], (assoc (iname (fd_name a)) c2) as [g|]; try contradiction; [|reflexivity].
    rewrite <- (ty_rel_is_nonnull _ _ Ht), <- (ty_rel_norm _ _ Ht). apply H. rewrite nty_ok_norm. exact Ha.
  Qed.

  Lemma input_den_rel f1 f2 v c1 c2 :
    Forall2 iv_rel_s f1 f2 -> forallb (fun f => ty_okP P (iv_type f)) f1 = true -> cks_rel c1 c2 ->
    XS.input_den o f1 v c1 = XS.input_den o f2 v c2.
  Proof.
    intros Hf Hok Hc. unfold XS.input_den. destruct v; try reflexivity.
    rewrite (input_names_rel _ _ Hf). f_equal.
    induction Hf as [|a b r1 r2 Hab _ IH]; cbn [forallb]; [reflexivity|].
    cbn [forallb] in Hok. apply Bool.andb_true_iff in Hok as [Ha Hok]. rewrite (IH Hok). f_equal.
    destruct (iv_rel_s_facts a b Hab) as [Hn Ht]. rewrite <- Hn, <- (ty_rel_is_nonnull _ _ Ht), <- (ty_rel_norm _ _ Ht).
    pose proof (assoc_cks c1 c2 (iname (iv_name a)) Hc) as H.
    destruct (assoc (iname (iv_name a)) fs) as [x|]; [|reflexivity].
    destruct (assoc (iname (iv_name a)) c1) as [f|], (assoc (iname (iv_name a)) c2) as [g|]; try contradiction; [|reflexivity].
    f_equal. apply H. rewrite nty_ok_norm. exact Ha.
  Qed.

  Lemma object_named_rel p v c1 c2 : P p = true -> cks_rel c1 c2 -> XS.object_named D1 p v c1 = XS.object_named D2 p v c2.
  Proof.
    intros Hp Hc. unfold XS.object_named. pose proof (Hty p Hp) as H.
    destruct (X.get_type D1 p) as [t1|] eqn:E1, (X.get_type D2 p) as [t2|]; cbn [orel] in H; try contradiction; [|reflexivity].
    pose proof (Hclosed _ _ Hp E1) as Hcl.
    pose proof (td_rel_s_view _ _ H) as Hv. destruct Hv; try reflexivity.
    cbn [emit_closed] in Hcl. now apply object_den_rel.
  Qed.

  Lemma existsb_ext_in {A} (f g : A -> bool) l : (forall x, In x l -> f x = g x) -> existsb f l = existsb g l.
  Proof. induction l as [|x r IH]; intros H; cbn [existsb]; [reflexivity|]. rewrite (H x (or_introl eq_refl)), IH; [reflexivity|]. intros y Hy. apply H. now right. Qed.
  Lemma existsb_same_set {A} (f : A -> bool) l1 l2 : (forall x, In x l1 <-> In x l2) -> existsb f l1 = existsb f l2.
  Proof.
    intros H. destruct (existsb f l1) eqn:E1, (existsb f l2) eqn:E2; try reflexivity.
    - apply existsb_exists in E1 as [x [Hx Hf]]. assert (existsb f l2 = true) by (apply existsb_exists; exists x; split; [now apply H|exact Hf]). congruence.
    - apply existsb_exists in E2 as [x [Hx Hf]]. assert (existsb f l1 = true) by (apply existsb_exists; exists x; split; [now apply H|exact Hf]). congruence.
  Qed.

  Lemma named_den_rel v c1 c2 n : P n = true -> cks_rel c1 c2 -> XS.named_den o D1 t v c1 n = XS.named_den o D2 t v c2 n.
  Proof.
    intros Hp Hc. unfold XS.named_den. pose proof (Hty n Hp) as H.
    destruct (X.get_type D1 n) as [t1|] eqn:E1, (X.get_type D2 n) as [t2|] eqn:E2; cbn [orel] in H; try contradiction; [|reflexivity].
    pose proof (Hclosed _ _ Hp E1) as Hcl.
    pose proof (td_rel_s_view _ _ H) as Hv.
    destruct Hv as [a1 a2 n1 a4 a5 b1 b2 n2 b4 b5 Hn
                   |a1 a2 n1 i1 a5 f1 a7 b1 b2 n2 i2 b5 f2 b7 Hn Hi Hf
                   |a1 a2 n1 i1 a5 f1 a7 b1 b2 n2 i2 b5 f2 b7 Hn
                   |a1 a2 n1 a4 m1 a6 b1 b2 n2 b4 m2 b6 Hn Hm
                   |a1 a2 n1 a4 v1 a6 b1 b2 n2 b4 v2 b6 Hn Hvs
                   |a1 a2 n1 a4 f1 a6 b1 b2 n2 b4 f2 b6 Hn Hf]; cbn [emit_closed] in Hcl.
    - now rewrite (Hscalar _ _ _ _ _ _ _ _ _ _ _ Hp E1 E2).
    - f_equal. now apply object_den_rel.
    - f_equal. rewrite (existsb_same_set (fun p => XS.object_named D1 p v c1) _ _ (Hposs n Hp)).
      apply existsb_ext_in. intros p Hin. apply object_named_rel; [|exact Hc].
      apply (HpossP n p Hp). now apply (Hposs n Hp).
    - f_equal. clear E1 E2 H. revert m2 Hm. induction m1 as [|x r IH]; intros [|y r2] Hm; cbn [map] in Hm; try discriminate; [reflexivity|].
      injection Hm as Hx Hr. cbn [forallb] in Hcl. apply Bool.andb_true_iff in Hcl as [Hpx Hcl]. cbn [existsb].
      rewrite (IH Hcl _ Hr), <- Hx. f_equal. now apply object_named_rel.
    - destruct v; try reflexivity.
      clear -Hvs. revert v2 Hvs. induction v1 as [|e r IH]; intros [|e' r'] Hvs; cbn [map] in Hvs; try discriminate; [reflexivity|].
      injection Hvs as He Hr. cbn [existsb]. now rewrite He, (IH _ Hr).
    - f_equal. now apply input_den_rel.
  Qed.

  Theorem ref_val_rel : forall v nn ty, nty_ok P ty = true -> XS.ref_val o D1 t v nn ty = XS.ref_val o D2 t v nn ty.
  Proof.
    intros v. induction v as [| |b| |x|x|l IHl|fs IHfs] using val_induction; intros nn ty Hok; try reflexivity;
      destruct ty as [n|en et]; cbn [XS.ref_val nty_ok] in *; try reflexivity;
      try (apply named_den_rel; [exact Hok|constructor]).
    - (* list value at a list type *)
      induction IHl as [|x r Hx _ IHr]; cbn [forallb]; [reflexivity|]. now rewrite (Hx en et Hok), IHr.
    - (* record at a named type *)
      apply named_den_rel; [exact Hok|].
      induction IHfs as [|[key x] r Hx _ IHr]; cbn [map]; [constructor|]. constructor; [|exact IHr].
      split; [reflexivity|]. cbn [snd]. intros nn' ty' Hok'. now apply Hx.
  Qed.

  Theorem ref_respects_lookups T v : P T = true -> XS.Ref o D1 t T v = XS.Ref o D2 t T v.
  Proof. intros Hp. unfold XS.Ref. now apply ref_val_rel. Qed.

  Lemma applicable_rel T : P T = true -> XS.applicable D1 t T = XS.applicable D2 t T.
  Proof.
    intros Hp. unfold XS.applicable. pose proof (Hty T Hp) as H.
    destruct (X.get_type D1 T) as [t1|], (X.get_type D2 T) as [t2|]; cbn [orel] in H; try contradiction; [|reflexivity].
    pose proof (td_rel_s_view _ _ H) as Hv. destruct Hv; reflexivity.
  Qed.
End RefSim.

(* ------------------------------------------------------------------------------------------ *)
(** * deriving the hypotheses from computable guards *)

Lemma nodup_find D t : nodup_keys (map X.tname (X.typedefs D)) = true -> In t (X.typedefs D) -> X.get_type D (X.tname t) = Some t.
Proof.
  unfold X.get_type. induction (X.typedefs D) as [|u l IH]; cbn [map nodup_keys In find]; [intros _ []|].
  intros Hn Hin. apply Bool.andb_true_iff in Hn as [Hu Hl]. apply Bool.negb_true_iff in Hu.
  destruct Hin as [->|Hin]; [now rewrite str_eqb_refl|].
  destruct (str_eqb (X.tname u) (X.tname t)) eqn:E; [|now apply IH].
  exfalso. apply str_eqb_eq in E. assert (H : existsb (str_eqb (X.tname u)) (map X.tname l) = true); [|congruence].
  apply existsb_exists. exists (X.tname t). split; [now apply in_map|rewrite E; apply str_eqb_refl].
Qed.
Lemma get_type_in_typedefs D n t : X.get_type D n = Some t -> In t (X.typedefs D).
Proof. unfold X.get_type. intros H. now apply find_some in H as [H _]. Qed.

Lemma mem_names n l1 l2 : map iname l1 = map iname l2 -> X.mem n (map iname l1) = X.mem n (map iname l2).
Proof. now intros ->. Qed.

Section PossibleTypes.
  Variables Da Db : tsdoc.
  Variable P : str -> bool.
  (** related lookups, in the direction a -> b, seen through what an object definition shows *)
  Hypothesis Hobj : forall n d p nm i ds fs k, P n = true -> X.get_type Da n = Some (TDObject d p nm i ds fs k) ->
    exists d' p' nm' i' ds' fs' k', X.get_type Db n = Some (TDObject d' p' nm' i' ds' fs' k') /\ iname nm = iname nm' /\ map iname i = map iname i'.
  Hypothesis Hnodup : nodup_keys (map X.tname (X.typedefs Da)) = true.
  Hypothesis Hout : objects_outside_implement_nothing P Da.

  Lemma possible_transfer n p : In p (XS.possible_of_interface Da n) -> In p (XS.possible_of_interface Db n) /\ P p = true.
  Proof.
    unfold XS.possible_of_interface. rewrite !in_flat_map. intros [ta [Hin Hp]].
    destruct ta as [| d q nm i ds fs k | | | |]; try contradiction.
    destruct (X.mem n (map iname i)) eqn:Em; [|contradiction]. destruct Hp as [<-|[]].
    pose proof (nodup_find Da _ Hnodup Hin) as Hg. unfold X.tname in Hg. cbn [typedef_name] in Hg.
    destruct (P (iname nm)) eqn:HP.
    - destruct (Hobj _ _ _ _ _ _ _ _ HP Hg) as [d' [p' [nm' [i' [ds' [fs' [k' [Hg' [Hn Hi]]]]]]]]].
      split; [|reflexivity]. exists (TDObject d' p' nm' i' ds' fs' k'). split; [exact (get_type_in_typedefs _ _ _ Hg')|].
      rewrite <- (mem_names n i i' Hi), Em. left. now rewrite Hn.
    - rewrite (Hout _ _ _ _ _ _ _ _ HP Hg) in Em. discriminate.
  Qed.
End PossibleTypes.

Definition doc_emit_closed_b (P : str -> bool) (D : tsdoc) : bool :=
  forallb (fun t => negb (P (X.tname t)) || emit_closed P t) (X.typedefs D).

Lemma back_typedefs sc t : In t (X.typedefs (type_system_to_ast sc)) -> exists d, t = back_type_definition d.
Proof.
  unfold type_system_to_ast, X.typedefs. cbn [flat_map app]. induction (sc_types sc) as [|kv l IH]; cbn [map flat_map app In]; [intros []|].
  intros [<-|H]; [eauto|now apply IH].
Qed.

(* ------------------------------------------------------------------------------------------ *)
(** * the two routes: the exported aliases admit the same values *)

Theorem alias_denotations_agree st meta M Dsdl :
  model_ok M = true -> doc_equiv Dsdl (sdl_doc M) -> parsed_positions Dsdl ->
  exists Sj, json_route (introspect st meta M) = Ok Sj /\
    let DA := type_system_to_ast Sj in
    forall o t nssA nssD T bodyA bodyD,
      XS.wf_schema o DA = true -> XS.wf_schema o Dsdl = true ->
      X.schema_decls o DA = X.Ok nssA -> X.schema_decls o Dsdl = X.Ok nssD ->
      doc_emit_closed_b (vis_of M) DA = true ->
      objects_outside_b (vis_of M) DA = true -> objects_outside_b (vis_of M) Dsdl = true ->
      vis_of M T = true -> XS.applicable DA t T = true ->
      XS.alias_of (XS.namespace_of nssA t) T = Some bodyA -> XS.alias_of (XS.namespace_of nssD t) T = Some bodyD ->
      forall v,
        (In_type (XS.ns_env (XS.namespace_of nssA t)) bodyA v <-> In_type (XS.ns_env (XS.namespace_of nssD t)) bodyD v)
        /\ (NotIn_type (XS.ns_env (XS.namespace_of nssA t)) bodyA v <-> NotIn_type (XS.ns_env (XS.namespace_of nssD t)) bodyD v).
Proof.
  intros Hok He Hp. destruct (Proofs4.printers_see_same_types st meta M Dsdl Hok He Hp) as [Sj [Hj Hty]].
  exists Sj. split; [assumption|]. cbn zeta.
  intros o t nssA nssD T bodyA bodyD HwA HwD HdA HdD Hcl HoA HoD HvT Happ HaA HaD v.
  assert (Hrel : forall m, vis_of M m = true -> orel td_rel_s (X.get_type (type_system_to_ast Sj) m) (X.get_type Dsdl m)).
  { intros m Hm. specialize (Hty m Hm). rewrite !get_type_ast, <- !x_get_type in Hty.
    destruct (X.get_type (type_system_to_ast Sj) m), (X.get_type Dsdl m); cbn [option_map orel] in Hty |- *; try discriminate; [|exact I].
    injection Hty as Hty. exact Hty. }
  clear Hty. set (DA := type_system_to_ast Sj) in *. set (P := vis_of M) in *.
  pose proof HwA as HwA'. pose proof HwD as HwD'. unfold XS.wf_schema in HwA', HwD'.
  apply Bool.andb_true_iff in HwA' as [HnA HallA]. apply Bool.andb_true_iff in HwD' as [HnD _].
  pose proof (objects_outside_sound _ _ HoA) as HoutA. pose proof (objects_outside_sound _ _ HoD) as HoutD.
  (* related object definitions, both directions *)
  assert (HobjAD : forall n d p nm i ds fs k, P n = true -> X.get_type DA n = Some (TDObject d p nm i ds fs k) ->
            exists d' p' nm' i' ds' fs' k', X.get_type Dsdl n = Some (TDObject d' p' nm' i' ds' fs' k') /\ iname nm = iname nm' /\ map iname i = map iname i').
  { intros n d p nm i ds fs k Hn Hg. pose proof (Hrel n Hn) as H. rewrite Hg in H.
    destruct (X.get_type Dsdl n) as [tD|]; cbn [orel] in H; [|contradiction].
    pose proof (td_rel_s_view _ _ H) as Hv. inversion Hv; subst. eauto 12. }
  assert (HobjDA : forall n d p nm i ds fs k, P n = true -> X.get_type Dsdl n = Some (TDObject d p nm i ds fs k) ->
            exists d' p' nm' i' ds' fs' k', X.get_type DA n = Some (TDObject d' p' nm' i' ds' fs' k') /\ iname nm = iname nm' /\ map iname i = map iname i').
  { intros n d p nm i ds fs k Hn Hg. pose proof (Hrel n Hn) as H. rewrite Hg in H.
    destruct (X.get_type DA n) as [tA|]; cbn [orel] in H; [|contradiction].
    pose proof (td_rel_s_view _ _ H) as Hv. inversion Hv; subst. eauto 12. }
  assert (Href : XS.Ref o DA t T v = XS.Ref o Dsdl t T v).
  { apply (ref_respects_lookups o DA Dsdl t P Hrel); try assumption.
    - (* scalar configuration: the AST of the JSON route carries no directives, its scalars are configured by the options *)
      intros n d1 p1 m1 ds1 k1 d2 p2 m2 ds2 k2 Hn G1 G2.
      pose proof (get_type_in_typedefs _ _ _ G1) as Hin. destruct (back_typedefs Sj _ Hin) as [sd Esd].
      destruct sd; cbn [back_type_definition] in Esd; try discriminate. injection Esd as -> -> -> -> ->.
      rewrite forallb_forall in HallA. specialize (HallA _ Hin). unfold XS.wf_typedef in HallA.
      apply Bool.andb_true_iff in HallA as [_ Hs]. pose proof (x_get_type_tname _ _ _ G1) as Hnm. unfold X.tname in Hnm. cbn [typedef_name] in Hnm.
      rewrite Hnm in Hs. unfold XS.scalar_config in *. destruct (assoc n (X.so_scalars o)); [reflexivity|]. cbn in Hs. discriminate.
    - (* closure *)
      intros n td Hn G. unfold doc_emit_closed_b in Hcl. rewrite forallb_forall in Hcl.
      specialize (Hcl _ (get_type_in_typedefs _ _ _ G)). rewrite (x_get_type_tname _ _ _ G), Hn in Hcl. exact Hcl.
    - (* possible types of an interface: same set *)
      intros n Hn p. split; intros Hin.
      + exact (proj1 (possible_transfer DA Dsdl P HobjAD HnA HoutA n p Hin)).
      + exact (proj1 (possible_transfer Dsdl DA P HobjDA HnD HoutD n p Hin)).
    - intros n p Hn Hin. exact (proj2 (possible_transfer DA Dsdl P HobjAD HnA HoutA n p Hin)). }
  assert (HappD : XS.applicable Dsdl t T = true).
  { rewrite <- (applicable_rel DA Dsdl t P Hrel T HvT). exact Happ. }
  destruct (V.C10.Properties.C10_alias_exact_iff o DA nssA t T bodyA v HwA HdA Happ HaA) as [A1 A2].
  destruct (V.C10.Properties.C10_alias_exact_iff o Dsdl nssD t T bodyD v HwD HdD HappD HaD) as [B1 B2].
  split.
  - rewrite A1, B1, Href. reflexivity.
  - rewrite A2, B2, Href. reflexivity.
Qed.
