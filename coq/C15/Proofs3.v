(** C15 proofs, part 3: the two routes agree. *)
From Coq Require Import Sorting.Permutation.
From V Require Import Base.Util Gql.Ast C15.Model C15.Spec C15.Proofs1 C15.Proofs2.

(* ------------------------------------------------------------------------------------------ *)
(** * lookups in the tables of the JSON route *)

Lemma lookup_map_types {A} (f : mtype -> A) n l :
  lookup n (map (fun t => (mt_name t, f t)) l) = option_map f (find_mtype n l).
Proof. induction l as [|t r IH]; cbn [map lookup find_mtype option_map]; [reflexivity|]. destruct (str_eqb n (mt_name t)); auto. Qed.
Lemma lookup_map_dirs {A} (f : mdir -> A) n l :
  lookup n (map (fun d => (md_name d, f d)) l) = option_map f (find_mdir n l).
Proof. induction l as [|t r IH]; cbn [map lookup find_mdir option_map]; [reflexivity|]. destruct (str_eqb n (md_name t)); auto. Qed.

Lemma get_type_json types M n : get_type (json_schema types M) n = option_map std_json (find_mtype n types).
Proof.
  unfold get_type, json_schema. cbn [sc_types]. rewrite lookup_extend_all. cbn [lookup].
  rewrite lookup_map_types. destruct (find_mtype n types); reflexivity.
Qed.
Lemma get_directive_json types M n : get_directive (json_schema types M) n = option_map sdir_json (find_mdir n (listed_dirs M)).
Proof.
  unfold get_directive, json_schema. cbn [sc_dirs]. rewrite lookup_extend_all. cbn [lookup].
  rewrite lookup_map_dirs. destruct (find_mdir n (listed_dirs M)); reflexivity.
Qed.

(* ------------------------------------------------------------------------------------------ *)
(** * names *)

Lemma mem_str_true x l : mem_str x l = true <-> In x l.
Proof.
  unfold mem_str. rewrite existsb_exists. split.
  - intros [y [Hy E]]. apply str_eqb_eq in E. now subst.
  - intros H. exists x. split; [assumption|apply str_eqb_refl].
Qed.
Lemma mem_str_app x l1 l2 : mem_str x (l1 ++ l2) = mem_str x l1 || mem_str x l2.
Proof. unfold mem_str. apply existsb_app. Qed.

Lemma find_mtype_mem n l : is_some (find_mtype n l) = mem_str n (map mt_name l).
Proof.
  induction l as [|t r IH]; cbn [find_mtype map mem_str existsb is_some]; [reflexivity|].
  destruct (str_eqb n (mt_name t)); cbn [orb is_some]; auto.
Qed.
Lemma find_mdir_mem n l : is_some (find_mdir n l) = mem_str n (map md_name l).
Proof.
  induction l as [|t r IH]; cbn [find_mdir map mem_str existsb is_some]; [reflexivity|].
  destruct (str_eqb n (md_name t)); cbn [orb is_some]; auto.
Qed.
Lemma find_mtype_some n l t : find_mtype n l = Some t -> n = mt_name t /\ In t l.
Proof.
  induction l as [|x r IH]; cbn [find_mtype]; [discriminate|].
  destruct (str_eqb n (mt_name x)) eqn:E.
  - intros H. injection H as <-. split; [now apply str_eqb_eq|now left].
  - intros H. destruct (IH H). split; [assumption|now right].
Qed.

(** a scalar type record per name *)
Definition mk_scalar (n : str) : mtype := mkMType n None MScalar.
Lemma find_mtype_scalars n (p : str -> bool) l :
  find_mtype n (map mk_scalar (filter p l)) = if mem_str n l && p n then Some (mk_scalar n) else None.
Proof.
  induction l as [|x r IH]; cbn [filter map find_mtype mem_str existsb]; [reflexivity|].
  fold (mem_str n r). destruct (str_eqb n x) eqn:E.
  - apply str_eqb_eq in E. subst x. destruct (p n) eqn:Hp; cbn [map find_mtype mk_scalar mt_name orb andb].
    + now rewrite str_eqb_refl.
    + rewrite IH. destruct (mem_str n r); cbn [andb]; rewrite ?Hp; reflexivity.
  - destruct (p x); cbn [map find_mtype mk_scalar mt_name orb]; rewrite ?E; apply IH.
Qed.
Lemma find_mtype_builtin n :
  find_mtype n builtin_scalar_types = if is_builtin_scalar n then Some (mk_scalar n) else None.
Proof.
  unfold builtin_scalar_types, is_builtin_scalar.
  rewrite <- (Bool.andb_true_r (mem_str n builtin_scalar_names)).
  rewrite <- (find_mtype_scalars n (fun _ => true) builtin_scalar_names).
  reflexivity.
Qed.

Lemma meta_types_are_meta t : In t meta_types -> is_meta_name (mt_name t) = true.
Proof.
  assert (H : forallb (fun t => is_meta_name (mt_name t)) meta_types = true) by reflexivity.
  rewrite forallb_forall in H. apply H.
Qed.
Lemma find_meta n : is_meta_name n = false -> find_mtype n meta_types = None.
Proof.
  intros Hn. destruct (find_mtype n meta_types) as [t|] eqn:E; [|reflexivity].
  apply find_mtype_some in E as [-> Hin]. apply meta_types_are_meta in Hin. congruence.
Qed.

Lemma all_refs_app l1 l2 dirs x : mem_str x (all_refs l1 dirs) = true -> mem_str x (all_refs (l1 ++ l2) dirs) = true.
Proof.
  unfold all_refs. rewrite flat_map_app, !mem_str_app. intros H.
  apply Bool.orb_true_iff in H as [H|H]; rewrite H; cbn [orb]; rewrite ?Bool.orb_true_r; reflexivity.
Qed.

(** for a compared name the types listed by the introspection result and those of the SDL document coincide *)
Lemma find_listed meta M n :
  vis_of M n = true ->
  find_mtype n (listed_types meta M) = find_mtype n (m_types M ++ builtin_scalar_types).
Proof.
  intros Hv. unfold listed_types. rewrite !find_mtype_app.
  destruct (find_mtype n (m_types M)) as [t|] eqn:Hm; [reflexivity|].
  unfold vis_of in Hv. apply Bool.andb_true_iff in Hv as [Hmeta Hb].
  apply Bool.negb_true_iff in Hmeta. apply Bool.negb_true_iff in Hb.
  unfold used_builtin_scalars. fold mk_scalar. rewrite find_mtype_scalars, find_mtype_builtin.
  fold (is_builtin_scalar n). destruct (is_builtin_scalar n) eqn:Hbs; cbn [andb] in *.
  - apply Bool.negb_false_iff in Hb.
    (* n is listed without the introspection types: it is referenced *)
    unfold listed_types in Hb. rewrite app_nil_r, map_app, mem_str_app in Hb.
    rewrite <- find_mtype_mem, Hm in Hb. cbn [is_some orb] in Hb.
    rewrite <- find_mtype_mem in Hb. unfold used_builtin_scalars in Hb. fold mk_scalar in Hb.
    rewrite find_mtype_scalars in Hb. fold (is_builtin_scalar n) in Hb. rewrite Hbs in Hb. cbn [andb] in Hb.
    destruct (mem_str n (all_refs (m_types M ++ []) (spec_directives ++ m_dirs M))) eqn:Hr; [|discriminate].
    rewrite app_nil_r in Hr. rewrite (all_refs_app _ (if meta then meta_types else []) _ _ Hr). reflexivity.
  - destruct meta; [apply find_meta; assumption|reflexivity].
Qed.

Lemma vis_plain M n : plain_name n = true -> vis_of M n = true.
Proof.
  unfold plain_name, vis_of. intros H. apply Bool.andb_true_iff in H as [H1 H2].
  rewrite H1. apply Bool.negb_true_iff in H2. rewrite H2. reflexivity.
Qed.

(* ------------------------------------------------------------------------------------------ *)
(** * directives: built-ins listed first (JSON) or last (SDL) *)

Lemma nodup_app_disjoint l1 l2 x : nodup_str (l1 ++ l2) = true -> mem_str x l1 = true -> mem_str x l2 = false.
Proof.
  induction l1 as [|y r IH]; cbn [app nodup_str mem_str existsb]; [discriminate|].
  intros H. apply Bool.andb_true_iff in H as [Hy Hr]. fold (mem_str x r).
  destruct (str_eqb x y) eqn:E; cbn [orb].
  - intros _. apply str_eqb_eq in E. subst y. apply Bool.negb_true_iff in Hy.
    rewrite mem_str_app in Hy. apply Bool.orb_false_iff in Hy. tauto.
  - intros Hx. now apply IH.
Qed.

Lemma find_spec_builtin n : find_mdir n spec_directives = find_mdir n builtin_dirs.
Proof.
  unfold spec_directives, builtin_dirs. cbn [find_mdir md_name].
  destruct (str_eqb n (s "include")) eqn:E1, (str_eqb n (s "skip")) eqn:E2; try reflexivity.
  apply str_eqb_eq in E1, E2. subst n. discriminate E2.
Qed.

Lemma find_dirs_agree M n :
  nodup_str (map md_name (m_dirs M) ++ map md_name builtin_dirs) = true ->
  find_mdir n (listed_dirs M) = find_mdir n (m_dirs M ++ builtin_dirs).
Proof.
  intros Hnd. unfold listed_dirs. rewrite !find_mdir_app, find_spec_builtin.
  destruct (find_mdir n (m_dirs M)) as [d|] eqn:Hu; [|destruct (find_mdir n builtin_dirs); reflexivity].
  assert (Hm : mem_str n (map md_name (m_dirs M)) = true) by (rewrite <- find_mdir_mem, Hu; reflexivity).
  pose proof (nodup_app_disjoint _ _ _ Hnd Hm) as Hb. rewrite <- find_mdir_mem in Hb.
  destruct (find_mdir n builtin_dirs); [discriminate|reflexivity].
Qed.

(* ------------------------------------------------------------------------------------------ *)
(** * root operation types *)

Definition root_names (r : sroots) (op : optype) : option str := option_map nval (declared_root r op).
Definition set_step (r : sroots) (kv : optype * ident) : sroots := set_root r (fst kv) (ident_to_node (snd kv)).

Lemma set_root_names r r' o i i' op :
  iname i = iname i' -> (forall op, root_names r op = root_names r' op) ->
  root_names (set_root r o (ident_to_node i)) op = root_names (set_root r' o (ident_to_node i')) op.
Proof.
  intros Hi Hr. pose proof (Hr Query) as Hq. pose proof (Hr Mutation) as Hm. pose proof (Hr Subscription) as Hs.
  unfold root_names in *. destruct o, op; cbn [set_root declared_root r_query r_mutation r_subscription option_map ident_to_node nval] in *;
    congruence.
Qed.

Lemma fold_set_root_erased ops ops' r r' op :
  map (fun kv => (fst kv, erase_ident (snd kv))) ops = map (fun kv => (fst kv, erase_ident (snd kv))) ops' ->
  (forall op, root_names r op = root_names r' op) ->
  root_names (fold_left set_step ops r) op = root_names (fold_left set_step ops' r') op.
Proof.
  revert ops' r r' op. induction ops as [|[o i] ops IH]; intros [|[o' i'] ops'] r r' op H Hr; cbn [map] in H; try discriminate.
  - cbn [fold_left]. apply Hr.
  - injection H as Ho Hi Hrest. cbn [fst snd] in *. subst o'. cbn [fold_left]. apply IH; [assumption|].
    intros op'. unfold set_step. cbn [fst snd]. apply set_root_names; [|assumption].
    unfold erase_ident in Hi. congruence.
Qed.

(** the only schema definition of the document of M *)
Definition sd_of (M : smodel) : schemadef :=
  mkSchemaDef (desc0 (m_desc M)) pos0 []
    ((Query, id0 (m_query M)) :: match m_mutation M with Some x => [(Mutation, id0 x)] | None => [] end
     ++ match m_subscription M with Some x => [(Subscription, id0 x)] | None => [] end).
Lemma schemadef_of_sd M : schemadef_of M = if m_explicit M then [TSSchema (sd_of M)] else [].
Proof. reflexivity. Qed.

Definition model_root_names (M : smodel) (op : optype) : option str :=
  match op with Query => Some (m_query M) | Mutation => m_mutation M | Subscription => m_subscription M end.
Lemma sd_of_root_names M op : root_names (fold_left set_step (sd_ops (sd_of M)) roots0) op = model_root_names M op.
Proof. unfold sd_of, model_root_names. cbn [sd_ops]. destruct (m_mutation M) as [x|], (m_subscription M) as [y|], op; reflexivity. Qed.

(** roots and description of the SDL route for a document that says what the document of M says *)
Lemma sdl_roots_explicit M D :
  m_explicit M = true ->
  map erase_schemadef (schema_defs D) = map erase_schemadef (schema_defs (sdl_doc M)) ->
  parsed_positions D ->
  let sc := ast_to_type_system D in
  option_map nval (sc_desc sc) = m_desc M /\
  pbuiltin (npos (sc_roots sc)) = false /\
  (forall op, root_names (nval (sc_roots sc)) op = model_root_names M op).
Proof.
  intros Hex Hsd Hpos. cbn zeta. destruct (desc_roots_ast D) as [Hd Hr]. rewrite Hd, Hr. clear Hd Hr.
  rewrite schema_defs_sdl_doc, schemadef_of_sd, Hex in Hsd. cbn [schema_defs map] in Hsd.
  unfold parsed_positions in Hpos.
  destruct (schema_defs D) as [|sd [|sd2 rest]]; cbn [map] in Hsd; try discriminate.
  assert (Hsd' : erase_schemadef sd = erase_schemadef (sd_of M)) by congruence. clear Hsd.
  inversion Hpos as [|? ? Hp _]; subst.
  cbn [fold_left]. unfold sd_step. cbn [fst snd convert_schema_definition b_desc b_roots b_types b_dirs npos nval].
  assert (Hdesc : erase_desc (sd_desc sd) = erase_desc (sd_desc (sd_of M))).
  { change (sd_desc (erase_schemadef sd) = sd_desc (erase_schemadef (sd_of M))). now rewrite Hsd'. }
  assert (Hops : map (fun kv => (fst kv, erase_ident (snd kv))) (sd_ops sd) = map (fun kv => (fst kv, erase_ident (snd kv))) (sd_ops (sd_of M))).
  { change (sd_ops (erase_schemadef sd) = sd_ops (erase_schemadef (sd_of M))). now rewrite Hsd'. }
  split; [|split].
  - cbn [sd_of sd_desc] in Hdesc. destruct (sd_desc sd) as [x|], (m_desc M) as [y|]; cbn in Hdesc |- *; congruence.
  - exact Hp.
  - intros op. rewrite <- sd_of_root_names.
    apply (fold_set_root_erased (sd_ops sd) (sd_ops (sd_of M)) roots0 roots0 op Hops). reflexivity.
Qed.

Lemma sdl_roots_implicit M D :
  m_explicit M = false ->
  map erase_schemadef (schema_defs D) = map erase_schemadef (schema_defs (sdl_doc M)) ->
  let sc := ast_to_type_system D in
  sc_desc sc = None /\ sc_roots sc = dnode roots0.
Proof.
  intros Hex Hsd. cbn zeta. destruct (desc_roots_ast D) as [Hd Hr]. rewrite Hd, Hr.
  rewrite schema_defs_sdl_doc, schemadef_of_sd, Hex in Hsd. cbn [schema_defs map] in Hsd.
  destruct (schema_defs D); [|discriminate]. split; reflexivity.
Qed.

Lemma root_type_def sc op :
  root_type sc op = match root_name sc op with Some n => if is_some (get_type sc n) then Some n else None | None => None end.
Proof. unfold root_type. destruct (root_name sc op) as [n|]; [|reflexivity]. destruct (get_type sc n); reflexivity. Qed.

Lemma is_some_option_map {A B} (f : A -> B) o : is_some (option_map f o) = is_some o.
Proof. destruct o; reflexivity. Qed.

(* ------------------------------------------------------------------------------------------ *)
(** * the theorem *)

Lemma default_root_plain op : plain_name (default_root_name op) = true.
Proof. destruct op; reflexivity. Qed.

(** general form: the introspection result may list the types in any order, with any extra entries, as long as every
    compared name is listed with M's definition (or as the built-in scalar it is) *)
Theorem routes_agree_listing st types M D :
  model_ok M = true ->
  (forall n, vis_of M n = true -> find_mtype n types = find_mtype n (m_types M ++ builtin_scalar_types)) ->
  doc_equiv D (sdl_doc M) ->
  parsed_positions D ->
  exists Sj, json_route (introspect_of st types M) = Ok Sj /\ schema_equiv_on (vis_of M) Sj (ast_to_type_system D).
Proof.
  intros Hok Hfind [Hsd [Hty Hdir]] Hpos.
  unfold model_ok in Hok.
  apply Bool.andb_true_iff in Hok as [Hok Hdesc]. apply Bool.andb_true_iff in Hok as [Hok Hroots].
  apply Bool.andb_true_iff in Hok as [Hnd_dirs Himpl].
  unfold dirs_ok in Hnd_dirs.
  exists (json_schema types M). split; [apply json_route_introspect_of|].
  set (Sj := json_schema types M). set (Ss := ast_to_type_system D).
  (* types, per compared name *)
  assert (Htypes : forall n, vis_of M n = true ->
            option_map norm_typedef (get_type Sj n) = option_map norm_typedef (get_type Ss n)).
  { intros n Hv. unfold Ss. rewrite (get_type_doc_equiv D (sdl_doc M) n (Hty n)).
    unfold Sj. rewrite get_type_json, get_type_ast, find_typedef_sdl_doc, (Hfind n Hv).
    destruct (find_mtype n (m_types M ++ builtin_scalar_types)) as [t|]; cbn [option_map]; [|reflexivity].
    now rewrite norm_typedef_of. }
  assert (Hsome : forall n, plain_name n = true -> is_some (get_type Sj n) = is_some (get_type Ss n)).
  { intros n Hp. pose proof (Htypes n (vis_plain M n Hp)) as E.
    rewrite <- (is_some_option_map norm_typedef (get_type Sj n)), E. apply is_some_option_map. }
  split; [|split; [|split]].
  - (* description *)
    destruct (m_explicit M) eqn:Hex.
    + destruct (sdl_roots_explicit M D Hex Hsd Hpos) as [Hd _]. fold Ss in Hd. rewrite Hd.
      unfold Sj, json_schema. cbn [sc_desc]. destruct (m_desc M); reflexivity.
    + destruct (sdl_roots_implicit M D Hex Hsd) as [Hd _]. fold Ss in Hd. rewrite Hd.
      unfold desc_ok in Hdesc. rewrite Hex in Hdesc. cbn [orb] in Hdesc.
      unfold Sj, json_schema. cbn [sc_desc]. destruct (m_desc M); [discriminate|reflexivity].
  - (* root operation types *)
    intros op. rewrite !root_type_def.
    (* the JSON route states a query root, so its roots are explicit: only declared roots count *)
    assert (Hj : root_name Sj op = model_root_names M op).
    { unfold root_name, roots_explicit, Sj, json_schema. cbn [sc_roots npos nval dnode r_query].
      destruct op; cbn [declared_root r_query r_mutation r_subscription model_root_names];
        try destruct (m_mutation M); try destruct (m_subscription M); reflexivity. }
    rewrite Hj.
    unfold roots_ok in Hroots. apply Bool.andb_true_iff in Hroots as [Hroots Hrs]. apply Bool.andb_true_iff in Hroots as [Hrq Hrm].
    assert (Hplain : forall n, model_root_names M op = Some n -> plain_name n = true).
    { intros n Hm. destruct op; cbn [model_root_names] in Hm; [injection Hm as <-; assumption| |].
      - rewrite Hm in Hrm. assumption.
      - rewrite Hm in Hrs. assumption. }
    destruct (m_explicit M) eqn:Hex.
    + destruct (sdl_roots_explicit M D Hex Hsd Hpos) as [_ [Hb Hn]]. fold Ss in Hb, Hn.
      assert (Hs : root_name Ss op = model_root_names M op).
      { unfold root_name, roots_explicit. rewrite Hb. cbn [negb orb]. specialize (Hn op). unfold root_names in Hn.
        destruct (declared_root (nval (sc_roots Ss)) op) as [x|]; cbn [option_map] in Hn; rewrite <- Hn; reflexivity. }
      rewrite Hs. destruct (model_root_names M op) as [n|] eqn:Hm; [|reflexivity].
      now rewrite (Hsome n (Hplain n eq_refl)).
    + destruct (sdl_roots_implicit M D Hex Hsd) as [_ Hr]. fold Ss in Hr.
      assert (Hs : root_name Ss op = Some (default_root_name op)).
      { unfold root_name, roots_explicit. rewrite Hr. destruct op; reflexivity. }
      rewrite Hs.
      unfold implicit_roots_ok in Himpl. rewrite Hex in Himpl. cbn [orb] in Himpl.
      apply Bool.andb_true_iff in Himpl as [Himpl Hs3]. apply Bool.andb_true_iff in Himpl as [Hq Hm].
      (* a root the model does not have: the type with the default name does not exist on either route *)
      assert (Habsent : mem_str (default_root_name op) (map mt_name (m_types M)) = false ->
                        is_some (get_type Ss (default_root_name op)) = false).
      { intros Hmem. rewrite <- (Hsome _ (default_root_plain op)). unfold Sj.
        rewrite get_type_json, (Hfind _ (vis_plain M _ (default_root_plain op))), find_mtype_app, find_mtype_builtin.
        rewrite <- find_mtype_mem in Hmem. destruct (find_mtype (default_root_name op) (m_types M)); [discriminate|].
        destruct op; reflexivity. }
      destruct op; cbn [model_root_names].
      * apply str_eqb_eq in Hq. rewrite Hq. change (s "Query") with (default_root_name Query).
        now rewrite (Hsome _ (default_root_plain Query)).
      * change (s "Mutation") with (default_root_name Mutation) in Hm.
        destruct (mem_str (default_root_name Mutation) (map mt_name (m_types M))) eqn:Hmem; destruct (m_mutation M) as [x|]; cbn [option_eqb] in Hm; try discriminate.
        -- apply str_eqb_eq in Hm. subst x. now rewrite (Hsome _ (default_root_plain Mutation)).
        -- now rewrite (Habsent eq_refl).
      * change (s "Subscription") with (default_root_name Subscription) in Hs3.
        destruct (mem_str (default_root_name Subscription) (map mt_name (m_types M))) eqn:Hmem; destruct (m_subscription M) as [x|]; cbn [option_eqb] in Hs3; try discriminate.
        -- apply str_eqb_eq in Hs3. subst x. now rewrite (Hsome _ (default_root_plain Subscription)).
        -- now rewrite (Habsent eq_refl).
  - exact Htypes.
  - (* directives *)
    intros n. unfold Ss. rewrite (get_directive_doc_equiv D (sdl_doc M) n (Hdir n)).
    unfold Sj. rewrite get_directive_json, get_directive_ast, find_dirdef_sdl_doc, (find_dirs_agree M n Hnd_dirs).
    destruct (find_mdir n (m_dirs M ++ builtin_dirs)) as [d|]; cbn [option_map]; [|reflexivity].
    now rewrite norm_dirdef_of.
Qed.

Theorem routes_agree st meta M D :
  model_ok M = true ->
  doc_equiv D (sdl_doc M) ->
  parsed_positions D ->
  exists Sj, json_route (introspect st meta M) = Ok Sj /\ schema_equiv_on (vis_of M) Sj (ast_to_type_system D).
Proof.
  intros Hok He Hp. unfold introspect. apply routes_agree_listing; try assumption. intros n Hv. now apply find_listed.
Qed.

(** in particular the order in which the result lists the types is immaterial (distinct names) *)
Lemma find_mtype_perm n l1 l2 :
  Permutation l1 l2 -> nodup_str (map mt_name l1) = true -> find_mtype n l1 = find_mtype n l2.
Proof.
  intros Hp. induction Hp as [|x l l' Hp IH|x y l|l l' l'' Hp1 IH1 Hp2 IH2]; intros Hnd.
  - reflexivity.
  - cbn [find_mtype]. cbn [map nodup_str] in Hnd. apply Bool.andb_true_iff in Hnd as [_ Hnd]. now rewrite IH.
  - cbn [find_mtype]. cbn [map nodup_str mem_str existsb] in Hnd. apply Bool.andb_true_iff in Hnd as [Hy _].
    apply Bool.negb_true_iff, Bool.orb_false_iff in Hy as [Hyx _].
    destruct (str_eqb n (mt_name x)) eqn:Ex, (str_eqb n (mt_name y)) eqn:Ey; try reflexivity.
    apply str_eqb_eq in Ex, Ey. rewrite <- Ex, <- Ey, str_eqb_refl in Hyx. discriminate.
  - rewrite IH1 by assumption. apply IH2.
    (* distinctness is preserved by permutation *)
    clear IH1 IH2 Hp2 l''. induction Hp1 as [|x l l' Hp IH|x y l|l l' l'' Hp1 IH1 Hp2 IH2]; cbn [map nodup_str] in *.
    + reflexivity.
    + apply Bool.andb_true_iff in Hnd as [Hx Hnd]. rewrite (IH Hnd), Bool.andb_true_r.
      apply Bool.negb_true_iff. apply Bool.negb_true_iff in Hx.
      destruct (mem_str (mt_name x) (map mt_name l')) eqn:E; [|reflexivity].
      apply mem_str_true in E. apply (Permutation_in _ (Permutation_sym (Permutation_map mt_name Hp))) in E.
      apply mem_str_true in E. congruence.
    + cbn [mem_str existsb] in *. apply Bool.andb_true_iff in Hnd as [Hy Hnd]. apply Bool.andb_true_iff in Hnd as [Hx Hnd].
      apply Bool.negb_true_iff, Bool.orb_false_iff in Hy as [Hyx Hy]. rewrite Hnd, Bool.andb_true_r.
      fold (mem_str (mt_name x) (map mt_name l)) in *. fold (mem_str (mt_name y) (map mt_name l)) in *.
      rewrite str_eqb_sym, Hyx. cbn [orb]. rewrite Hx. cbn [andb]. now rewrite Hy.
    + auto.
Qed.

Theorem routes_agree_any_order st meta M D types :
  model_ok M = true ->
  Permutation types (listed_types meta M) ->
  nodup_str (map mt_name types) = true ->
  doc_equiv D (sdl_doc M) ->
  parsed_positions D ->
  exists Sj, json_route (introspect_of st types M) = Ok Sj /\ schema_equiv_on (vis_of M) Sj (ast_to_type_system D).
Proof.
  intros Hok Hperm Hnd He Hp. apply routes_agree_listing; try assumption.
  intros n Hv. rewrite (find_mtype_perm n _ _ Hperm Hnd). now apply find_listed.
Qed.
