(** C15 — emit_respects_equiv, type level, against builder-C10's model of the schema declaration printer
    (V.C10.Model.type_member: what `TypeDefinition::print_type` computes before text is written — local alias name and
    TSType body of one declaration in one namespace).

    For two schema documents whose first definitions of every compared name are related up to positions, descriptions,
    default-value text AND deprecations (the relation C15_printers_see_same_types establishes between the SDL document
    and type_system_to_ast of the JSON route's Schema), and printing contexts that agree on the scalar mappings, the
    declaration computed for a compared name is the same on both: same outcome (declared / nothing / error), same local
    alias, same TSType up to key positions and JSDoc text.  For an interface (printed as the union of its implementers in
    the declaration order of the document) the union has the same members.  The printer model reads the documents only
    through get_type / iter_types; nothing else about them is used. *)
From Coq Require Import Sorting.Permutation.
From V Require Import Base.Util Gql.Ast Ts.TsType C15.Model C15.Spec C15.Proofs1 C15.Proofs2 C15.Proofs4 C15.CheckSim.
From V Require C10.Model.

Module X := V.C10.Model.

Lemma map_eq_Forall2' {A B C} (f : A -> C) (g : B -> C) l1 l2 : map f l1 = map g l2 -> Forall2 (fun a b => f a = g b) l1 l2.
Proof.
  revert l2. induction l1 as [|x r IH]; intros [|y r2] H; cbn [map] in H; try discriminate; [constructor|].
  injection H as Hx Hr. constructor; auto.
Qed.

(* ------------------------------------------------------------------------------------------ *)
(** * relations up to deprecation *)

Definition iv_rel_s (a b : inputvaldef) : Prop := norm_input (convert_input a) = strip_input (norm_input (convert_input b)).
Definition fd_rel_s (a b : fielddef) : Prop := norm_field (convert_field a) = strip_field (norm_field (convert_field b)).
Definition td_rel_s (a b : typedef) : Prop :=
  norm_typedef (nval (conv_td a)) = strip_typedef (norm_typedef (nval (conv_td b))).

Lemma iv_rel_s_facts a b : iv_rel_s a b -> iname (iv_name a) = iname (iv_name b) /\ ty_rel (iv_type a) (iv_type b).
Proof.
  destruct a as [d1 p1 n1 t1 dv1 ds1], b as [d2 p2 n2 t2 dv2 ds2]. unfold iv_rel_s, convert_input, norm_input, strip_input.
  cbn [iv_name iv_desc iv_type iv_default iv_dirs si_name si_desc si_type si_default si_depr]. intros H.
  injection H as Hn _ Ht _ _. split; [exact Hn|now apply norm_sty_erase].
Qed.
Lemma fd_rel_s_facts a b : fd_rel_s a b -> iname (fd_name a) = iname (fd_name b) /\ ty_rel (fd_type a) (fd_type b).
Proof.
  destruct a as [d1 n1 a1 t1 ds1], b as [d2 n2 a2 t2 ds2]. unfold fd_rel_s, convert_field, norm_field, strip_field.
  cbn [fd_name fd_desc fd_type fd_args fd_dirs sf_name sf_desc sf_type sf_args sf_depr]. intros H.
  injection H as Hn _ Ht _ _. split; [exact Hn|now apply norm_sty_erase].
Qed.

Lemma names_rel l1 l2 : map nnode (map ident_to_node l1) = map nnode (map ident_to_node l2) -> map iname l1 = map iname l2.
Proof.
  rewrite !map_map. intros H. apply map_eq_Forall2 in H. induction H as [|x y r r' Hx _ IH]; cbn [map]; [reflexivity|].
  f_equal; [exact (f_equal nval Hx)|exact IH].
Qed.

(** what the printer reads of a related pair of definitions *)
Inductive td_view_s : typedef -> typedef -> Prop :=
| SScalar d1 p1 n1 ds1 k1 d2 p2 n2 ds2 k2 : iname n1 = iname n2 -> td_view_s (TDScalar d1 p1 n1 ds1 k1) (TDScalar d2 p2 n2 ds2 k2)
| SObject d1 p1 n1 i1 ds1 f1 k1 d2 p2 n2 i2 ds2 f2 k2 :
    iname n1 = iname n2 -> map iname i1 = map iname i2 -> Forall2 fd_rel_s f1 f2 ->
    td_view_s (TDObject d1 p1 n1 i1 ds1 f1 k1) (TDObject d2 p2 n2 i2 ds2 f2 k2)
| SInterface d1 p1 n1 i1 ds1 f1 k1 d2 p2 n2 i2 ds2 f2 k2 :
    iname n1 = iname n2 -> td_view_s (TDInterface d1 p1 n1 i1 ds1 f1 k1) (TDInterface d2 p2 n2 i2 ds2 f2 k2)
| SUnion d1 p1 n1 ds1 m1 k1 d2 p2 n2 ds2 m2 k2 :
    iname n1 = iname n2 -> map iname m1 = map iname m2 -> td_view_s (TDUnion d1 p1 n1 ds1 m1 k1) (TDUnion d2 p2 n2 ds2 m2 k2)
| SEnum d1 p1 n1 ds1 v1 k1 d2 p2 n2 ds2 v2 k2 :
    iname n1 = iname n2 -> map (fun e => iname (ev_name e)) v1 = map (fun e => iname (ev_name e)) v2 ->
    td_view_s (TDEnum d1 p1 n1 ds1 v1 k1) (TDEnum d2 p2 n2 ds2 v2 k2)
| SInput d1 p1 n1 ds1 f1 k1 d2 p2 n2 ds2 f2 k2 :
    iname n1 = iname n2 -> Forall2 iv_rel_s f1 f2 -> td_view_s (TDInput d1 p1 n1 ds1 f1 k1) (TDInput d2 p2 n2 ds2 f2 k2).

Lemma td_rel_s_view a b : td_rel_s a b -> td_view_s a b.
Proof.
  unfold td_rel_s, conv_td. destruct a, b; cbn [convert_type_definition snd nval norm_typedef strip_typedef]; intros H; try discriminate.
  - injection H as Hn _. now constructor.
  - injection H as Hn _ Hf Hi. constructor; [exact Hn|now apply names_rel|].
    rewrite !map_map in Hf. exact (map_eq_Forall2' _ _ _ _ Hf).
  - injection H as Hn _ _ _. now constructor.
  - injection H as Hn _ Hm. constructor; [exact Hn|now apply names_rel].
  - injection H as Hn _ Hv. constructor; [exact Hn|].
    rewrite !map_map in Hv. apply map_eq_Forall2' in Hv.
    induction Hv as [|e e' r r' He _ IH]; cbn [map]; [reflexivity|]. f_equal; [|exact IH].
    exact (f_equal (fun m => nval (sm_name m)) He).
  - injection H as Hn _ Hf. constructor; [exact Hn|]. rewrite !map_map in Hf. exact (map_eq_Forall2' _ _ _ _ Hf).
Qed.

(* ------------------------------------------------------------------------------------------ *)
(** * shapes: a declaration up to key positions and JSDoc text *)

Definition norm_tsfield (f : tsfield) : tsfield := mkField (f_key f) pos0 (f_ty f) (f_readonly f) (f_optional f) None.
Definition novar (t : tstype) : tstype := match t with TVar n _ => TVar n pos0 | t => t end.
Definition norm_body (b : X.body) : X.body :=
  match b with
  | X.BType (TObject fs) => X.BType (TObject (map norm_tsfield fs))
  | X.BType (TUnion ts) => X.BType (TUnion (map novar ts))
  | X.BType t => X.BType (novar t)
  | b => b
  end.
Definition member_shape (m : X.member) : str * X.body := (X.m_local m, norm_body (X.m_body m)).
Definition res_shape (r : X.res (option X.member)) : X.res (option (str * X.body)) :=
  match r with
  | X.Ok m => X.Ok (option_map member_shape m)
  | X.ErrScalar n _ => X.ErrScalar n pos0
  | X.Panic site => X.Panic site
  end.

Lemma ts_impl_erase x t : ts_of_type_impl (fun _ => x) (erase_ty t) = ts_of_type_impl (fun _ => x) t.
Proof. induction t as [n|t IH|p t IH]; cbn [erase_ty ts_of_type_impl]; [reflexivity|now rewrite IH|now rewrite IH]. Qed.
Lemma ts_type_rel x a b : ty_rel a b -> get_ts_type_of_type (fun _ => x) a = get_ts_type_of_type (fun _ => x) b.
Proof. unfold ty_rel, get_ts_type_of_type. intros H. now rewrite <- (ts_impl_erase x a), <- (ts_impl_erase x b), H. Qed.

Lemma existsb_find {A} (p : A -> bool) l : existsb p l = match find p l with Some _ => true | None => false end.
Proof. induction l as [|x r IH]; cbn [existsb find]; [reflexivity|]. destruct (p x); auto. Qed.

Lemma Forall2_impl' {A B} (R R' : A -> B -> Prop) l1 l2 : (forall a b, R a b -> R' a b) -> Forall2 R l1 l2 -> Forall2 R' l1 l2.
Proof. intros Hi H. induction H; constructor; auto. Qed.

(** two identifier bags with the same elements *)
Definition bag_equiv_b (l1 l2 : list str) : bool := forallb (fun x => X.mem x l2) l1 && forallb (fun x => X.mem x l1) l2.
Lemma x_mem_in x l : X.mem x l = true <-> In x l.
Proof.
  unfold X.mem. rewrite existsb_exists. split.
  - intros [y [Hy E]]. apply str_eqb_eq in E. now subst.
  - intros H. exists x. split; [assumption|apply str_eqb_refl].
Qed.
Lemma bag_equiv_mem l1 l2 : bag_equiv_b l1 l2 = true -> forall n, X.mem n l1 = X.mem n l2.
Proof.
  unfold bag_equiv_b. intros H n. apply Bool.andb_true_iff in H as [H1 H2]. rewrite forallb_forall in H1, H2.
  destruct (X.mem n l1) eqn:E1, (X.mem n l2) eqn:E2; try reflexivity.
  - apply x_mem_in in E1. specialize (H1 _ E1). congruence.
  - apply x_mem_in in E2. specialize (H2 _ E2). congruence.
Qed.

Lemma union_shape l1 l2 : map novar l1 = map novar l2 ->
  norm_body (X.BType (ts_union l1)) = norm_body (X.BType (ts_union l2)).
Proof.
  destruct l1 as [|x1 [|y1 r1]], l2 as [|x2 [|y2 r2]]; cbn [map]; intros H; try discriminate; unfold ts_union.
  - reflexivity.
  - injection H as H. destruct x1, x2; cbn [novar] in H; try discriminate; cbn [norm_body novar]; congruence.
  - cbn [norm_body map]. now rewrite H.
Qed.

(* ------------------------------------------------------------------------------------------ *)
(** * the simulation *)
Section Emit.
  Variables DA DD : tsdoc.
  Variable P : str -> bool.
  Variable o : X.sopts.
  Variable tg : X.target.
  Let c1 := X.make_ctx o DA tg.
  Let c2 := X.make_ctx o DD tg.

  Hypothesis Hty : forall n, P n = true -> orel td_rel_s (X.get_type DA n) (X.get_type DD n).
  (** the two contexts agree on the identifiers of the scalar mappings (local alias names) *)
  Hypothesis Hbag : bag_equiv_b (X.c_bag c1) (X.c_bag c2) = true.

  Lemma local_rel n : P n = true -> X.local_type_name c1 n = X.local_type_name c2 n.
  Proof.
    intros Hp. unfold X.local_type_name, X.local_name. rewrite (bag_equiv_mem _ _ Hbag n). unfold c1, c2. cbn [X.make_ctx X.c_doc].
    rewrite !existsb_find. pose proof (Hty n Hp) as H. unfold X.get_type in H.
    destruct (find (fun t => str_eqb (X.tname t) n) (X.typedefs DA)), (find (fun t => str_eqb (X.tname t) n) (X.typedefs DD));
      cbn [orel] in H; try contradiction; reflexivity.
  Qed.
  Lemma local_panic_rel n : P n = true -> X.local_type_name_or_panic c1 n = X.local_type_name_or_panic c2 n.
  Proof. intros Hp. unfold X.local_type_name_or_panic. now rewrite (local_rel n Hp). Qed.

  Definition ty_okP (t : ty) : bool := P (iname (ty_unwrapped t)).

  Lemma ts_local_rel a b : ty_rel a b -> ty_okP a = true -> X.ts_of_type_local c1 a = X.ts_of_type_local c2 b.
  Proof.
    intros Hr Hok. unfold X.ts_of_type_local. rewrite <- (ty_rel_unwrapped a b Hr), (local_panic_rel _ Hok).
    destruct (X.local_type_name_or_panic c2 (iname (ty_unwrapped a))); cbn [X.bind]; try reflexivity.
    now rewrite (ts_type_rel _ a b Hr).
  Qed.

  (** results of the per-field computations: same outcome, fields equal up to key position and JSDoc *)
  Definition fres_rel (r1 r2 : X.res tsfield) : Prop :=
    match r1, r2 with
    | X.Ok x, X.Ok y => norm_tsfield x = norm_tsfield y
    | X.ErrScalar n _, X.ErrScalar m _ => n = m
    | X.Panic a, X.Panic b => a = b
    | _, _ => False
    end.
  Definition lres_rel (r1 r2 : X.res (list tsfield)) : Prop :=
    match r1, r2 with
    | X.Ok x, X.Ok y => map norm_tsfield x = map norm_tsfield y
    | X.ErrScalar n _, X.ErrScalar m _ => n = m
    | X.Panic a, X.Panic b => a = b
    | _, _ => False
    end.
  Lemma mapM_rel {A B} (R : A -> B -> Prop) (g1 : A -> X.res tsfield) (g2 : B -> X.res tsfield) l1 l2 :
    Forall2 R l1 l2 -> (forall a b, R a b -> fres_rel (g1 a) (g2 b)) -> lres_rel (X.mapM g1 l1) (X.mapM g2 l2).
  Proof.
    intros HF Hg. induction HF as [|a b r1 r2 Hab _ IH]; cbn [X.mapM lres_rel map]; [reflexivity|].
    pose proof (Hg a b Hab) as H. destruct (g1 a) as [x|n p|k], (g2 b) as [y|m q|k']; cbn [fres_rel] in H; try contradiction; cbn [X.bind]; try exact H.
    destruct (X.mapM g1 r1) as [xs|n p|k], (X.mapM g2 r2) as [ys|m q|k']; cbn [lres_rel] in IH; try contradiction; cbn [X.bind lres_rel map]; try exact IH.
    now rewrite H, IH.
  Qed.

  (** closure: the types a compared definition mentions are compared names *)
  Definition emit_closed (t : typedef) : bool :=
    match t with
    | TDObject _ _ _ _ _ fs _ => forallb (fun f => ty_okP (fd_type f)) fs
    | TDInput _ _ _ _ fs _ => forallb (fun f => ty_okP (iv_type f)) fs
    | TDUnion _ _ _ _ ms _ => forallb (fun m => P (iname m)) ms
    | _ => true
    end.

  Lemma Forall2_and_forallb {A B} (R : A -> B -> Prop) (q : A -> bool) l1 l2 :
    Forall2 R l1 l2 -> forallb q l1 = true -> Forall2 (fun a b => R a b /\ q a = true) l1 l2.
  Proof.
    intros H. induction H as [|a b r1 r2 Hab _ IH]; cbn [forallb]; intros Hq; [constructor|].
    apply Bool.andb_true_iff in Hq as [Ha Hr]. constructor; auto.
  Qed.

  (** a definition that is the first one of its name in its document *)
  Definition first_def (D : tsdoc) (t : typedef) : Prop := X.get_type D (X.tname t) = Some t.

  Lemma input_field_dep D d p n ds fs k iv :
    first_def D (TDInput d p n ds fs k) -> In iv fs ->
    exists dep, X.schema_input_field_deprecation D (iname n) (iname (iv_name iv)) = Some dep.
  Proof.
    intros Hf Hin. unfold X.schema_input_field_deprecation.
    change (X.get_type D (iname n) = Some (TDInput d p n ds fs k)) in Hf. rewrite Hf.
    destruct (find (fun iv0 => str_eqb (iname (iv_name iv0)) (iname (iv_name iv))) fs) as [x|] eqn:E; [eauto|].
    exfalso. apply (find_none _ _ E) in Hin. now rewrite str_eqb_refl in Hin.
  Qed.

  Theorem type_member_rel tA tD :
    td_view_s tA tD -> P (X.tname tA) = true -> emit_closed tA = true -> first_def DA tA -> first_def DD tD ->
    (forall d p n i ds fs k, tA <> TDInterface d p n i ds fs k) ->
    Ts.TsDen.assoc (X.tname tA) (X.c_scalars c1) = Ts.TsDen.assoc (X.tname tA) (X.c_scalars c2) ->
    res_shape (X.type_member c1 tA) = res_shape (X.type_member c2 tD).
  Proof.
    intros Hv Hp Hcl HfA HfD Hni Hsc.
    destruct Hv as [a1 a2 n1 a4 a5 b1 b2 n2 b4 b5 Hn
                   |a1 a2 n1 i1 a5 f1 a7 b1 b2 n2 i2 b5 f2 b7 Hn Hi Hf
                   |a1 a2 n1 i1 a5 f1 a7 b1 b2 n2 i2 b5 f2 b7 Hn
                   |a1 a2 n1 a4 m1 a6 b1 b2 n2 b4 m2 b6 Hn Hm
                   |a1 a2 n1 a4 v1 a6 b1 b2 n2 b4 v2 b6 Hn Hvs
                   |a1 a2 n1 a4 f1 a6 b1 b2 n2 b4 f2 b6 Hn Hf];
      unfold X.tname in Hp, Hsc; cbn [typedef_name] in Hp, Hsc; cbn [X.type_member].
    - (* scalar *)
      rewrite <- Hn, Hsc, (local_panic_rel _ Hp). unfold c1, c2. cbn [X.make_ctx X.c_target].
      destruct (Ts.TsDen.assoc (iname n1) (X.c_scalars (X.make_ctx o DD tg))); [|reflexivity].
      destruct (X.local_type_name_or_panic (X.make_ctx o DD tg) (iname n1)); reflexivity.
    - (* object *)
      unfold c1, c2. cbn [X.make_ctx X.c_target]. destruct (X.is_input tg); [reflexivity|]. fold c1 c2.
      cbn [emit_closed] in Hcl. pose proof (Forall2_and_forallb _ _ _ _ Hf Hcl) as HF.
      pose proof (mapM_rel _
        (fun fd => X.bind (X.ts_of_type_local c1 (fd_type fd)) (fun t => X.Ok (mkField (iname (fd_name fd)) (ipos (fd_name fd)) t false false
                      (X.make_ts_description (fd_desc fd) (X.schema_object_field_deprecation (X.c_doc c1) (iname n1) (iname (fd_name fd)))))))
        (fun fd => X.bind (X.ts_of_type_local c2 (fd_type fd)) (fun t => X.Ok (mkField (iname (fd_name fd)) (ipos (fd_name fd)) t false false
                      (X.make_ts_description (fd_desc fd) (X.schema_object_field_deprecation (X.c_doc c2) (iname n2) (iname (fd_name fd)))))))
        f1 f2 HF) as HM.
      rewrite <- Hn in HM |- *. rewrite (local_panic_rel _ Hp).
      match type of HM with ?A -> _ => assert (HA : A) end.
      { intros a b [Hab Hoka]. destruct (fd_rel_s_facts a b Hab) as [Hna Hta]. rewrite (ts_local_rel _ _ Hta Hoka).
        destruct (X.ts_of_type_local c2 (fd_type b)); cbn [X.bind fres_rel]; try reflexivity.
        unfold norm_tsfield. cbn [f_key f_ty f_readonly f_optional]. now rewrite Hna. }
      specialize (HM HA).
      destruct (X.mapM _ f1) as [xs|n p|k], (X.mapM _ f2) as [ys|m q|k']; cbn [lres_rel] in HM; try contradiction; cbn [X.bind res_shape]; try now rewrite HM.
      destruct (X.local_type_name_or_panic c2 (iname n1)); cbn [X.bind res_shape option_map]; try reflexivity.
      unfold member_shape. cbn [X.m_local X.m_body norm_body map]. now rewrite HM.
    - exfalso. eapply Hni. reflexivity.
    - (* union *)
      unfold c1, c2. cbn [X.make_ctx X.c_target]. destruct (X.is_input tg); [reflexivity|]. fold c1 c2.
      rewrite <- Hn, (local_panic_rel _ Hp).
      destruct (X.local_type_name_or_panic c2 (iname n1)); cbn [X.bind res_shape option_map]; try reflexivity.
      unfold member_shape. cbn [X.m_local X.m_body].
      cbn [emit_closed] in Hcl.
      assert (G : map novar (map (fun m => match X.local_type_name c1 (iname m) with
                                           | Some l => if str_eqb l (iname m) then TVar (iname m) (ipos m) else TVar l pos0
                                           | None => TVar (iname m) (ipos m) end) m1)
                = map novar (map (fun m => match X.local_type_name c2 (iname m) with
                                           | Some l => if str_eqb l (iname m) then TVar (iname m) (ipos m) else TVar l pos0
                                           | None => TVar (iname m) (ipos m) end) m2)).
      { clear -Hm Hcl Hty Hbag. revert m2 Hm. induction m1 as [|x r IH]; intros [|y r2] Hm; cbn [map] in Hm; try discriminate; [reflexivity|].
        injection Hm as Hx Hr. cbn [forallb] in Hcl. apply Bool.andb_true_iff in Hcl as [Hpx Hcl]. cbn [map]. rewrite (IH Hcl _ Hr). f_equal.
        rewrite <- Hx, (local_rel _ Hpx). destruct (X.local_type_name c2 (iname x)) as [l|]; [|reflexivity].
        destruct (str_eqb l (iname x)); reflexivity. }
      now rewrite (union_shape _ _ G).
    - (* enum *)
      rewrite <- Hn, (local_panic_rel _ Hp).
      destruct (X.local_type_name_or_panic c2 (iname n1)); cbn [X.bind res_shape option_map]; try reflexivity.
      unfold member_shape. cbn [X.m_local X.m_body norm_body]. f_equal. f_equal. f_equal. f_equal. f_equal.
      clear -Hvs. revert v2 Hvs. induction v1 as [|e r IH]; intros [|e' r'] Hvs; cbn [map] in Hvs; try discriminate; [reflexivity|].
      injection Hvs as He Hr. cbn [map]. now rewrite He, (IH _ Hr).
    - (* input object *)
      unfold c1, c2. cbn [X.make_ctx X.c_target]. destruct (X.is_output tg); [reflexivity|]. fold c1 c2.
      cbn [emit_closed] in Hcl. pose proof (Forall2_and_forallb _ _ _ _ Hf Hcl) as HF.
      assert (HF' : Forall2 (fun a b => (iv_rel_s a b /\ ty_okP (iv_type a) = true) /\ In a f1 /\ In b f2) f1 f2).
      { clear -HF. induction HF as [|a b r1 r2 Hab _ IH]; [constructor|]. constructor; [split; [exact Hab|split; now left]|].
        eapply Forall2_impl'; [|exact IH]. intros x y [H1 [H2 H3]]. split; [exact H1|split; now right]. }
      pose proof (mapM_rel _
        (fun iv => match X.schema_input_field_deprecation (X.c_doc c1) (iname n1) (iname (iv_name iv)) with
                   | None => X.Panic 2
                   | Some dep => X.bind (X.ts_of_type_local c1 (iv_type iv)) (fun t =>
                       let t := into_readonly t in
                       let opt := X.so_optional (X.c_opts c1) && negb (X.is_nonnull (iv_type iv)) in
                       X.Ok (mkField (iname (iv_name iv)) (ipos (iv_name iv)) (if opt then TUnion [t; TUndefined] else t) true opt
                               (X.make_ts_description (iv_desc iv) dep)))
                   end)
        (fun iv => match X.schema_input_field_deprecation (X.c_doc c2) (iname n2) (iname (iv_name iv)) with
                   | None => X.Panic 2
                   | Some dep => X.bind (X.ts_of_type_local c2 (iv_type iv)) (fun t =>
                       let t := into_readonly t in
                       let opt := X.so_optional (X.c_opts c2) && negb (X.is_nonnull (iv_type iv)) in
                       X.Ok (mkField (iname (iv_name iv)) (ipos (iv_name iv)) (if opt then TUnion [t; TUndefined] else t) true opt
                               (X.make_ts_description (iv_desc iv) dep)))
                   end)
        f1 f2 HF') as HM.
      rewrite <- Hn in HM |- *. rewrite (local_panic_rel _ Hp).
      match type of HM with ?A -> _ => assert (HA : A) end.
      { intros a b [[Hab Hoka] [Hina Hinb]]. destruct (iv_rel_s_facts a b Hab) as [Hna Hta].
        unfold c1, c2. cbn [X.make_ctx X.c_doc X.c_opts]. fold c1 c2.
        destruct (input_field_dep DA _ _ _ _ _ _ a HfA Hina) as [d1 E1]. destruct (input_field_dep DD _ _ _ _ _ _ b HfD Hinb) as [d2 E2].
        rewrite <- Hn in E2. rewrite E1, E2, (ts_local_rel _ _ Hta Hoka).
        destruct (X.ts_of_type_local c2 (iv_type b)); cbn [X.bind fres_rel]; try reflexivity.
        unfold norm_tsfield. cbn [f_key f_ty f_readonly f_optional]. rewrite Hna.
        replace (X.is_nonnull (iv_type a)) with (X.is_nonnull (iv_type b)); [reflexivity|].
        unfold ty_rel in Hta. destruct (iv_type a), (iv_type b); cbn [erase_ty] in Hta; try discriminate; reflexivity. }
      specialize (HM HA).
      destruct (X.mapM _ f1) as [xs|n p|k], (X.mapM _ f2) as [ys|m q|k']; cbn [lres_rel] in HM; try contradiction; cbn [X.bind res_shape]; try now rewrite HM.
      destruct (X.local_type_name_or_panic c2 (iname n1)); cbn [X.bind res_shape option_map]; try reflexivity.
      unfold member_shape. cbn [X.m_local X.m_body norm_body]. now rewrite HM.
  Qed.
End Emit.

(* ------------------------------------------------------------------------------------------ *)
(** * bridge: C10's accessors are the lookups of this development *)

Lemma x_get_type D n : X.get_type D n = find_typedef n D.
Proof.
  unfold X.get_type, X.typedefs. induction D as [|d D IH]; cbn [flat_map find find_typedef app]; [reflexivity|].
  destruct d as [sd|t|dd|se|te]; cbn [app find]; auto. unfold X.tname at 1. rewrite str_eqb_sym.
  destruct (str_eqb n (iname (typedef_name t))); auto.
Qed.
Lemma x_get_type_tname D n t : X.get_type D n = Some t -> X.tname t = n.
Proof. unfold X.get_type. intros H. apply find_some in H as [_ H]. now apply str_eqb_eq. Qed.
Lemma x_first_def D n t : X.get_type D n = Some t -> first_def D t.
Proof. intros H. unfold first_def. now rewrite (x_get_type_tname D n t H). Qed.

(* ------------------------------------------------------------------------------------------ *)
(** * the two routes *)

(** Under the hypotheses of C15_routes_agree: the declaration the printer model computes for a compared name from
    type_system_to_ast of the JSON route's Schema (what `generate` prints on that route) and from the SDL document is the
    same up to key positions and JSDoc text, in every namespace, for every scalar configuration on which the two
    printing contexts agree. *)
Theorem emit_respects_equiv st meta M Dsdl :
  model_ok M = true -> doc_equiv Dsdl (sdl_doc M) -> parsed_positions Dsdl ->
  exists Sj, json_route (introspect st meta M) = Ok Sj /\
    let DA := type_system_to_ast Sj in
    forall o tg,
      bag_equiv_b (X.c_bag (X.make_ctx o DA tg)) (X.c_bag (X.make_ctx o Dsdl tg)) = true ->
      forall n tA tD, vis_of M n = true ->
        Ts.TsDen.assoc n (X.c_scalars (X.make_ctx o DA tg)) = Ts.TsDen.assoc n (X.c_scalars (X.make_ctx o Dsdl tg)) ->
        X.get_type DA n = Some tA -> X.get_type Dsdl n = Some tD ->
        emit_closed (vis_of M) tA = true ->
        (forall d p nm i ds fs k, tA <> TDInterface d p nm i ds fs k) ->
        res_shape (X.type_member (X.make_ctx o DA tg) tA) = res_shape (X.type_member (X.make_ctx o Dsdl tg) tD).
Proof.
  intros Hok He Hp. destruct (Proofs4.printers_see_same_types st meta M Dsdl Hok He Hp) as [Sj [Hj Hty]].
  exists Sj. split; [assumption|]. cbn zeta. intros o tg Hbag n tA tD Hv Hsc HA HD Hcl Hni.
  assert (Hrel : forall m, vis_of M m = true -> orel td_rel_s (X.get_type (type_system_to_ast Sj) m) (X.get_type Dsdl m)).
  { intros m Hm. specialize (Hty m Hm). rewrite !get_type_ast, <- !x_get_type in Hty.
    destruct (X.get_type (type_system_to_ast Sj) m), (X.get_type Dsdl m); cbn in Hty |- *; try discriminate; [|exact I].
    injection Hty as Hty. exact Hty. }
  pose proof (Hrel n Hv) as Hr. rewrite HA, HD in Hr. cbn [orel] in Hr.
  apply (type_member_rel (type_system_to_ast Sj) Dsdl (vis_of M) o tg Hrel Hbag tA tD); try assumption.
  - now apply td_rel_s_view.
  - now rewrite (x_get_type_tname _ _ _ HA).
  - exact (x_first_def _ _ _ HA).
  - exact (x_first_def _ _ _ HD).
  - now rewrite (x_get_type_tname _ _ _ HA).
Qed.
