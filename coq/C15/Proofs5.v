(** C15 proofs, part 6: the boolean equivalence evaluated by the correspondence run ([schema_equiv_b], used by
    [Corr.holds] on the implementation's two Schema values) implies the equivalence the theorems state. *)
From V Require Import Base.Util Gql.Ast C15.Model C15.Spec C15.Proofs1 C15.Proofs2.

Lemma pos_eqb_eq a b : pos_eqb a b = true -> a = b.
Proof.
  destruct a as [l c f bi], b as [l' c' f' bi']. unfold pos_eqb. cbn [pline pcol pfile pbuiltin].
  intros H. apply Bool.andb_true_iff in H as [H Hb]. apply Bool.andb_true_iff in H as [H Hf]. apply Bool.andb_true_iff in H as [Hl Hc].
  apply N.eqb_eq in Hl, Hc, Hf. apply Bool.eqb_prop in Hb. congruence.
Qed.

Lemma list_eqb_eq {A} (eqb : A -> A -> bool) (l1 l2 : list A) :
  (forall x y, In x l1 -> eqb x y = true -> x = y) -> list_eqb eqb l1 l2 = true -> l1 = l2.
Proof.
  revert l2. induction l1 as [|x r IH]; intros [|y r2] Hs H; cbn [list_eqb] in H; try discriminate; [reflexivity|].
  apply Bool.andb_true_iff in H as [H1 H2]. f_equal.
  - apply Hs; [now left|assumption].
  - apply IH; [|assumption]. intros a b Ha. apply Hs. now right.
Qed.
Lemma option_eqb_eq {A} (eqb : A -> A -> bool) (a b : option A) :
  (forall x y, eqb x y = true -> x = y) -> option_eqb eqb a b = true -> a = b.
Proof. intros Hs. destruct a, b; cbn [option_eqb]; intros H; try discriminate; [f_equal; now apply Hs|reflexivity]. Qed.

Lemma nstr_eqb_eq a b : nstr_eqb a b = true -> a = b.
Proof.
  destruct a as [x p], b as [y q]. unfold nstr_eqb, node_eqb. cbn [nval npos]. intros H.
  apply Bool.andb_true_iff in H as [H1 H2]. apply str_eqb_eq in H1. apply pos_eqb_eq in H2. congruence.
Qed.
Lemma sty_eqb_eq a b : sty_eqb a b = true -> a = b.
Proof.
  revert b. induction a as [n|t IH|t IH]; intros [m|u|u]; cbn [sty_eqb]; intros H; try discriminate.
  - f_equal. now apply nstr_eqb_eq.
  - f_equal. now apply IH.
  - f_equal. now apply IH.
Qed.
Lemma sinput_eqb_eq a b : sinput_eqb a b = true -> a = b.
Proof.
  destruct a as [a1 a2 a3 a4 a5], b as [b1 b2 b3 b4 b5]. unfold sinput_eqb. cbn [si_name si_desc si_type si_default si_depr]. intros H.
  apply Bool.andb_true_iff in H as [H H5]. apply Bool.andb_true_iff in H as [H H4]. apply Bool.andb_true_iff in H as [H H3].
  apply Bool.andb_true_iff in H as [H1 H2].
  apply nstr_eqb_eq in H1. apply (option_eqb_eq _ _ _ nstr_eqb_eq) in H2. apply sty_eqb_eq in H3.
  apply (option_eqb_eq _ _ _ nstr_eqb_eq) in H4. apply (option_eqb_eq _ _ _ str_eqb_eq) in H5. congruence.
Qed.
Lemma sfield_eqb_eq a b : sfield_eqb a b = true -> a = b.
Proof.
  destruct a as [a1 a2 a3 a4 a5], b as [b1 b2 b3 b4 b5]. unfold sfield_eqb. cbn [sf_name sf_desc sf_type sf_args sf_depr]. intros H.
  apply Bool.andb_true_iff in H as [H H5]. apply Bool.andb_true_iff in H as [H H4]. apply Bool.andb_true_iff in H as [H H3].
  apply Bool.andb_true_iff in H as [H1 H2].
  apply nstr_eqb_eq in H1. apply (option_eqb_eq _ _ _ nstr_eqb_eq) in H2. apply sty_eqb_eq in H3.
  apply (list_eqb_eq _ _ _ (fun x y _ => sinput_eqb_eq x y)) in H4. apply (option_eqb_eq _ _ _ str_eqb_eq) in H5. congruence.
Qed.
Lemma smember_eqb_eq a b : smember_eqb a b = true -> a = b.
Proof.
  destruct a as [a1 a2 a3], b as [b1 b2 b3]. unfold smember_eqb. cbn [sm_name sm_desc sm_depr]. intros H.
  apply Bool.andb_true_iff in H as [H H3]. apply Bool.andb_true_iff in H as [H1 H2].
  apply nstr_eqb_eq in H1. apply (option_eqb_eq _ _ _ nstr_eqb_eq) in H2. apply (option_eqb_eq _ _ _ str_eqb_eq) in H3. congruence.
Qed.
Lemma stypedef_eqb_eq a b : stypedef_eqb a b = true -> a = b.
Proof.
  destruct a, b; cbn [stypedef_eqb]; intros H; try discriminate;
    repeat match goal with E : _ && _ = true |- _ => apply Bool.andb_true_iff in E as [? ?] end;
    repeat match goal with
           | E : nstr_eqb _ _ = true |- _ => apply nstr_eqb_eq in E
           | E : option_eqb nstr_eqb _ _ = true |- _ => apply (option_eqb_eq _ _ _ nstr_eqb_eq) in E
           | E : list_eqb sfield_eqb _ _ = true |- _ => apply (list_eqb_eq _ _ _ (fun x y _ => sfield_eqb_eq x y)) in E
           | E : list_eqb nstr_eqb _ _ = true |- _ => apply (list_eqb_eq _ _ _ (fun x y _ => nstr_eqb_eq x y)) in E
           | E : list_eqb smember_eqb _ _ = true |- _ => apply (list_eqb_eq _ _ _ (fun x y _ => smember_eqb_eq x y)) in E
           | E : list_eqb sinput_eqb _ _ = true |- _ => apply (list_eqb_eq _ _ _ (fun x y _ => sinput_eqb_eq x y)) in E
           end; congruence.
Qed.
Lemma sdirective_eqb_eq a b : sdirective_eqb a b = true -> a = b.
Proof.
  destruct a as [a1 a2 a3 a4 a5], b as [b1 b2 b3 b4 b5]. unfold sdirective_eqb. cbn [sdr_name sdr_desc sdr_args sdr_locations sdr_repeatable]. intros H.
  apply Bool.andb_true_iff in H as [H H5]. apply Bool.andb_true_iff in H as [H H4]. apply Bool.andb_true_iff in H as [H H3].
  apply Bool.andb_true_iff in H as [H1 H2].
  apply nstr_eqb_eq in H1. apply (option_eqb_eq _ _ _ nstr_eqb_eq) in H2.
  apply (list_eqb_eq _ _ _ (fun x y _ => sinput_eqb_eq x y)) in H3.
  apply (list_eqb_eq _ _ _ (fun x y _ => nstr_eqb_eq x y)) in H4. apply (option_eqb_eq _ _ _ pos_eqb_eq) in H5. congruence.
Qed.

Lemma lookup_not_key {A} n (l : list (str * A)) : ~ In n (map fst l) -> lookup n l = None.
Proof.
  induction l as [|[k' v] r IH]; cbn [map fst lookup In]; [reflexivity|]. intros H.
  destruct (str_eqb n k') eqn:E; [apply str_eqb_eq in E; subst; tauto|]. apply IH. tauto.
Qed.

Lemma in_dec_str (n : str) (l : list str) : In n l \/ ~ In n l.
Proof.
  destruct (mem_str n l) eqn:E.
  - left. unfold mem_str in E. apply existsb_exists in E as [y [Hy Ey]]. apply str_eqb_eq in Ey. now subst.
  - right. intros Hin. unfold mem_str in E. assert (existsb (str_eqb n) l = true); [|congruence].
    apply existsb_exists. exists n. split; [assumption|apply str_eqb_refl].
Qed.

Theorem schema_equiv_b_sound vis a b : schema_equiv_b vis a b = true -> schema_equiv_on vis a b.
Proof.
  unfold schema_equiv_b, schema_equiv_on. intros H.
  apply Bool.andb_true_iff in H as [H Hd]. apply Bool.andb_true_iff in H as [H Ht]. apply Bool.andb_true_iff in H as [Hdesc Hr].
  rewrite forallb_forall in Hr, Ht, Hd.
  split; [now apply (option_eqb_eq _ _ _ str_eqb_eq)|]. split; [|split].
  - intros op. apply (option_eqb_eq _ _ _ str_eqb_eq). apply Hr. destruct op; cbn; tauto.
  - intros n Hv. destruct (in_dec_str n (map fst (sc_types a) ++ map fst (sc_types b))) as [Hin|Hn].
    + specialize (Ht n Hin). rewrite Hv in Ht. cbn [negb orb] in Ht. now apply (option_eqb_eq _ _ _ stypedef_eqb_eq).
    + unfold get_type. rewrite !lookup_not_key; [reflexivity| |]; intros Hin; apply Hn, in_or_app; tauto.
  - intros n. destruct (in_dec_str n (map fst (sc_dirs a) ++ map fst (sc_dirs b))) as [Hin|Hn].
    + specialize (Hd n Hin). now apply (option_eqb_eq _ _ _ sdirective_eqb_eq).
    + unfold get_directive. rewrite !lookup_not_key; [reflexivity| |]; intros Hin; apply Hn, in_or_app; tauto.
Qed.
