(** C15 proofs, part 2: the SDL route.  What [ast_to_type_system D] lets one observe is determined by the first type
    definition / directive definition of each name and by the schema definitions of D, and (after erasing positions
    and default-value text) only by the erasure of those; for the document of a schema model the result is computed. *)
From V Require Import Base.Util Gql.Ast C15.Model C15.Spec C15.Proofs1.

(* ------------------------------------------------------------------------------------------ *)
(** * first-insertion-wins association lists *)

Lemma has_key_lookup {A} key (l : list (str * A)) : has_key key l = is_some (lookup key l).
Proof.
  induction l as [|[k' v] r IH]; cbn [has_key lookup is_some]; [reflexivity|].
  destruct (str_eqb key k'); cbn [orb is_some]; auto.
Qed.

Lemma lookup_app {A} n (l1 l2 : list (str * A)) :
  lookup n (l1 ++ l2) = match lookup n l1 with Some x => Some x | None => lookup n l2 end.
Proof.
  induction l1 as [|[k' v] r IH]; cbn [app lookup]; [reflexivity|]. destruct (str_eqb n k'); auto.
Qed.

Lemma lookup_insert_new {A} n (l : list (str * A)) key v :
  lookup n (insert_new l key v) =
  match lookup n l with Some x => Some x | None => if str_eqb n key then Some v else None end.
Proof.
  unfold insert_new. destruct (has_key key l) eqn:Hk.
  - destruct (lookup n l) eqn:Hl; [reflexivity|].
    destruct (str_eqb n key) eqn:Hn; [|reflexivity].
    apply str_eqb_eq in Hn. subst. rewrite has_key_lookup, Hl in Hk. discriminate.
  - rewrite lookup_app. cbn [lookup]. reflexivity.
Qed.

Lemma lookup_extend_all {A} n (items acc : list (str * A)) :
  lookup n (extend_all acc items) = match lookup n acc with Some x => Some x | None => lookup n items end.
Proof.
  unfold extend_all. revert acc. induction items as [|[k' v] r IH]; intros acc; cbn [fold_left lookup fst snd].
  - destruct (lookup n acc); reflexivity.
  - rewrite IH, lookup_insert_new. destruct (lookup n acc); [reflexivity|]. destruct (str_eqb n k'); reflexivity.
Qed.

(* ------------------------------------------------------------------------------------------ *)
(** * what [ast_to_type_system] keeps of a document *)

Definition conv_td (t : typedef) : node stypedef := snd (convert_type_definition t).
Definition conv_dd (d : directivedef) : node sdirective := snd (convert_directive_definition d).

Lemma convert_type_definition_key t : fst (convert_type_definition t) = iname (typedef_name t).
Proof. destruct t; reflexivity. Qed.

Lemma fold_types n D b :
  lookup n (b_types (fold_left ast_step D b)) =
  match lookup n (b_types b) with Some x => Some x | None => option_map conv_td (find_typedef n D) end.
Proof.
  revert b. induction D as [|d D IH]; intros b; cbn [fold_left find_typedef option_map].
  - destruct (lookup n (b_types b)); reflexivity.
  - rewrite IH. destruct d as [sd|t|dd|se|te]; cbn [ast_step b_types convert_schema_definition]; try reflexivity.
    rewrite lookup_insert_new, convert_type_definition_key.
    destruct (lookup n (b_types b)); [reflexivity|].
    destruct (str_eqb n (iname (typedef_name t))); reflexivity.
Qed.

Lemma fold_dirs n D b :
  lookup n (b_dirs (fold_left ast_step D b)) =
  match lookup n (b_dirs b) with Some x => Some x | None => option_map conv_dd (find_dirdef n D) end.
Proof.
  revert b. induction D as [|d D IH]; intros b; cbn [fold_left find_dirdef option_map].
  - destruct (lookup n (b_dirs b)); reflexivity.
  - rewrite IH. destruct d as [sd|t|dd|se|te]; cbn [ast_step b_dirs convert_schema_definition]; try reflexivity.
    rewrite lookup_insert_new. cbn [convert_directive_definition fst].
    destruct (lookup n (b_dirs b)); [reflexivity|].
    destruct (str_eqb n (iname (dd_name dd))); reflexivity.
Qed.

(** description and root types depend on the schema definitions only *)
Definition sd_step (st : option (node str) * option (node sroots)) (d : schemadef) : option (node str) * option (node sroots) :=
  let b := convert_schema_definition (mkBuilder (fst st) [] [] (snd st)) d in (b_desc b, b_roots b).

Lemma fold_schema D b :
  (b_desc (fold_left ast_step D b), b_roots (fold_left ast_step D b)) =
  fold_left sd_step (schema_defs D) (b_desc b, b_roots b).
Proof.
  revert b. induction D as [|d D IH]; intros b; cbn [fold_left schema_defs]; [reflexivity|].
  rewrite IH. destruct d as [sd|t|dd|se|te]; cbn [ast_step b_desc b_roots fold_left]; reflexivity.
Qed.

Lemma get_type_ast D n : get_type (ast_to_type_system D) n = option_map (fun t => nval (conv_td t)) (find_typedef n D).
Proof.
  unfold get_type, ast_to_type_system, build. cbn [sc_types]. rewrite fold_types. cbn [builder0 b_types lookup].
  destruct (find_typedef n D); reflexivity.
Qed.
Lemma get_directive_ast D n : get_directive (ast_to_type_system D) n = option_map (fun t => nval (conv_dd t)) (find_dirdef n D).
Proof.
  unfold get_directive, ast_to_type_system, build. cbn [sc_dirs]. rewrite fold_dirs. cbn [builder0 b_dirs lookup].
  destruct (find_dirdef n D); reflexivity.
Qed.
Lemma desc_roots_ast D :
  let r := fold_left sd_step (schema_defs D) (None, None) in
  sc_desc (ast_to_type_system D) = fst r /\
  sc_roots (ast_to_type_system D) = match snd r with Some x => x | None => dnode roots0 end.
Proof.
  cbn zeta. pose proof (fold_schema D builder0) as H. cbn [builder0 b_desc b_roots] in H.
  unfold ast_to_type_system, build. cbn [sc_desc sc_roots]. rewrite <- H. cbn [fst snd]. split; reflexivity.
Qed.

(* ------------------------------------------------------------------------------------------ *)
(** * erasure does not change what is observed *)

Lemma find_map {A B} (p : B -> bool) (f : A -> B) l : find p (map f l) = option_map f (find (fun x => p (f x)) l).
Proof. induction l as [|x r IH]; cbn [map find option_map]; [reflexivity|]. destruct (p (f x)); auto. Qed.

Lemma norm_convert_type t : norm_sty (convert_type (erase_ty t)) = norm_sty (convert_type t).
Proof. induction t as [n|t IH|p t IH]; cbn [erase_ty convert_type norm_sty]; [reflexivity| |]; now rewrite IH. Qed.

Lemma nopt_convert_description d : nopt (convert_description (erase_desc d)) = nopt (convert_description d).
Proof. destruct d; reflexivity. Qed.

Lemma erase_value_string v p x : erase_value v = VString p x -> exists q, v = VString q x.
Proof. destruct v; cbn [erase_value]; intros H; try discriminate. injection H as _ ->. eauto. Qed.

Lemma convert_deprecation_erase ds : convert_deprecation (map erase_dir ds) = convert_deprecation ds.
Proof.
  unfold convert_deprecation. rewrite find_map. cbn [erase_dir dir_name erase_ident iname].
  destruct (find (fun d => str_eqb (iname (dir_name d)) (s "deprecated")) ds) as [d|]; cbn [option_map]; [|reflexivity].
  f_equal. destruct d as [p nm [a|]]; cbn [erase_dir dir_args option_map]; [|reflexivity].
  cbn [erase_args args_list]. rewrite find_map. cbn [fst erase_ident iname].
  destruct (find (fun kv => str_eqb (iname (fst kv)) (s "reason")) (args_list a)) as [[i v]|]; cbn [option_map fst snd]; [|reflexivity].
  destruct v; reflexivity.
Qed.

Lemma norm_convert_input i : norm_input (convert_input (erase_inputval i)) = norm_input (convert_input i).
Proof.
  destruct i as [d p n t dv ds]. unfold convert_input, norm_input.
  cbn [erase_inputval iv_name iv_desc iv_type iv_default iv_dirs si_name si_desc si_type si_default si_depr].
  rewrite norm_convert_type, nopt_convert_description, convert_deprecation_erase. destruct dv; reflexivity.
Qed.
Lemma norm_convert_inputs l : map norm_input (map convert_input (map erase_inputval l)) = map norm_input (map convert_input l).
Proof. rewrite !map_map. apply map_ext. intros i. apply norm_convert_input. Qed.
Lemma norm_convert_arguments a :
  map norm_input (convert_arguments (option_map (map erase_inputval) a)) = map norm_input (convert_arguments a).
Proof. destruct a as [l|]; cbn [option_map convert_arguments]; [apply norm_convert_inputs|reflexivity]. Qed.

Lemma norm_convert_field f : norm_field (convert_field (erase_fielddef f)) = norm_field (convert_field f).
Proof.
  destruct f as [d n a t ds]. unfold convert_field, norm_field.
  cbn [erase_fielddef fd_name fd_desc fd_type fd_args fd_dirs sf_name sf_desc sf_type sf_args sf_depr].
  now rewrite norm_convert_type, nopt_convert_description, convert_deprecation_erase, norm_convert_arguments.
Qed.
Lemma norm_convert_member e : norm_member (convert_member (erase_enumval e)) = norm_member (convert_member e).
Proof.
  destruct e as [d n ds]. unfold convert_member, norm_member.
  cbn [erase_enumval ev_name ev_desc ev_dirs sm_name sm_desc sm_depr].
  now rewrite nopt_convert_description, convert_deprecation_erase.
Qed.
Lemma nnode_idents l : map nnode (map ident_to_node (map erase_ident l)) = map nnode (map ident_to_node l).
Proof. rewrite !map_map. apply map_ext. intros i. reflexivity. Qed.

Lemma norm_conv_td t : norm_typedef (nval (conv_td (erase_typedef t))) = norm_typedef (nval (conv_td t)).
Proof.
  destruct t as [d p n ds kw|d p n is_ ds fs kw|d p n is_ ds fs kw|d p n ds ms kw|d p n ds vs kw|d p n ds fs kw];
    unfold conv_td; cbn [erase_typedef convert_type_definition snd nval norm_typedef];
    rewrite ?nopt_convert_description, ?nnode_idents; try reflexivity.
  - f_equal. rewrite !map_map. apply map_ext. intros f. apply norm_convert_field.
  - f_equal. rewrite !map_map. apply map_ext. intros f. apply norm_convert_field.
  - f_equal. rewrite !map_map. apply map_ext. intros e. apply norm_convert_member.
  - f_equal. apply norm_convert_inputs.
Qed.

Lemma norm_conv_dd d : norm_directive (nval (conv_dd (erase_dirdef d))) = norm_directive (nval (conv_dd d)).
Proof.
  destruct d as [ds p n a rep locs kw]. unfold conv_dd, norm_directive.
  cbn [erase_dirdef convert_directive_definition snd nval dd_name dd_desc dd_args dd_locs dd_repeatable dd_pos
       sdr_name sdr_desc sdr_args sdr_locations sdr_repeatable].
  rewrite nopt_convert_description, nnode_idents, norm_convert_arguments. destruct rep; reflexivity.
Qed.

(** two documents that say the same give equivalent type and directive tables *)
Lemma get_type_doc_equiv D D0 n :
  option_map erase_typedef (find_typedef n D) = option_map erase_typedef (find_typedef n D0) ->
  option_map norm_typedef (get_type (ast_to_type_system D) n) = option_map norm_typedef (get_type (ast_to_type_system D0) n).
Proof.
  intros H. rewrite !get_type_ast.
  destruct (find_typedef n D) as [t|], (find_typedef n D0) as [t0|]; cbn [option_map] in *; try discriminate; [|reflexivity].
  assert (E : erase_typedef t = erase_typedef t0) by congruence.
  f_equal. rewrite <- (norm_conv_td t), <- (norm_conv_td t0), E. reflexivity.
Qed.
Lemma get_directive_doc_equiv D D0 n :
  option_map erase_dirdef (find_dirdef n D) = option_map erase_dirdef (find_dirdef n D0) ->
  option_map norm_directive (get_directive (ast_to_type_system D) n) = option_map norm_directive (get_directive (ast_to_type_system D0) n).
Proof.
  intros H. rewrite !get_directive_ast.
  destruct (find_dirdef n D) as [t|], (find_dirdef n D0) as [t0|]; cbn [option_map] in *; try discriminate; [|reflexivity].
  assert (E : erase_dirdef t = erase_dirdef t0) by congruence.
  f_equal. rewrite <- (norm_conv_dd t), <- (norm_conv_dd t0), E. reflexivity.
Qed.

(* ------------------------------------------------------------------------------------------ *)
(** * the document of a schema model *)

Fixpoint find_mdir (n : str) (l : list mdir) : option mdir :=
  match l with [] => None | d :: r => if str_eqb n (md_name d) then Some d else find_mdir n r end.

Lemma find_typedef_app n l1 l2 :
  find_typedef n (l1 ++ l2) = match find_typedef n l1 with Some x => Some x | None => find_typedef n l2 end.
Proof.
  induction l1 as [|d r IH]; cbn [app find_typedef]; [reflexivity|].
  destruct d as [sd|t|dd|se|te]; auto. destruct (str_eqb n (iname (typedef_name t))); auto.
Qed.
Lemma find_dirdef_app n l1 l2 :
  find_dirdef n (l1 ++ l2) = match find_dirdef n l1 with Some x => Some x | None => find_dirdef n l2 end.
Proof.
  induction l1 as [|d r IH]; cbn [app find_dirdef]; [reflexivity|].
  destruct d as [sd|t|dd|se|te]; auto. destruct (str_eqb n (iname (dd_name dd))); auto.
Qed.
Lemma schema_defs_app l1 l2 : schema_defs (l1 ++ l2) = schema_defs l1 ++ schema_defs l2.
Proof. induction l1 as [|d r IH]; cbn [app schema_defs]; [reflexivity|]. destruct d; cbn [app]; now rewrite ?IH. Qed.

Lemma typedef_name_of t : iname (typedef_name (typedef_of t)) = mt_name t.
Proof. unfold typedef_of. destruct (mt_kind t); reflexivity. Qed.

Lemma find_typedef_types n l : find_typedef n (map (fun t => TSType (typedef_of t)) l) = option_map typedef_of (find_mtype n l).
Proof.
  induction l as [|t r IH]; cbn [map find_typedef find_mtype option_map]; [reflexivity|].
  rewrite typedef_name_of. destruct (str_eqb n (mt_name t)); auto.
Qed.
Lemma find_typedef_dirs n l : find_typedef n (map (fun d => TSDirective (dirdef_of d)) l) = None.
Proof. induction l; cbn [map find_typedef]; auto. Qed.
Lemma find_dirdef_types n l : find_dirdef n (map (fun t => TSType (typedef_of t)) l) = None.
Proof. induction l; cbn [map find_dirdef]; auto. Qed.
Lemma find_dirdef_dirs n l : find_dirdef n (map (fun d => TSDirective (dirdef_of d)) l) = option_map dirdef_of (find_mdir n l).
Proof.
  induction l as [|d r IH]; cbn [map find_dirdef find_mdir option_map]; [reflexivity|].
  cbn [dirdef_of dd_name id0 iname]. destruct (str_eqb n (md_name d)); auto.
Qed.
Lemma schema_defs_types l : schema_defs (map (fun t => TSType (typedef_of t)) l) = [].
Proof. induction l; cbn [map schema_defs]; auto. Qed.
Lemma schema_defs_dirs l : schema_defs (map (fun d => TSDirective (dirdef_of d)) l) = [].
Proof. induction l; cbn [map schema_defs]; auto. Qed.

Definition builtin_scalar_types : list mtype := map (fun n => mkMType n None MScalar) builtin_scalar_names.

Lemma find_mtype_app n l1 l2 :
  find_mtype n (l1 ++ l2) = match find_mtype n l1 with Some x => Some x | None => find_mtype n l2 end.
Proof. induction l1 as [|t r IH]; cbn [app find_mtype]; [reflexivity|]. destruct (str_eqb n (mt_name t)); auto. Qed.
Lemma find_mdir_app n l1 l2 :
  find_mdir n (l1 ++ l2) = match find_mdir n l1 with Some x => Some x | None => find_mdir n l2 end.
Proof. induction l1 as [|t r IH]; cbn [app find_mdir]; [reflexivity|]. destruct (str_eqb n (md_name t)); auto. Qed.

Lemma schemadef_of_no_types n M : find_typedef n (schemadef_of M) = None.
Proof. unfold schemadef_of. destruct (m_explicit M); reflexivity. Qed.
Lemma schemadef_of_no_dirs n M : find_dirdef n (schemadef_of M) = None.
Proof. unfold schemadef_of. destruct (m_explicit M); reflexivity. Qed.

Lemma builtin_doc_types n : find_typedef n builtin_doc = option_map typedef_of (find_mtype n builtin_scalar_types).
Proof.
  unfold builtin_doc, builtin_scalar_types. rewrite find_typedef_app, find_typedef_dirs.
  rewrite <- (find_typedef_types n (map (fun n => mkMType n None MScalar) builtin_scalar_names)). rewrite map_map.
  destruct (find_typedef n (map (fun x => TSType (typedef_of (mkMType x None MScalar))) builtin_scalar_names)); reflexivity.
Qed.

Lemma find_typedef_sdl_doc n M :
  find_typedef n (sdl_doc M) = option_map typedef_of (find_mtype n (m_types M ++ builtin_scalar_types)).
Proof.
  unfold sdl_doc. rewrite !find_typedef_app, schemadef_of_no_types, find_typedef_dirs, find_typedef_types, builtin_doc_types, find_mtype_app.
  destruct (find_mtype n (m_types M)); reflexivity.
Qed.
Lemma find_dirdef_sdl_doc n M :
  find_dirdef n (sdl_doc M) = option_map dirdef_of (find_mdir n (m_dirs M ++ builtin_dirs)).
Proof.
  unfold sdl_doc, builtin_doc. rewrite !find_dirdef_app, schemadef_of_no_dirs, !find_dirdef_dirs, !find_dirdef_types, find_mdir_app.
  destruct (find_mdir n (m_dirs M)); reflexivity.
Qed.
Lemma schema_defs_sdl_doc M : schema_defs (sdl_doc M) = schema_defs (schemadef_of M).
Proof.
  unfold sdl_doc, builtin_doc. rewrite !schema_defs_app, !schema_defs_dirs, !schema_defs_types, !app_nil_r. reflexivity.
Qed.

(* ------------------------------------------------------------------------------------------ *)
(** * the SDL route on the document of M yields, per name, what the JSON route yields *)

Lemma convert_type_ty_of t : convert_type (ty_of t) = sty_of t.
Proof. induction t as [n|t IH|t IH]; cbn [ty_of convert_type sty_of]; [reflexivity| |]; now rewrite IH. Qed.

Lemma convert_deprecation_depr_dirs d : convert_deprecation (depr_dirs d) = depr_reason d.
Proof. destruct d as [[r|]|]; reflexivity. Qed.

Lemma convert_description_desc0 o : convert_description (desc0 o) = option_map dnode o.
Proof. destruct o; reflexivity. Qed.

Lemma norm_input_of a : norm_input (convert_input (inputval_of a)) = norm_input (sinput_json a).
Proof.
  destruct a as [n d t dv dp]. unfold convert_input, inputval_of, sinput_json, norm_input.
  cbn [iv_name iv_desc iv_type iv_default iv_dirs ma_name ma_desc ma_type ma_default ma_depr si_name si_desc si_type si_default si_depr].
  rewrite convert_type_ty_of, convert_description_desc0, convert_deprecation_depr_dirs. destruct dv; reflexivity.
Qed.
Lemma norm_arguments_of l : map norm_input (convert_arguments (argsdef_of l)) = map norm_input (map sinput_json l).
Proof.
  destruct l as [|a r]; [reflexivity|]. unfold argsdef_of. cbn [convert_arguments].
  rewrite !map_map. apply map_ext. intros x. apply norm_input_of.
Qed.
Lemma norm_field_of f : norm_field (convert_field (fielddef_of f)) = norm_field (sfield_json f).
Proof.
  destruct f as [n d args t dp]. unfold convert_field, fielddef_of, sfield_json, norm_field.
  cbn [fd_name fd_desc fd_type fd_args fd_dirs mf_name mf_desc mf_type mf_args mf_depr sf_name sf_desc sf_type sf_args sf_depr].
  now rewrite convert_type_ty_of, convert_description_desc0, convert_deprecation_depr_dirs, norm_arguments_of.
Qed.
Lemma norm_member_of v : norm_member (convert_member (enumval_of v)) = norm_member (smember_json v).
Proof.
  destruct v as [n d dp]. unfold convert_member, enumval_of, smember_json, norm_member.
  cbn [ev_name ev_desc ev_dirs mv_name mv_desc mv_depr sm_name sm_desc sm_depr].
  now rewrite convert_description_desc0, convert_deprecation_depr_dirs.
Qed.
Lemma idents_of l : map ident_to_node (map id0 l) = map dnode l.
Proof. rewrite map_map. apply map_ext. reflexivity. Qed.

Lemma norm_typedef_of t : norm_typedef (nval (conv_td (typedef_of t))) = norm_typedef (std_json t).
Proof.
  destruct t as [n d kd]. unfold conv_td, typedef_of, std_json. cbn [mt_name mt_desc mt_kind].
  destruct kd as [|impls fs|impls fs|ms|vs|fs]; cbn [convert_type_definition snd nval norm_typedef];
    rewrite ?convert_description_desc0, ?idents_of; try reflexivity.
  - f_equal. rewrite !map_map. apply map_ext. intros f. apply norm_field_of.
  - f_equal. rewrite !map_map. apply map_ext. intros f. apply norm_field_of.
  - f_equal. rewrite !map_map. apply map_ext. intros f. apply norm_member_of.
  - f_equal. rewrite !map_map. apply map_ext. intros f. apply norm_input_of.
Qed.

Lemma norm_dirdef_of d : norm_directive (nval (conv_dd (dirdef_of d))) = norm_directive (sdir_json d).
Proof.
  destruct d as [n ds args rep locs]. unfold conv_dd, dirdef_of, sdir_json, norm_directive.
  cbn [convert_directive_definition snd nval dd_name dd_desc dd_args dd_locs dd_repeatable dd_pos md_name md_desc md_args md_repeatable md_locs
       sdr_name sdr_desc sdr_args sdr_locations sdr_repeatable].
  rewrite convert_description_desc0, idents_of, norm_arguments_of. destruct rep; reflexivity.
Qed.
