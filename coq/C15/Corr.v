(** C15 — correspondence (model output = implementation output) and the spec-side predicate evaluated on
    the implementation's outputs. *)
From V Require Import Base.Util Gql.Ast Writer.Wop C15.Model C15.Spec C15.Reify C15.CheckRespects C15.EmitSim C15.EmitIface C15.EmitDen.

Inductive case :=
(** schema_from_introspection_json on the text of [j] *)
| CJson (label : str) (j : json) (out : res schema)
(** type_system_to_ast(sc) = ast, ast_to_type_system(ast) = sc2 (what the declaration printers see on the JSON route) *)
| CBack (sc : schema) (ast : tsdoc) (sc2 : schema)
(** both routes for one schema model M: D = parsed SDL + built-ins, resolved; J = the introspection result built
    independently from M by the harness; out_* = the implementation's Schema values.  [strict] = compare on every
    type name (the unguarded property); otherwise on [vis_of M].  [guard] = the harness's claim that M satisfies
    [model_ok] (the hypothesis of C15_routes_agree).  [order] = the order in which J lists the types of
    [listed_types meta M] (indices; [] = the standard order).  [docs] = operation documents with the verdicts of the real
    check_operation_document under the SDL route's and the JSON route's Schema. *)
| CRoutes (strict guard : bool) (st : jstyle) (meta : bool) (order : list nat) (M : smodel) (D : tsdoc) (J : json) (out_sdl : schema) (out_json : res schema)
          (docs : list (opdoc * bool * bool))
(** verdicts of check_operation_document for one operation document under the two Schema values *)
| CVerdict (label : str) (ok_sdl ok_json : bool)
(** writer operations of SchemaTypePrinter::print_document on the two routes *)
| CAlias (strict : bool) (ops_sdl ops_json : list wop)
(** the real CLI (`check generate`) on two projects that differ only in the schema file: exit status of each, and
    whether the schema declaration file each wrote is the one the in-process route produced *)
| CCli (label : str) (ok_sdl ok_json same_sdl same_json : bool).

(* ------------------------------------------------------------------------------------------ *)
(** structural equality of documents and JSON trees (ties of the spec-side functions to the harness) *)

Definition ty_eqb := fix go (a b : ty) : bool :=
  match a, b with
  | TNamed x, TNamed y => ident_eqb x y
  | TNonNull x, TNonNull y => go x y
  | TList p x, TList q y => pos_eqb p q && go x y
  | _, _ => false
  end.
Fixpoint value_eqb (a b : value) : bool :=
  match a, b with
  | VVar x p, VVar y q => str_eqb x y && pos_eqb p q
  | VInt p x, VInt q y | VFloat p x, VFloat q y | VString p x, VString q y | VEnum p x, VEnum q y => pos_eqb p q && str_eqb x y
  | VBool p x, VBool q y => pos_eqb p q && Bool.eqb x y
  | VNull p, VNull q => pos_eqb p q
  | VList p x, VList q y =>
      pos_eqb p q && (fix go (l1 l2 : list value) : bool :=
        match l1, l2 with [], [] => true | u :: r1, v :: r2 => value_eqb u v && go r1 r2 | _, _ => false end) x y
  | VObject p x, VObject q y =>
      pos_eqb p q && (fix go (l1 l2 : list (ident * value)) : bool :=
        match l1, l2 with
        | [], [] => true
        | (i, u) :: r1, (j, v) :: r2 => ident_eqb i j && value_eqb u v && go r1 r2
        | _, _ => false
        end) x y
  | _, _ => false
  end.
Definition args_eqb (a b : arguments) : bool :=
  pos_eqb (args_pos a) (args_pos b)
  && list_eqb (fun x y => ident_eqb (fst x) (fst y) && value_eqb (snd x) (snd y)) (args_list a) (args_list b).
Definition dir_eqb (a b : directive) : bool :=
  pos_eqb (dir_pos a) (dir_pos b) && ident_eqb (dir_name a) (dir_name b) && option_eqb args_eqb (dir_args a) (dir_args b).
Definition desc_eqb (a b : desc) : bool := pos_eqb (desc_pos a) (desc_pos b) && str_eqb (desc_value a) (desc_value b).
Definition kw_eqb (a b : keyword) : bool := str_eqb (kw_name a) (kw_name b) && pos_eqb (kw_pos a) (kw_pos b).
Definition inputval_eqb (a b : inputvaldef) : bool :=
  option_eqb desc_eqb (iv_desc a) (iv_desc b) && pos_eqb (iv_pos a) (iv_pos b) && ident_eqb (iv_name a) (iv_name b)
  && ty_eqb (iv_type a) (iv_type b) && option_eqb value_eqb (iv_default a) (iv_default b) && list_eqb dir_eqb (iv_dirs a) (iv_dirs b).
Definition fielddef_eqb (a b : fielddef) : bool :=
  option_eqb desc_eqb (fd_desc a) (fd_desc b) && ident_eqb (fd_name a) (fd_name b)
  && option_eqb (list_eqb inputval_eqb) (fd_args a) (fd_args b) && ty_eqb (fd_type a) (fd_type b)
  && list_eqb dir_eqb (fd_dirs a) (fd_dirs b).
Definition enumval_eqb (a b : enumvaldef) : bool :=
  option_eqb desc_eqb (ev_desc a) (ev_desc b) && ident_eqb (ev_name a) (ev_name b) && list_eqb dir_eqb (ev_dirs a) (ev_dirs b).
Definition typedef_eqb (a b : typedef) : bool :=
  match a, b with
  | TDScalar d p n ds kw, TDScalar d' p' n' ds' kw' =>
      option_eqb desc_eqb d d' && pos_eqb p p' && ident_eqb n n' && list_eqb dir_eqb ds ds' && kw_eqb kw kw'
  | TDObject d p n is_ ds fs kw, TDObject d' p' n' is' ds' fs' kw'
  | TDInterface d p n is_ ds fs kw, TDInterface d' p' n' is' ds' fs' kw' =>
      option_eqb desc_eqb d d' && pos_eqb p p' && ident_eqb n n' && list_eqb ident_eqb is_ is' && list_eqb dir_eqb ds ds'
      && list_eqb fielddef_eqb fs fs' && kw_eqb kw kw'
  | TDUnion d p n ds ms kw, TDUnion d' p' n' ds' ms' kw' =>
      option_eqb desc_eqb d d' && pos_eqb p p' && ident_eqb n n' && list_eqb dir_eqb ds ds' && list_eqb ident_eqb ms ms' && kw_eqb kw kw'
  | TDEnum d p n ds vs kw, TDEnum d' p' n' ds' vs' kw' =>
      option_eqb desc_eqb d d' && pos_eqb p p' && ident_eqb n n' && list_eqb dir_eqb ds ds' && list_eqb enumval_eqb vs vs' && kw_eqb kw kw'
  | TDInput d p n ds fs kw, TDInput d' p' n' ds' fs' kw' =>
      option_eqb desc_eqb d d' && pos_eqb p p' && ident_eqb n n' && list_eqb dir_eqb ds ds' && list_eqb inputval_eqb fs fs' && kw_eqb kw kw'
  | _, _ => false
  end.
Definition schemadef_eqb (a b : schemadef) : bool :=
  option_eqb desc_eqb (sd_desc a) (sd_desc b) && pos_eqb (sd_pos a) (sd_pos b) && list_eqb dir_eqb (sd_dirs a) (sd_dirs b)
  && list_eqb (fun x y => optype_eqb (fst x) (fst y) && ident_eqb (snd x) (snd y)) (sd_ops a) (sd_ops b).
Definition dirdef_eqb (a b : directivedef) : bool :=
  option_eqb desc_eqb (dd_desc a) (dd_desc b) && pos_eqb (dd_pos a) (dd_pos b) && ident_eqb (dd_name a) (dd_name b)
  && option_eqb (list_eqb inputval_eqb) (dd_args a) (dd_args b) && option_eqb ident_eqb (dd_repeatable a) (dd_repeatable b)
  && list_eqb ident_eqb (dd_locs a) (dd_locs b) && kw_eqb (dd_kw a) (dd_kw b).
Definition tsdef_eqb (a b : tsdef) : bool :=
  match a, b with
  | TSSchema x, TSSchema y => schemadef_eqb x y
  | TSType x, TSType y => typedef_eqb x y
  | TSDirective x, TSDirective y => dirdef_eqb x y
  | _, _ => false
  end.
Definition tsdoc_eqb : tsdoc -> tsdoc -> bool := list_eqb tsdef_eqb.

Fixpoint json_eqb (a b : json) : bool :=
  match a, b with
  | JNull, JNull => true
  | JBool x, JBool y => Bool.eqb x y
  | JNum x, JNum y | JStr x, JStr y => str_eqb x y
  | JArr x, JArr y =>
      (fix go (l1 l2 : list json) : bool :=
         match l1, l2 with [], [] => true | u :: r1, v :: r2 => json_eqb u v && go r1 r2 | _, _ => false end) x y
  | JObj x, JObj y =>
      (fix go (l1 l2 : list (str * json)) : bool :=
         match l1, l2 with
         | [], [] => true
         | (i, u) :: r1, (j, v) :: r2 => str_eqb i j && json_eqb u v && go r1 r2
         | _, _ => false
         end) x y
  | _, _ => false
  end.

(** boolean form of [doc_equiv D D0], over the names that occur in either document *)
Fixpoint doc_type_names (doc : tsdoc) : list str :=
  match doc with [] => [] | TSType t :: r => iname (typedef_name t) :: doc_type_names r | _ :: r => doc_type_names r end.
Fixpoint doc_dir_names (doc : tsdoc) : list str :=
  match doc with [] => [] | TSDirective d :: r => iname (dd_name d) :: doc_dir_names r | _ :: r => doc_dir_names r end.
Definition doc_equiv_b (D D0 : tsdoc) : bool :=
  list_eqb schemadef_eqb (map erase_schemadef (schema_defs D)) (map erase_schemadef (schema_defs D0))
  && forallb (fun n => option_eqb typedef_eqb (option_map erase_typedef (find_typedef n D)) (option_map erase_typedef (find_typedef n D0)))
             (doc_type_names D ++ doc_type_names D0)
  && forallb (fun n => option_eqb dirdef_eqb (option_map erase_dirdef (find_dirdef n D)) (option_map erase_dirdef (find_dirdef n D0)))
             (doc_dir_names D ++ doc_dir_names D0).

(* ------------------------------------------------------------------------------------------ *)
(** exported aliases of a printed schema declaration file, read off the writer operations:
    (namespace, alias) -> text of the definition, JSDoc comments and blank lines dropped *)

Definition nl : str := [10%N].
Definition chunk_of (o : wop) : list str := match o with W c | WF c _ _ => [c] | _ => [] end.
Fixpoint strip_jsdoc (in_comment : bool) (l : list str) : list str :=
  match l with
  | [] => []
  | c :: r =>
      if in_comment then strip_jsdoc (negb (str_eqb c (s " */" ++ nl))) r
      else if str_eqb c (s "/**" ++ nl) then strip_jsdoc true r
      else if str_eqb c nl then strip_jsdoc false r
      else c :: strip_jsdoc false r
  end.
Fixpoint starts_with (p x : str) : bool :=
  match p, x with
  | [], _ => true
  | a :: p', b :: x' => N.eqb a b && starts_with p' x'
  | _, _ => false
  end.

Definition alias_entry := ((str * str) * list str)%type.
Definition flush (ns : str) (cur : option (str * list str)) (acc : list alias_entry) : list alias_entry :=
  match cur with
  | Some (name, body) => ((ns, name), rev body) :: acc
  | None => acc
  end.
(** [cur] = (alias name, reversed chunks of its definition) *)
Fixpoint segment (l : list str) (ns : str) (cur : option (str * list str)) (acc : list alias_entry) : list alias_entry :=
  match l with
  | [] => flush ns cur acc
  | c :: r =>
      if str_eqb c (s "export type ") || str_eqb c (s "type ") then
        match r with
        | name :: r' => segment r' ns (Some (name, [])) (flush ns cur acc)
        | [] => flush ns cur acc
        end
      else if starts_with (s "export declare namespace ") c then segment r c None (flush ns cur acc)
      else if str_eqb c (s "}" ++ nl ++ nl) then segment r [] None (flush ns cur acc)
      else match cur with
           | Some (name, body) => segment r ns (Some (name, c :: body)) acc
           | None => segment r ns None acc
           end
  end.
Definition aliases (ops : list wop) : list alias_entry := segment (strip_jsdoc false (flat_map chunk_of ops)) [] None [].

Definition key_eqb (a b : str * str) : bool := str_eqb (fst a) (fst b) && str_eqb (snd a) (snd b).
(** two definitions are equal when their texts are, or when both are unions of names (an interface is printed as the
    union of its implementers, in the declaration order of the route) with the same members *)
Definition sep_chunk (c : str) : bool := str_eqb c (s " = ") || str_eqb c (s " | ") || str_eqb c (s ";" ++ nl).
Definition union_like (body : list str) : bool :=
  forallb (fun c => sep_chunk c || negb (existsb (fun ch => N.eqb ch 32 || N.eqb ch 10) c)) body.
Definition members_of (body : list str) : list str := filter (fun c => negb (sep_chunk c)) body.
Definition count_str (x : str) (l : list str) : nat := length (filter (str_eqb x) l).
Definition perm_eqb (a b : list str) : bool :=
  Nat.eqb (length a) (length b) && forallb (fun x => Nat.eqb (count_str x a) (count_str x b)) a.
(** the lines of a text (an object type is printed one field per line; the order of fields is immaterial) *)
Fixpoint lines_acc (x cur : str) : list str :=
  match x with
  | [] => [rev cur]
  | c :: r => if N.eqb c 10 then rev cur :: lines_acc r [] else lines_acc r (c :: cur)
  end.
Definition lines_of (x : str) : list str := lines_acc x [].
Definition body_eqb (a b : list str) : bool :=
  str_eqb (concat a) (concat b)
  || (union_like a && union_like b && perm_eqb (members_of a) (members_of b))
  || perm_eqb (lines_of (concat a)) (lines_of (concat b)).

Fixpoint alias_lookup (key : str * str) (l : list alias_entry) : option (list str) :=
  match l with [] => None | (k', v) :: r => if key_eqb key k' then Some v else alias_lookup key r end.
Definition meta_names : list str := map mt_name meta_types.
(** lenient: introspection types are not compared, nor a built-in scalar that one file does not export *)
Definition alias_skipped (strict : bool) (a1 a2 : list alias_entry) (key : str * str) : bool :=
  negb strict &&
  (mem_str (snd key) meta_names
   || (is_builtin_scalar (snd key) && (match alias_lookup key a1, alias_lookup key a2 with Some _, Some _ => false | _, _ => true end))).
Definition aliases_agree (strict : bool) (a1 a2 : list alias_entry) : bool :=
  forallb (fun key => alias_skipped strict a1 a2 key || option_eqb body_eqb (alias_lookup key a1) (alias_lookup key a2))
          (map fst a1 ++ map fst a2).

(* ------------------------------------------------------------------------------------------ *)
(** what type_system_to_ast followed by ast_to_type_system (the Schema the declaration printers work from on the JSON
    route) must preserve: every type definition up to positions, default-value text and deprecation (the AST the
    conversion produces carries no directives), the description, and the declared root operation types *)
Definition back_equiv_b (a b : schema) : bool :=
  option_eqb str_eqb (option_map nval (sc_desc a)) (option_map nval (sc_desc b))
  && forallb (fun op => option_eqb str_eqb (option_map nval (declared_root (nval (sc_roots a)) op))
                                          (option_map nval (declared_root (nval (sc_roots b)) op))) all_ops
  && list_eqb str_eqb (map fst (sc_types a)) (map fst (sc_types b))
  && forallb (fun n => option_eqb stypedef_eqb (option_map (fun d => norm_typedef (strip_typedef d)) (get_type a n))
                                               (option_map norm_typedef (get_type b n))) (map fst (sc_types a)).

Definition listed_in (order : list nat) (l : list mtype) : list mtype :=
  match order with
  | [] => l
  | _ => flat_map (fun i => match nth_error l i with Some t => [t] | None => [] end) order
  end.

(** the computable guards of C15_alias_denotations_agree / C15_emit_respects_equiv_interface, for a scalar configuration that maps
    every scalar the generators use (which TypeScript text is immaterial for the guards) *)
Definition guard_opts : V.C10.Model.sopts :=
  V.C10.Model.mkSOpts (map (fun n => (n, V.C10.Model.ScSingle (s "string")))
                         [s "Int"; s "Float"; s "String"; s "Boolean"; s "ID"; s "Date"; s "JSON"; s "Url"])
                      (s "__nitrogql_schema") true false.
Definition decls_ok (D : tsdoc) : bool :=
  match V.C10.Model.schema_decls guard_opts D with V.C10.Model.Ok _ => true | _ => false end.
Definition emit_guard_b (meta : bool) (M : smodel) (D : tsdoc) (sj : schema) : bool :=
  let DA := type_system_to_ast sj in
  doc_emit_closed_b (vis_of M) DA && objects_outside_b (vis_of M) DA && objects_outside_b (vis_of M) D
  && V.C10.Spec.wf_schema guard_opts D && decls_ok D
  (* an introspection result that lists the introspection types is outside C10's wf_schema (names starting with `__`) *)
  && (meta || (V.C10.Spec.wf_schema guard_opts DA && decls_ok DA)).

Definition is_nil_err (l : list V.C03.Model.err) : bool := match l with [] => true | _ => false end.

Definition agree (c : case) : bool :=
  match c with
  | CJson _ j out => res_eqb schema_eqb (json_route j) out
  | CBack sc ast sc2 => tsdoc_eqb (type_system_to_ast sc) ast && schema_eqb (ast_to_type_system ast) sc2
  | CRoutes strict guard st meta order M D J out_sdl out_json docs =>
      strict ||
      (schema_eqb (ast_to_type_system D) out_sdl && res_eqb schema_eqb (json_route J) out_json
       (* the spec-side functions describe the inputs the implementation was given, and the hypotheses of
          C15_routes_agree hold for them *)
       && json_eqb (introspect_of st (listed_in order (listed_types meta M)) M) J && doc_equiv_b D (sdl_doc M) && parsed_positions_b D
       && Bool.eqb (model_ok M) guard
       (* the computable guard of C15_check_respects_equiv on the two schema documents *)
       && match out_json with Ok sj => sim_guard_b (vis_of M) D (doc_of_schema sj) && emit_guard_b meta M D sj | Err _ => true end
       (* C03's checker model reproduces the real checker's verdicts: on the SDL document, and on the reification of the
          Schema the JSON route built (the checker is generic in the Schema; this ties the model to it on that route too) *)
       && forallb (fun d => match d with
                            | (doc, ok_sdl, ok_json) =>
                                Bool.eqb (is_nil_err (V.C03.Model.check_operation_document D doc)) ok_sdl
                                && match out_json with
                                   | Ok sj => Bool.eqb (is_nil_err (V.C03.Model.check_operation_document (doc_of_schema sj) doc)) ok_json
                                   | Err _ => true
                                   end
                            end) docs)
  | CVerdict _ _ _ => true
  | CAlias _ _ _ => true
  | CCli _ _ _ same_sdl same_json => same_sdl && same_json
  end.

(** the property, read on the implementation's own outputs *)
Definition holds (c : case) : bool :=
  match c with
  | CJson _ _ _ => true
  | CBack sc _ sc2 => back_equiv_b sc sc2
  | CRoutes strict _ _ _ _ M _ _ out_sdl out_json _ =>
      match out_json with
      | Ok sj => schema_equiv_b (if strict then vis_all else vis_of M) sj out_sdl
      | Err _ => false
      end
  | CVerdict _ ok_sdl ok_json => Bool.eqb ok_sdl ok_json
  | CAlias strict ops_sdl ops_json => aliases_agree strict (aliases ops_sdl) (aliases ops_json)
  | CCli _ ok_sdl ok_json _ _ => Bool.eqb ok_sdl ok_json
  end.
