(** C15 — bridge to the operation-checker model of C03 (coq/C03/Model.v, tied to crates/checker by C03's own
    correspondence run).  That model reads the type system "directly off the resolved schema document"; here it is
    proved, against the model of ast_to_type_system + SchemaBuilder of this property, that each accessor it uses is the
    corresponding observation of [ast_to_type_system S]:

      C03 get_type / get_directive  = first definition of the name      = lookup in sc_types / sc_dirs
      C03 iter_types                = the table in insertion order      = sc_types
      C03 root_types                = position and declared roots       = sc_roots
      the root decision at the head of C03's check_operation           = [root_type] of Spec.v (what schema_equiv_on compares)

    This is the first slice of `check_respects_equiv` (DESIGN §4 C15); what is still missing is stated in design/C15.md. *)
From V Require Import Base.Util Gql.Ast C15.Model C15.Spec C15.Proofs1 C15.Proofs2 C15.Proofs3.
From V Require C03.Model.

Module K := V.C03.Model.

(* ------------------------------------------------------------------------------------------ *)
(** * lookups *)

Lemma k_get_type S n : K.get_type S n = find_typedef n S.
Proof.
  induction S as [|d S IH]; cbn [K.get_type find_typedef]; [reflexivity|].
  destruct d as [sd|t|dd|se|te]; auto. rewrite str_eqb_sym. destruct (str_eqb n (iname (typedef_name t))); auto.
Qed.
Lemma k_get_directive S n : K.get_directive S n = find_dirdef n S.
Proof.
  induction S as [|d S IH]; cbn [K.get_directive find_dirdef]; [reflexivity|].
  destruct d as [sd|t|dd|se|te]; auto. rewrite str_eqb_sym. destruct (str_eqb n (iname (dd_name dd))); auto.
Qed.

(** the definition the checker model finds is the one filed in the Schema the front end builds *)
Theorem k_get_type_is_schema_lookup S n :
  option_map conv_td (K.get_type S n) = lookup n (sc_types (ast_to_type_system S)).
Proof.
  rewrite k_get_type. unfold ast_to_type_system, build. cbn [sc_types]. rewrite fold_types. reflexivity.
Qed.
Theorem k_get_directive_is_schema_lookup S n :
  option_map conv_dd (K.get_directive S n) = lookup n (sc_dirs (ast_to_type_system S)).
Proof.
  rewrite k_get_directive. unfold ast_to_type_system, build. cbn [sc_dirs]. rewrite fold_dirs. reflexivity.
Qed.

(* ------------------------------------------------------------------------------------------ *)
(** * iteration order *)

Lemma k_mem_str x l : K.mem_str x l = mem_str x l.
Proof. reflexivity. Qed.

Lemma has_key_app {A} key (l1 l2 : list (str * A)) : has_key key (l1 ++ l2) = has_key key l1 || has_key key l2.
Proof. induction l1 as [|[k' v] r IH]; cbn [app has_key]; [reflexivity|]. rewrite IH. now rewrite Bool.orb_assoc. Qed.

Lemma iter_types_fold S : forall b seen,
  (forall n, mem_str n seen = has_key n (b_types b)) ->
  b_types (fold_left ast_step S b) = b_types b ++ map convert_type_definition (K.iter_types_from seen S).
Proof.
  induction S as [|d S IH]; intros b seen Hs; cbn [fold_left K.iter_types_from map]; [now rewrite app_nil_r|].
  destruct d as [sd|t|dd|se|te]; cbn [ast_step]; try (rewrite (IH _ seen); [reflexivity|assumption]).
  rewrite k_mem_str, Hs. unfold insert_new. rewrite convert_type_definition_key.
  destruct (has_key (iname (typedef_name t)) (b_types b)) eqn:Hk.
  - rewrite (IH _ seen); [reflexivity|]. cbn [b_types]. assumption.
  - rewrite (IH _ (iname (typedef_name t) :: seen)); cbn [b_types map].
    + rewrite <- app_assoc. cbn [app]. f_equal. f_equal.
      rewrite <- (convert_type_definition_key t). destruct (convert_type_definition t); reflexivity.
    + intros n. rewrite has_key_app. cbn [mem_str existsb has_key]. fold (mem_str n seen). rewrite Hs.
      rewrite Bool.orb_false_r. apply Bool.orb_comm.
Qed.

Theorem k_iter_types_is_schema_table S :
  map convert_type_definition (K.iter_types S) = sc_types (ast_to_type_system S).
Proof.
  unfold K.iter_types, ast_to_type_system, build. cbn [sc_types].
  rewrite (iter_types_fold S builder0 []); [reflexivity|]. intros n. reflexivity.
Qed.

(* ------------------------------------------------------------------------------------------ *)
(** * root types *)

Definition roots_rel (c : K.roots) (m : node sroots) : Prop :=
  K.r_pos c = npos m /\ forall o, option_map ident_to_node (K.root_of c o) = declared_root (nval m) o.
Definition oroots_rel (c : option K.roots) (m : option (node sroots)) : Prop :=
  match c, m with None, None => True | Some c, Some m => roots_rel c m | _, _ => False end.

Lemma set_root_rel c m o i :
  roots_rel c m -> roots_rel (K.set_root c (o, i)) (mkNode (set_root (nval m) o (ident_to_node i)) (npos m)).
Proof.
  intros [Hp Hr]. split.
  - destruct o; exact Hp.
  - intros o'. pose proof (Hr Query) as Hq. pose proof (Hr Mutation) as Hm. pose proof (Hr Subscription) as Hs.
    destruct o, o'; cbn [K.set_root fst snd K.root_of K.r_query K.r_mutation K.r_subscription set_root declared_root
                         r_query r_mutation r_subscription nval option_map] in *; auto.
Qed.

Lemma fold_set_root_rel ops : forall c m,
  roots_rel c m ->
  roots_rel (fold_left K.set_root ops c)
            (mkNode (fold_left (fun r kv => set_root r (fst kv) (ident_to_node (snd kv))) ops (nval m)) (npos m)).
Proof.
  induction ops as [|[o i] ops IH]; intros c m H; cbn [fold_left fst snd].
  - destruct m; exact H.
  - apply (IH _ (mkNode (set_root (nval m) o (ident_to_node i)) (npos m))). now apply set_root_rel.
Qed.

Lemma root_types_from_rel S : forall c (st : option (node str) * option (node sroots)),
  oroots_rel c (snd st) ->
  oroots_rel (K.root_types_from c S) (snd (fold_left sd_step (schema_defs S) st)).
Proof.
  induction S as [|d S IH]; intros c st H; cbn [K.root_types_from schema_defs fold_left]; [assumption|].
  destruct d as [sd|t|dd|se|te]; try (now apply IH).
  cbn [fold_left]. apply IH. unfold sd_step. cbn [snd fst convert_schema_definition b_roots b_desc].
  destruct c as [c|], (snd st) as [m|]; cbn [oroots_rel] in H |- *; try contradiction.
  - exact (fold_set_root_rel (sd_ops sd) c m H).
  - apply (fold_set_root_rel (sd_ops sd) (K.mkRoots (sd_pos sd) None None None) (mkNode roots0 (sd_pos sd))).
    split; [reflexivity|]. intros o; destruct o; reflexivity.
Qed.

Theorem k_root_types_is_schema_roots S : roots_rel (K.root_types S) (sc_roots (ast_to_type_system S)).
Proof.
  destruct (desc_roots_ast S) as [_ Hr]. rewrite Hr. unfold K.root_types.
  pose proof (root_types_from_rel S None (None, None) I) as H. cbn [snd] in H.
  destruct (K.root_types_from None S) as [c|], (snd (fold_left sd_step (schema_defs S) (None, None))) as [m|];
    cbn [oroots_rel] in H; try contradiction; [exact H|].
  split; [reflexivity|]. intros o; destruct o; reflexivity.
Qed.

(* ------------------------------------------------------------------------------------------ *)
(** * the root decision of check_operation is [root_type] *)

Lemma k_default_root_name o : K.default_root_name o = default_root_name o.
Proof. destruct o; reflexivity. Qed.

Lemma get_type_some_iff S n : is_some (get_type (ast_to_type_system S) n) = is_some (K.get_type S n).
Proof. rewrite get_type_ast, k_get_type. destruct (find_typedef n S); reflexivity. Qed.

(** [root_type] (Spec.v, compared by [schema_equiv_on]) written with the accessors of the checker model *)
Theorem root_type_is_checker_decision S o :
  let rts := K.root_types S in
  let explicit := negb (pbuiltin (K.r_pos rts)) || match K.r_query rts with Some _ => true | None => false end in
  root_type (ast_to_type_system S) o =
    match K.root_of rts o with
    | Some i => if is_some (K.get_type S (iname i)) then Some (iname i) else None
    | None => if explicit then None
              else if is_some (K.get_type S (K.default_root_name o)) then Some (K.default_root_name o) else None
    end.
Proof.
  cbn zeta. destruct (k_root_types_is_schema_roots S) as [Hp Hr].
  rewrite root_type_def. unfold root_name, roots_explicit. rewrite <- Hp.
  pose proof (Hr Query) as Hq. cbn [K.root_of declared_root] in Hq.
  pose proof (Hr o) as Ho.
  destruct (K.r_query (K.root_types S)) as [q|] eqn:Eq; cbn [option_map] in Hq; rewrite <- Hq;
    destruct (K.root_of (K.root_types S) o) as [i|] eqn:Eo; cbn [option_map] in Ho; rewrite <- Ho;
    cbn [ident_to_node nval]; rewrite ?get_type_some_iff; try reflexivity;
    destruct (pbuiltin (K.r_pos (K.root_types S))); cbn [negb orb]; try reflexivity;
    rewrite ?get_type_some_iff, ?k_default_root_name; reflexivity.
Qed.

(** an operation whose kind has no root type ([root_type] = None) gets exactly one diagnostic from the checker model,
    NoRootType or UnknownType, and nothing else is looked at *)
Theorem no_root_type_is_rejected fuel S fm op :
  root_type (ast_to_type_system S) (op_type op) = None ->
  exists e, K.check_operation fuel S fm op = [e].
Proof.
  rewrite root_type_is_checker_decision. cbn zeta. unfold K.check_operation.
  set (rts := K.root_types S).
  destruct (K.root_of rts (op_type op)) as [i|] eqn:Hro.
  - (* declared but undefined *)
    destruct (negb (pbuiltin (K.r_pos rts)) || match K.r_query rts with Some _ => true | None => false end);
      destruct (K.get_type S (iname i)) eqn:Hg; cbn [is_some]; intros H; try discriminate; eauto.
  - destruct (negb (pbuiltin (K.r_pos rts)) || match K.r_query rts with Some _ => true | None => false end); intros H; [eauto|].
    destruct (K.get_type S (K.default_root_name (op_type op))) eqn:Hg; cbn [is_some] in H; [discriminate|eauto].
Qed.

(** ... and when it has one, the checker model goes on with exactly that type definition *)
Theorem root_type_is_checked_against fuel S fm op n :
  root_type (ast_to_type_system S) (op_type op) = Some n ->
  exists root, K.get_type S n = Some root /\
    K.check_operation fuel S fm op =
      K.check_directives S (op_vars op) (K.op_location (op_type op)) (op_dirs op)
      ++ match op_vars op with Some vs => K.check_variables_definition S vs | None => [] end
      ++ (if optype_eqb (op_type op) Subscription && Nat.ltb 1 (length (K.collect_response_keys fuel fm [] (op_sel op) []))
          then [K.err0 K.SubscriptionMustHaveExactlyOneRootField (op_pos op)] else [])
      ++ K.check_selection_set fuel S fm (op_vars op) [] root (op_sel op).
Proof.
  rewrite root_type_is_checker_decision. cbn zeta. unfold K.check_operation.
  set (rts := K.root_types S).
  destruct (K.root_of rts (op_type op)) as [i|] eqn:Hro.
  - destruct (K.get_type S (iname i)) as [root|] eqn:Hg; cbn [is_some]; intros H; [|discriminate].
    injection H as <-. exists root. split; [assumption|].
    destruct (negb (pbuiltin (K.r_pos rts)) || match K.r_query rts with Some _ => true | None => false end); lazy beta iota zeta; reflexivity.
  - destruct (negb (pbuiltin (K.r_pos rts)) || match K.r_query rts with Some _ => true | None => false end); intros H; [discriminate|].
    destruct (K.get_type S (K.default_root_name (op_type op))) as [root|] eqn:Hg; cbn [is_some] in H; [|discriminate].
    injection H as <-. exists root. split; [assumption|]. lazy beta iota zeta. reflexivity.
Qed.

(* ------------------------------------------------------------------------------------------ *)
(** * with C15_routes_agree: the root decision of the checker model on the SDL document is the JSON Schema's *)

Lemma root_names_are_compared st meta M Sj o n :
  model_ok M = true -> json_route (introspect st meta M) = Ok Sj -> root_name Sj o = Some n -> vis_of M n = true.
Proof.
  intros Hok Hj Hn. unfold introspect in Hj. rewrite json_route_introspect_of in Hj. injection Hj as <-.
  unfold model_ok in Hok. apply Bool.andb_true_iff in Hok as [Hok _]. apply Bool.andb_true_iff in Hok as [_ Hroots].
  unfold roots_ok in Hroots. apply Bool.andb_true_iff in Hroots as [Hroots Hrs]. apply Bool.andb_true_iff in Hroots as [Hrq Hrm].
  apply vis_plain.
  unfold root_name, roots_explicit, json_schema in Hn. cbn [sc_roots npos nval dnode r_query orb negb] in Hn.
  rewrite Bool.orb_true_r in Hn.
  destruct o; cbn [declared_root r_query r_mutation r_subscription] in Hn.
  - injection Hn as <-. assumption.
  - destruct (m_mutation M) as [x|]; cbn [option_map] in Hn; [injection Hn as <-; assumption|discriminate].
  - destruct (m_subscription M) as [x|]; cbn [option_map] in Hn; [injection Hn as <-; assumption|discriminate].
Qed.

Theorem root_decision_agrees st meta M D :
  model_ok M = true -> doc_equiv D (sdl_doc M) -> parsed_positions D ->
  exists Sj, json_route (introspect st meta M) = Ok Sj /\
    forall fuel fm op,
      (root_type Sj (op_type op) = None -> exists e, K.check_operation fuel D fm op = [e])
      /\ (forall n, root_type Sj (op_type op) = Some n ->
            exists root, K.get_type D n = Some root
              /\ option_map norm_typedef (get_type Sj n) = Some (norm_typedef (nval (conv_td root)))
              /\ K.check_operation fuel D fm op =
                   K.check_directives D (op_vars op) (K.op_location (op_type op)) (op_dirs op)
                   ++ match op_vars op with Some vs => K.check_variables_definition D vs | None => [] end
                   ++ (if optype_eqb (op_type op) Subscription && Nat.ltb 1 (length (K.collect_response_keys fuel fm [] (op_sel op) []))
                       then [K.err0 K.SubscriptionMustHaveExactlyOneRootField (op_pos op)] else [])
                   ++ K.check_selection_set fuel D fm (op_vars op) [] root (op_sel op)).
Proof.
  intros Hok He Hp. destruct (routes_agree st meta M D Hok He Hp) as [Sj [Hj [_ [Hroot [Hty _]]]]].
  exists Sj. split; [assumption|]. intros fuel fm op. split.
  - rewrite Hroot. apply no_root_type_is_rejected.
  - intros n Hn. pose proof Hn as Hn'. rewrite Hroot in Hn'.
    destruct (root_type_is_checked_against fuel D fm op n Hn') as [root [Hg Hc]].
    exists root. split; [assumption|]. split; [|assumption].
    (* the root type name is one of the compared names: it resolves on the JSON side, so it is M's or a listed one *)
    assert (Hs : get_type (ast_to_type_system D) n = Some (nval (conv_td root))).
    { rewrite get_type_ast, <- k_get_type, Hg. reflexivity. }
    destruct (vis_of M n) eqn:Hv.
    + rewrite (Hty n Hv), Hs. reflexivity.
    + (* not a compared name: cannot be a root of a model satisfying the guard *)
      exfalso. unfold root_type in Hn. destruct (root_name Sj (op_type op)) as [m|] eqn:Hrn; [|discriminate].
      destruct (get_type Sj m); [|discriminate]. injection Hn as ->.
      rewrite (root_names_are_compared st meta M Sj (op_type op) n Hok Hj Hrn) in Hv. discriminate.
Qed.
